-- root of the library: imports every model and every property file
import LalrpopModel.Model.Err
import LalrpopModel.Props.C28
-- lexer work package (C08 lexer part, C09, C10, C11)
import LalrpopModel.Props.C09
import LalrpopModel.Props.C09Prec
import LalrpopModel.Props.C08Lex
import LalrpopModel.Props.C10
import LalrpopModel.Props.C11
-- normalization passes: inlining (C14), macro expansion (C13)
import LalrpopModel.Props.C14
import LalrpopModel.Props.C13
-- build layer (wpD): C20 determinism, C21/C22 build histories and crash consistency, C23 output paths
import LalrpopModel.Props.C21
import LalrpopModel.Props.C22
import LalrpopModel.Props.C23
import LalrpopModel.Props.C20
-- text-level properties (wpE): C26 tokenizer / layout, C24 formatting flags, C25 hygiene
import LalrpopModel.Props.C26
import LalrpopModel.Props.C24
import LalrpopModel.Props.C25
