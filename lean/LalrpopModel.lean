-- root of the library: imports every model and every property file
import LalrpopModel.Model.Err
import LalrpopModel.Props.C28
