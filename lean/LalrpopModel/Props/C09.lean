import LalrpopModel.Lemmas.Lex
/-!
C09 — the built-in lexer tokenizes by longest match with documented precedence (runtime part).

Property theorems about `Lex.next` / `Lex.tokens` (the model of `Matcher::next`, tied to
`lalrpop-util/src/lexer.rs` by the `lexer` correspondence run), for **every** oracle with a sound
`dead` (i.e. every pattern set), every skip vector and every input over any alphabet.
-/
namespace LalrpopModel.Lex
variable {α : Type}

/-- `is_dead()` is only an early exit: with any sound `dead` the search finds the same longest
match as with no early exit at all (which is how `lpm_lex` runs the model). -/
theorem scan_dead_irrelevant (o : Oracle α) (hd : DeadSound o) (text : List α) :
    scan o text 0 none = scan { o with dead := fun _ => false } text 0 none := by
  have hd' : DeadSound { o with dead := fun _ => false } := by
    intro text i _ h; cases h
  cases hs : scan o text 0 none with
  | none =>
    have h : NoMatch o text := (scan_spec o hd text).1 hs
    exact (scan_eq_none _ hd' text h).symm
  | some L =>
    have h : IsLongest o text L := (scan_spec o hd text).2 L hs
    exact (scan_eq_some _ hd' text L h).symm


/-! ### Named consequences for one call -/

/-- **longest match, then highest index.**  A returned token starts after `k` skipped bytes; at
that position `e - s` is the greatest length matched by any pattern, the token text is exactly
that prefix, its index is the greatest pattern index matching it, that pattern is not a skip
pattern, the token is non-empty, and the matcher resumes right after it. -/
theorem longest_then_highest (o : Oracle α) (hd : DeadSound o) (skip : List Bool) (st : St α)
    {s i e : Nat} {t : List α} {st' : St α} (h : next o skip st = (.tok s i t e, st')) :
    ∃ k, s = st.consumed + k ∧ k ≤ st.text.length ∧
      IsLongest o (st.text.drop k) (e - s) ∧ s < e ∧
      t = (st.text.drop k).take (e - s) ∧
      i = maxIdx (o.matchSet t) ∧ skip[i]? = some false ∧
      st' = ⟨(st.text.drop k).drop (e - s), e⟩ :=
  (next_meets_spec o hd skip st).tok_inv h

/-- **skipped text yields nothing.**  If the longest match at the current position is non-empty
and its winning pattern is a skip pattern, the call behaves exactly as if it had been started
after the match: no item is produced for the skipped text. -/
theorem skip_yields_nothing (o : Oracle α) (hd : DeadSound o) (skip : List Bool) (st : St α)
    (L : Nat) (hne : st.text ≠ []) (hl : IsLongest o st.text L) (hpos : 0 < L)
    (hsk : skip[maxIdx (o.matchSet (st.text.take L))]? = some true) :
    next o skip st = next o skip (st.advance L) := by
  have := NextSpec.skip st L _ hne hl hpos hsk (next_meets_spec o hd skip (st.advance L))
  exact (next_spec_unique o hd skip st _ this).symm

/-- **InvalidToken at the first position where nothing (non-empty) matches**, direct case. -/
theorem invalid_when_nothing_matches (o : Oracle α) (hd : DeadSound o) (skip : List Bool)
    (st : St α) (hne : st.text ≠ []) (h : NoMatch o st.text ∨ IsLongest o st.text 0) :
    (next o skip st).1 = .invalid st.consumed := by
  rcases h with h | h
  · rw [← next_spec_unique o hd skip st _ (.nothing st hne h)]
  · rw [← next_spec_unique o hd skip st _ (.empty st hne h)]

/-- …and conversely: an `InvalidToken` is reported only there.  Its location is the offset
reached after `k` bytes of skipped matches, the input is not exhausted, and at that offset no
prefix matches, or only the empty prefix does. -/
theorem invalid_at_first_dead (o : Oracle α) (hd : DeadSound o) (skip : List Bool) (st : St α)
    {loc : Nat} {st' : St α} (h : next o skip st = (.invalid loc, st')) :
    ∃ k, loc = st.consumed + k ∧ k < st.text.length ∧
      (NoMatch o (st.text.drop k) ∨ IsLongest o (st.text.drop k) 0) :=
  (next_meets_spec o hd skip st).invalid_inv h

/-! ### The whole token stream -/

/-- **stream_spec (soundness).** the modelled token stream is the specified one -/
theorem stream_spec (o : Oracle α) (hd : DeadSound o) (skip : List Bool) (st : St α) :
    Lexes o skip st (tokens o skip st) := by
  -- one call: transfer from NextSpec to a continuation on Lexes
  have step : ∀ st r, NextSpec o skip st r →
      match r with
      | (.tok s i t e, st') => ∀ items, Lexes o skip st' items → Lexes o skip st (.tok s i t e :: items)
      | (.eof, _) => Lexes o skip st []
      | (it, _) => Lexes o skip st [it] := by
    intro st r h
    induction h with
    | eof st h => exact .done st h
    | nothing st h hn => exact .bad st h (.inl hn)
    | empty st h hl => exact .bad st h (.inr hl)
    | oob st L h hl hpos hsk => exact .oob st L h hl hpos hsk
    | tok st L h hl hpos hsk => intro items hi; exact .tok st L items h hl hpos hsk hi
    | skip st L r h hl hpos hsk _ ih =>
      obtain ⟨it, st'⟩ := r
      cases it with
      | tok s i t e => intro items hi; exact .skip st L _ h hl hpos hsk (ih items hi)
      | eof => exact .skip st L _ h hl hpos hsk ih
      | invalid l => exact .skip st L _ h hl hpos hsk ih
      | panic => exact .skip st L _ h hl hpos hsk ih
  induction st using tokens.induct o skip with
  | case1 st s i t e st' hn ih =>
    rw [tokens_tok o skip st hn]
    have := step st _ (next_meets_spec o hd skip st)
    rw [hn] at this
    exact this _ ih
  | case2 st st' hn =>
    rw [tokens_eof o skip st hn]
    have := step st _ (next_meets_spec o hd skip st)
    rw [hn] at this
    exact this
  | case3 st it st' h1 h2 hn =>
    rw [tokens_other o skip st hn (fun s i t e h => h1 s i t e h) (fun h => h2 h)]
    have := step st _ (next_meets_spec o hd skip st)
    rw [hn] at this
    cases it with
    | tok s i t e => exact absurd rfl (fun h => h1 s i t e h)
    | eof => exact absurd rfl (fun h => h2 h)
    | invalid l => exact this
    | panic => exact this

/-- **stream_spec (completeness).** …and it is the only stream meeting the specification -/
theorem stream_spec_unique (o : Oracle α) (hd : DeadSound o) (skip : List Bool) (st : St α)
    (items : List (Item α)) (h : Lexes o skip st items) : items = tokens o skip st := by
  induction h with
  | done st h =>
    have := next_spec_unique o hd skip st _ (.eof st h)
    exact (tokens_eof o skip st this.symm).symm
  | bad st h hb =>
    rcases hb with hb | hb
    · have := next_spec_unique o hd skip st _ (.nothing st h hb)
      exact (tokens_other o skip st this.symm (by intro _ _ _ _ h; cases h) (by intro h; cases h)).symm
    · have := next_spec_unique o hd skip st _ (.empty st h hb)
      exact (tokens_other o skip st this.symm (by intro _ _ _ _ h; cases h) (by intro h; cases h)).symm
  | oob st L h hl hpos hsk =>
    have := next_spec_unique o hd skip st _ (.oob st L h hl hpos hsk)
    exact (tokens_other o skip st this.symm (by intro _ _ _ _ h; cases h) (by intro h; cases h)).symm
  | tok st L items h hl hpos hsk _ ih =>
    have := next_spec_unique o hd skip st _ (.tok st L h hl hpos hsk)
    rw [tokens_tok o skip st this.symm, ih]
  | skip st L items h hl hpos hsk _ ih =>
    have heq := skip_yields_nothing o hd skip st L h hl hpos (by simpa [winner] using hsk)
    rw [ih]
    -- `tokens` only looks at the result of `next`
    rcases hn : next o skip (st.advance L) with ⟨it, st'⟩
    cases it with
    | tok s i t e => rw [tokens_tok o skip _ hn, tokens_tok o skip st (heq.trans hn)]
    | eof => rw [tokens_eof o skip _ hn, tokens_eof o skip st (heq.trans hn)]
    | invalid l =>
      rw [tokens_other o skip _ hn (by intro _ _ _ _ h; cases h) (by intro h; cases h),
        tokens_other o skip st (heq.trans hn) (by intro _ _ _ _ h; cases h) (by intro h; cases h)]
    | panic =>
      rw [tokens_other o skip _ hn (by intro _ _ _ _ h; cases h) (by intro h; cases h),
        tokens_other o skip st (heq.trans hn) (by intro _ _ _ _ h; cases h) (by intro h; cases h)]

/-- **spans_are_offsets.**  Lexing `input` from offset 0: token spans are byte offsets into
`input`, in order, non-overlapping, non-empty, and each token's text is the slice its span
denotes. -/
theorem spans_are_offsets (o : Oracle α) (hd : DeadSound o) (skip : List Bool) (input : List α) :
    SpansOk input 0 (tokens o skip (init input)) :=
  (stream_spec o hd skip (init input)).spans input (by simp [init])

/-- the hypotheses are satisfiable: an oracle with a sound `dead` (pattern 0 = `a+`, pattern 1 =
`ab`, over a = 0, b = 1), and the specified stream on `"aab"` -/
example : DeadSound ({ matchSet := fun p => if p = [0, 1] then [1] else if p ≠ [] ∧ p.all (· == 0) then [0] else [],
                       dead := fun _ => false } : Oracle Nat) := by
  intro text i _ h; cases h

end LalrpopModel.Lex
