import LalrpopModel.Lemmas.PrecValidate
import LalrpopModel.Lemmas.C18FileText
/-!
# C18 — lalrpop never panics: the precedence pass behind its validator

`expand_nonterm` contains `unwrap`/`expect`/`assert!` calls that rely on `validate_precedence`
(prevalidate) having rejected the grammar before.  Statements about the models of both
(`Model/Prec.lean`), for ALL nonterminals:

* `prevalidated_expand_total` — with the **repaired** validator (`fixed = true`, the one in the
  tree: it also tracks alternatives that inherit the minimum level), a nonterminal that passes
  validation and that `expand_precedence` selects (`has_prec_attr`) never makes `expand_nonterm`
  panic; the result is the documented tiered grammar.
* `prevalidated_expand_total_false_before_fix` — the same statement is FALSE for the validator
  before the repair (`fixed = false`); the witness is the grammar of the manual probe.
* `cfg_then_precedence_not_total` — prevalidation happens before `#[cfg]` removal: deleting a
  disabled first alternative from a validated nonterminal can still make `expand_nonterm` panic
  (witness; this was a defect of the tree).
* `cfg_then_precedence_total` — the repair: `lower_helper` validates the precedence annotations
  again after conditional compilation (`validate_precedence_after_cond_comp`); re-validation
  followed by `expand_precedence` never panics, for all grammars.
* `parseU32_bound`, `annotate_total_iff` (C12) — the `unwrap`s on attribute values.

* `FileText.highlight_arith_safe`, `FileText.line_col_spec` (Lemmas/C18FileText.lean) — the `usize`
  arithmetic, indexing and slicing of `file_text.rs` (`line_col`, `line_text`, `highlight`) cannot
  fail for spans with `lo ≤ hi`, for any text.

The modelled panics are: `get_arg_equal().unwrap()`, `parse::<u32>().unwrap()`,
`parse::<Assoc>().unwrap()`, `lvls.last().unwrap()`, the `expect` on the first level,
`panic!("ambiguous id ..")` in `replace_symbol`, `assert!(rest.next().is_none())`.
-/
namespace LalrpopModel.Prec
open LalrpopModel.PT

/-- **Validation makes expansion total** (repaired validator).  For every nonterminal: if
`validate_precedence` accepts its alternatives, `has_prec_attr` selects it for expansion, and
name resolution left no ambiguous identifier, then `expand_nonterm` does not panic — it returns
the documented tiers. -/
theorem prevalidated_expand_total (nt : Nonterm)
    (hv : validatePrecedence true nt.alts = .ok ()) (hp : hasPrecAttr nt = true)
    (hamb : ∀ alt ∈ nt.alts, noAmbigL alt.expr = true) :
    ∃ tiers, expandNonterm nt = .ok tiers ∧ tiers = tiered nt (inherit 0 .fullyAssoc nt.alts) :=
  ⟨_, validated_expand_ok nt hv hp hamb, rfl⟩

/-- in particular no panic outcome at all -/
theorem prevalidated_expand_no_panic (nt : Nonterm)
    (hv : validatePrecedence true nt.alts = .ok ()) (hp : hasPrecAttr nt = true)
    (hamb : ∀ alt ∈ nt.alts, noAmbigL alt.expr = true) (p : Panic) :
    expandNonterm nt ≠ .error p := by
  rw [validated_expand_ok nt hv hp hamb]
  intro h; cases h

/-! ## the validator before the repair: the statement is false -/

/-- `#[precedence(level="1")] "a" => 1` -/
def wAtom : Alt :=
  { expr := [.terminal (.atom "a")], cond := none, action := none,
    attrs := [.paren PREC_ATTR [.equal LVL_ARG ['1']]] }
/-- `#[assoc(side="left")] <l:E> "+" <r:E> => l + r` (inherits level 1, the first level) -/
def wPlus : Alt :=
  { expr := [.name (.atom "l") (.nonterminal ['E']), .terminal (.atom "+"), .name (.atom "r") (.nonterminal ['E'])],
    cond := none, action := none,
    attrs := [.paren ASSOC_ATTR [.equal SIDE_ARG ['l','e','f','t']]] }
/-- the grammar of the manual probe: `pub E: u32 = { #[precedence(level="1")] "a" => 1,
    #[assoc(side="left")] <l:E> "+" <r:E> => l + r };` -/
def witness : Nonterm :=
  { name := ['E'], vis := .atom "pub", attrs := [], args := [], typeDecl := .atom "u32", alts := [wAtom, wPlus] }

/-- **Before the repair, validation does not make expansion total**: the witness passes
`validate_precedence`, is selected by `has_prec_attr`, has no ambiguous identifier, and
`expand_nonterm` panics with
`expect("unexpected associativity attribute on the first precedence level")`. -/
theorem prevalidated_expand_total_false_before_fix :
    ¬ (∀ nt : Nonterm, validatePrecedence false nt.alts = .ok () → hasPrecAttr nt = true →
        (∀ alt ∈ nt.alts, noAmbigL alt.expr = true) → ∃ tiers, expandNonterm nt = .ok tiers) := by
  intro h
  have hv : validatePrecedence false witness.alts = .ok () := by rfl
  have hp : hasPrecAttr witness = true := by rfl
  have ha : ∀ alt ∈ witness.alts, noAmbigL alt.expr = true := by decide
  obtain ⟨tiers, ht⟩ := h witness hv hp ha
  have hpanic : expandNonterm witness = .error .firstLevelAssoc := by rfl
  rw [hpanic] at ht
  cases ht

/-- the repaired validator rejects the witness with
    "cannot set associativity on the first precedence level 1" -/
theorem fixed_validator_rejects_witness :
    validatePrecedence true witness.alts = .error (.assocOnFirstLevel 1) := by rfl

/-! ## validation happens before `#[cfg]` removal -/

/-- `#[cfg(feature="x")] #[precedence(level="5")] "a" => 1` -/
def cAtom : Alt :=
  { expr := [.terminal (.atom "a")], cond := none, action := none,
    attrs := [.paren ['c','f','g'] [.equal ['f','e','a','t','u','r','e'] ['x']],
              .paren PREC_ATTR [.equal LVL_ARG ['5']]] }
/-- `#[precedence(level="1")] "b" => 2` -/
def cLow : Alt :=
  { expr := [.terminal (.atom "b")], cond := none, action := none,
    attrs := [.paren PREC_ATTR [.equal LVL_ARG ['1']]] }
def cfgWitness : Nonterm :=
  { name := ['E'], vis := .atom "pub", attrs := [], args := [], typeDecl := .atom "u32",
    alts := [cAtom, wPlus, cLow] }

/-- **Conditional compilation after validation breaks the guarantee**: the nonterminal
`{ #[cfg(feature="x")] #[precedence(level="5")] "a", #[assoc(side="left")] <l:E> "+" <r:E>,
#[precedence(level="1")] "b" }` passes the (repaired) validator; with feature `x` off the first
alternative is deleted, `has_prec_attr` still selects the nonterminal (the new first alternative
has an `assoc` attribute), the fold starts from level 0, and `expand_nonterm` panics. -/
theorem cfg_then_precedence_not_total :
    validatePrecedence true cfgWitness.alts = .ok () ∧
    hasPrecAttr { cfgWitness with alts := cfgWitness.alts.tail } = true ∧
    expandNonterm { cfgWitness with alts := cfgWitness.alts.tail } = .error .firstLevelAssoc := by
  refine ⟨by rfl, by rfl, by rfl⟩

/-- and when the surviving first alternative carries no annotation, the nonterminal is silently
left unexpanded although later alternatives carry `precedence` attributes (the grammar with the
disabled alternative deleted is rejected by the validator: "missing precedence attribute on the
first alternative") -/
theorem cfg_then_precedence_silently_skipped :
    let nt : Nonterm := { cfgWitness with alts := [cAtom, { wPlus with attrs := [] }, cLow] }
    validatePrecedence true nt.alts = .ok () ∧
    hasPrecAttr { nt with alts := nt.alts.tail } = false ∧
    validatePrecedence true nt.alts.tail = .error .missingFirst := by
  refine ⟨by rfl, by rfl, by rfl⟩

/-! ## the repair: re-validation after conditional compilation -/

/-- the re-validation rejects the nonterminal of `cfg_then_precedence_not_total` once the
    disabled alternative is gone ("missing precedence attribute on the first alternative") -/
theorem revalidation_rejects_cfg_witness :
    validatePrecedence true cfgWitness.alts.tail = .error .missingFirst := by rfl

theorem expandItems_ok_of_validated (items : List Item)
    (hv : validateItems true items = .ok ())
    (hamb : ∀ nt, Item.nonterm nt ∈ items → ∀ alt ∈ nt.alts, noAmbigL alt.expr = true) :
    ∃ items', expandItems items = .ok items' := by
  induction items with
  | nil => exact ⟨[], rfl⟩
  | cons it items ih =>
    cases it with
    | nonterm nt =>
      simp only [validateItems] at hv
      cases hvn : validatePrecedence true nt.alts with
      | error e => simp [hvn] at hv
      | ok u =>
        simp only [hvn] at hv
        obtain ⟨rest, hrest⟩ := ih hv (fun n hn => hamb n (by simp [hn]))
        simp only [expandItems]
        by_cases hp : hasPrecAttr nt = true
        · simp only [hp, if_true]
          rw [validated_expand_ok nt hvn hp (hamb nt (by simp)), hrest]
          exact ⟨_, rfl⟩
        · simp only [hp]
          rw [hrest]
          exact ⟨_, rfl⟩
    | externTok a e =>
      simp only [validateItems] at hv
      obtain ⟨rest, hrest⟩ := ih hv (fun n hn => hamb n (by simp [hn]))
      simp only [expandItems, hrest]
      exact ⟨_, rfl⟩
    | other raw =>
      simp only [validateItems] at hv
      obtain ⟨rest, hrest⟩ := ih hv (fun n hn => hamb n (by simp [hn]))
      simp only [expandItems, hrest]
      exact ⟨_, rfl⟩

/-- **The segment of `lower_helper` behind conditional compilation never panics**
(`validate_precedence_after_cond_comp`, then `expand_precedence`): for every grammar — whatever
conditional compilation removed — without unresolved identifiers, the outcome is a grammar or the
diagnostic of the re-validation, never one of the panics of `expand_nonterm`. -/
theorem cfg_then_precedence_total (g : Grammar)
    (hamb : ∀ nt, Item.nonterm nt ∈ g.items → ∀ alt ∈ nt.alts, noAmbigL alt.expr = true) (p : Panic) :
    revalidateThenExpand g ≠ .error (.panic p) := by
  unfold revalidateThenExpand
  cases hv : validateItems true g.items with
  | error e => simp
  | ok u =>
    obtain ⟨items', h⟩ := expandItems_ok_of_validated g.items hv hamb
    simp [expandPrecedence, h]

/-! ## the `unwrap`s on attribute values -/

/-- a level accepted by the validator fits `u32` (so `val.parse::<u32>().unwrap()` and the
    `format!("{}{}", name, lvl)` see the same number) -/
theorem parseU32_bound (s : Str) (n : Nat) (h : parseU32 s = some n) : n ≤ 4294967295 :=
  parseU32_le s n h

end LalrpopModel.Prec
