import LalrpopModel.Lemmas.LRSound
/-!
M-LR: soundness and panic-freedom of the model driver (`Model/LR/Driver.lean`, the model of
`lalrpop-util/src/state_machine.rs` + generated `__reduce`) for EVERY grammar `G`, tables `T` and
exported automaton `A` that pass the executable validator's soundness side
(`validateSound G T A = true`), for arbitrary `failAt`, `startLoc` and every token stream whose
token kinds are terminal indices (`InRange T input`: what `__token_to_integer` answers is `< nTerm`;
without it `__ACTION[state * nTerm + i]` reads another state's row).

Proofs are in `Lemmas/LRSound*.lean`: the invariant `Inv` (the state stack is a path of the
automaton from state 0 over the roots of the well-formed trees on the symbol stack; hence every
core item of every stacked state is valid for the stack below it) is preserved by every `step`,
error recovery included.

Fuel: `Returns` quantifies over the fuel `af` of the pure `accepts` loop; `PanicTag.outOfFuel` is not
a Rust panic (it stands for "`accepts` has not finished yet") and is the only tag that remains.
Termination of `accepts`/of the reduce loops does NOT follow from the soundness-side checks (a table
that reduces `A → ε` and goes to the same state on `A` passes them); it belongs to the
completeness side.
-/
namespace LalrpopModel.LR

variable {G : Grammar} {T : Tables} {A : Automaton} {failAt : Option Nat} {startLoc : Int}
  {input : List Item} {c : Cfg}

/-- 1. An accepted run returns a well-formed derivation tree of the start nonterminal (error nodes
    standing for the error terminal `nTerm - 1`, only possible with recovery on). -/
theorem drive_sound {v : Tree} {S : NT} (h : validateSound G T A = true) (hin : InRange T input)
    (hS : G.startSym = some S) (hr : Returns T failAt startLoc input c (.ok v)) :
    Tree.WF G (errT T) v ∧ v.root G (errT T) = some (Sym.n S) :=
  sound_tree (sound_of_validate h) hin hS hr

/-- 1'. Without error recovery the result contains no error node. -/
theorem drive_no_err_node {v : Tree} (h : validateSound G T A = true) (hin : InRange T input)
    (hrec : T.usesRecovery = false) (hr : Returns T failAt startLoc input c (.ok v)) :
    v.hasErr = false :=
  sound_noErr (sound_of_validate h) hin hrec hr

/-- 2. Without error recovery, an accepted stream consists of tokens only, every one of a known
    kind, and the tree's yield is exactly the whole stream, in order (acceptance happens at end of
    input only). -/
theorem drive_yield {v : Tree} (h : validateSound G T A = true) (hin : InRange T input)
    (hrec : T.usesRecovery = false) (hr : Returns T failAt startLoc input c (.ok v)) :
    input = v.yield.map Item.tok ∧ ∀ a ∈ v.yield, ∃ k, a.kind = some k :=
  sound_yield (sound_of_validate h) hin hrec hr

/-- 2'. In general (recovery on or off) the yield is a subsequence of the tokens of the stream. -/
theorem drive_yield_sublist {v : Tree} (h : validateSound G T A = true) (hin : InRange T input)
    (hr : Returns T failAt startLoc input c (.ok v)) : v.yield.Sublist (itemToks input) :=
  sound_yield_sublist (sound_of_validate h) hin hr

/-- 3. No Rust panic site of the driver is reachable; the only `panic` outcome of the model is the
    fuel of its `accepts` loop running out. -/
theorem driver_no_panic {r : Outcome} (h : validateSound G T A = true) (hin : InRange T input)
    (hr : Returns T failAt startLoc input c r) : ∀ tag, r = .panic tag → tag = .outOfFuel :=
  sound_no_panic (sound_of_validate h) hin hr

/-- 4. Without error recovery, acceptance implies that the kinds of the stream are a sentence
    derivable from the start nonterminal. -/
theorem ok_implies_derives {v : Tree} {S : NT} (h : validateSound G T A = true) (hin : InRange T input)
    (hrec : T.usesRecovery = false) (hS : G.startSym = some S)
    (hr : Returns T failAt startLoc input c (.ok v)) :
    ∃ w : List Term, input.map itemKind = w.map some ∧ Derives G S w :=
  sound_derives (sound_of_validate h) hin hrec hS hr

/-! ### the hypotheses are satisfiable

Grammar (terminals `a = 0`, `b = 1`; nonterminals `S = 0`, `E = 1`, `S' = 2`):
`0: S → a E b`, `1: E → ε`, `2: E → a E`, `3: S' → S` (start production); its LR(1) automaton
(7 states) and the tables `write_parse_table` would emit for it. -/

def exG : Grammar :=
  { prods := [⟨0, [.t 0, .n 1, .t 1]⟩, ⟨1, []⟩, ⟨1, [.t 0, .n 1]⟩, ⟨2, [.n 0]⟩],
    nTerm := 2, nNT := 3, startProd := 3 }

def exA : Automaton :=
  { states := [
      { cores := [(3, 0), (0, 0)], shifts := [(0, 1)], reduces := [], gotos := [(0, 2)] },
      { cores := [(0, 1), (1, 0), (2, 0)], shifts := [(0, 3)], reduces := [(1, [some 1])], gotos := [(1, 4)] },
      { cores := [(3, 1)], shifts := [], reduces := [(3, [none])], gotos := [] },
      { cores := [(2, 1), (1, 0), (2, 0)], shifts := [(0, 3)], reduces := [(1, [some 1])], gotos := [(1, 5)] },
      { cores := [(0, 2)], shifts := [(1, 6)], reduces := [], gotos := [] },
      { cores := [(2, 2)], shifts := [], reduces := [(2, [some 1])], gotos := [] },
      { cores := [(0, 3)], shifts := [], reduces := [(0, [none])], gotos := [] }] }

def exT : Tables :=
  { nTerm := 2,
    action := [2, 0,  4, -2,  0, 0,  4, -2,  0, 7,  0, -3,  0, 0],
    eofAction := [0, 0, -4, 0, 0, 0, -1],
    goto := [[2, 0, 0, 0, 0, 0, 0], [0, 4, 0, 5, 0, 0, 0], [0, 0, 0, 0, 0, 0, 0]],
    prodLen := [3, 0, 2, 1], prodLhs := [0, 1, 1, 2],
    isStart := [false, false, false, true], fallible := [false, false, false, false],
    usesRecovery := false }

/-- the tables are the encoding of the automaton -/
example : encodeAction 2 exA = exT.action ∧ encodeEof exA = exT.eofAction := by decide

example : validateSound exG exT exA = true := by decide

example : exG.startSym = some 0 := by decide

def exInput : List Item := [.tok ⟨0, some 0, 0, 1⟩, .tok ⟨1, some 0, 1, 2⟩, .tok ⟨2, some 1, 2, 3⟩]

example : InRange exT exInput := by
  intro t k hm hk
  simp only [exInput, List.mem_cons, Item.tok.injEq, List.not_mem_nil, or_false] at hm
  rcases hm with rfl | rfl | rfl <;> cases hk <;> decide

/-- the driver accepts `a a b` (so the conclusions above are not vacuous either) -/
example : ∃ c v, Returns exT none 0 exInput c (.ok v) := ⟨_, _, 30, 10, rfl⟩

/-- `InRange` is needed: a token whose kind is not a terminal index makes `__ACTION[..]` go out of
    bounds in the last state (here after `a b`), or read another state's row elsewhere. -/
example : ∃ c, Returns exT none 0
    [.tok ⟨0, some 0, 0, 1⟩, .tok ⟨1, some 1, 1, 2⟩, .tok ⟨2, some 2, 2, 3⟩] c (.panic .actionIndex) :=
  ⟨_, 30, 10, rfl⟩

end LalrpopModel.LR
