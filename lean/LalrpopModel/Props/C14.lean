import LalrpopModel.Lemmas.InlineAll
/-!
C14 — inlining a nonterminal preserves language and parse results.

Property theorems about `Model/Inline.lean` (definitions of the semantics: `Lemmas/InlineSem.lean`).

* The grammar is the lowered grammar (`Grammar`): entries in map order, productions with action
  indices, action definitions `user`/`inline`.
* `Derives g ss w`: the symbols `ss` derive the word `w`.  `Eval g sem tv ss w vs`: they do and all
  actions succeed with values `vs`.  `semOf acts I`: meaning of the action functions when user
  action `i` is the arbitrary (possibly failing) function `I i`; an `inline` action means what
  `emit_inline_action_code` generates (`runInline`: temporaries left to right with `?`, then the host).
* `Run g sem tv ss w r`: outcome with errors, actions executed at reductions.

What is *not* true, and stated as counterexamples instead of theorems: equality of the returned
user error (`inline_error_order_counterexample`), and left-to-right order of the actions of
different inlined nonterminals of one production (`inline_order_not_left_to_right`).
-/
set_option linter.unusedSectionVars false

namespace LalrpopModel.Inline

variable {N T X : Type} [DecidableEq N] [DecidableEq T] {E V : Type}

/-! ### the cross product -/

/-- `Inliner::inline` on a host production `into`: it appends to `new_productions` exactly one
    production per choice of an alternative for every occurrence of `inl` (`choices`, leftmost
    occurrence varying slowest — the order of emission), numbered consecutively from
    `action_fn_defns.len() + new_action_fn_defns.len()`, and to `new_action_fn_defns` the matching
    `InlineActionFnDefn`s (fallible iff the host or one of the chosen alternatives is). -/
theorem cross_product_complete (defs : List (Defn N T X)) (inl : N) (inlProds : List (Production N T))
    (into : Production N T) (intoDef : Defn N T X)
    (hInto : defs[into.action]? = some intoDef)
    (hInl : ∀ ip ∈ inlProds, ∃ d, defs[ip.action]? = some d) (out : Out N T X) :
    inlineSyms defs inl inlProds into into.symbols [] 0 out =
      some { prods := out.prods ++
               numbered into [] (defs.length + out.defns.length) (choices inl inlProds into.symbols)
             defns := out.defns ++
               (choices inl inlProds into.symbols).map fun c =>
                 mkDefn intoDef into (fallibleCount defs c) c } := by
  have := inlineSyms_spec defs inl inlProds into intoDef hInto hInl into.symbols [] 0 out
  simpa using this

/-- the number of new productions is the product of the numbers of alternatives over the
    occurrences -/
theorem choices_length (inl : N) (inlProds : List (Production N T)) (syms : List (Symbol N T)) :
    (choices inl inlProds syms).length =
      inlProds.length ^ (syms.filter (· = Symbol.nt inl)).length := by
  have key : ∀ (l : List (Production N T)) (cs : List (List (InlinedSymbol N T))),
      (l.flatMap fun ip => cs.map (.inlined ip.action ip.symbols :: ·)).length = cs.length * l.length := by
    intro l cs
    induction l with
    | nil => simp
    | cons ip ips ihp =>
      simp only [List.flatMap_cons, List.length_append, List.length_map, ihp, List.length_cons,
        Nat.mul_succ]
      exact Nat.add_comm _ _
  induction syms with
  | nil => simp [choices]
  | cons s rest ih =>
    simp only [choices, List.filter_cons]
    split
    · rename_i h
      simp only [h, decide_true, if_true, List.length_cons, Nat.pow_succ, ← ih, key]
    · rename_i h
      simp [h, ih]

/-- `inline_nt` on a well-formed grammar: no panic; actions are appended; each nonterminal keeps
    its name and attributes; a production without `inl` is kept, a production with `inl` is
    replaced by its expansions (`StepRel.keep/new`), and nothing else appears (`StepRel.back`). -/
theorem inline_nt_productions (g : Grammar N T X) (hwf : WF g) (inl : N) :
    ∃ g' extra, inlineNt g inl = some g' ∧ g'.actions = g.actions ++ extra ∧
      g'.nonterminals.map (·.name) = g.nonterminals.map (·.name) ∧
      ∀ n, StepRel inl (g.productionsFor inl) g.actions.length g'.actions
        (g.productionsFor n) (g'.productionsFor n) := by
  obtain ⟨g', extra, h1, h2, h3⟩ := inlineNt_spec g hwf inl
  exact ⟨g', extra, h1, h2, (rel2_names h3).1, fun n => inlineNt_productionsFor h3 n⟩

/-! ### language and values, one nonterminal -/

/-- Inlining a nonterminal that does not occur in its own productions does not change what any
    sequence of symbols derives (in particular the language of every nonterminal, the inlined one
    included). -/
theorem inline_language_eq (g : Grammar N T X) (hwf : WF g) (inl : N)
    (hself : ∀ ip ∈ g.productionsFor inl, Symbol.nt inl ∉ ip.symbols)
    (g' : Grammar N T X) (h : inlineNt g inl = some g')
    (ss : List (Symbol N T)) (w : List T) : Derives g ss w ↔ Derives g' ss w :=
  inlineNt_derives g hwf inl hself g' h ss w

/-- …nor the values, for every interpretation `I` of the user actions (which may fail) and every
    valuation `tv` of the terminals, as long as no action fails: the successful evaluations of the
    two grammars coincide. -/
theorem inline_value_eq_when_no_failure (g : Grammar N T X) (hwf : WF g) (inl : N)
    (hself : ∀ ip ∈ g.productionsFor inl, Symbol.nt inl ∉ ip.symbols)
    (g' : Grammar N T X) (h : inlineNt g inl = some g') (I : Sem E V) (tv : T → V)
    (ss : List (Symbol N T)) (w : List T) (vs : List V) :
    Eval g (semOf g.actions I) tv ss w vs ↔ Eval g' (semOf g'.actions I) tv ss w vs :=
  inlineNt_eval g hwf inl hself g' h I tv ss w vs

/-! ### order of execution inside a composed action -/

/-- The action of every new production is: run the inlined actions on their slices of the
    arguments, left to right (`composeArgs`), then the host action on originals and results. -/
theorem inline_order_spec (g : Grammar N T X) (hwf : WF g) (inl : N) (g' : Grammar N T X)
    (h : inlineNt g inl = some g') (I : Sem E V) (n : N) (p : Production N T)
    (hp : p ∈ g.productionsFor n) (hin : Symbol.nt inl ∈ p.symbols)
    (c : List (InlinedSymbol N T)) (hc : c ∈ choices inl (g.productionsFor inl) p.symbols) :
    ∃ idx, ({ nonterminal := p.nonterminal, symbols := c.flatMap InlinedSymbol.flat, action := idx } :
        Production N T) ∈ g'.productionsFor n ∧
      ∀ args, semOf g'.actions I idx args =
        (composeArgs (semOf g.actions I) c args).bind (semOf g.actions I p.action) := by
  obtain ⟨g'', extra, h1, hacts, hrel⟩ := inlineNt_spec g hwf inl
  rw [h] at h1; cases h1
  obtain ⟨idx, hidx, hmem, hdef⟩ := (inlineNt_productionsFor hrel n).new p hp hin c hc
  exact ⟨idx, hmem, fun args => semOf_new_action g g' hwf inl extra hacts I hp hc hidx hdef args⟩

theorem Res.bind_map' {E V W U : Type} (r : Res E V) (f : V → W) (k : W → Res E U) :
    (r.map f).bind k = r.bind (fun v => k (f v)) := by
  cases r <;> rfl

/-- …where "left to right" means: if the inlined actions before some inlined symbol succeed (on
    their part `preArgs` of the arguments) and its own action fails on its slice, then its error
    is the result: later inlined actions and the host action `host` do not run. -/
theorem inline_order_leftmost_failure (sem : Sem E V) (pre post : List (InlinedSymbol N T))
    (a : Nat) (ss : List (Symbol N T)) (preArgs slice restArgs : List V) (vs : List V) (e : E)
    (hpre : composeArgs sem pre preArgs = .ok vs)
    (hprelen : preArgs.length = (pre.flatMap InlinedSymbol.flat).length)
    (hslice : slice.length = ss.length)
    (hfail : sem a slice = .err e) (host : List V → Res E V) :
    (composeArgs sem (pre ++ .inlined a ss :: post) (preArgs ++ (slice ++ restArgs))).bind host = .err e := by
  induction pre generalizing preArgs vs host with
  | nil =>
    have : preArgs = [] := List.eq_nil_of_length_eq_zero (by simpa using hprelen)
    subst this
    simp [composeArgs, ← hslice, hfail]
  | cons s rest ih =>
    cases s with
    | original sym =>
      cases preArgs with
      | nil => simp [InlinedSymbol.flat] at hprelen
      | cons x pa =>
        simp only [composeArgs] at hpre
        obtain ⟨vs', hvs', _⟩ := Res.map_eq_ok.mp hpre
        simp only [List.cons_append, composeArgs, Res.bind_map']
        exact ih pa vs' hvs' (by simpa [InlinedSymbol.flat] using hprelen) _
    | inlined act ss' =>
      simp only [List.flatMap_cons, InlinedSymbol.flat, List.length_append] at hprelen
      simp only [composeArgs] at hpre
      obtain ⟨v, hv, hrest⟩ := Res.bind_eq_ok.mp hpre
      obtain ⟨vs', hvs', _⟩ := Res.map_eq_ok.mp hrest
      simp only [List.cons_append, composeArgs, List.take_append_of_le_length (show ss'.length ≤ preArgs.length by omega),
        List.drop_append_of_le_length (show ss'.length ≤ preArgs.length by omega), hv, Res.bind_ok, Res.bind_map']
      exact ih (preArgs.drop ss'.length) vs' hvs' (by rw [List.length_drop]; omega) _

/-! ### the inline order: cycles -/

/-- `inline_order` never exhausts the fuel of the model (the recursion of the Rust code is bounded
    by the number of nodes) -/
theorem inlineOrder_no_outOfFuel (g : Grammar N T X) : inlineOrder g ≠ .error .outOfFuel := by
  have := order_outcome g.inlineNames (neighbors g g.inlineNames) (neighbors_sub g _)
  unfold inlineOrder
  simp only []
  split at this
  · simp [*]
  · rename_i c hc; simp [hc]
  · exact this.elim

/-- if `inline_order` succeeds, the order lists every `#[inline]` nonterminal exactly once and
    every inline nonterminal mentioned by `X` comes before `X` -/
theorem inline_order_topological (g : Grammar N T X) (order : List N) (h : inlineOrder g = .ok order) :
    order.Nodup ∧ (∀ x, x ∈ order ↔ x ∈ g.inlineNames) ∧ Topo (neighbors g g.inlineNames) order := by
  have := order_outcome g.inlineNames (neighbors g g.inlineNames) (neighbors_sub g _)
  unfold inlineOrder at h
  simp only [] at h
  split at this
  · rename_i st hst; rw [hst] at h; cases h; exact this
  · rename_i c hc; rw [hc] at h; cases h
  · exact this.elim

/-- an error names a nonterminal that really is on a cycle of `#[inline]` nonterminals -/
theorem cycle_error_is_cycle (g : Grammar N T X) (c : N) (h : inlineOrder g = .error (.cycle c)) :
    ReachP (neighbors g g.inlineNames) c c := by
  have := order_outcome g.inlineNames (neighbors g g.inlineNames) (neighbors_sub g _)
  unfold inlineOrder at h
  simp only [] at h
  split at this
  · rename_i st hst; rw [hst] at h; cases h
  · rename_i c' hc; rw [hc] at h; cases h; exact this
  · exact this.elim

/-- every cycle among `#[inline]` nonterminals is rejected -/
theorem cycle_rejected (g : Grammar N T X) (x : N) (hx : x ∈ g.inlineNames)
    (hcyc : ReachP (neighbors g g.inlineNames) x x) :
    ∃ c, inlineOrder g = .error (.cycle c) ∧ ReachP (neighbors g g.inlineNames) c c := by
  cases hres : inlineOrder g with
  | ok order =>
    obtain ⟨hnd, hmem, htopo⟩ := inline_order_topological g order hres
    exact absurd hcyc (htopo.no_self_reach hnd ((hmem x).mpr hx))
  | error e =>
    cases e with
    | cycle c => exact ⟨c, rfl, cycle_error_is_cycle g c hres⟩
    | outOfFuel => exact absurd hres (inlineOrder_no_outOfFuel g)

/-! ### the whole pass -/

/-- Inlining along any order of inline nonterminals none of which reaches itself preserves
    derivations and successful evaluations. -/
theorem inline_all_value_eq (g : Grammar N T X) (hwf : WF g) (hf : Filed g) (order : List N)
    (hord : ∀ x ∈ order, x ∈ g.inlineNames ∧ ¬ ReachP (neighbors g g.inlineNames) x x) :
    ∃ g', inlineAll g order = some g' ∧ WF g' ∧
      (∀ (E V : Type) (I : Sem E V) (tv : T → V) ss w vs,
        Eval g (semOf g.actions I) tv ss w vs ↔ Eval g' (semOf g'.actions I) tv ss w vs) ∧
      (∀ ss w, Derives g ss w ↔ Derives g' ss w) :=
  inlineAll_spec g.inlineNames (neighbors g g.inlineNames) order g hwf (mentions_initial g hf) hord

/-- **`normalize::inline::inline`** on a well-formed grammar either reports a genuine cycle or
    returns a grammar with the same derivations and the same successful evaluations (for all
    interpretations of the user actions); it does not panic. -/
theorem inline_grammar_value_eq (g : Grammar N T X) (hwf : WF g) (hf : Filed g) :
    (∃ c, inlineGrammar g = .error (.cycle c) ∧ ReachP (neighbors g g.inlineNames) c c) ∨
    ∃ g', inlineGrammar g = .ok g' ∧
      (∀ (E V : Type) (I : Sem E V) (tv : T → V) ss w vs,
        Eval g (semOf g.actions I) tv ss w vs ↔ Eval g' (semOf g'.actions I) tv ss w vs) ∧
      (∀ ss w, Derives g ss w ↔ Derives g' ss w) := by
  unfold inlineGrammar
  cases hres : inlineOrder g with
  | error e =>
    cases e with
    | cycle c => exact .inl ⟨c, rfl, cycle_error_is_cycle g c hres⟩
    | outOfFuel => exact absurd hres (inlineOrder_no_outOfFuel g)
  | ok order =>
    obtain ⟨hnd, hmem, htopo⟩ := inline_order_topological g order hres
    obtain ⟨g', h1, _, h2, h3⟩ := inline_all_value_eq g hwf hf order
      (fun x hx => ⟨(hmem x).mp hx, htopo.no_self_reach hnd hx⟩)
    exact .inr ⟨g', by simp [h1], h2, h3⟩

/-! ### hypotheses are satisfiable; counterexamples -/

section examples

/-- `S = A B; #[inline] A = "0"; B = "1"` with actions 0 (S), 1 (A), 2 (B); names A=0 B=1 S=2 -/
def exG : Grammar Nat Nat Unit :=
  { nonterminals :=
      [ { name := 0, extra := (), isInline := true, productions := [⟨0, [.term 0], 1⟩] },
        { name := 1, extra := (), isInline := false, productions := [⟨1, [.term 1], 2⟩] },
        { name := 2, extra := (), isInline := false, productions := [⟨2, [.nt 0, .nt 1], 0⟩] } ]
    actions := [⟨false, (), .user ()⟩, ⟨true, (), .user ()⟩, ⟨true, (), .user ()⟩] }

/-- the same with `#[inline]` on `B` as well -/
def exG2 : Grammar Nat Nat Unit :=
  { exG with nonterminals := exG.nonterminals.map fun d => { d with isInline := d.name ≠ 2 } }

/-- user actions: S succeeds, A fails with error 1, B fails with error 2 -/
def exI : Sem Nat Unit := fun i _ => if i = 0 then .ok () else .err i

theorem exG_wf : WF exG := ⟨by decide, by decide⟩
theorem exG_filed : Filed exG := by unfold Filed; decide
theorem exG2_wf : WF exG2 := ⟨by decide, by decide⟩
theorem exG2_filed : Filed exG2 := by unfold Filed; decide

example : ∀ ip ∈ exG.productionsFor 0, Symbol.nt 0 ∉ ip.symbols := by decide

/-- the grammar after inlining `A` -/
def exG' : Grammar Nat Nat Unit :=
  { nonterminals :=
      [ { name := 0, extra := (), isInline := true, productions := [⟨0, [.term 0], 1⟩] },
        { name := 1, extra := (), isInline := false, productions := [⟨1, [.term 1], 2⟩] },
        { name := 2, extra := (), isInline := false, productions := [⟨2, [.term 0, .nt 1], 3⟩] } ]
    actions := [⟨false, (), .user ()⟩, ⟨true, (), .user ()⟩, ⟨true, (), .user ()⟩,
                ⟨true, (), .inline 0 [.inlined 1 [.term 0], .original (.nt 1)]⟩] }

theorem exG_inline : inlineNt exG 0 = some exG' := by rfl

theorem run_term_inv {g : Grammar N T X} {sem : Sem E V} {tv : T → V} {t : T} {ss w r}
    (h : Run g sem tv (.term t :: ss) w r) :
    ∃ w' r', w = t :: w' ∧ Run g sem tv ss w' r' ∧ r = r'.map (tv t :: ·) := by
  cases h with
  | term _ h' => exact ⟨_, _, rfl, h', rfl⟩

theorem run_nil_inv {g : Grammar N T X} {sem : Sem E V} {tv : T → V} {w : List T} {r}
    (h : Run g sem tv [] w r) : r = .ok [] := by cases h; rfl

/-- **The literal claim about errors fails.**  For `S = A B` with `A`, `B` both failing, every run
    of the original grammar from `S` returns `A`'s error (its reduction comes first), every run of
    the grammar with `A` inlined returns `B`'s error (`A`'s action now runs at the reduction of
    `S`, after `B` was reduced) — and the input `0 1` has such runs. -/
theorem inline_error_order_counterexample :
    WF exG ∧ (∀ ip ∈ exG.productionsFor 0, Symbol.nt 0 ∉ ip.symbols) ∧ inlineNt exG 0 = some exG' ∧
    (∀ w r, Run exG (semOf exG.actions exI) (fun _ => ()) [.nt 2] w r → r = .err 1) ∧
    (∀ w r, Run exG' (semOf exG'.actions exI) (fun _ => ()) [.nt 2] w r → r = .err 2) ∧
    Run exG (semOf exG.actions exI) (fun _ => ()) [.nt 2] [0, 1] (.err 1) ∧
    Run exG' (semOf exG'.actions exI) (fun _ => ()) [.nt 2] [0, 1] (.err 2) := by
  have semA : ∀ args, semOf exG.actions exI 1 args = .err 1 := fun _ => rfl
  have semB : ∀ args, semOf exG.actions exI 2 args = .err 2 := fun _ => rfl
  have semB' : ∀ args, semOf exG'.actions exI 2 args = .err 2 := fun _ => rfl
  -- runs of `A B` in the original grammar
  have hAB : ∀ w r, Run exG (semOf exG.actions exI) (fun _ => ()) [.nt 0, .nt 1] w r → r = .err 1 := by
    intro w r h
    cases h with
    | ntOk n p hp hc hs hr =>
      have : p = ⟨0, [.term 0], 1⟩ := by simpa [exG, Grammar.productionsFor] using hp
      subst this; rw [semA] at hs; cases hs
    | ntChildFail n p hp hc hd =>
      have : p = ⟨0, [.term 0], 1⟩ := by simpa [exG, Grammar.productionsFor] using hp
      subst this
      obtain ⟨_, r', _, h', hr⟩ := run_term_inv hc
      have := run_nil_inv h'; subst this; cases hr
    | ntActionFail n p hp hc hs hd =>
      have : p = ⟨0, [.term 0], 1⟩ := by simpa [exG, Grammar.productionsFor] using hp
      subst this; rw [semA] at hs; cases hs; rfl
  -- runs of `"0" B` in the inlined grammar
  have hB' : ∀ w r, Run exG' (semOf exG'.actions exI) (fun _ => ()) [.nt 1] w r → r = .err 2 := by
    intro w r h
    cases h with
    | ntOk n p hp hc hs hr =>
      have : p = ⟨1, [.term 1], 2⟩ := by simpa [exG', Grammar.productionsFor] using hp
      subst this; rw [semB'] at hs; cases hs
    | ntChildFail n p hp hc hd =>
      have : p = ⟨1, [.term 1], 2⟩ := by simpa [exG', Grammar.productionsFor] using hp
      subst this
      obtain ⟨_, r', _, h', hr⟩ := run_term_inv hc
      have := run_nil_inv h'; subst this; cases hr
    | ntActionFail n p hp hc hs hd =>
      have : p = ⟨1, [.term 1], 2⟩ := by simpa [exG', Grammar.productionsFor] using hp
      subst this; rw [semB'] at hs; cases hs; rfl
  refine ⟨exG_wf, by decide, exG_inline, ?_, ?_, ?_, ?_⟩
  · intro w r h
    cases h with
    | ntOk n p hp hc hs hr =>
      have : p = ⟨2, [.nt 0, .nt 1], 0⟩ := by simpa [exG, Grammar.productionsFor] using hp
      subst this; cases hAB _ _ hc
    | ntChildFail n p hp hc hd =>
      have : p = ⟨2, [.nt 0, .nt 1], 0⟩ := by simpa [exG, Grammar.productionsFor] using hp
      subst this; exact hAB _ _ hc
    | ntActionFail n p hp hc hs hd =>
      have : p = ⟨2, [.nt 0, .nt 1], 0⟩ := by simpa [exG, Grammar.productionsFor] using hp
      subst this; cases hAB _ _ hc
  · intro w r h
    have hTB : ∀ w r, Run exG' (semOf exG'.actions exI) (fun _ => ()) [.term 0, .nt 1] w r → r = .err 2 := by
      intro w r h
      cases h with
      | term t h' => rw [hB' _ _ h']; rfl
    cases h with
    | ntOk n p hp hc hs hr =>
      have : p = ⟨2, [.term 0, .nt 1], 3⟩ := by simpa [exG', Grammar.productionsFor] using hp
      subst this; cases hTB _ _ hc
    | ntChildFail n p hp hc hd =>
      have : p = ⟨2, [.term 0, .nt 1], 3⟩ := by simpa [exG', Grammar.productionsFor] using hp
      subst this; exact hTB _ _ hc
    | ntActionFail n p hp hc hs hd =>
      have : p = ⟨2, [.term 0, .nt 1], 3⟩ := by simpa [exG', Grammar.productionsFor] using hp
      subst this; cases hTB _ _ hc
  · exact Run.ntChildFail 2 ⟨2, [.nt 0, .nt 1], 0⟩ (u := [0, 1]) (w := []) (by decide)
      (Run.ntActionFail 0 ⟨0, [.term 0], 1⟩ (u := [0]) (w := [1]) (args := [()]) (by decide)
        (Run.term 0 Run.nil) (semA _)
        (Derives.nt 1 ⟨1, [.term 1], 2⟩ (u := [1]) (w := []) (by decide) (Derives.term 1 Derives.nil) Derives.nil))
      Derives.nil
  · exact Run.ntChildFail 2 ⟨2, [.term 0, .nt 1], 3⟩ (u := [0, 1]) (w := []) (by decide)
      (Run.term 0 (r := .err 2)
        (Run.ntActionFail 1 ⟨1, [.term 1], 2⟩ (u := [1]) (w := []) (args := [()]) (by decide)
          (Run.term 1 Run.nil) (semB' _) Derives.nil))
      Derives.nil

/-- **Actions of different inlined nonterminals do not run left to right.**  With `A` and `B`
    both `#[inline]` in `S = A B`, the pass inlines `A`, then `B`; the action of the final
    production `S = "0" "1"` calls `B`'s action first (outermost composed action) and `A`'s action
    inside the inner composed action: when both fail the result is `B`'s error, although `A` is to
    the left (the grammar without `#[inline]` returns `A`'s error, see above). -/
theorem inline_order_not_left_to_right :
    WF exG2 ∧ Filed exG2 ∧ inlineOrder exG2 = .ok [0, 1] ∧
    ∃ g', inlineGrammar exG2 = .ok g' ∧
      g'.productionsFor 2 = [⟨2, [.term 0, .term 1], 4⟩] ∧
      ∀ a b, semOf g'.actions exI 4 [a, b] = .err 2 := by
  refine ⟨exG2_wf, exG2_filed, by rfl, _, by rfl, by rfl, ?_⟩
  intro a b
  rfl

end examples

end LalrpopModel.Inline
