import LalrpopModel.Lemmas.LRTermRecMain
import LalrpopModel.Lemmas.LRTermInv
import LalrpopModel.Lemmas.LRTermCount
import LalrpopModel.Props.LRPrefixThms
/-!
C08 — the model driver TERMINATES on every input, within a number of machine steps that is linear
in the length of the input (final statements; proofs in `Lemmas/LRTerm*.lean`).

Hypothesis V7 = `checkTerm T F = true` (`Model/LR/Validate.lean`; `lpm_lr` command `validate3`, with
`F = termFuel T`): an executable check of the emitted tables alone — for every lookahead, the loop
"reduce under this lookahead" is simulated from `[0]` and from every two-state stack `[t, b]` with
`t` pushed on `b` by a goto or a shift entry, and must stop within `F` iterations (besides a few
shape facts that are part of V0 too). V7 is NOT implied by the soundness clauses of `validate`
(`loopT` below passes none of the termination checks and its driver never returns); it holds for
every automaton of the correspondence runs (lane table, LR(1), LALR; with and without `!`).

What is proved, for ARBITRARY tables with V7, token kinds that are terminal indices, arbitrary
`failAt` and start location:

* `driver_terminates_any_fuel`, `driver_terminates_under_V7` (recovery off): the run from the
  initial configuration reaches `.done r`, `r ≠ panic outOfFuel`, within
  `termBound F len = (F+1) + (len+1)·((F+1)² + F + 2)` steps, for every `accepts` fuel
  `≥ termAccFuel F len`;
* `driver_terminates_recovery_any_fuel`, `driver_terminates_recovery` (recovery ON or off, stream
  errors allowed): the same within `termBoundRec F len = (F+1)·(1 + (len+1)·(3F+7))` steps;
* with `validateSound` in addition (`driver_terminates`, `driver_terminates_recovery_validated`):
  the outcome is no panic at all — `Ok(..)` or `Err(..)`; in particular
  `eof_recovery_no_found_token`;
* `parse_decides` (validate + V7, recovery off, `NoFail`): total correctness — the driver returns,
  `Ok` exactly on the sentences of the start symbol;
* `accepts_terminates_on_run`, `accepts_answers_on_run`: the `accepts` simulation answers on every
  stack that occurs in a run, for every lookahead, within `accFuel F |states|` iterations;
* `recovery_progress`: the parse loop entered after a successful `error_recovery` with a token
  lookahead shifts that token (phase `.pull`) or ends the run — it never enters `error_recovery`
  again for the same token; so no two recoveries happen at the same input position;
* `accept_steps_exact`: on the yield of a derivation tree `t` the run is finished after exactly
  `2·|yield t| + |nodes of t| + 2` steps (one per `tokens.next()`, shift and reduction).

What is NOT proved (`termination_partial`): that V7 follows from the other validator clauses, i.e.

  theorem driver_terminates_of_validate (h : validate G T A ann = true)
      (h5 : checkProductive G A = true) (hrec : T.usesRecovery = false) (toks : List Tok)
      (hin : KindsInRange T toks) (failAt : Option Nat) (startLoc : Int) :
      ∃ n af c r, run T af failAt startLoc n (init startLoc (toks.map Item.tok)) .pull = (c, .done r) ∧
        r ≠ .panic .outOfFuel

(the missing link: a reduce loop that does not stop revisits a state at the same stack height,
which yields a cyclic derivation `A ⇒⁺ A` of a reachable productive nonterminal, contradicting
`validated_unambiguous`; this needs derivation surgery on stack forests and would only cover the
state pairs a run can reach, not the junk entries of `__goto` that V7 also simulates). Instead V7
is CHECKED on the emitted tables, like the other clauses: `validate3` answers `valid` on all 1312
automata of `lrdrive --seed 3|11|12` (all three construction algorithms, with and without `!`,
unproductive grammars included), the least sufficient fuel (`v7min`) being at most 5.

The amortised accounting behind the bounds: a reduce loop that frees `d` stack levels takes at most
`(F+1)·(d+1)` steps and adds at most `F` levels (`Term.phase_term`), so all loops of a run together
take `O(F²·len)` steps.
-/
namespace LalrpopModel.LR
open LalrpopModel.LR.Term LalrpopModel.LR.Generic

section
variable {G : Grammar} {T : Tables} {A : Automaton} {ann : Ann} {F : Nat}

/-! ## 1. Termination, error recovery off -/

/-- **Termination (recovery off), any sufficient fuel.** -/
theorem driver_terminates_any_fuel (h7 : checkTerm T F = true) (hrec : T.usesRecovery = false)
    (toks : List Tok) (hin : KindsInRange T toks) (failAt : Option Nat) (startLoc : Int)
    (af : Nat) (haf : termAccFuel F toks.length ≤ af) :
    ∃ n c r, n ≤ termBound F toks.length ∧
      run T af failAt startLoc n (init startLoc (toks.map Item.tok)) .pull = (c, .done r) ∧
      r ≠ .panic .outOfFuel := by
  have := init_terminates (af := af) (failAt := failAt) (startLoc := startLoc) (termOK_of_check h7) hrec
    (toks.map Item.tok) (inRange_of_kinds hin) (by simpa using haf)
  simpa using this

/-- **Termination (recovery off)** in the form asked for: some number of steps `n ≤ termBound F len`
    and some `accepts` fuel end the run with an outcome that is not the model's fuel stop. -/
theorem driver_terminates_under_V7 (h7 : checkTerm T F = true) (hrec : T.usesRecovery = false)
    (toks : List Tok) (hin : KindsInRange T toks) (failAt : Option Nat) (startLoc : Int) :
    ∃ n af c r, n ≤ termBound F toks.length ∧
      run T af failAt startLoc n (init startLoc (toks.map Item.tok)) .pull = (c, .done r) ∧
      r ≠ .panic .outOfFuel := by
  obtain ⟨n, c, r, h⟩ := driver_terminates_any_fuel h7 hrec toks hin failAt startLoc _ (Nat.le_refl _)
  exact ⟨n, _, c, r, h⟩

/-- … for validated tables the outcome is no panic at all: `parse` returns `Ok` or `Err` -/
theorem driver_terminates (hs : validateSound G T A = true) (h7 : checkTerm T F = true)
    (hrec : T.usesRecovery = false) (toks : List Tok) (hin : KindsInRange T toks)
    (failAt : Option Nat) (startLoc : Int) :
    ∃ n af c r, n ≤ termBound F toks.length ∧
      run T af failAt startLoc n (init startLoc (toks.map Item.tok)) .pull = (c, .done r) ∧
      ∀ tag, r ≠ .panic tag := by
  obtain ⟨n, af, c, r, hn, hrun, hr⟩ := driver_terminates_under_V7 h7 hrec toks hin failAt startLoc
  refine ⟨n, af, c, r, hn, hrun, ?_⟩
  intro tag htag
  have := driver_no_panic hs (inRange_of_kinds hin) ⟨n, af, hrun⟩ tag htag
  subst this
  exact hr htag

/-- **Total correctness** (validate + V7, recovery off, no failing action): the driver returns
    within the bound, with `Ok(v)` — `v` a derivation tree of the start symbol over exactly the
    input — when the kinds of the input are a sentence, and with `Err(..)` otherwise. -/
theorem parse_decides (h : validate G T A ann = true) (h7 : checkTerm T F = true)
    (hrec : T.usesRecovery = false) {S : NT} (hS : G.startSym = some S) (toks : List Tok)
    (hin : KindsInRange T toks) (failAt : Option Nat) (hf : NoFail T failAt) (startLoc : Int) :
    ∃ n af c r, n ≤ termBound F toks.length ∧
      run T af failAt startLoc n (init startLoc (toks.map Item.tok)) .pull = (c, .done r) ∧
      (KindsSentence G S toks → ∃ v, r = .ok v ∧ Tree.WF G (errT T) v ∧
        v.root G (errT T) = some (Sym.n S) ∧ v.yield = toks) ∧
      (¬ KindsSentence G S toks → ∃ e, r = .err e) := by
  obtain ⟨n, af, c, r, hn, hrun, hr⟩ :=
    driver_terminates_under_V7 h7 hrec toks hin failAt startLoc
  have hret : Returns T failAt startLoc (toks.map Item.tok) c r := ⟨n, af, hrun⟩
  have hiff := rejected_iff_not_sentence h hrec hS toks hin failAt hf startLoc hret hr
  refine ⟨n, af, c, r, hn, hrun, ?_, fun hns => hiff.mpr hns⟩
  intro hsent
  cases r with
  | ok v =>
    exact ⟨v, rfl, accepted_value_is_derivation (validate_split h).1 hrec hS toks hin hret⟩
  | err e => exact (hiff.mp ⟨e, rfl⟩ hsent).elim
  | panic tag =>
    have := driver_no_panic (validate_split h).1 (inRange_of_kinds hin) hret tag rfl
    subst this
    exact (hr rfl).elim

/-! ## 2. Termination, error recovery on or off, arbitrary streams -/

/-- **Termination (recovery ON or off), any sufficient fuel.** The stream may contain error items
    (`Err(e)` of the token iterator). -/
theorem driver_terminates_recovery_any_fuel (h7 : checkTerm T F = true) (input : List Item)
    (hin : InRange T input) (failAt : Option Nat) (startLoc : Int)
    (af : Nat) (haf : termAccFuelRec F input.length ≤ af) :
    ∃ n c r, n ≤ termBoundRec F input.length ∧
      run T af failAt startLoc n (init startLoc input) .pull = (c, .done r) ∧ r ≠ .panic .outOfFuel :=
  init_terminates_gen (termOK_of_check h7) input hin haf

theorem driver_terminates_recovery (h7 : checkTerm T F = true) (input : List Item)
    (hin : InRange T input) (failAt : Option Nat) (startLoc : Int) :
    ∃ n af c r, n ≤ termBoundRec F input.length ∧
      run T af failAt startLoc n (init startLoc input) .pull = (c, .done r) ∧ r ≠ .panic .outOfFuel := by
  obtain ⟨n, c, r, h⟩ :=
    driver_terminates_recovery_any_fuel h7 input hin failAt startLoc _ (Nat.le_refl _)
  exact ⟨n, _, c, r, h⟩

/-- … for validated tables: `parse` returns `Ok` or `Err`, whatever the input, with recovery too -/
theorem driver_terminates_recovery_validated (hs : validateSound G T A = true)
    (h7 : checkTerm T F = true) (input : List Item) (hin : InRange T input)
    (failAt : Option Nat) (startLoc : Int) :
    ∃ c r, Returns T failAt startLoc input c r ∧ ∀ tag, r ≠ .panic tag := by
  obtain ⟨n, af, c, r, _, hrun, hr⟩ := driver_terminates_recovery h7 input hin failAt startLoc
  refine ⟨c, r, ⟨n, af, hrun⟩, ?_⟩
  intro tag htag
  have := driver_no_panic hs hin ⟨n, af, hrun⟩ tag htag
  subst this
  exact hr htag

/-- `panic!("cannot find token at EOF")` is unreachable (corollary of `driver_no_panic`) -/
theorem eof_recovery_no_found_token (hs : validateSound G T A = true) {input : List Item}
    (hin : InRange T input) {failAt : Option Nat} {startLoc : Int} {c : Cfg} {r : Outcome}
    (hr : Returns T failAt startLoc input c r) : r ≠ .panic .eofFoundToken := by
  intro h
  have := driver_no_panic hs hin hr _ h
  cases this

/-! ## 3. The `accepts` simulation terminates on the stacks that occur -/

/-- on every stack that occurs in a run (any fuels, recovery on or off), for every lookahead (end
    of input or a terminal), `accepts` with fuel `≥ accFuel F |states|` does not run out of fuel -/
theorem accepts_terminates_on_run (h7 : checkTerm T F = true) {input : List Item}
    (hin : InRange T input) {af : Nat} {failAt : Option Nat} {startLoc : Int} {n : Nat} {c : Cfg}
    {ph : Phase} (hrun : run T af failAt startLoc n (init startLoc input) .pull = (c, ph))
    (hnd : ∀ r, ph ≠ .done r) (la : LA) (hla : ∀ i, la = some i → i < T.nTerm)
    (af' : Nat) (haf : accFuel F c.states.length ≤ af') :
    accepts T af' c.states la ≠ .error .outOfFuel := by
  have hnd' : phDone ph = false := by
    cases ph with
    | done r => exact (hnd r rfl).elim
    | _ => rfl
  have hla' : LAok T la := by
    cases la with
    | none => trivial
    | some i => exact hla i rfl
  exact accepts_terminates_reachable (termOK_of_check h7) hin hrun hnd' hla' haf

/-- … and for validated tables it answers `true` or `false` -/
theorem accepts_answers_on_run (hs : validateSound G T A = true) (h7 : checkTerm T F = true)
    {input : List Item} (hin : InRange T input) {af : Nat} {failAt : Option Nat} {startLoc : Int}
    {n : Nat} {c : Cfg} {ph : Phase}
    (hrun : run T af failAt startLoc n (init startLoc input) .pull = (c, ph))
    (hnd : ∀ r, ph ≠ .done r) (la : LA) (hla : ∀ i, la = some i → i < T.nTerm)
    (af' : Nat) (haf : accFuel F c.states.length ≤ af') :
    ∃ b, accepts T af' c.states la = .ok b := by
  have hne := accepts_terminates_on_run h7 hin hrun hnd la hla af' haf
  have Sd := sound_of_validate hs
  have hinv := LalrpopModel.LR.run_inv Sd af failAt startLoc n _ _
    (init_inv (G := G) (A := A) startLoc hin)
  rw [hrun] at hinv
  have hpath : ∃ Xs, Path A c.states Xs := by
    cases ph with
    | done r => exact (hnd r rfl).elim
    | pull => obtain ⟨⟨Xs, hp, _⟩, _⟩ := hinv; exact ⟨Xs, hp⟩
    | eof => obtain ⟨⟨Xs, hp, _⟩, _⟩ := hinv; exact ⟨Xs, hp⟩
    | act _ _ => obtain ⟨⟨Xs, hp, _⟩, _⟩ := hinv; exact ⟨Xs, hp⟩
    | recReduce _ _ _ => obtain ⟨⟨Xs, hp, _⟩, _⟩ := hinv; exact ⟨Xs, hp⟩
    | recFind _ _ _ _ _ => obtain ⟨⟨Xs, hp, _⟩, _⟩ := hinv; exact ⟨Xs, hp⟩
  obtain ⟨Xs, hp⟩ := hpath
  cases hacc : accepts T af' c.states la with
  | ok b => exact ⟨b, rfl⟩
  | error tag =>
    have := accepts_no_panic Sd af' c.states Xs la hp hla tag hacc
    subst this
    exact (hne hacc).elim

/-! ## 4. Error recovery makes progress -/

/-- when `error_recovery` succeeds with a token lookahead `t` (the step from `'find_state` leads to
    the parse loop `.act t i`), that loop shifts `t` (phase `.pull`, nothing pulled in between) or
    ends the run: the error action is not met again under `t`. -/
theorem recovery_progress (h7 : checkTerm T F = true) {input : List Item} (hin : InRange T input)
    {af : Nat} {failAt : Option Nat} {startLoc : Int} {k : Nat} {c c' : Cfg}
    {la : Option (Tok × Term)} {e : PErr} {dropped : List Tok} {sl : Nat} {fe : Bool} {t : Tok} {i : Term}
    (hrun : run T af failAt startLoc k (init startLoc input) .pull = (c, .recFind la e dropped sl fe))
    (hstep : step T af failAt startLoc c (.recFind la e dropped sl fe) = (c', .act t i))
    (haf : accFuel F (c'.states.length + F) ≤ af) :
    ∃ n c'' ph'', n ≤ (F + 1) * (c'.states.length + F + 2) ∧
      run T af failAt startLoc n c' (.act t i) = (c'', ph'') ∧
      ((∃ r, ph'' = .done r ∧ r ≠ .panic .outOfFuel) ∨ (ph'' = .pull ∧ c''.input = c'.input)) := by
  have hT := termOK_of_check h7
  obtain ⟨hadj, _, hrec, hla⟩ := adjInv_of_run hT hin hrun
  rcases step_find (F := F) (af := af) (failAt := failAt) (startLoc := startLoc) hT hrec c hadj la hla
      e dropped sl fe with
    ⟨_, _, hs, _⟩ | ⟨c2, hs, hadj', _, _, hcert⟩ | ⟨_, _, _, _, _, _, _, _, hs⟩ | ⟨_, _, _, _, hs⟩
  · rw [hstep] at hs; cases hs
  · rw [hstep] at hs
    have hc : c' = c2 := congrArg Prod.fst hs
    have hph : Phase.act t i = afterPh la fe := congrArg Prod.snd hs
    subst hc
    have hla' : la = some (t, i) := by
      cases la with
      | none => simp [afterPh] at hph
      | some ti => cases fe <;> simp [afterPh] at hph; obtain ⟨rfl, rfl⟩ := hph; rfl
    subst hla'
    have hi : i < T.nTerm := hla t i rfl
    obtain ⟨n, c'', ph'', d, hrun', hn, hres⟩ :=
      act_phase_gen (failAt := failAt) (startLoc := startLoc) hT hi t c' hadj' haf
    rcases hres with ⟨⟨r, rfl, hr⟩, hd⟩ | ⟨rfl, hin', _, hl⟩ | ⟨_, _, _, _, _, hno⟩
    · exact ⟨n, c'', _, le_units hn (by omega), hrun', .inl ⟨r, rfl, hr⟩⟩
    · exact ⟨n, c'', _, le_units hn (by omega), hrun', .inr ⟨rfl, hin'⟩⟩
    · exact (hno af hcert).elim
  · rw [hstep] at hs; cases hs
  · rw [hstep] at hs; cases hs

/-! ## 5. Exact step count on sentences -/

/-- on the yield of a derivation tree `t` of the start symbol (validated tables, recovery off, no
    failing action, any `accepts` fuel) the run is finished after EXACTLY
    `2·|yield| + |nodes| + 2` machine steps, and not before: one step per `tokens.next()`
    (`|yield| + 1`), per shift (`|yield|`) and per reduction (`|nodes| + 1`, the start production
    included). -/
theorem accept_steps_exact (h : validate G T A ann = true) (hrec : T.usesRecovery = false)
    (t : Tree) (S : NT) (hS : G.startSym = some S) (hwf : Tree.WF G none t)
    (hroot : t.root G none = some (Sym.n S)) (hin : KindsInRange T t.yield)
    (failAt : Option Nat) (hf : NoFail T failAt) (startLoc : Int) (af : Nat) :
    ∃ c v, run T af failAt startLoc (2 * t.yield.length + t.post.length + 2)
        (init startLoc (t.yield.map Item.tok)) .pull = (c, .done (.ok v)) ∧ v.shape = t.shape ∧
      ∀ m, m < 2 * t.yield.length + t.post.length + 2 →
        ∀ r, (run T af failAt startLoc m (init startLoc (t.yield.map Item.tok)) .pull).2 ≠ .done r := by
  obtain ⟨hs, hc⟩ := validate_split h
  obtain ⟨n, c, v, hrun, hsh, hpu, _, hac⟩ :=
    drive_complete_run (valid_of_validateComplete hc) af failAt hf startLoc t S hS hwf hroot
  obtain ⟨k, hk, hnd, hrun', hcount⟩ := accept_count hrec hrun
  have hinv := returns_inv (sound_of_validate hs) (inRange_of_kinds hin) ⟨n, af, hrun⟩
  simp only [Inv] at hinv
  obtain ⟨_, _, hsym, _⟩ := hinv
  have hvy : v.yield.length = t.yield.length := by
    rw [← Tree.yield_shape v, hsh, Tree.yield_shape t]
  rw [(hsym hrec).1, hpu, hac, hvy] at hcount
  simp only [stackYield, List.length_nil] at hcount
  have hk' : k + 1 = 2 * t.yield.length + t.post.length + 2 := by omega
  rw [hk'] at hrun'
  refine ⟨c, v, hrun', hsh, ?_⟩
  intro m hm r hr
  have hmk : m ≤ k := by omega
  generalize hrm : run T af failAt startLoc m (init startLoc (t.yield.map Item.tok)) .pull = x at hr
  obtain ⟨cm, phm⟩ := x
  simp only at hr
  subst hr
  have := run_done_stable T af failAt startLoc hrm hmk
  rw [this] at hnd
  simp [phDone] at hnd

end

/-! ## The hypotheses are satisfiable, and V7 is not vacuous -/
namespace TermExample
open CompleteExample PrefixExample

/-- V7 on the real lalrpop tables of `E → "(" E ")" | ε` (fuel 2 suffices; `validate3` uses
    `termFuel`) and on the two other example tables of the `Props/LR*Thms.lean` files -/
theorem ex_v7 : checkTerm CompleteExample.exT 2 = true := by decide
example : checkTerm CompleteExample.exT (termFuel CompleteExample.exT) = true := by decide
example : checkTerm LalrpopModel.LR.exT 3 = true := by decide
/-- … and on tables with error recovery (`S = "a" | !`) -/
theorem ex_v7_rec : checkTerm GenericThms.T4 2 = true := by decide
example : GenericThms.T4.usesRecovery = true := rfl

example : termBound 2 3 = 55 := by decide
example : termBoundRec 2 2 = 120 := by decide

/-- `driver_terminates` at work on `( ) )`: the run ends within `termBound 2 3 = 55` steps -/
example : ∃ n af c r, n ≤ termBound 2 3 ∧
    run CompleteExample.exT af none 0 n (init 0 ([lp 0, rp 1, rp 2].map Item.tok)) .pull = (c, .done r) ∧
    ∀ tag, r ≠ .panic tag :=
  driver_terminates (validate_split ex_validate).1 ex_v7 rfl [lp 0, rp 1, rp 2] ex_inRange none 0

/-- … it actually takes 9 steps (3 pulls, 2 shifts, 2 reductions, 1 error) -/
example : ∃ c, run CompleteExample.exT 10 none 0 8 (init 0 ([lp 0, rp 1, rp 2].map Item.tok)) .pull
    = (c, .done (.err (.unrecognizedToken (rp 2) []))) := ⟨_, rfl⟩

/-- `accept_steps_exact` on `( )`: `2·2 + 2 + 2 = 8` steps -/
example : ∃ c v, run CompleteExample.exT 0 none 0 8 (init 0 (exTree.yield.map Item.tok)) .pull
    = (c, .done (.ok v)) := by
  have hin : KindsInRange CompleteExample.exT exTree.yield := by
    intro t ht k hk
    simp only [exTree, Tree.yield, Forest.yield, List.cons_append, List.nil_append, List.append_nil,
      List.mem_cons, List.not_mem_nil, or_false] at ht
    rcases ht with rfl | rfl <;> cases hk <;> decide
  obtain ⟨c, v, h, _⟩ := accept_steps_exact ex_validate rfl exTree 0 (by decide) exTree_wf rfl hin
    none (Or.inl rfl) 0 0
  exact ⟨c, v, h⟩

/-- recovery on: `a a` with `S = "a" | !` ends within `termBoundRec 2 2 = 120` steps (it takes 11) -/
example : ∃ n af c r, n ≤ termBoundRec 2 2 ∧
    run GenericThms.T4 af none 0 n (init 0 [.tok GenericThms.a0, .tok GenericThms.a1]) .pull = (c, .done r) ∧
    r ≠ .panic .outOfFuel := by
  have hin : InRange GenericThms.T4 [.tok GenericThms.a0, .tok GenericThms.a1] := by
    intro t k hm hk
    simp only [List.mem_cons, Item.tok.injEq, List.not_mem_nil, or_false] at hm
    rcases hm with rfl | rfl <;> cases hk <;> decide
  exact driver_terminates_recovery ex_v7_rec [.tok GenericThms.a0, .tok GenericThms.a1] hin none 0

/-- hypotheses of `recovery_progress`: in the run on `a a` the step out of `'find_state` (after the
    second `a` was dropped) continues at the end of input; with a token lookahead the shape is
    `(c', .act t i)` -/
example : ∃ c c', run GenericThms.T4 5 none 0 5 (init 0 [.tok GenericThms.a0, .tok GenericThms.a1]) .pull
      = (c, .recFind (some (GenericThms.a1, 0)) (.unrecognizedToken GenericThms.a1 []) [] 2 false) ∧
    (step GenericThms.T4 5 none 0 c
      (.recFind (some (GenericThms.a1, 0)) (.unrecognizedToken GenericThms.a1 []) [] 2 false)).1 = c' :=
  ⟨_, _, rfl, rfl⟩

/-- V7 is not implied by the soundness-side shape of tables: `A → ε` reduced at end of input in
    state 0 with `goto(0, A) = 0` never stops; V7 rejects these tables for every fuel we try, and
    their driver is still reducing after 200 steps -/
def loopT : Tables :=
  { nTerm := 1, action := [0], eofAction := [-1], goto := [[0]], prodLen := [0], prodLhs := [0],
    isStart := [false], fallible := [false], usesRecovery := false }

example : checkTerm loopT 100 = false := by decide
example : (match (run loopT 0 none 0 200 (init 0 []) .pull).2 with
    | .eof => true
    | _ => false) = true := by decide

end TermExample

end LalrpopModel.LR
