import LalrpopModel.Model.Err
/-!
C28 — ParseError helpers transform and display errors as documented.

Property theorems only.  Every theorem quantifies over arbitrary location/token/error types,
arbitrary functions and expected lists of any length.
-/

namespace LalrpopModel.Err

variable {L T E LL TT EE LLL σ : Type}

/-! ### `map_location` applies the function to every location, both ends of token spans,
   start before end; tokens, user errors and `expected` are left alone. -/

/-- Declarative spec of `map_location` for a pure function. -/
def mapLocationSpec (f : L → LL) : ParseError L T E → ParseError LL T E
  | .invalidToken l => .invalidToken (f l)
  | .unrecognizedEof l ex => .unrecognizedEof (f l) ex
  | .unrecognizedToken s t e ex => .unrecognizedToken (f s) t (f e) ex
  | .extraToken s t e => .extraToken (f s) t (f e)
  | .user err => .user err

theorem map_location_spec (f : L → LL) (e : ParseError L T E) :
    mapLocation f e = mapLocationSpec f e := by
  cases e <;> rfl

/-- the locations of an error, in the order a stateful (`FnMut`) closure must see them -/
def locations : ParseError L T E → List L
  | .invalidToken l => [l]
  | .unrecognizedEof l _ => [l]
  | .unrecognizedToken s _ e _ => [s, e]
  | .extraToken s _ e => [s, e]
  | .user _ => []

/-- run a stateful function over a list, left to right -/
def mapM' (op : σ → L → LL × σ) : σ → List L → List LL × σ
  | st, [] => ([], st)
  | st, l :: ls =>
    let (l', st1) := op st l
    let (ls', st2) := mapM' op st1 ls
    (l' :: ls', st2)

/-- `map_location` with an `FnMut` closure calls it exactly once per location, in the order
    `locations` lists them (start of a span before its end), and the final closure state is the
    one after those calls. -/
theorem map_location_fnmut_order (op : σ → L → LL × σ) (st : σ) (e : ParseError L T E) :
    locations (mapLocationM op st e).1 = (mapM' op st (locations e)).1 ∧
    (mapLocationM op st e).2 = (mapM' op st (locations e)).2 := by
  cases e <;> simp [mapLocationM, mapIntern, mapTok, locations, mapM']

/-- …and nothing but locations changes (stateful version) -/
def sameShape : ParseError L T E → ParseError LL T E → Prop
  | .invalidToken _, .invalidToken _ => True
  | .unrecognizedEof _ ex, .unrecognizedEof _ ex' => ex = ex'
  | .unrecognizedToken _ t _ ex, .unrecognizedToken _ t' _ ex' => t = t' ∧ ex = ex'
  | .extraToken _ t _, .extraToken _ t' _ => t = t'
  | .user err, .user err' => err = err'
  | _, _ => False

theorem map_location_fnmut_shape (op : σ → L → LL × σ) (st : σ) (e : ParseError L T E) :
    sameShape e (mapLocationM op st e).1 := by
  cases e <;> simp [mapLocationM, mapIntern, mapTok, sameShape]

theorem map_location_id (e : ParseError L T E) : mapLocation id e = e := by
  cases e <;> rfl

theorem map_location_comp (f : L → LL) (g : LL → LLL) (e : ParseError L T E) :
    mapLocation g (mapLocation f e) = mapLocation (g ∘ f) e := by
  cases e <;> rfl

/-! ### `map_token`, `map_error` change only their own field -/

def mapTokenSpec (f : T → TT) : ParseError L T E → ParseError L TT E
  | .invalidToken l => .invalidToken l
  | .unrecognizedEof l ex => .unrecognizedEof l ex
  | .unrecognizedToken s t e ex => .unrecognizedToken s (f t) e ex
  | .extraToken s t e => .extraToken s (f t) e
  | .user err => .user err

theorem map_token_spec (f : T → TT) (e : ParseError L T E) : mapToken f e = mapTokenSpec f e := by
  cases e <;> rfl

def mapErrorSpec (f : E → EE) : ParseError L T E → ParseError L T EE
  | .invalidToken l => .invalidToken l
  | .unrecognizedEof l ex => .unrecognizedEof l ex
  | .unrecognizedToken s t e ex => .unrecognizedToken s t e ex
  | .extraToken s t e => .extraToken s t e
  | .user err => .user (f err)

theorem map_error_spec (f : E → EE) (e : ParseError L T E) : mapError f e = mapErrorSpec f e := by
  cases e <;> rfl

theorem map_token_id (e : ParseError L T E) : mapToken id e = e := by cases e <;> rfl
theorem map_error_id (e : ParseError L T E) : mapError id e = e := by cases e <;> rfl

/-- the three maps commute with each other (each touches only its own field) -/
theorem map_token_location_comm (f : L → LL) (g : T → TT) (e : ParseError L T E) :
    mapToken g (mapLocation f e) = mapLocation f (mapToken g e) := by
  cases e <;> rfl

theorem map_error_location_comm (f : L → LL) (g : E → EE) (e : ParseError L T E) :
    mapError g (mapLocation f e) = mapLocation f (mapError g e) := by
  cases e <;> rfl

/-! ### `From<E>` builds `User` -/

theorem from_spec (err : E) : (fromError err : ParseError L T E) = .user err := rfl

/-! ### Display: "Expected one of a, b or c" -/

/-- documented form of the items after the first: `, b` for inner items, ` or c` for the last -/
def tailSpec : List String → List String
  | [] => []
  | [z] => [" or", " ", z]
  | y :: z :: zs => "," :: " " :: y :: tailSpec (z :: zs)

/-- documented form of the whole list: nothing for an empty list, otherwise a newline,
    `Expected one of a`, then the tail -/
def expectedSpec : List String → List String
  | [] => []
  | a :: rest => "\n" :: "Expected one of" :: " " :: a :: tailSpec rest

theorem fmtExpectedLoop_tail (n i : Nat) (xs : List String) (hi : 0 < i) (hn : n = i + xs.length) :
    fmtExpectedLoop n i xs = tailSpec xs := by
  induction xs generalizing i with
  | nil => rfl
  | cons y ys ih =>
    cases ys with
    | nil =>
      simp only [List.length_cons, List.length_nil] at hn
      have h1 : ¬ i = 0 := by omega
      have h2 : ¬ i < n - 1 := by omega
      simp [fmtExpectedLoop, tailSpec, sepFor, h1, h2]
    | cons z zs =>
      simp only [List.length_cons] at hn
      have h1 : ¬ i = 0 := by omega
      have h2 : i < n - 1 := by omega
      have := ih (i + 1) (by omega) (by simp only [List.length_cons]; omega)
      rw [fmtExpectedLoop, this]
      simp [tailSpec, sepFor, h1, h2]

theorem fmt_expected_spec (xs : List String) : fmtExpected xs = expectedSpec xs := by
  cases xs with
  | nil => rfl
  | cons a rest =>
    have := fmtExpectedLoop_tail (rest.length + 1) 1 rest (by omega) (by omega)
    simp [fmtExpected, fmtExpectedLoop, expectedSpec, sepFor, this]

/-- `Display` of each variant, with the expected list in its documented form -/
theorem display_spec (showL : L → String) (showT : T → String) (showE : E → String)
    (e : ParseError L T E) :
    display showL showT showE e =
      match e with
      | .user err => [showE err]
      | .invalidToken l => ["Invalid token at ", showL l]
      | .unrecognizedEof l ex => ["Unrecognized EOF found at ", showL l] ++ expectedSpec ex
      | .unrecognizedToken s t e ex =>
          ["Unrecognized token `", showT t, "` found at ", showL s, ":", showL e] ++ expectedSpec ex
      | .extraToken s t e => ["Extra token ", showT t, " found at ", showL s, ":", showL e] := by
  cases e <;> simp [display, fmt_expected_spec]

/-- concrete instances (tests of the spec's reading, not part of the proof) -/
example : expectedSpec ["a", "b", "c"] =
    ["\n", "Expected one of", " ", "a", ",", " ", "b", " or", " ", "c"] := rfl
example : expectedSpec ["a"] = ["\n", "Expected one of", " ", "a"] := rfl
example : expectedSpec ["a", "b"] = ["\n", "Expected one of", " ", "a", " or", " ", "b"] := rfl

end LalrpopModel.Err
