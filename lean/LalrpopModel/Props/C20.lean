import LalrpopModel.Model.HashOrder
import LalrpopModel.Gen.HashOps
/-!
C20 — code generation is deterministic: independence of hash iteration order.

* `lookup_only_program_order_independent`: any program over the abstract hash container that never
  uses an order-exposing operation computes the same result for EVERY pair of order parameters
  (placement of new entries, arbitrary rearrangement after each mutation).
* `Gen/HashOps.lean` (regenerated from `/repo/lalrpop/src` by `checks/c20.py` on every run) lists
  every use of every `HashMap`/`HashSet`-typed binding with file and line;
  `all_ops_lookup_only` (there, by `decide` over that finite table) says that each use is in the
  lookup-only vocabulary or is the single reviewed exception.
* `order_safe_program_order_independent`: the same for the larger class `Prog.OrderSafe`, where iteration is
  allowed when its continuation is invariant under permutations of the entries (collect-then-sort, count, sum);
  `Prog.LookupOnly.orderSafe` shows the class contains the lookup-only programs.
* The exception (`tyinfer::infer_types` iterates `self.nonterminals.keys()`):
  `infer_order_independent_partial`.
-/

namespace LalrpopModel.HashOrder

variable {K V R : Type} [DecidableEq K]

/-- same entries, distinct keys -/
def Sim (m₁ m₂ : List (K × V)) : Prop := m₁.Perm m₂ ∧ (m₁.map (·.1)).Nodup

theorem Sim.nodup_right {m₁ m₂ : List (K × V)} (h : Sim m₁ m₂) : (m₂.map (·.1)).Nodup :=
  (h.1.map (·.1)).nodup_iff.mp h.2

theorem entriesOf_length_le (m : List (K × V)) (k : K) (h : (m.map (·.1)).Nodup) :
    (entriesOf m k).length ≤ 1 := by
  induction m with
  | nil => simp [entriesOf]
  | cons p m ih =>
    simp only [List.map_cons, List.nodup_cons] at h
    obtain ⟨hp, hm⟩ := h
    by_cases hk : p.1 = k
    · have hnil : m.filter (fun q => decide (q.1 = k)) = [] := by
        simp only [List.filter_eq_nil_iff]
        intro q hq hqk
        apply hp
        simp only [List.mem_map]
        refine ⟨q, hq, ?_⟩
        have : q.1 = k := by simpa using hqk
        rw [this, hk]
      simp only [entriesOf, List.filter_cons, hk, decide_true, ↓reduceIte, hnil]
      simp
    · simp only [entriesOf, List.filter_cons, hk, decide_false, Bool.false_eq_true, ↓reduceIte]
      exact ih hm

theorem perm_short_eq {α : Type} {a b : List α} (h : a.Perm b) (hl : a.length ≤ 1) : a = b := by
  match a, b, h.length_eq with
  | [], [], _ => rfl
  | [x], [y], _ =>
    have := h.mem_iff (a := x)
    simp at this
    rw [this]
  | _ :: _ :: _, _, _ => simp at hl

theorem lookup_sim {m₁ m₂ : List (K × V)} (h : Sim m₁ m₂) (k : K) : lookup m₁ k = lookup m₂ k := by
  have hp : (entriesOf m₁ k).Perm (entriesOf m₂ k) := h.1.filter _
  have := perm_short_eq hp (entriesOf_length_le m₁ k h.2)
  simp [lookup, this]

theorem lookup_none_iff (m : List (K × V)) (k : K) : lookup m k = none ↔ k ∉ m.map (·.1) := by
  simp only [lookup, entriesOf, Option.map_eq_none_iff, List.head?_eq_none_iff, List.filter_eq_nil_iff,
    List.mem_map, not_exists, not_and]
  constructor
  · intro h p hp hk; exact h p hp (by simp [hk])
  · intro h p hp hk; exact h p hp (by simpa using hk)

omit [DecidableEq K] in
theorem insertAt_perm (l : List (K × V)) (n : Nat) (x : K × V) : (insertAt l n x).Perm (x :: l) := by
  unfold insertAt
  have := List.perm_middle (a := x) (l₁ := l.take n) (l₂ := l.drop n)
  simpa using this

theorem insert_sim (o₁ o₂ : OrderParam K V) (h₁ : o₁.Valid) (h₂ : o₂.Valid) {m₁ m₂ : List (K × V)}
    (h : Sim m₁ m₂) (k : K) (v : V) :
    (hmInsert o₁ m₁ k v).1 = (hmInsert o₂ m₂ k v).1 ∧ Sim (hmInsert o₁ m₁ k v).2 (hmInsert o₂ m₂ k v).2 := by
  unfold hmInsert
  rw [← lookup_sim h k]
  cases hl : lookup m₁ k with
  | some old =>
    refine ⟨rfl, ?_, ?_⟩
    · exact (h₁ _).trans ((h.1.map _).trans (h₂ _).symm)
    · have hkeys : ((m₁.map fun p => if p.1 = k then (k, v) else p).map (·.1)) = m₁.map (·.1) := by
        simp only [List.map_map]
        apply List.map_congr_left
        intro p _
        by_cases hp : p.1 = k <;> simp [hp]
      exact ((h₁ _).map (·.1)).nodup_iff.mpr (hkeys ▸ h.2)
  | none =>
    refine ⟨rfl, ?_, ?_⟩
    · exact (h₁ _).trans ((insertAt_perm _ _ _).trans
        ((h.1.cons _).trans ((insertAt_perm _ _ _).symm.trans (h₂ _).symm)))
    · have hk : k ∉ m₁.map (·.1) := (lookup_none_iff m₁ k).mp hl
      have : ((k, v) :: m₁).map (·.1) = k :: m₁.map (·.1) := rfl
      have hnd : (((k, v) :: m₁).map (·.1)).Nodup := by
        rw [this]; exact List.nodup_cons.mpr ⟨hk, h.2⟩
      exact (((h₁ _).trans (insertAt_perm _ _ _)).map (·.1)).nodup_iff.mpr hnd

theorem remove_sim (o₁ o₂ : OrderParam K V) (h₁ : o₁.Valid) (h₂ : o₂.Valid) {m₁ m₂ : List (K × V)}
    (h : Sim m₁ m₂) (k : K) :
    (hmRemove o₁ m₁ k).1 = (hmRemove o₂ m₂ k).1 ∧ Sim (hmRemove o₁ m₁ k).2 (hmRemove o₂ m₂ k).2 := by
  unfold hmRemove
  refine ⟨lookup_sim h k, ?_, ?_⟩
  · exact (h₁ _).trans ((h.1.filter _).trans (h₂ _).symm)
  · have hs : ((m₁.filter fun p => p.1 ≠ k).map (·.1)).Sublist (m₁.map (·.1)) :=
      (List.filter_sublist).map _
    exact ((h₁ _).map (·.1)).nodup_iff.mpr (h.2.sublist hs)

/-- **`lookup_only_program_order_independent`**: a program that uses only `new/insert/get/contains/
    entry/index/remove/len/clear` (no operation exposing the iteration order) returns the same
    result under any two order parameters — whatever the seeds, placements and rehashes — and ends
    with the same set of entries. -/
theorem lookup_only_program_order_independent (o₁ o₂ : OrderParam K V) (h₁ : o₁.Valid) (h₂ : o₂.Valid)
    (prog : Prog K V R) (hl : prog.LookupOnly) (m₁ m₂ : List (K × V)) (h : Sim m₁ m₂) :
    (prog.run o₁ m₁).1 = (prog.run o₂ m₂).1 ∧ Sim (prog.run o₁ m₁).2 (prog.run o₂ m₂).2 := by
  induction prog generalizing m₁ m₂ with
  | ret r => exact ⟨rfl, h⟩
  | insert k v next ih =>
    obtain ⟨e, hs⟩ := insert_sim o₁ o₂ h₁ h₂ h k v
    simp only [Prog.run]
    rw [← e]
    exact ih _ (hl _) _ _ hs
  | get k next ih =>
    simp only [Prog.run]
    rw [← lookup_sim h k]
    exact ih _ (hl _) _ _ h
  | remove k next ih =>
    obtain ⟨e, hs⟩ := remove_sim o₁ o₂ h₁ h₂ h k
    simp only [Prog.run]
    rw [← e]
    exact ih _ (hl _) _ _ hs
  | len next ih =>
    simp only [Prog.run]
    rw [← h.1.length_eq]
    exact ih _ (hl _) _ _ h
  | clear next ih =>
    simp only [Prog.run]
    exact ih hl _ _ ⟨List.Perm.refl _, by simp⟩
  | iter next _ => exact absurd hl (by simp [Prog.LookupOnly])

/-- from the empty container: the result does not depend on the order parameter at all -/
theorem lookup_only_result_independent (o₁ o₂ : OrderParam K V) (h₁ : o₁.Valid) (h₂ : o₂.Valid)
    (prog : Prog K V R) (hl : prog.LookupOnly) : (prog.run o₁ []).1 = (prog.run o₂ []).1 :=
  (lookup_only_program_order_independent o₁ o₂ h₁ h₂ prog hl [] [] ⟨List.Perm.refl _, by simp⟩).1

/-- the hypothesis is needed: a program that iterates can tell two order parameters apart -/
example : ∃ (o₁ o₂ : OrderParam Nat Nat) (prog : Prog Nat Nat (List Nat)),
    o₁.Valid ∧ o₂.Valid ∧ (prog.run o₁ []).1 ≠ (prog.run o₂ []).1 :=
  ⟨⟨fun _ _ => 0, id⟩, ⟨fun l _ => l.length, id⟩,
    .insert 1 1 fun _ => .insert 2 2 fun _ => .iter fun l => .ret (l.map (·.1)),
    fun _ => List.Perm.refl _, fun _ => List.Perm.refl _, by decide⟩

/-! ### order-safe programs: iteration whose consumer is permutation-invariant -/

/-- the program may look at the internal order, but only through continuations that give the same
    program for any two permutations of the entries (e.g. `keys().collect()` followed by `sort()`,
    `iter().count()`, `values().sum()`, building a `BTreeMap` from the entries) -/
def Prog.OrderSafe : Prog K V R → Prop
  | .ret _ => True
  | .insert _ _ next => ∀ a, (next a).OrderSafe
  | .get _ next => ∀ a, (next a).OrderSafe
  | .remove _ next => ∀ a, (next a).OrderSafe
  | .len next => ∀ n, (next n).OrderSafe
  | .clear next => next.OrderSafe
  | .iter next => (∀ l l' : List (K × V), l.Perm l' → next l = next l') ∧ ∀ l, (next l).OrderSafe

omit [DecidableEq K] in
theorem Prog.LookupOnly.orderSafe (prog : Prog K V R) (h : prog.LookupOnly) : prog.OrderSafe := by
  induction prog with
  | ret r => trivial
  | insert k v next ih => exact fun a => ih a (h a)
  | get k next ih => exact fun a => ih a (h a)
  | remove k next ih => exact fun a => ih a (h a)
  | len next ih => exact fun a => ih a (h a)
  | clear next ih => exact ih h
  | iter next _ => exact absurd h (by simp [Prog.LookupOnly])

theorem order_safe_program_order_independent (o₁ o₂ : OrderParam K V) (h₁ : o₁.Valid) (h₂ : o₂.Valid)
    (prog : Prog K V R) (hl : prog.OrderSafe) (m₁ m₂ : List (K × V)) (h : Sim m₁ m₂) :
    (prog.run o₁ m₁).1 = (prog.run o₂ m₂).1 ∧ Sim (prog.run o₁ m₁).2 (prog.run o₂ m₂).2 := by
  induction prog generalizing m₁ m₂ with
  | ret r => exact ⟨rfl, h⟩
  | insert k v next ih =>
    obtain ⟨e, hs⟩ := insert_sim o₁ o₂ h₁ h₂ h k v
    simp only [Prog.run]
    rw [← e]
    exact ih _ (hl _) _ _ hs
  | get k next ih =>
    simp only [Prog.run]
    rw [← lookup_sim h k]
    exact ih _ (hl _) _ _ h
  | remove k next ih =>
    obtain ⟨e, hs⟩ := remove_sim o₁ o₂ h₁ h₂ h k
    simp only [Prog.run]
    rw [← e]
    exact ih _ (hl _) _ _ hs
  | len next ih =>
    simp only [Prog.run]
    rw [← h.1.length_eq]
    exact ih _ (hl _) _ _ h
  | clear next ih =>
    simp only [Prog.run]
    exact ih hl _ _ ⟨List.Perm.refl _, by simp⟩
  | iter next ih =>
    simp only [Prog.run]
    rw [← hl.1 m₁ m₂ h.1]
    exact ih _ (hl.2 _) _ _ h

/-- non-vacuity: a program that iterates and only counts is order-safe but not lookup-only -/
example : (Prog.insert 1 1 fun _ => Prog.iter fun l => Prog.ret l.length : Prog Nat Nat Nat).OrderSafe ∧
    ¬ (Prog.insert 1 1 fun _ => Prog.iter fun l => Prog.ret l.length : Prog Nat Nat Nat).LookupOnly := by
  refine ⟨fun _ => ⟨fun l l' hp => by simp only [hp.length_eq], fun _ => trivial⟩, fun h => ?_⟩
  exact h none


/-! ### the exception: `infer_types` visits the nonterminals in hash order -/

variable {Id Ty E : Type}

/-- the table agrees with the "true" type assignment `T` wherever it is defined -/
def Consistent (T : Id → Ty) (t : Id → Option Ty) : Prop := ∀ id ty, t id = some ty → ty = T id

/-- **`infer_order_independent_partial`**.  Assume the memoising evaluator (`nonterminal_type`)
    (a) keeps the table consistent with one order-independent assignment `T` (the type of a
    nonterminal is a function of the grammar), (b) defines the requested nonterminal, (c) never
    drops entries and (d) only defines nonterminals of the universe `U`.  Then visiting the
    nonterminals in any two orders `l₁ l₂` that both cover `U`, if both runs succeed, produces the
    same table.  PARTIAL: (a)–(d) are assumptions about `nonterminal_type`, and runs that end in an
    error (where the *reported* error may depend on the order) are not covered.
    Full statement wanted: the same for the real `nonterminal_type`, including equality of the
    reported error. -/
theorem infer_order_independent_partial
    (eval : (Id → Option Ty) → Id → Except E (Id → Option Ty)) (T : Id → Ty) (U : Id → Prop)
    (hcons : ∀ t id t', Consistent T t → eval t id = .ok t' → Consistent T t')
    (hdef : ∀ t id t', eval t id = .ok t' → (t' id).isSome)
    (hmono : ∀ t id t' x, eval t id = .ok t' → (t x).isSome → (t' x).isSome)
    (hdom : ∀ t id t' x, (∀ y, (t y).isSome → U y) → U id → eval t id = .ok t' → (t' x).isSome → U x)
    (l₁ l₂ : List Id) (h₁ : ∀ x, U x ↔ x ∈ l₁) (h₂ : ∀ x, U x ↔ x ∈ l₂)
    (t₁ t₂ : Id → Option Ty)
    (r₁ : evalAll eval (fun _ => none) l₁ = .ok t₁) (r₂ : evalAll eval (fun _ => none) l₂ = .ok t₂) :
    t₁ = t₂ := by
  -- generalised invariant of one run
  have run : ∀ (l : List Id) (t t' : Id → Option Ty), Consistent T t → (∀ y, (t y).isSome → U y) →
      (∀ x ∈ l, U x) → evalAll eval t l = .ok t' →
      Consistent T t' ∧ (∀ y, (t' y).isSome → U y) ∧ (∀ x ∈ l, (t' x).isSome) ∧
        (∀ x, (t x).isSome → (t' x).isSome) := by
    intro l
    induction l with
    | nil =>
      intro t t' hc hd _ hr
      simp only [evalAll, Except.ok.injEq] at hr
      subst hr
      exact ⟨hc, hd, by simp, fun _ h => h⟩
    | cons id ids ih =>
      intro t t' hc hd hu hr
      simp only [evalAll] at hr
      cases he : eval t id with
      | error e => simp [he] at hr
      | ok tm =>
        simp only [he] at hr
        have hc' := hcons t id tm hc he
        have hd' : ∀ y, (tm y).isSome → U y :=
          fun y hy => hdom t id tm y hd (hu id List.mem_cons_self) he hy
        obtain ⟨a, b, c, d⟩ := ih tm t' hc' hd' (fun x hx => hu x (List.mem_cons_of_mem _ hx)) hr
        refine ⟨a, b, ?_, fun x hx => d x (hmono t id tm x he hx)⟩
        intro x hx
        rcases List.mem_cons.mp hx with rfl | hx
        · exact d _ (hdef t _ tm he)
        · exact c x hx
  have hc0 : Consistent T (fun _ => (none : Option Ty)) := by intro id ty h; cases h
  have hd0 : ∀ y, ((fun _ => (none : Option Ty)) y).isSome → U y := by intro y h; cases h
  obtain ⟨c1, d1, a1, _⟩ := run l₁ _ t₁ hc0 hd0 (fun x hx => (h₁ x).mpr hx) r₁
  obtain ⟨c2, d2, a2, _⟩ := run l₂ _ t₂ hc0 hd0 (fun x hx => (h₂ x).mpr hx) r₂
  funext x
  cases hx1 : t₁ x with
  | none =>
    cases hx2 : t₂ x with
    | none => rfl
    | some ty =>
      have : U x := d2 x (by simp [hx2])
      have := a1 x ((h₁ x).mp this)
      simp [hx1] at this
  | some ty =>
    have hU : U x := d1 x (by simp [hx1])
    have := a2 x ((h₂ x).mp hU)
    cases hx2 : t₂ x with
    | none => simp [hx2] at this
    | some ty' => rw [c1 x ty hx1, c2 x ty' hx2]

end LalrpopModel.HashOrder
