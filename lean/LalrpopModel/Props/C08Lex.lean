import LalrpopModel.Lemmas.Lex
import LalrpopModel.Props.C09
/-!
C08 (lexer part) — the built-in lexer never keeps yielding empty tokens and always terminates.

`lexer_progress`, `next_iterations_le`, `no_empty_token` are about `Lex.next`, the model of
`Matcher::next` **after the minimal fix** (every zero-length longest match is an `InvalidToken`);
`nextOrig_stuck`, `nextOrig_diverges`, `lexer_empty_token_diverges` are about `Lex.nextOrig`, the
model of the code **as found**, and document the defect (kept on purpose).
-/
namespace LalrpopModel.Lex
variable {α : Type}

/-! ## Lexer part of C08: progress and termination -/

/-- every loop iteration but the last consumes at least one byte: one call of `next` performs at
most (bytes it consumed) + 1 iterations — in particular it terminates, whatever the oracle. -/
theorem next_iterations_le (o : Oracle α) (skip : List Bool) (st : St α) :
    nextIters o skip st + (next o skip st).2.text.length ≤ st.text.length + 1 := by
  fun_induction next o skip st with
  | case1 st h => unfold nextIters; simp [h]; omega
  | case2 st h hs => unfold nextIters; simp [h, hs]; omega
  | case3 st h hs st' => unfold nextIters; simp [h, hs, st', St.advance]; omega
  | case4 st h len hs index st' hlen hsk =>
    unfold nextIters; simp [h, hs, hlen, index, hsk, st', St.advance] at *; omega
  | case5 st h len hs index st' hlen hsk ih =>
    have hne : st.text.length ≠ 0 := by
      intro h0; apply h; simp [List.length_eq_zero_iff.mp h0]
    have e1 : nextIters o skip st = 1 + nextIters o skip st' := by
      rw [nextIters]; simp [h, hs, hlen, index, hsk, st'] at *
    rw [e1]
    simp only [st', St.advance, List.length_drop] at ih ⊢
    omega
  | case6 st h len hs index st' hlen hsk =>
    unfold nextIters; simp [h, hs, hlen, index, hsk, st', St.advance] at *; omega

/-- every token the fixed lexer returns consumes at least one byte and leaves a strictly shorter
remaining text (so a parser that keeps calling `next` cannot loop on empty tokens) -/
theorem token_advances (o : Oracle α) (skip : List Bool) (st : St α) {s i e : Nat} {t : List α}
    {st' : St α} (h : next o skip st = (.tok s i t e, st')) :
    st'.text.length < st.text.length :=
  next_tok_shorter o skip st h

/-- **lexer_progress.**  For every oracle (every set of patterns, empty-matching ones included),
skip vector and input: the token stream of the fixed lexer is finite (`tokens` is a total
function), contains at most `input.length` tokens, and at most one more item (the final error). -/
theorem lexer_progress (o : Oracle α) (hd : DeadSound o) (skip : List Bool) (input : List α) :
    ((tokens o skip (init input)).filter Item.isTok).length ≤ input.length ∧
    (tokens o skip (init input)).length ≤ input.length + 1 :=
  (stream_spec o hd skip (init input)).count

/-- no item of the fixed lexer's stream is a zero-length token -/
theorem no_empty_token (o : Oracle α) (hd : DeadSound o) (skip : List Bool) (input : List α)
    (s i e : Nat) (t : List α) (h : Item.tok s i t e ∈ tokens o skip (init input)) : s < e := by
  have hs := spans_are_offsets o hd skip input
  generalize tokens o skip (init input) = items at h hs
  generalize 0 = pos at hs
  induction items generalizing pos with
  | nil => cases h
  | cons it rest ih =>
    cases it with
    | tok s' i' t' e' =>
      rcases List.mem_cons.mp h with h | h
      · cases h; exact hs.2.1
      · exact ih h _ hs.2.2.2.2
    | invalid loc =>
      rcases List.mem_cons.mp h with h | h
      · cases h
      · rw [hs.2.2] at h; cases h
    | eof => exact absurd hs id
    | panic =>
      rcases List.mem_cons.mp h with h | h
      · cases h
      · have : rest = [] := hs
        rw [this] at h; cases h

/-! ### The code as found: a non-skip pattern matching the empty string never makes progress -/

/-- **the defect, in general form.**  In the unfixed `next`, whenever the longest match at the
current position is empty and belongs to a non-skip pattern, the call returns a zero-length
token and leaves the matcher state unchanged. -/
theorem nextOrig_stuck (o : Oracle α) (hd : DeadSound o) (skip : List Bool) (st : St α)
    (hne : st.text ≠ []) (hl : IsLongest o st.text 0)
    (hsk : skip[maxIdx (o.matchSet [])]? = some false) :
    nextOrig o skip st = (.tok st.consumed (maxIdx (o.matchSet [])) [] st.consumed, st) := by
  unfold nextOrig
  have : st.text.isEmpty = false := by simpa [List.isEmpty_iff] using hne
  simp [this, scan_eq_some o hd _ _ hl, hsk, St.advance]

/-- …hence every later call returns the same empty token: the stream never ends. -/
theorem nextOrig_diverges (o : Oracle α) (hd : DeadSound o) (skip : List Bool) (st : St α)
    (hne : st.text ≠ []) (hl : IsLongest o st.text 0)
    (hsk : skip[maxIdx (o.matchSet [])]? = some false) (n : Nat) :
    iterate (nextOrig o skip) n st =
      List.replicate n (.tok st.consumed (maxIdx (o.matchSet [])) [] st.consumed) := by
  induction n with
  | zero => rfl
  | succ n ih =>
    simp only [iterate, nextOrig_stuck o hd skip st hne hl hsk, ih, List.replicate_succ]

/-- the oracle of the single pattern `a*` over the alphabet {a = 0, b = 1, …} -/
def aStar : Oracle Nat where
  matchSet p := if p.all (· == 0) then [0] else []
  dead p := !p.all (· == 0)

theorem aStar_deadSound : DeadSound aStar := by
  intro text i hi hdead k hik hk
  simp only [aStar, Bool.not_eq_eq_eq_not, Bool.not_true] at hdead
  simp only [Oracle.isMatch, aStar]
  have : (text.take k).all (· == 0) = false := by
    have hsplit := (List.take_append_drop (i + 1) (text.take k)).symm
    rw [List.take_take, Nat.min_eq_left (by omega)] at hsplit
    rw [hsplit, List.all_append, hdead]; rfl
  simp [this]

/-- **lexer_empty_token_diverges.**  There are an oracle with a sound `dead` (the pattern `a*`,
not a skip pattern) and an input (`"b"`) on which the unfixed `Matcher::next` returns the
zero-length token `(0, Token(0, ""), 0)` on every one of any number of successive calls: the
generated parser never terminates (the `S = X*; X = r"a*"` on `"b"` probe). -/
theorem lexer_empty_token_diverges :
    ∃ (o : Oracle Nat) (skip : List Bool) (input : List Nat), DeadSound o ∧
      ∀ n, iterate (nextOrig o skip) n (init input) = List.replicate n (.tok 0 0 [] 0) := by
  refine ⟨aStar, [false], [1], aStar_deadSound, ?_⟩
  intro n
  have hl : IsLongest aStar [1] 0 := by
    refine ⟨by simp, by simp [Oracle.isMatch, aStar], ?_⟩
    intro k hk hm
    simp only [List.length_singleton] at hk
    have : k = 0 ∨ k = 1 := by omega
    rcases this with rfl | rfl
    · exact Nat.le_refl _
    · simp [Oracle.isMatch, aStar] at hm
  have := nextOrig_diverges aStar aStar_deadSound [false] (init [1]) (by simp [init]) hl
    (by simp [aStar, maxIdx]) n
  simpa [init, aStar, maxIdx] using this

/-- the same input through the fixed `next`: one `InvalidToken` at offset 0, then nothing more -/
example : tokens aStar [false] (init [1]) = [.invalid 0] := by
  have h := stream_spec_unique aStar aStar_deadSound [false] (init [1]) [.invalid 0]
    (.bad _ (by simp [init]) (.inr (by
      refine ⟨by simp, by simp [Oracle.isMatch, aStar, init], ?_⟩
      intro k hk hm
      simp only [init, List.length_singleton] at hk
      have : k = 0 ∨ k = 1 := by omega
      rcases this with rfl | rfl
      · exact Nat.le_refl _
      · simp [Oracle.isMatch, aStar, init] at hm)))
  exact h.symm

end LalrpopModel.Lex
