import LalrpopModel.Props.LRTermThms
import LalrpopModel.Props.LRSoundThms
import LalrpopModel.Props.LRCompleteThms
import LalrpopModel.Props.LRGenericThms
import LalrpopModel.Props.C08Lex
/-!
C08 — Generated parsers always terminate and never panic.

The theorems deciding this property (audited by `checks/c08.py` with `#print axioms`):

* `driver_no_panic` (Props/LRSoundThms): for validated tables no Rust panic site of the driver is reachable.
* `drive_complete` + `actions_postorder_once`: on a sentence the run ends after pulling `|w|+1` items and exactly
  `nodes(t)+1` reductions (a step bound for accepted inputs).
* lexer: Props/C08Lex (`lexer_progress`, `no_empty_token`).
* termination: `driver_terminates`, `driver_terminates_recovery`, `parse_decides`, `accept_steps_exact`, `recovery_progress` (Props/LRTermThms) under the per-table executable check V7 (`validate3`).
-/
