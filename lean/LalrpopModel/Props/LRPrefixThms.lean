import LalrpopModel.Lemmas.LRPrefixExpected
import LalrpopModel.Props.C01
import LalrpopModel.Props.LRGenericThms
/-!
C04 / C05 — where syntax errors are reported, and what the `expected` lists mean.

Everything is for ARBITRARY `G T A ann` that pass the executable validator
(`validate G T A ann = true`, both halves) and, where stated, the two extra clauses of
`Model/LR/Validate.lean` that `validate` does not contain:

* V5 `checkProductive G A`: every nonterminal that occurs in a right-hand side of a production of
  a nonterminal reachable from the start production derives a terminal string, and no state of
  the automaton has an empty item set (without this C04 is false: lalrpop accepts grammars with
  unproductive nonterminals, and their parsers shift tokens that no sentence starts with);
* V6 `checkStartEof G T`: no entry of `__ACTION` reduces the start production.

Tables without error recovery (`T.usesRecovery = false`), token lists with in-range kinds
(`KindsInRange`), no failing action (`NoFail`). Proofs are in `Lemmas/LRPrefix*.lean`.

Vocabulary (`Lemmas/LRPrefixNeg.lean`): `IsSentencePrefix G S u := ∃ z, Derives G S (u ++ z)`;
`KindsPrefix G S toks := ∃ u, toks.map (·.kind) = u.map some ∧ IsSentencePrefix G S u` (a token
without kind is never part of a sentence); `KindsSentence` likewise; `mkTok a` is a token of kind
`a`, so `KindsPrefix G S (l ++ [mkTok a])` says "the kinds of `l` followed by `a` are a sentence
prefix" (`kindsPrefix_snoc`). `stackYield c.symbols` are the tokens under the symbol stack
(bottom to top): the tokens consumed so far. `errExpected e` is the `expected` field of the two
syntax errors.
-/
namespace LalrpopModel.LR
open LalrpopModel.LR.Generic LalrpopModel.LR.Prefix

section
variable {G : Grammar} {T : Tables} {A : Automaton} {ann : Ann}

/-- what the soundness half and V5 give the proofs below -/
theorem prefix_ctx (hs : validateSound G T A = true) (h5 : checkProductive G A = true) :
    Sound G T A ∧ Just G A ∧ ProdOK G A (fun B => (reachSet G).getD B false = true) := by
  have hc : checkCores G T A = true := by
    simp only [validateSound, Bool.and_eq_true] at hs
    exact hs.1.1.2
  exact ⟨sound_of_validate hs, just_of_checkCores hc, prodOK_of_check h5⟩

theorem getElem?_map_tok {toks : List Tok} {k : Nat} {tok : Tok}
    (h : (toks.map Item.tok)[k]? = some (.tok tok)) : toks[k]? = some tok := by
  rw [List.getElem?_map] at h
  cases ht : toks[k]? with
  | none => rw [ht] at h; cases h
  | some t => rw [ht] at h; simp at h; rw [h]

/-! ## 0. Prefix determinism (arbitrary tables) -/

/-- Two runs of the driver (same tables, fuels, `failAt`, start location) on inputs that share
    their first `m` items go through the same phases and the same configurations up to the
    `input` field, as long as at most `m` items have been pulled. -/
theorem prefix_determinism (T : Tables) (hrec : T.usesRecovery = false) (af : Nat) (failAt : Option Nat)
    (startLoc : Int) (I₁ I₂ : List Item) (m : Nat) (hshare : I₁.take m = I₂.take m)
    (n : Nat) (c₁ : Cfg) (ph₁ : Phase)
    (h₁ : run T af failAt startLoc n (init startLoc I₁) .pull = (c₁, ph₁)) (hle : c₁.pulled ≤ m) :
    run T af failAt startLoc n (init startLoc I₂) .pull = ({ c₁ with input := I₂.drop c₁.pulled }, ph₁) :=
  Prefix.prefix_determinism T af failAt startLoc hrec I₁ I₂ m hshare n c₁ ph₁ h₁ hle

/-! ## 1. The negative halves (completeness + determinism) -/

/-- **`UnrecognizedToken` is not reported too late.** The reported token is the last item pulled,
    `toks[k]` with `c.pulled = k + 1`, and the kinds of `toks[0..k]` (the reported token included)
    are not a prefix of any sentence. Needs the completeness half only. -/
theorem error_not_prefix (hc : validateComplete G T A ann = true) (hrec : T.usesRecovery = false)
    {S : NT} (hS : G.startSym = some S) (toks : List Tok) (failAt : Option Nat) (hf : NoFail T failAt)
    (startLoc : Int) {c : Cfg} {tok : Tok} {ex : List Term}
    (h : Returns T failAt startLoc (toks.map Item.tok) c (.err (.unrecognizedToken tok ex))) :
    ∃ k, c.pulled = k + 1 ∧ toks[k]? = some tok ∧
      ∀ u, (toks.take (k + 1)).map (·.kind) = u.map some → ¬ IsSentencePrefix G S u := by
  obtain ⟨_, h2⟩ := GenericThms.unrecognized_token_is_last_pulled T failAt startLoc _ c tok ex h
  obtain ⟨h3, h4, _⟩ := h2 hrec
  refine ⟨c.pulled - 1, by omega, getElem?_map_tok h4, ?_⟩
  intro u hu hp
  apply err_not_prefix (valid_of_validateComplete hc) hrec hS toks failAt hf startLoc h
  rw [show c.pulled = c.pulled - 1 + 1 by omega]
  exact ⟨u, hu, hp⟩

/-- `UnrecognizedEof` (indeed any error) means that the kinds of the input are not a sentence -/
theorem eof_error_not_sentence (hc : validateComplete G T A ann = true)
    {S : NT} (hS : G.startSym = some S) (toks : List Tok) (failAt : Option Nat) (hf : NoFail T failAt)
    (startLoc : Int) {c : Cfg} {loc : Int} {ex : List Term}
    (h : Returns T failAt startLoc (toks.map Item.tok) c (.err (.unrecognizedEof loc ex))) :
    ∀ w, toks.map (·.kind) = w.map some → ¬ Derives G S w := by
  intro w hw hd
  exact err_not_sentence (valid_of_validateComplete hc) hS toks failAt hf startLoc h ⟨w, hw, hd⟩

/-- **Rejected iff not a sentence**: whatever the driver returns (the model's own out-of-fuel stop
    aside), it is an error exactly when the kinds of the input are not a sentence of `S`.
    (That the driver returns at all is termination, C08, not proved here.) -/
theorem rejected_iff_not_sentence (h : validate G T A ann = true) (hrec : T.usesRecovery = false)
    {S : NT} (hS : G.startSym = some S) (toks : List Tok) (hin : KindsInRange T toks)
    (failAt : Option Nat) (hf : NoFail T failAt) (startLoc : Int) {c : Cfg} {r : Outcome}
    (hr : Returns T failAt startLoc (toks.map Item.tok) c r) (hnf : r ≠ .panic .outOfFuel) :
    (∃ e, r = .err e) ↔ ¬ KindsSentence G S toks := by
  obtain ⟨hs, hc⟩ := validate_split h
  cases r with
  | ok v =>
    obtain ⟨w, hw, hd⟩ := ok_implies_derives hs (inRange_of_kinds hin) hrec hS hr
    have : KindsSentence G S toks := ⟨w, by simpa [List.map_map, Function.comp_def, itemKind] using hw, hd⟩
    constructor
    · rintro ⟨e, he⟩; cases he
    · intro hn; exact (hn this).elim
  | err e =>
    exact ⟨fun _ => err_not_sentence (valid_of_validateComplete hc) hS toks failAt hf startLoc hr, fun _ => ⟨e, rfl⟩⟩
  | panic tag =>
    have := driver_no_panic hs (inRange_of_kinds hin) hr tag rfl
    subst this
    exact (hnf rfl).elim

/-! ## 4. No `ExtraToken` (soundness half + V6; any input, recovery on or off) -/

/-- `parse` never answers `ExtraToken` -/
theorem no_extra_token (hs : validateSound G T A = true) (h6 : checkStartEof G T = true)
    {failAt : Option Nat} {startLoc : Int} {input : List Item} {c : Cfg} {r : Outcome}
    (hr : Returns T failAt startLoc input c r) : ∀ la, r ≠ .err (.extraToken la) := by
  have Sd := sound_of_validate hs
  refine no_extra ?_ h6 hr
  intro p hp
  have hlt : p < G.prods.length := by
    rw [← Sd.isStart_len]; exact (List.getElem?_eq_some_iff.mp hp).1
  have := Sd.isStart_eq p _ (List.getElem?_eq_getElem hlt)
  rw [hp] at this
  simpa using this.symm

/-! ## 2. The consumed input is a sentence prefix (soundness half + V5) -/

/-- **Valid-prefix property.** At every non-final configuration of a run the tokens consumed so
    far (the yields of the trees on the symbol stack) are a prefix of a sentence, and together
    with the lookahead the phase holds they are exactly the tokens pulled. -/
theorem consumed_is_prefix (hs : validateSound G T A = true) (h5 : checkProductive G A = true)
    (hrec : T.usesRecovery = false) {S : NT} (hS : G.startSym = some S) (toks : List Tok)
    (hin : KindsInRange T toks) (failAt : Option Nat) (startLoc : Int) {af n : Nat} {c : Cfg} {ph : Phase}
    (hrun : run T af failAt startLoc n (init startLoc (toks.map Item.tok)) .pull = (c, ph))
    (hnd : ∀ r, ph ≠ .done r) :
    KindsPrefix G S (stackYield c.symbols) ∧ stackYield c.symbols ++ phaseToks ph = toks.take c.pulled := by
  obtain ⟨Sd, J, P⟩ := prefix_ctx hs h5
  have hnd' : phDone ph = false := by
    cases ph with
    | done r => exact (hnd r rfl).elim
    | _ => rfl
  obtain ⟨⟨Xs, hp, ht⟩, hy⟩ := reach_stack (G := G) Sd hrec (inRange_of_kinds hin) hrun hnd'
  refine ⟨stack_kindsPrefix Sd J P hS hp ht, ?_⟩
  have hio := ioinv_of_run (T := T) (startLoc := startLoc) hrun
  rw [hio.inp] at hy
  exact held_eq_take hy

/-- **C04, `UnrecognizedToken`.** The error names `toks[k]` itself (so with its own span), it is
    the last item pulled (`c.pulled = k + 1`: nothing beyond it was read), `toks[0..k)` — exactly
    the tokens on the stack — is a prefix of a sentence, and `toks[0..k]` is not. -/
theorem error_at_first_bad_token (h : validate G T A ann = true) (h5 : checkProductive G A = true)
    (hrec : T.usesRecovery = false) {S : NT} (hS : G.startSym = some S) (toks : List Tok)
    (hin : KindsInRange T toks) (failAt : Option Nat) (hf : NoFail T failAt) (startLoc : Int)
    {c : Cfg} {tok : Tok} {ex : List Term}
    (hr : Returns T failAt startLoc (toks.map Item.tok) c (.err (.unrecognizedToken tok ex))) :
    ∃ k, c.pulled = k + 1 ∧ toks[k]? = some tok ∧
      KindsPrefix G S (toks.take k) ∧ ¬ KindsPrefix G S (toks.take (k + 1)) ∧
      stackYield c.symbols = toks.take k := by
  obtain ⟨hs, hc⟩ := validate_split h
  obtain ⟨Sd, J, P⟩ := prefix_ctx hs h5
  obtain ⟨_, h2⟩ := GenericThms.unrecognized_token_is_last_pulled T failAt startLoc _ c tok ex hr
  obtain ⟨h3, h4, h5'⟩ := h2 hrec
  obtain ⟨k, hk⟩ : ∃ k, c.pulled = k + 1 := ⟨c.pulled - 1, by omega⟩
  have htok : toks[k]? = some tok := by
    apply getElem?_map_tok
    rw [← h4, hk]; rfl
  obtain ⟨Xs, hp, ht, _⟩ := final_stack (G := G) Sd hrec (inRange_of_kinds hin) hr (ex := ex) rfl
  have hyield : stackYield c.symbols = toks.take k := by
    rw [← stackYield_eq_flatten, ← List.map_take, toksOf_map_tok, hk, List.take_add_one, htok] at h5'
    exact List.append_cancel_right h5'
  refine ⟨k, hk, htok, ?_, ?_, hyield⟩
  · rw [← hyield]; exact stack_kindsPrefix Sd J P hS hp ht
  · rw [← hk]
    exact err_not_prefix (valid_of_validateComplete hc) hrec hS toks failAt hf startLoc hr

/-- … hence `k` is THE position of the first bad token: `toks[0..j)` is a sentence prefix
    exactly for `j ≤ k` (the shortest prefix that is not a sentence prefix is `toks[0..k]`). -/
theorem first_bad_token_unique (h : validate G T A ann = true) (h5 : checkProductive G A = true)
    (hrec : T.usesRecovery = false) {S : NT} (hS : G.startSym = some S) (toks : List Tok)
    (hin : KindsInRange T toks) (failAt : Option Nat) (hf : NoFail T failAt) (startLoc : Int)
    {c : Cfg} {tok : Tok} {ex : List Term}
    (hr : Returns T failAt startLoc (toks.map Item.tok) c (.err (.unrecognizedToken tok ex))) :
    ∀ j, KindsPrefix G S (toks.take j) ↔ j + 1 ≤ c.pulled := by
  obtain ⟨k, hk, _, hpos, hneg, _⟩ := error_at_first_bad_token h h5 hrec hS toks hin failAt hf startLoc hr
  intro j
  constructor
  · intro hj
    apply Nat.le_of_not_lt
    intro hlt
    exact hneg (KindsPrefix.of_take_le (by omega) hj)
  · intro hj
    exact KindsPrefix.of_take_le (by omega) hpos

/-- **C04, `UnrecognizedEof`.** Every prefix of the input is a prefix of a sentence, the input is
    not a sentence, the location is the end of the last token (`startLoc` for the empty input), the
    whole input and the end-of-input probe were pulled, and all tokens are on the stack. -/
theorem eof_error (h : validate G T A ann = true) (h5 : checkProductive G A = true)
    (hrec : T.usesRecovery = false) {S : NT} (hS : G.startSym = some S) (toks : List Tok)
    (hin : KindsInRange T toks) (failAt : Option Nat) (hf : NoFail T failAt) (startLoc : Int)
    {c : Cfg} {loc : Int} {ex : List Term}
    (hr : Returns T failAt startLoc (toks.map Item.tok) c (.err (.unrecognizedEof loc ex))) :
    (∀ j, KindsPrefix G S (toks.take j)) ∧ ¬ KindsSentence G S toks ∧
      loc = (match toks.getLast? with
        | some t => t.r
        | none => startLoc) ∧
      c.pulled = toks.length + 1 ∧ stackYield c.symbols = toks := by
  obtain ⟨hs, hc⟩ := validate_split h
  obtain ⟨Sd, J, P⟩ := prefix_ctx hs h5
  obtain ⟨h1, _, h3, h4⟩ := GenericThms.unrecognized_eof_location T failAt startLoc _ c loc ex hr
  have hy := h4 hrec
  rw [← stackYield_eq_flatten, toksOf_map_tok] at hy
  obtain ⟨Xs, hp, ht, _⟩ := final_stack (G := G) Sd hrec (inRange_of_kinds hin) hr (ex := ex) rfl
  have hpre : KindsPrefix G S toks := hy ▸ stack_kindsPrefix Sd J P hS hp ht
  refine ⟨fun j => hpre.take j, ?_, ?_, by simpa using h1, hy⟩
  · exact err_not_sentence (valid_of_validateComplete hc) hS toks failAt hf startLoc hr
  · rw [toksOf_map_tok] at h3; exact h3

/-! ## 3. C05: the `expected` lists -/

/-- **C05 soundness.** Every terminal `a` listed in the `expected` field of `UnrecognizedToken` /
    `UnrecognizedEof` is a valid continuation: the tokens consumed (those on the stack) followed
    by `a` are a prefix of a sentence. Needs the soundness half, V5 and V6. -/
theorem expected_sound (hs : validateSound G T A = true) (h5 : checkProductive G A = true)
    (h6 : checkStartEof G T = true) (hrec : T.usesRecovery = false) {S : NT} (hS : G.startSym = some S)
    (toks : List Tok) (hin : KindsInRange T toks) (failAt : Option Nat) (startLoc : Int)
    {c : Cfg} {e : PErr} {ex : List Term}
    (hr : Returns T failAt startLoc (toks.map Item.tok) c (.err e)) (he : errExpected e = some ex) :
    ∀ a ∈ ex, KindsPrefix G S (stackYield c.symbols ++ [mkTok a]) := by
  obtain ⟨Sd, J, P⟩ := prefix_ctx hs h5
  obtain ⟨Xs, hp, ht, af, hex⟩ := final_stack (G := G) Sd hrec (inRange_of_kinds hin) hr he
  intro a ha
  exact expected_sound_stack Sd J P hS (checkStartEof_spec h6) hp ht hex a ha

/-- C05 soundness for `UnrecognizedToken` at position `k`, in terms of the input -/
theorem expected_sound_token (h : validate G T A ann = true) (h5 : checkProductive G A = true)
    (h6 : checkStartEof G T = true) (hrec : T.usesRecovery = false) {S : NT} (hS : G.startSym = some S)
    (toks : List Tok) (hin : KindsInRange T toks) (failAt : Option Nat) (hf : NoFail T failAt)
    (startLoc : Int) {c : Cfg} {tok : Tok} {ex : List Term}
    (hr : Returns T failAt startLoc (toks.map Item.tok) c (.err (.unrecognizedToken tok ex))) :
    ∃ k, c.pulled = k + 1 ∧ ∀ a ∈ ex, ∃ u, (toks.take k).map (·.kind) = u.map some ∧
      IsSentencePrefix G S (u ++ [a]) := by
  obtain ⟨k, hk, _, _, _, hy⟩ := error_at_first_bad_token h h5 hrec hS toks hin failAt hf startLoc hr
  refine ⟨k, hk, fun a ha => ?_⟩
  have := expected_sound (validate_split h).1 h5 h6 hrec hS toks hin failAt startLoc hr (ex := ex) rfl a ha
  rw [hy] at this
  exact kindsPrefix_snoc.mp this

/-- C05 soundness for `UnrecognizedEof`, in terms of the input -/
theorem expected_sound_eof (h : validate G T A ann = true) (h5 : checkProductive G A = true)
    (h6 : checkStartEof G T = true) (hrec : T.usesRecovery = false) {S : NT} (hS : G.startSym = some S)
    (toks : List Tok) (hin : KindsInRange T toks) (failAt : Option Nat) (hf : NoFail T failAt)
    (startLoc : Int) {c : Cfg} {loc : Int} {ex : List Term}
    (hr : Returns T failAt startLoc (toks.map Item.tok) c (.err (.unrecognizedEof loc ex))) :
    ∀ a ∈ ex, ∃ u, toks.map (·.kind) = u.map some ∧ IsSentencePrefix G S (u ++ [a]) := by
  obtain ⟨_, _, _, _, hy⟩ := eof_error h h5 hrec hS toks hin failAt hf startLoc hr
  intro a ha
  have := expected_sound (validate_split h).1 h5 h6 hrec hS toks hin failAt startLoc hr (ex := ex) rfl a ha
  rw [hy] at this
  exact kindsPrefix_snoc.mp this

/-- the list is strictly increasing, hence duplicate-free, and names terminals of `__TERMINAL`
    only (corollary of `GenericThms.expected_nodup_sorted`) -/
theorem expected_nodup (hs : validateSound G T A = true) (hrec : T.usesRecovery = false)
    (toks : List Tok) (hin : KindsInRange T toks) (failAt : Option Nat) (startLoc : Int)
    {c : Cfg} {e : PErr} {ex : List Term}
    (hr : Returns T failAt startLoc (toks.map Item.tok) c (.err e)) (he : errExpected e = some ex) :
    ex.Pairwise (fun (a b : Nat) => a < b) ∧ ex.Nodup ∧ ∀ x : Nat, x ∈ ex → x < T.nRepr := by
  obtain ⟨Xs, hp, ht, af, hex⟩ :=
    final_stack (G := G) (sound_of_validate hs) hrec (inRange_of_kinds hin) hr he
  obtain ⟨h1, h2, h3, _⟩ := GenericThms.expected_nodup_sorted T af c.states ex hex
  exact ⟨h1, h2, h3⟩

/-- the error-recovery pseudo-terminal (the last terminal, present when recovery is on) is never
    listed, whatever the stack (restatement of `GenericThms.expected_nodup_sorted`) -/
theorem expected_excludes_error (T : Tables) (af : Nat) (states : List Nat) (ex : List Term)
    (h : expected T af states = .ok ex) (hrec : T.usesRecovery = true) : T.nTerm - 1 ∉ ex :=
  (GenericThms.expected_nodup_sorted T af states ex h).2.2.2 hrec

/-! ### completeness of the list

Full statement (NOT proved; it needs exact LR(1) lookaheads, i.e. a validator clause saying that
every reduce entry `ACTION[s, a] = reduce p` has an LR(1) item `[p, |rhs p|, a]` that is valid —
over rightmost derivations — for every stack reaching `s`, which the lane-table and LALR
constructions do not satisfy):

  theorem expected_complete_canonical (h : validate G T A ann = true) (hcanon : CanonicalLR1 G T A)
      … (hr : Returns T failAt startLoc (toks.map Item.tok) c (.err e)) (he : errExpected e = some ex) :
      ∀ a, a < T.nRepr → KindsPrefix G S (stackYield c.symbols ++ [mkTok a]) → a ∈ ex

What is proved, for EVERY validated table:
(a) `expected_mem_iff_accepts`: the list is exactly what `accepts` answers on the stack as it is
    when the error is detected;
(b) `expected_complete_if_stack_unchanged`: if that stack is the one the parser had when it
    pulled the offending token (resp. saw the end of input), every valid continuation is listed;
(c) `expected_complete_no_reduction`: in particular when the error is raised in the step right
    after that pull, i.e. when no reduction was performed under the offending lookahead.
Canonical LR(1) tables never reduce under a lookahead that cannot follow, which is the missing
link (`canonical ⇒ hypothesis of (c)`); with merged lookaheads (LALR, lane table) the parser may
reduce first, and a valid continuation of the consumed input may then be missing from the list.
-/

/-- (a) the list is what `accepts` says about the stack at the moment of the error -/
theorem expected_mem_iff_accepts (hs : validateSound G T A = true) (hrec : T.usesRecovery = false)
    (toks : List Tok) (hin : KindsInRange T toks) (failAt : Option Nat) (startLoc : Int)
    {c : Cfg} {e : PErr} {ex : List Term}
    (hr : Returns T failAt startLoc (toks.map Item.tok) c (.err e)) (he : errExpected e = some ex) :
    ∃ af, ∀ a : Nat, a ∈ ex ↔ (a < T.nRepr ∧ accepts T af c.states (some a) = .ok true) := by
  obtain ⟨Xs, hp, ht, af, hex⟩ :=
    final_stack (G := G) (sound_of_validate hs) hrec (inRange_of_kinds hin) hr he
  exact ⟨af, GenericThms.expected_mem_iff T af c.states ex hex⟩

/-- (b) **C05 completeness, partial.** If the state stack at the moment of the error is the one
    the parser had in some configuration `c₀` in which it was about to pull (so `c₀.pulled` tokens
    were consumed), then every terminal `a` of `__TERMINAL` such that those tokens followed by `a`
    are a prefix of a sentence is listed. -/
theorem expected_complete_if_stack_unchanged (h : validate G T A ann = true) (hrec : T.usesRecovery = false)
    {S : NT} (hS : G.startSym = some S) (toks : List Tok) (hin : KindsInRange T toks)
    (failAt : Option Nat) (hf : NoFail T failAt) (startLoc : Int) {c : Cfg} {e : PErr} {ex : List Term}
    (hr : Returns T failAt startLoc (toks.map Item.tok) c (.err e)) (he : errExpected e = some ex)
    {af n₀ : Nat} {c₀ : Cfg}
    (hpull : run T af failAt startLoc n₀ (init startLoc (toks.map Item.tok)) .pull = (c₀, .pull))
    (hst : c₀.states = c.states) :
    ∀ a : Nat, a < T.nRepr → KindsPrefix G S (toks.take c₀.pulled ++ [mkTok a]) → a ∈ ex := by
  obtain ⟨hs, hc⟩ := validate_split h
  obtain ⟨Xs, hp, ht, af₁, hex⟩ :=
    final_stack (G := G) (sound_of_validate hs) hrec (inRange_of_kinds hin) hr he
  intro a ha hpre
  obtain ⟨af', hacc⟩ := accepts_of_continuation (valid_of_validateComplete hc) hrec hS toks failAt hf
    startLoc hpull a hpre
  rw [hst] at hacc
  exact expected_complete_stack hex ha hacc

/-- (c) … in particular when the error is raised by the step right after the pull of the offending
    item (or by that pull itself): no reduction was performed under the offending lookahead. -/
theorem expected_complete_no_reduction (h : validate G T A ann = true) (hrec : T.usesRecovery = false)
    {S : NT} (hS : G.startSym = some S) (toks : List Tok) (hin : KindsInRange T toks)
    (failAt : Option Nat) (hf : NoFail T failAt) (startLoc : Int) {c : Cfg} {e : PErr} {ex : List Term}
    (he : errExpected e = some ex) {af n₀ : Nat} {c₀ : Cfg}
    (h₀ : run T af failAt startLoc n₀ (init startLoc (toks.map Item.tok)) .pull = (c₀, .pull))
    (h₂ : run T af failAt startLoc (n₀ + 2) (init startLoc (toks.map Item.tok)) .pull = (c, .done (.err e))) :
    ∀ a : Nat, a < T.nRepr → KindsPrefix G S (toks.take c₀.pulled ++ [mkTok a]) → a ∈ ex :=
  expected_complete_if_stack_unchanged h hrec hS toks hin failAt hf startLoc ⟨_, _, h₂⟩ he h₀
    (states_of_error_after_pull hrec h₀ h₂ he).symm

end

/-! ## The hypotheses are satisfiable

The grammar `E → "(" E ")" | ε` of `Props/LRCompleteThms.lean` (a real lalrpop automaton). -/
namespace PrefixExample

theorem ex_validate : validate CompleteExample.exG CompleteExample.exT CompleteExample.exA CompleteExample.exAnn = true := by decide
theorem ex_v5 : checkProductive CompleteExample.exG CompleteExample.exA = true := by decide
theorem ex_v6 : checkStartEof CompleteExample.exG CompleteExample.exT = true := by decide
example : CompleteExample.exT.usesRecovery = false := rfl
example : CompleteExample.exG.startSym = some 0 := by decide
example : NoFail CompleteExample.exT none := Or.inl rfl

def lp (id : Nat) : Tok := ⟨id, some 0, id, id + 1⟩
def rp (id : Nat) : Tok := ⟨id, some 1, id, id + 1⟩

/-- `( ) )`: `UnrecognizedToken` at the third token, nothing expected (only the end of input fits) -/
theorem ex_token_error : ∃ c, Returns CompleteExample.exT none 0 ([lp 0, rp 1, rp 2].map Item.tok) c
    (.err (.unrecognizedToken (rp 2) [])) := ⟨_, 40, 10, rfl⟩

/-- `( (`: `UnrecognizedEof` at the end of the second token; both `(` and `)` continue the input -/
theorem ex_eof_error : ∃ c, Returns CompleteExample.exT none 0 ([lp 0, lp 1].map Item.tok) c
    (.err (.unrecognizedEof 2 [0, 1])) := ⟨_, 40, 10, rfl⟩

/-- a non-final configuration (hypotheses of `consumed_is_prefix`) -/
example : ∃ c, run CompleteExample.exT 10 none 0 3 (init 0 ([lp 0, rp 1, rp 2].map Item.tok)) .pull = (c, .act (rp 1) 1) :=
  ⟨_, rfl⟩

/-- hypotheses of `expected_complete_no_reduction`: on `)` the error is raised in the step right
    after the pull, and the list `[ "(" ]` is complete (the empty input is a sentence, `(` continues it) -/
example : ∃ c₀ c, run CompleteExample.exT 10 none 0 0 (init 0 ([rp 0].map Item.tok)) .pull = (c₀, .pull) ∧
    run CompleteExample.exT 10 none 0 2 (init 0 ([rp 0].map Item.tok)) .pull = (c, .done (.err (.unrecognizedToken (rp 0) [0]))) :=
  ⟨_, _, rfl, rfl⟩

theorem ex_inRange : KindsInRange CompleteExample.exT [lp 0, rp 1, rp 2] := by
  intro t ht k hk
  simp only [List.mem_cons, List.not_mem_nil, or_false] at ht
  rcases ht with rfl | rfl | rfl <;> cases hk <;> decide

/-- the theorems at work on `( ) )`: some `k` splits the input into a sentence prefix and a first
    bad token, and nothing is expected at that point but the end of input -/
example : ∃ k, KindsPrefix CompleteExample.exG 0 ([lp 0, rp 1, rp 2].take k) ∧
    ¬ KindsPrefix CompleteExample.exG 0 ([lp 0, rp 1, rp 2].take (k + 1)) := by
  obtain ⟨c, hc⟩ := ex_token_error
  obtain ⟨k, _, _, hpos, hneg, _⟩ := error_at_first_bad_token ex_validate ex_v5 rfl (S := 0) (by decide)
    [lp 0, rp 1, rp 2] ex_inRange none (Or.inl rfl) 0 hc
  exact ⟨k, hpos, hneg⟩

example : ∀ c r, Returns CompleteExample.exT none 0 ([lp 0, rp 1, rp 2].map Item.tok) c r →
    ∀ la, r ≠ .err (.extraToken la) :=
  fun _ _ hr => no_extra_token (validate_split ex_validate).1 ex_v6 hr

end PrefixExample

end LalrpopModel.LR
