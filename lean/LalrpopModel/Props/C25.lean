import LalrpopModel.Lemmas.Hyg
import LalrpopModel.Gen.HygFacts
/-!
C25 — generated code is hygienic: renaming user identifiers changes nothing.

Theorems about `Model/Hyg.lean`: the prefix chosen by `parse_grammar` occurs nowhere in the grammar
text, hence every name of the form `{prefix}…` differs from every identifier the user wrote, and an
injective renaming of the user's identifiers extends to a bijection between the names of the two
generated programs.  The one derived name that is built WITHOUT the prefix — the precedence tiers
`{N}{level}` — is not protected: `level_name_collision`.
-/
namespace LalrpopModel.Hyg

/-- **`prefix_fresh`**: the prefix `parse_grammar` settles on is `__`, `___`, … and is not a
    substring of the grammar text. -/
theorem prefix_fresh (input : List Char) :
    contains input (choosePrefix input) = false ∧ ∃ k, choosePrefix input = List.replicate (k + 2) '_' := by
  refine ⟨growPrefix_fresh _ _ _ (by simp; omega), ?_⟩
  obtain ⟨k, hk⟩ := growPrefix_shape (input.length + 1) input ['_', '_']
  exact ⟨k, by rw [choosePrefix, hk]; simp [List.replicate_succ]⟩

/-- …hence not a substring of anything that occurs in the text, in particular of no user identifier. -/
theorem prefix_not_in_user_ident (input u : List Char) (hu : contains input u = true) :
    contains u (choosePrefix input) = false := by
  cases h : contains u (choosePrefix input) with
  | false => rfl
  | true =>
    have := contains_trans input u _ hu h
    rw [(prefix_fresh input).1] at this
    exact absurd this (by simp)

/-- **`prefixed_names_disjoint`**: no identifier occurring in the grammar text equals a generated
    name `{prefix}{suffix}`, whatever the suffix (`0`, `action1`, `Symbol`, `lalrpop_util`, …). -/
theorem prefixed_names_disjoint (input u suffix : List Char) (hu : contains input u = true) :
    u ≠ choosePrefix input ++ suffix := by
  intro h
  have h1 := prefix_not_in_user_ident input u hu
  rw [h, contains_append_left] at h1
  exact absurd h1 (by simp)

/-- the names of a generated program, abstractly: the user's identifiers and the names LALRPOP derives
    by putting the prefix in front of a suffix of its own -/
inductive AName
  | user (u : List Char)
  | derived (suffix : List Char)
  deriving DecidableEq, Repr

/-- the concrete identifier -/
def realize (prefix_ : List Char) : AName → List Char
  | .user u => u
  | .derived s => prefix_ ++ s

/-- a user name must occur in the grammar text; derived names are unconstrained -/
def occurs (input : List Char) : AName → Prop
  | .user u => contains input u = true
  | .derived _ => True

/-- distinct abstract names are distinct identifiers: no capture -/
theorem realize_injective (input : List Char) (a b : AName) (ha : occurs input a) (hb : occurs input b)
    (h : realize (choosePrefix input) a = realize (choosePrefix input) b) : a = b := by
  cases a with
  | user u =>
    cases b with
    | user v => simpa [realize] using h
    | derived s => exact absurd h (prefixed_names_disjoint input u s ha)
  | derived s =>
    cases b with
    | user v => exact absurd h.symm (prefixed_names_disjoint input v s hb)
    | derived t => simpa [realize] using h

/-- renaming the user part of a name -/
def mapName (ρ : List Char → List Char) : AName → AName
  | .user u => .user (ρ u)
  | .derived s => .derived s

/-- **`rename_commutes_prefixed`**: let `ρ` rename the user identifiers of grammar text `input₁`
    injectively into identifiers that occur in the renamed text `input₂` (the prefixes of the two may
    differ).  Then two names of the first generated program are the same identifier exactly when
    their images are the same identifier in the second: generating names commutes with renaming, so
    the two programs are α-equivalent as far as `{prefix}…` names are concerned. -/
theorem rename_commutes_prefixed (input₁ input₂ : List Char) (ρ : List Char → List Char)
    (hinj : ∀ u v, contains input₁ u = true → contains input₁ v = true → ρ u = ρ v → u = v)
    (hocc : ∀ u, contains input₁ u = true → contains input₂ (ρ u) = true)
    (a b : AName) (ha : occurs input₁ a) (hb : occurs input₁ b) :
    realize (choosePrefix input₁) a = realize (choosePrefix input₁) b ↔
      realize (choosePrefix input₂) (mapName ρ a) = realize (choosePrefix input₂) (mapName ρ b) := by
  have ha2 : occurs input₂ (mapName ρ a) := by
    cases a with
    | user u => exact hocc u ha
    | derived s => trivial
  have hb2 : occurs input₂ (mapName ρ b) := by
    cases b with
    | user u => exact hocc u hb
    | derived s => trivial
  constructor
  · intro h
    rw [realize_injective input₁ a b ha hb h]
  · intro h
    have hm := realize_injective input₂ _ _ ha2 hb2 h
    have : a = b := by
      cases a with
      | user u =>
        cases b with
        | user v =>
          simp only [mapName, AName.user.injEq] at hm
          rw [hinj u v ha hb hm]
        | derived s => simp [mapName] at hm
      | derived s =>
        cases b with
        | user v => simp [mapName] at hm
        | derived t => simpa [mapName] using hm
    rw [this]

/-- the hypotheses are satisfiable: text `E:T;` renamed to `__0:E1;` (prefix `__` becomes `___`) -/
example : choosePrefix ['E', ':', 'T', ';'] = ['_', '_'] ∧
    choosePrefix ['_', '_', '0', ':', 'E', '1', ';'] = ['_', '_', '_'] ∧
    contains ['E', ':', 'T', ';'] ['E'] = true ∧ contains ['_', '_', '0', ':', 'E', '1', ';'] ['_', '_', '0'] = true := by
  decide

/-- anonymous bindings: `fresh_name(i)` is a prefixed name -/
theorem fresh_name_prefixed (input : List Char) (i : Nat) (u : List Char) (hu : contains input u = true) :
    u ≠ freshName (choosePrefix input) i :=
  prefixed_names_disjoint input u (natDigits i) hu

/-! ### the unprotected name -/

/-- tier names carry no prefix: below the top level they are just the user's name followed by the level -/
theorem tier_name_unprefixed (name : List Char) (lvl lvlMax : Nat) (h : lvl ≠ lvlMax) :
    tierName name lvl lvlMax = name ++ natDigits lvl := by
  simp [tierName, h]

/-- **`level_name_collision`**: nonterminal `E` with precedence levels 1 and 2 is expanded to rules
    `E1` and `E`.  With a further user nonterminal called `Helper` all rule names are distinct; after
    the injective, keyword-free renaming `Helper ↦ E1` two rules are called `E1`. -/
theorem level_name_collision :
    hasDup (expandNames [(['E'], [1, 2]), (['N', 'u', 'm'], []), (['H', 'e', 'l', 'p', 'e', 'r'], [])]) = false ∧
    hasDup (expandNames [(['E'], [1, 2]), (['N', 'u', 'm'], []), (['E', '1'], [])]) = true ∧
    expandNames [(['E'], [1, 2]), (['N', 'u', 'm'], []), (['E', '1'], [])] =
      [['E', '1'], ['E'], ['N', 'u', 'm'], ['E', '1']] := by
  decide

/-! ### what the source says (regenerated tables) -/

/-- the name schemes the model mirrors are the ones in the source: the `while input.contains(prefix)`
    loop starting from `__`, `fresh_name` = `{prefix}{i}`, tier names `{N}` / `{N}{level}` -/
theorem source_name_schemes :
    Gen.prefixLoopFound = true ∧ Gen.initialPrefix = ['_', '_'] ∧ Gen.freshNameFmt = ['{', '}', '{', '}'] ∧
    Gen.tierTopFmt = ['{', '}'] ∧ Gen.tierFmt = ['{', '}', '{', '}'] := by decide

/-- **the names the generated module binds without the prefix** (`use` / `extern crate` emissions of the
    code generators): `Token` (the built-in lexer's token type, imported twice) and the crate `alloc`.
    `prefixed_names_disjoint` does not protect them: a user binding, grammar parameter or type
    parameter called `Token` is accepted and the output does not compile (reproduced by the check). -/
theorem unprefixed_bound_names :
    (Gen.boundNames.filter (·.kind == "unprefixed")).map (·.name) =
      [['T', 'o', 'k', 'e', 'n'], ['T', 'o', 'k', 'e', 'n'], ['a', 'l', 'l', 'o', 'c']] := by decide

end LalrpopModel.Hyg
