import LalrpopModel.Lemmas.ReLit
/-!
# C10 — literal and regex terminals match exactly their language

A quoted terminal `"s"` of a grammar travels through a chain of escaping layers before it is
matched at run time:

  `s` → `regex_syntax::escape` → regex parser → HIR → `Display` → `{:?}` quoting into the generated
  source → rustc's string-literal lexer → runtime regex engine.

The theorems below say that, on the model of `Model/ReLit.lean` + `Model/Re.lean`, every layer that
is lalrpop's or the Rust language's own is the identity on the *language*:

* `utf8_roundtrip` — `Hir::literal` stores UTF-8 bytes; strict decoding gives the scalar values back;
* `escape_parse` — the literal fragment of the regex parser reads `escape s` back as `s`;
* `literal_roundtrip` — hence the HIR of `"s"` denotes exactly the one string `s`
  (scalar-value reading, i.e. the runtime reading);
* `hex_roundtrip`, `debug_quote_roundtrip` — the `{:?}` rendering of a regex string, pasted between
  quotes into generated Rust source, is lexed by rustc back into exactly that string, whatever set
  of characters the standard library chooses to render as `\u{…}` (`uni` is universally quantified).

* `escape_injective`, `debug_quote_injective`, `literal_languages_disjoint` — no two different literals share an
  escaped text, a `{:?}` rendering, or a matched input.

NOT proved here (covered by differential testing against the real crates instead):

  `rerender_preserves_language_partial` — for a general regex `r`,
  the language of `parse_regex(r)` equals the language of `parse_regex(format!("{hir}"))`
  where `hir = parse_regex(r)`.
  regex-syntax's printer and parser are third-party code that is not modelled; there is no theorem.
-/
namespace LalrpopModel.ReLit
open LalrpopModel.Re

/-- **utf8_roundtrip.** UTF-8 encoding followed by strict decoding is the identity on lists of
Unicode scalar values. -/
theorem utf8_roundtrip (cs : List Nat) (h : ∀ c, c ∈ cs → isScalar c = true) :
    decodeUtf8 (encodeUtf8 cs) = some cs := by
  induction cs with
  | nil => simp [encodeUtf8, decodeUtf8]
  | cons c cs ih =>
    have hc := h c List.mem_cons_self
    have ih' := ih (fun x hx => h x (List.mem_cons_of_mem _ hx))
    unfold encodeUtf8 at ih' ⊢
    rw [List.flatMap_cons, decode_encodeChar c hc, ih']
    rfl

/-- **escape_parse.** The literal fragment of the regex parser reads `regex_syntax::escape s` back
as `s` — for every string, no side condition. -/
theorem escape_parse (s : List Nat) : parseLitChars (escape s) = some s := by
  induction s with
  | nil => simp [escape, parseLitChars]
  | cons c cs ih =>
    unfold escape
    cases hm : isMeta c with
    | true => simp only [if_true]; rw [parseLitChars_escaped c _ hm, ih]; rfl
    | false =>
      simp only [Bool.false_eq_true, if_false]
      rw [parseLitChars_plain c _ hm, ih]; rfl

/-- **literal_roundtrip.** `parse_literal(s)` succeeds and its HIR denotes (scalar-value reading)
exactly the one string `s`. -/
theorem literal_roundtrip (s : List Nat) (h : ∀ c, c ∈ s → isScalar c = true) :
    ∃ hir, parseLiteral s = some hir ∧ ∀ w, denote .chars hir w ↔ w = s := by
  unfold parseLiteral parseLit
  rw [escape_parse s]
  refine ⟨_, rfl, ?_⟩
  intro w
  cases s with
  | nil => simp [denote]
  | cons c cs =>
    simp only [List.isEmpty_cons, Bool.false_eq_true, if_false, denote, litSymbols]
    rw [utf8_roundtrip _ h]
    constructor
    · intro e; exact (Option.some.inj e).symm
    · intro e; rw [e]

/-- **hex_roundtrip.** The digits `toHex` writes inside `\u{…}`, followed by the closing brace, are
read back by `readHex` (fuel 7: at most six digits and the brace) as the same number. -/
theorem hex_roundtrip (n : Nat) (hn : n < 0x110000) (rest : List Nat) :
    readHex 7 (toHex n ++ 125 :: rest) 0 = some (n, rest) :=
  readHex_toHex n (by omega) rest

/-- **debug_quote_roundtrip.** Rust's `{:?}` quoting of a string of scalar values, followed by the
closing quote and anything at all, is lexed back as exactly that string, stopping at that closing
quote — for every choice `uni` of which characters are rendered as `\u{…}`. -/
theorem debug_quote_roundtrip (uni : Nat → Bool) (s rest : List Nat)
    (h : ∀ c, c ∈ s → isScalar c = true) (f : Nat) (hf : (escDebug uni s).length < f) :
    readStrLit f (escDebug uni s ++ 34 :: rest) = some (s, rest) := by
  induction s generalizing f with
  | nil =>
    obtain ⟨f', rfl⟩ : ∃ f', f = f' + 1 := ⟨f - 1, by omega⟩
    simp [escDebug, readStrLit]
  | cons c cs ih =>
    have hc := h c List.mem_cons_self
    have hpos := escDebugChar_length_pos uni c
    unfold escDebug at hf ih ⊢
    rw [List.flatMap_cons, List.length_append] at hf
    obtain ⟨f', rfl⟩ : ∃ f', f = f' + 1 := ⟨f - 1, by omega⟩
    rw [List.flatMap_cons, List.append_assoc, readStrLit_escDebugChar uni c hc,
      ih (fun x hx => h x (List.mem_cons_of_mem _ hx)) f' (by omega)]
    rfl

/-! ### distinct terminals stay distinct through every layer -/

/-- **escape_injective.** Two different literals never get the same regex text. -/
theorem escape_injective (s t : List Nat) (h : escape s = escape t) : s = t := by
  have hs := escape_parse s
  rw [h, escape_parse t] at hs
  exact (Option.some.inj hs).symm

/-- **literal_languages_disjoint.** The HIRs of two different quoted terminals have disjoint
languages: no input is matched by both (so the lexer never confuses `"s"` with `"t"`). -/
theorem literal_languages_disjoint (s t : List Nat) (hs : ∀ c, c ∈ s → isScalar c = true)
    (ht : ∀ c, c ∈ t → isScalar c = true) (hne : s ≠ t) (h₁ h₂ : Hir)
    (e₁ : parseLiteral s = some h₁) (e₂ : parseLiteral t = some h₂) (w : List Nat) :
    ¬ (denote .chars h₁ w ∧ denote .chars h₂ w) := by
  obtain ⟨a, ea, ha⟩ := literal_roundtrip s hs
  obtain ⟨b, eb, hb⟩ := literal_roundtrip t ht
  rw [e₁] at ea; rw [e₂] at eb
  cases Option.some.inj ea; cases Option.some.inj eb
  rintro ⟨d₁, d₂⟩
  exact hne (((ha w).mp d₁).symm.trans ((hb w).mp d₂))

/-- **debug_quote_injective.** The `{:?}` text written into the generated source determines the
regex string: two different strings never share a rendering, whatever `uni` is. -/
theorem debug_quote_injective (uni : Nat → Bool) (s t : List Nat)
    (hs : ∀ c, c ∈ s → isScalar c = true) (ht : ∀ c, c ∈ t → isScalar c = true)
    (h : escDebug uni s = escDebug uni t) : s = t := by
  have a := debug_quote_roundtrip uni s [] hs ((escDebug uni s).length + 1) (by omega)
  have b := debug_quote_roundtrip uni t [] ht ((escDebug uni s).length + 1) (by rw [h]; omega)
  rw [h] at a b
  rw [b] at a
  exact ((Prod.mk.inj (Option.some.inj a)).1).symm

example : ¬ (denote .chars (Option.get! (parseLiteral [97, 43])) [97, 43] ∧
    denote .chars (Option.get! (parseLiteral [97])) [97, 43]) := by
  intro h
  obtain ⟨a, ea, ha⟩ := literal_roundtrip [97] (by decide)
  have : Option.get! (parseLiteral [97]) = a := by rw [ea]; rfl
  rw [this] at h
  exact absurd ((ha _).mp h.2) (by decide)


/-! ### the hypotheses are satisfiable -/

example : isScalar 0xE9 = true := by decide
example : isScalar 0x1F600 = true := by decide
example : ∀ c, c ∈ [97, 43, 0xE9] → isScalar c = true := by decide

/-- `"a+é"`: one meta character, one two-byte character -/
example : ∃ hir, parseLiteral [97, 43, 0xE9] = some hir ∧
    ∀ w, denote .chars hir w ↔ w = [97, 43, 0xE9] :=
  literal_roundtrip [97, 43, 0xE9] (by decide)

/-- the `{:?}` text of `a"é` (with `é` rendered as `\u{e9}`) followed by `";` is read back -/
example : readStrLit 20 (escDebug (fun c => c = 0xE9) [97, 34, 0xE9] ++ 34 :: [59]) =
    some ([97, 34, 0xE9], [59]) :=
  debug_quote_roundtrip _ _ _ (by decide) 20 (by decide)

end LalrpopModel.ReLit
