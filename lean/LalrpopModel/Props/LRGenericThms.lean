import LalrpopModel.Lemmas.LRGenericFuel
import LalrpopModel.Lemmas.LRGenericErr
import LalrpopModel.Lemmas.LRGenericExtra
import LalrpopModel.Lemmas.LRGenericRecovery
import LalrpopModel.Lemmas.LRGenericSpans
import LalrpopModel.Lemmas.LRGenericAccount
/-!
Theorems about the M-LR driver (`Model/LR/Driver.lean`, mirroring `lalrpop-util/src/state_machine.rs`)
that hold for ARBITRARY tables `T` (no validator hypothesis): determinism and fuel monotonicity (A),
C17 "errors are returned verbatim and stop the parse" (B), the C04/C05 bookkeeping (C) and the C16
token accounting of error recovery (D). Proofs are in `Lemmas/LRGeneric*.lean`; the definitions
used in the statements (`toksOf`, `lastR`, `AllTok`, `Tree.covered`, `Tree.errs`, `Contig`,
`EnterCtx`, `MonoFrom`, `held`, `Seg`, `Inside`) are in `Lemmas/LRGenericIO.lean`, `LRGenericRecovery.lean`,
`LRGenericSpans.lean`, `LRGenericAccount.lean` and `LRGenericBasic.lean`.
-/
namespace LalrpopModel.LR.GenericThms
open LalrpopModel.LR LalrpopModel.LR.Generic

variable (T : Tables) (failAt : Option Nat) (startLoc : Int)

/-! ## A. determinism, fuel monotonicity -/

/-- once the machine is in `.done r`, more fuel changes nothing -/
theorem run_done_stable (af : Nat) {n : Nat} {c0 : Cfg} {ph0 : Phase} {c : Cfg} {r : Outcome}
    (h : run T af failAt startLoc n c0 ph0 = (c, .done r)) {m : Nat} (hm : n ≤ m) :
    run T af failAt startLoc m c0 ph0 = (c, .done r) :=
  Generic.run_done_stable T af failAt startLoc h hm

/-- an answer of `accepts` does not depend on how much fuel was left over -/
theorem accepts_fuel_mono {af : Nat} {st : List Nat} {i : Option Term} {b : Bool}
    (h : accepts T af st i = .ok b) {af' : Nat} (hle : af ≤ af') : accepts T af' st i = .ok b :=
  accepts_ok_mono T h hle

/-- a finished run whose result is not the fuel artefact is reproduced by any larger amounts of
    both fuels -/
theorem run_fuel_mono {af n : Nat} {c0 : Cfg} {ph0 : Phase} {c : Cfg} {r : Outcome}
    (h : run T af failAt startLoc n c0 ph0 = (c, .done r)) (hr : r ≠ .panic .outOfFuel)
    {af' n' : Nat} (hle : af ≤ af') (hn : n ≤ n') :
    run T af' failAt startLoc n' c0 ph0 = (c, .done r) :=
  run_done_mono T failAt startLoc h hr hle hn

/-- `Returns` is a partial function of `(T, failAt, startLoc, input)` up to the fuel artefact -/
theorem returns_unique {input : List Item} {c c' : Cfg} {r r' : Outcome}
    (h : Returns T failAt startLoc input c r) (h' : Returns T failAt startLoc input c' r')
    (hr : r ≠ .panic .outOfFuel) (hr' : r' ≠ .panic .outOfFuel) : r = r' ∧ c = c' :=
  returns_unique_aux T failAt startLoc h h' hr hr'

/-! ## B. C17: errors are returned verbatim and stop the parse -/

/-- Every configuration that has asked the stream for the item at position `pre.length` (an
    `Err(e)`) is final, with exactly that error, and nothing was read after it. This holds with
    `T.usesRecovery = true` too, and wherever the pull happened (`parse`'s `'shift` loop or the
    drop loop of `error_recovery`): recovery does not intercept. -/
theorem stream_error_stops (af : Nat) (pre : List Tok) (e : Nat) (post : List Item) (n : Nat) (c : Cfg) (ph : Phase)
    (h : run T af failAt startLoc n (init startLoc (pre.map Item.tok ++ Item.err e :: post)) .pull = (c, ph))
    (hp : pre.length < c.pulled) :
    ph = .done (.err (.user e)) ∧ c.pulled = pre.length + 1 ∧ c.input = post := by
  rcases serr_of_run h with h1 | ⟨h1, h2, h3⟩
  · exact absurd hp (by omega)
  · exact ⟨h3, h1, h2⟩

theorem stream_error_verbatim (pre : List Tok) (e : Nat) (post : List Item) (c : Cfg) (r : Outcome)
    (h : Returns T failAt startLoc (pre.map Item.tok ++ Item.err e :: post) c r)
    (hp : pre.length < c.pulled) :
    r = .err (.user e) ∧ c.pulled = pre.length + 1 ∧ c.input = post := by
  obtain ⟨n, af, h⟩ := h
  obtain ⟨h1, h2, h3⟩ := stream_error_stops T failAt startLoc af pre e post n c _ h hp
  injection h1 with h1
  exact ⟨h1, h2, h3⟩

/-- With `failAt = some n`: if the `n`-th action invocation of the run (production
    `c.trace.reverse[n]`, so in particular the run performed more than `n` invocations) is fallible,
    the parse returns exactly `failCode n`, no further action ran (`c.acts = n + 1`), and the final
    configuration is one step after a configuration `c1` with `c1.acts = n` from which the stream
    position is unchanged (no token pulled after the failing reduce). Holds for every phase the
    reduce may happen in (`parse`, `parse_eof`, the reduce loop of `error_recovery`). -/
theorem action_error_verbatim (n : Nat) (hf : failAt = some n) (input : List Item) (c : Cfg) (r : Outcome)
    (h : Returns T failAt startLoc input c r) (p : Nat) (hp : c.trace.reverse[n]? = some p)
    (hfal : T.fallible[p]? = some true) :
    r = .err (.user (failCode n)) ∧ c.acts = n + 1 ∧
    ∃ k af c1 ph1, run T af failAt startLoc k (init startLoc input) .pull = (c1, ph1) ∧
      step T af failAt startLoc c1 ph1 = (c, .done r) ∧
      c1.acts = n ∧ c.pulled = c1.pulled ∧ c.input = c1.input := by
  obtain ⟨m, af, h⟩ := h
  obtain ⟨hlen, himp⟩ := aerr_of_run hf h
  have hn : n < c.acts := by
    have := (List.getElem?_eq_some_iff.mp hp).1
    simp at this; omega
  obtain ⟨hacts, hph⟩ := himp hn p hp hfal
  injection hph with hph
  refine ⟨hph, hacts, ?_⟩
  obtain ⟨k, c1, ph1, hk, hrun, hnd, hstep⟩ := last_step T af failAt startLoc h rfl
  refine ⟨k, af, c1, ph1, hrun, hstep, ?_⟩
  have hs := step_spec_of hstep
  have hinv1 := aerr_of_run hf hrun
  rcases hs.acts_cases with ⟨h1, h2⟩ | ⟨p', h1, h2, h3, h4, -⟩
  · -- no action in the last step: then `c1` already was past the failing action, hence final
    exfalso
    obtain ⟨-, himp1⟩ := hinv1
    have := himp1 (by omega) p (by rw [← h2]; exact hp) hfal
    rw [this.2] at hnd
    simp [phDone] at hnd
  · exact ⟨by omega, h4, h3⟩

/-- from the first configuration whose phase is `.done r` on, the configuration is frozen -/
theorem nothing_after_done (af : Nat) {n : Nat} {c0 : Cfg} {ph0 : Phase} {c : Cfg} {r : Outcome}
    (h : run T af failAt startLoc n c0 ph0 = (c, .done r)) (m : Nat) (hm : n ≤ m) :
    (run T af failAt startLoc m c0 ph0).2 = .done r ∧
    (run T af failAt startLoc m c0 ph0).1.pulled = c.pulled ∧
    (run T af failAt startLoc m c0 ph0).1.acts = c.acts ∧
    (run T af failAt startLoc m c0 ph0).1.input = c.input := by
  rw [Generic.run_done_stable T af failAt startLoc h hm]
  exact ⟨rfl, rfl, rfl, rfl⟩

/-! ## C. C04 / C05 bookkeeping -/

/-- the stream position: `c.input` is what is left after `c.pulled` calls of `tokens.next()`; at
    most one call beyond the end (the one that saw `None`) is ever made -/
theorem pulled_le (af : Nat) (input : List Item) (n : Nat) (c : Cfg) (ph : Phase)
    (h : run T af failAt startLoc n (init startLoc input) .pull = (c, ph)) :
    c.pulled ≤ input.length + 1 ∧ c.input = input.drop c.pulled ∧
    (c.pulled + c.input.length = input.length ∨ (c.input = [] ∧ c.pulled = input.length + 1)) := by
  have hio := ioinv_of_run (T := T) (startLoc := startLoc) h
  refine ⟨hio.le, hio.inp, ?_⟩
  have := hio.le
  rw [hio.inp]
  by_cases hlt : c.pulled ≤ input.length
  · left; simp; omega
  · right; exact ⟨by simp; omega, by omega⟩

/-- `UnrecognizedToken` names a token the parser has pulled; without recovery it is the LAST item
    pulled (nothing beyond it was read), no error node exists, and all earlier tokens are on the
    symbol stack, in order, none skipped. -/
theorem unrecognized_token_is_last_pulled (input : List Item) (c : Cfg) (tok : Tok) (ex : List Term)
    (h : Returns T failAt startLoc input c (.err (.unrecognizedToken tok ex))) :
    (∃ i, i < c.pulled ∧ input[i]? = some (.tok tok)) ∧
    (T.usesRecovery = false →
      1 ≤ c.pulled ∧ input[c.pulled - 1]? = some (.tok tok) ∧
      (c.symbols.reverse.map (fun s => s.2.1.yield)).flatten ++ [tok] = toksOf (input.take c.pulled)) := by
  obtain ⟨n, af, h⟩ := h
  have hio := ioinv_of_run (T := T) (startLoc := startLoc) h
  obtain ⟨h1, h2⟩ := hio.fin _ rfl
  refine ⟨h1, fun hrec => ?_⟩
  obtain ⟨h3, h4⟩ := h2 hrec
  have hpl := plain_of_run h (fun _ _ _ _ _ => hrec)
  obtain ⟨h5, h6⟩ := hpl.finTok _ _ rfl
  rw [stackCovered_eq_yields h5] at h6
  exact ⟨h3, h4, h6⟩

/-- `UnrecognizedEof` (with or without recovery) is only reported after the whole stream was read
    (`input.length + 1` calls of `next()`), the stream held tokens only, and the location is the end
    of the last token, or `startLoc` for the empty stream. Without recovery every token is on the
    symbol stack. -/
theorem unrecognized_eof_location (input : List Item) (c : Cfg) (loc : Int) (ex : List Term)
    (h : Returns T failAt startLoc input c (.err (.unrecognizedEof loc ex))) :
    c.pulled = input.length + 1 ∧ AllTok input ∧
    loc = (match (toksOf input).getLast? with | some t => t.r | none => startLoc) ∧
    (T.usesRecovery = false →
      (c.symbols.reverse.map (fun s => s.2.1.yield)).flatten = toksOf input) := by
  obtain ⟨n, af, h⟩ := h
  have hio := ioinv_of_run (T := T) (startLoc := startLoc) h
  obtain ⟨h1, h2, h3⟩ := hio.fin _ rfl
  refine ⟨h1, h3, h2, fun hrec => ?_⟩
  have hpl := plain_of_run h (fun _ _ _ _ _ => hrec)
  obtain ⟨h5, h6⟩ := hpl.finEof _ _ rfl
  rw [stackCovered_eq_yields h5] at h6
  exact h6

/-- every `expected` list is strictly increasing (hence duplicate-free) and within `__TERMINAL`;
    with recovery on, `nRepr = nTerm - 1`, so the error terminal `nTerm - 1` is never named -/
theorem expected_nodup_sorted (af : Nat) (states : List Nat) (ex : List Term)
    (h : expected T af states = .ok ex) :
    ex.Pairwise (fun (a b : Nat) => a < b) ∧ ex.Nodup ∧ (∀ x : Nat, x ∈ ex → x < T.nRepr) ∧
    (T.usesRecovery = true → T.nTerm - 1 ∉ ex) := by
  obtain ⟨h1, h2⟩ := expectedLoop_sorted h
  refine ⟨h1, h1.imp (fun hab => Nat.ne_of_lt hab), fun x hx => by have := h2 x hx; omega, ?_⟩
  intro hrec hmem
  have := h2 _ hmem
  simp only [Tables.nRepr, hrec, ↓reduceIte] at this
  omega

/-- exactly the terminals of `__TERMINAL` for which `__accepts` answers yes are listed -/
theorem expected_mem_iff (af : Nat) (states : List Nat) (ex : List Term)
    (h : expected T af states = .ok ex) (x : Nat) :
    x ∈ ex ↔ (x < T.nRepr ∧ accepts T af states (some x) = .ok true) := by
  have := expectedLoop_mem h x
  simpa using this

/-- `ExtraToken` only arises from a start-production reduce entry in the ACTION table under a
    terminal lookahead: the run reaches `.act la idx` in a state whose action for `idx` is a reduce
    of a production with `isStart`; the reported token is that lookahead, the last item pulled. -/
theorem no_extra_token_unless_start_reduce_under_lookahead (input : List Item) (c : Cfg) (la : Tok)
    (h : Returns T failAt startLoc input c (.err (.extraToken la))) :
    ∃ k af c1 idx top rest a p,
      run T af failAt startLoc k (init startLoc input) .pull = (c1, .act la idx) ∧
      c1.states = top :: rest ∧ T.actionAt top idx = some a ∧ asShift a = none ∧
      asReduce a = some p ∧ T.isStart[p]? = some true ∧
      c.pulled = c1.pulled ∧ 1 ≤ c.pulled ∧ input[c.pulled - 1]? = some (.tok la) := by
  obtain ⟨n, af, h⟩ := h
  obtain ⟨k, c1, ph1, hk, hrun, hnd, hstep⟩ := last_step T af failAt startLoc h rfl
  have hio := ioinv_of_run (T := T) (startLoc := startLoc) hrun
  have hs := step_spec_of hstep
  obtain ⟨idx, top, rest, a, p, rfl, h1, h2, h3, h4, h5, h6, h7⟩ := hs.extra_cases hio hnd
  have hla := hio.la la rfl
  exact ⟨k, af, c1, idx, top, rest, a, p, hrun, h1, h2, h3, h4, h5, h6, by omega, by rw [h6]; exact hla.2⟩

/-! ## D. C16: error recovery accounts for tokens -/

/-- each error node of the result holds a contiguous run of stream tokens, in stream order -/
theorem dropped_in_order (input : List Item) (c : Cfg) (v : Tree)
    (h : Returns T failAt startLoc input c (.ok v)) (e : PErr) (dropped : List Tok)
    (he : (e, dropped) ∈ Tree.errs v) :
    ∃ pre post, input = pre ++ dropped.map Item.tok ++ post := by
  obtain ⟨n, af, h⟩ := h
  exact ((recinv_of_run h).fin v rfl).2 _ he

/-- the tokens the result accounts for (leaves, and `dropped_tokens` of error nodes, left to right)
    are a subsequence of the stream: nothing is duplicated, invented or reordered -/
theorem covered_subsequence (input : List Item) (c : Cfg) (v : Tree)
    (h : Returns T failAt startLoc input c (.ok v)) : (Tree.covered v).Sublist (toksOf input) := by
  obtain ⟨n, af, h⟩ := h
  exact ((recinv_of_run h).fin v rfl).1

/-- the leaves of the result are a subsequence of the stream tokens, in order -/
theorem leaves_subsequence (input : List Item) (c : Cfg) (v : Tree)
    (h : Returns T failAt startLoc input c (.ok v)) : v.yield.Sublist (toksOf input) :=
  (Tree.yield_sublist_covered v).trans (covered_subsequence T failAt startLoc input c v h)

/-- `error_recovery` proper (the `.recReduce` phase) is entered only from `parse` on an action
    that is neither shift nor reduce (the `0` entry), or from `parse_eof` on a non-reduce EOF action,
    and only when the tables use recovery -/
theorem recovery_entered_only_on_error_action (af : Nat) (c c' : Cfg) (ph : Phase)
    (la : Option (Tok × Term)) (e : PErr) (fe : Bool)
    (h : step T af failAt startLoc c ph = (c', .recReduce la e fe))
    (hph : ∀ la0 e0 fe0, ph ≠ .recReduce la0 e0 fe0) :
    T.usesRecovery = true ∧ EnterCtx T c ph la fe := by
  have hs := step_spec_of h
  generalize hph' : Phase.recReduce la e fe = ph' at hs
  cases hs with
  | done r => cases hph'
  | panic _ tag hd => cases hph'
  | pull _ nt hn => cases nt <;> cases hph'
  | shift la idx top rest a target hst ha hsh => cases hph'
  | redCont _ p ls _ hctx hr => exact (hph _ _ _ hph'.symm).elim
  | redFin _ p ls _ r hctx hr => cases hph'
  | enterNoRec _ la fe ex hctx hex hrec => cases hph'
  | enterRec _ la' fe' ex hctx hex hrec =>
    injection hph' with h1 h2 h3
    subst h1 h3
    exact ⟨hrec, hctx⟩
  | toFind la e fe top rest a hst ha hnr => cases hph'
  | push la' e' dropped sl fe' top hf _ _ hp =>
    cases hp with
    | panic tag => cases hph'
    | ok l r hl hr rs rest hrs a ha es hes =>
      rcases la' with _ | ⟨t, i⟩ <;> cases fe' <;> cases hph'
  | giveUp e dropped sl fe hf => cases hph'
  | drop t i e dropped sl fe hf _ nt hn => cases nt <;> cases hph'

/-- if the run never meets an error action while recovery is on (`EnterCtx`: a `0` ACTION entry
    under the lookahead, or a non-reduce EOF action), it never enters `error_recovery`, the result
    has no error node, and its leaves are exactly the stream tokens -/
theorem no_recovery_without_error_action (af : Nat) (input : List Item) (n : Nat) (c : Cfg) (v : Tree)
    (h : run T af failAt startLoc n (init startLoc input) .pull = (c, .done (.ok v)))
    (hno : ∀ k, k < n → ∀ la fe,
      EnterCtx T (run T af failAt startLoc k (init startLoc input) .pull).1
        (run T af failAt startLoc k (init startLoc input) .pull).2 la fe → T.usesRecovery = false) :
    Tree.errs v = [] ∧ Tree.covered v = v.yield := by
  have he := (plain_of_run h hno).fin v rfl
  exact ⟨he, Tree.covered_eq_yield v he⟩

/-- in particular tables without recovery never produce an error node -/
theorem no_error_nodes_without_recovery (hrec : T.usesRecovery = false) (input : List Item) (c : Cfg) (v : Tree)
    (h : Returns T failAt startLoc input c (.ok v)) : Tree.errs v = [] := by
  obtain ⟨n, af, h⟩ := h
  exact (no_recovery_without_error_action T failAt startLoc af input n c v h (fun _ _ _ _ _ => hrec)).1

/-- Spans. If the token spans of the stream are monotone (`MonoFrom startLoc`: the first token
    starts at or after `startLoc`, `t.l ≤ t.r`, consecutive tokens do not overlap), then in every
    reachable non-final configuration the spans `(l, _, r)` on the symbol stack — error symbols
    included, whose span `error_recovery` picks by its start/end preference order — are well-formed,
    pairwise ordered and disjoint (an upper symbol starts at or after the end of every lower one),
    lie at or after `startLoc`, end before every token the phase still holds (dropped tokens and
    lookahead), and each error symbol's span covers the spans of its `dropped_tokens`.
    (Error nodes do not record their span inside the tree, so the statement is about the stack.) -/
theorem error_spans_ordered (af : Nat) (input : List Item) (hmono : MonoFrom startLoc (toksOf input))
    (n : Nat) (c : Cfg) (ph : Phase)
    (h : run T af failAt startLoc n (init startLoc input) .pull = (c, ph)) (hnd : phDone ph = false) :
    c.symbols.Pairwise (fun upper lower => lower.2.2 ≤ upper.1) ∧
    (∀ s ∈ c.symbols, startLoc ≤ s.1 ∧ s.1 ≤ s.2.2) ∧
    (∀ s ∈ c.symbols, ∀ t ∈ held ph, s.2.2 ≤ t.l) ∧
    (∀ s ∈ c.symbols, ∀ e d, s.2.1 = Tree.err e d → s.1 ≤ s.2.2 ∧ ∀ t ∈ d, s.1 ≤ t.l ∧ t.r ≤ s.2.2) := by
  have hsp := spaninv_of_run (T := T) hmono h
  have hord := hsp.ord hnd
  refine ⟨hord.pairwise, fun s hs => ⟨(hord.mem hs).1, (hord.mem hs).2.1⟩, fun s hs t ht => ?_, hsp.cover hnd⟩
  have h1 := (hord.mem hs).2.2
  have h2 := ((hsp.chain hnd).mem ht).1
  omega

/-- Token accounting on the stack (monotone token spans, arbitrary tables, recovery on or off). In
    every reachable non-final configuration the tokens pulled so far are, in stream order:
    consecutive segments, one per stack symbol from the bottom up (`Seg`), followed by the tokens
    the phase holds (dropped tokens, lookahead). Every token of a symbol's segment lies inside that
    symbol's span (`Inside`), and the tokens its tree covers are a subsequence of its segment. For an
    error symbol the segment is "tokens of the popped symbols ++ `dropped_tokens`": so every token
    that is neither a leaf nor a dropped token lies inside the span of the error symbol that
    swallowed it; by `error_spans_ordered` these spans are disjoint. -/
theorem token_accounting (af : Nat) (input : List Item) (hmono : MonoFrom startLoc (toksOf input))
    (n : Nat) (c : Cfg) (ph : Phase)
    (h : run T af failAt startLoc n (init startLoc input) .pull = (c, ph)) (hnd : phDone ph = false) :
    ∃ pre, toksOf (input.take c.pulled) = pre ++ held ph ∧ Seg c.symbols pre :=
  seginv_of_run (T := T) hmono h hnd

/-! ## Examples: the hypotheses of the theorems above are satisfiable -/

/-- `S = "a" =>? ..` without recovery. States: `0 -a-> 1`, `0 -S-> 2`; production 0 is `S → a`
    (fallible), production 1 the start production `__S → S`. -/
def T1 : Tables :=
  { nTerm := 1, action := [2, 0, 0], eofAction := [0, -1, -2], goto := [[2, 0, 0], [0, 0, 0]],
    prodLen := [1, 1], prodLhs := [0, 1], isStart := [false, true], fallible := [true, false],
    usesRecovery := false }

/-- the same automaton with a (never shiftable) error terminal: recovery on -/
def T2 : Tables :=
  { nTerm := 2, action := [2, 0, 0, 0, 0, 0], eofAction := [0, -1, -2], goto := [[2, 0, 0], [0, 0, 0]],
    prodLen := [1, 1], prodLhs := [0, 1], isStart := [false, true], fallible := [true, false],
    usesRecovery := true }

/-- broken tables: reduce entries (also of the start production) under the lookahead `a` -/
def T3 : Tables :=
  { nTerm := 1, action := [2, -1, -2], eofAction := [0, -1, -2], goto := [[2, 0, 0], [0, 0, 0]],
    prodLen := [1, 1], prodLhs := [0, 1], isStart := [false, true], fallible := [false, false],
    usesRecovery := false }

/-- `S = "a" | !` with recovery: `0 -a-> 1`, `0 -S-> 2`, `0 -!-> 3`; production 2 is `S → !` -/
def T4 : Tables :=
  { nTerm := 2, action := [2, 4, 0, 0, 0, 0, 0, 0], eofAction := [0, -1, -2, -3],
    goto := [[2, 0, 0, 0], [0, 0, 0, 0]],
    prodLen := [1, 1, 1], prodLhs := [0, 1, 0], isStart := [false, true, false],
    fallible := [false, false, false], usesRecovery := true }

def ta (id : Nat) (l r : Int) : Tok := { l := l, kind := some 0, id := id, r := r }
def a0 : Tok := ta 0 0 1
def a1 : Tok := ta 1 2 3

-- A: two finished runs with different fuels
example : ∃ c v, Returns T1 none 0 [.tok a0] c (.ok v) := ⟨_, _, 6, 5, rfl⟩
example : ∃ c v, Returns T1 none 0 [.tok a0] c (.ok v) := ⟨_, _, 9, 7, rfl⟩
example : accepts T4 3 [3, 0] none = .ok true := rfl

-- B: stream error pulled by `parse`, and (recovery on) from inside the drop loop of `error_recovery`
example : ∃ c r, Returns T1 none 0 ([a0].map Item.tok ++ Item.err 7 :: [.tok a1]) c r ∧ [a0].length < c.pulled :=
  ⟨_, _, ⟨12, 5, rfl⟩, by decide⟩
example : ∃ c r, Returns T2 none 0 ([a0, a1].map Item.tok ++ Item.err 7 :: [.tok a1]) c r ∧
    [a0, a1].length < c.pulled := ⟨_, _, ⟨12, 5, rfl⟩, by decide⟩
-- B: the 0-th action invocation is the fallible production 0 and is made to fail
example : ∃ c r, Returns T1 (some 0) 0 [.tok a0] c r ∧ c.trace.reverse[0]? = some 0 ∧
    T1.fallible[0]? = some true := ⟨_, _, ⟨12, 5, rfl⟩, rfl, rfl⟩

-- C
example : ∃ c ex, Returns T1 none 0 [.tok a0, .tok a1] c (.err (.unrecognizedToken a1 ex)) :=
  ⟨_, _, 12, 5, rfl⟩
example : ∃ c ex, Returns T1 none 7 [] c (.err (.unrecognizedEof 7 ex)) := ⟨_, _, 12, 5, rfl⟩
example : ∃ c ex, Returns T1 none 7 [.tok a0, .tok a1, .tok a1] c (.err (.unrecognizedToken a1 ex)) ∧
    c.pulled = 2 := ⟨_, _, ⟨12, 5, rfl⟩, rfl⟩
example : expected T1 5 [0] = .ok [0] := rfl
example : expected T4 5 [0] = .ok [0] := rfl
example : ∃ c, Returns T3 none 0 [.tok a0, .tok a1] c (.err (.extraToken a1)) := ⟨_, 12, 5, rfl⟩

-- D: `a a` with `S = "a" | !`: the first `a` is popped, the second dropped into the error node
example : ∃ c, Returns T4 none 0 [.tok a0, .tok a1] c
    (.ok (.node 2 0 3 (.cons (.err (.unrecognizedToken a1 []) [a1]) .nil))) := ⟨_, 20, 5, rfl⟩
-- D: `parse` meets the `0` action under the second `a` and enters `error_recovery`
example : ∃ c c' la e fe, run T4 5 none 0 3 (init 0 [.tok a0, .tok a1]) .pull = (c, .act a1 0) ∧
    step T4 5 none 0 c (.act a1 0) = (c', .recReduce la e fe) := ⟨_, _, _, _, _, rfl, rfl⟩
example : MonoFrom 0 (toksOf [.tok a0, .tok a1]) := by
  refine ⟨?_, ?_, ?_, ?_, trivial⟩ <;> decide
example : ∃ c l r e, run T4 5 none 0 7 (init 0 [.tok a0, .tok a1]) .pull = (c, .eof) ∧
    c.symbols = [(l, .err e [a1], r)] ∧ (l, r) = (0, 3) := ⟨_, _, _, _, rfl, rfl, rfl⟩
example : ∀ k, k < 6 → ∀ la fe,
    EnterCtx T1 (run T1 5 none 0 k (init 0 [.tok a0]) .pull).1
      (run T1 5 none 0 k (init 0 [.tok a0]) .pull).2 la fe → T1.usesRecovery = false :=
  fun _ _ _ _ _ => rfl

end LalrpopModel.LR.GenericThms
