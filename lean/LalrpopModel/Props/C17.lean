import LalrpopModel.Props.LRGenericThms
/-!
C17 — Action and lexer errors are returned verbatim and stop the parse.

The theorems deciding this property (audited by `checks/c17.py` with `#print axioms`):

* `stream_error_stops`, `stream_error_verbatim`: an `Err(e)` item of the stream is returned as `User{e}`, nothing
  is pulled after it, recovery does not intercept it (also when pulled inside `error_recovery`).
* `action_error_verbatim`: a failing fallible action's error is the result; no further action, no further token.
* `nothing_after_done`.
-/
