import LalrpopModel.Lemmas.TyInferFinal
import LalrpopModel.Lemmas.SymVariant
/-!
C19 — accepted grammars compile: inferred types agree with the generated code.

Two mechanisms are modelled and proved about:

* `Model/SymVariant.lean` — the `__Symbol` enum (one variant per distinct symbol type);
* `Model/TyInfer.lean`   — `tyinfer::nonterminal_type` (memo table, stack, swallowed alternative
  errors, default-action type rules, macro byproduct annotations as templates with holes).

The specification side is `altTyP env memo alt`: the type of the value the *default action* of an
alternative builds, given the final nonterminal types `memo` — unit for no selected symbol, the
single selected symbol's type, or the tuple of the selected symbols' types.  The generated action
function `fn __actionN(..) -> <type of the nonterminal> { (__0, __1, ..) }` compiles only if that
type is the nonterminal's type.

FULL STATEMENT (not provable for the code as found — see `witness_accepts_ill_typed`):
  if `infer` succeeds then for every un-annotated nonterminal every alternative with a default
  action has `altTyP = type of the nonterminal`.
It is proved (a) under the hypothesis that no alternative error was swallowed
(`inferred_type_consistent_partial`), and (b) unconditionally for the model with the candidate fix
(`inferred_type_consistent_with_recheck`).

Residue: Rust's type system itself (what rustc accepts) is not modelled; types are compared as
`TypeRepr`s, as lalrpop does.
-/
namespace LalrpopModel

namespace SymVariant
variable {Ty : Type} [DecidableEq Ty]

/-- **One variant per distinct type.**  For the symbol types `symTys` (terminals then nonterminals):
every symbol has a variant; the payload type of that variant is the symbol's type; and two symbols
share a variant iff their types are equal. -/
theorem variant_per_type_injective (symTys : List Ty) :
    (variantNames symTys).length = symTys.length ∧ (variants symTys).Nodup ∧
    ∀ i j (hi : i < symTys.length) (hj : j < symTys.length),
      ∃ ni nj, (variantNames symTys)[i]? = some ni ∧ (variantNames symTys)[j]? = some nj ∧
        (variants symTys)[ni]? = some symTys[i] ∧
        (ni = nj ↔ symTys[i] = symTys[j]) := by
  obtain ⟨h1, _, h3, h4⟩ := assign_spec symTys [] List.nodup_nil
  refine ⟨h3, h1, ?_⟩
  intro i j hi hj
  obtain ⟨ni, hni1, hni2⟩ := h4 i hi
  obtain ⟨nj, hnj1, hnj2⟩ := h4 j hj
  refine ⟨ni, nj, hni1, hnj1, hni2, ?_⟩
  constructor
  · intro e; subst e; exact Option.some.inj (hni2.symm.trans hnj2)
  · intro e; rw [← e] at hnj2
    exact nodup_index_inj _ h1 ni nj _ hni2 hnj2

/-- **`__pop_VariantN` matches what `push` wrote.**  A value pushed for symbol `i` is returned by the
pop generated for a production position holding symbol `j` iff the two symbols have the same type
(in particular always for `i = j`); otherwise it is the `symbol type mismatch` panic. -/
theorem pop_matches_push (symTys : List Ty) (i j : Nat) (hi : i < symTys.length) (hj : j < symTys.length)
    (v : Val Ty) :
    ∃ s nj, push (variantNames symTys) i v = some s ∧ (variantNames symTys)[j]? = some nj ∧
      (popVariant nj s = some v ↔ symTys[i] = symTys[j]) ∧
      (popVariant nj s = none ↔ symTys[i] ≠ symTys[j]) := by
  obtain ⟨_, _, h⟩ := variant_per_type_injective symTys
  obtain ⟨ni, nj, hni, hnj, _, hiff⟩ := h i j hi hj
  refine ⟨⟨ni, v⟩, nj, by simp [push, hni], hnj, ?_, ?_⟩
  · simp only [popVariant]
    constructor
    · intro hp; by_cases e : ni = nj
      · exact hiff.mp e
      · rw [if_neg e] at hp; cases hp
    · intro e; rw [if_pos (hiff.mpr e)]
  · simp only [popVariant]
    constructor
    · intro hp e; rw [if_pos (hiff.mpr e)] at hp; cases hp
    · intro ne; rw [if_neg (fun e => ne (hiff.mp e))]

end SymVariant

namespace TyInfer
variable {Ty Tpl : Type} [DecidableEq Ty] (env : Env Ty Tpl) (G : Grammar Tpl)

/-- **Inferred types are consistent — as long as no alternative error was swallowed.**
If `infer_types` (as found: `recheck = false`) succeeds with table `memo` and its ghost log of
swallowed errors of action-less alternatives is empty, then for every un-annotated nonterminal
with type `ty`, every alternative without user action code has default-action type `ty`
(in particular: whenever the specification can type an alternative at all, it gets `ty`). -/
theorem inferred_type_consistent_partial (fuel : Nat) (order : List String)
    (memo : List (String × Ty)) (s : St Ty)
    (h : infer env G false fuel order = (.ok memo, s)) (h0 : s.suppressed = []) :
    ∀ nt : Nt Tpl, G.find nt.name = some nt → nt.decl = none → ∀ ty, memo.lookup nt.name = some ty →
      ∀ alt ∈ nt.alts,
        (alt.act ≠ .user → altTyP env memo alt = .ok ty) ∧ (∀ t, altTyP env memo alt = .ok t → t = ty) := by
  unfold infer at h
  have hi := inferLoop_inv env G fuel order St.init (fun _ => by
    intro nt _ _ ty hl; simp [St.init] at hl)
  cases h1 : inferLoop env G fuel order St.init with
  | mk r1 s1 =>
    rw [h1] at h hi
    cases r1 with
    | error e => simp at h
    | ok u =>
      simp only [Bool.false_eq_true, ↓reduceIte, Prod.mk.injEq, Except.ok.injEq] at h
      obtain ⟨hm, hs⟩ := h
      subst hs
      have hc := hi h0
      rw [hm] at hc
      intro nt hf hd ty hl alt hma
      have key : alt.act ≠ .user → altTyP env memo alt = .ok ty :=
        fun hnu => hc nt hf hd ty hl alt hma hnu memo (Ext.refl _)
      refine ⟨key, ?_⟩
      intro t ht
      by_cases hu : alt.act = .user
      · unfold altTyP at ht; rw [hu] at ht; simp at ht
      · rw [key hu] at ht; cases ht; rfl

/-- **With the candidate fix the full statement holds.**  If `infer_types` with the final re-check
succeeds (and `order` covers the grammar's nonterminals, as `nonterminals.keys()` does), then for
every un-annotated nonterminal, every alternative whose default-action type the specification can
compute has exactly the nonterminal's type — no side condition on swallowed errors. -/
theorem inferred_type_consistent_with_recheck (fuel : Nat) (order : List String)
    (hcover : ∀ nt ∈ G.nts, nt.name ∈ order)
    (memo : List (String × Ty)) (s : St Ty)
    (h : infer env G true fuel order = (.ok memo, s)) :
    ∀ nt : Nt Tpl, G.find nt.name = some nt → nt.decl = none → ∀ ty, memo.lookup nt.name = some ty →
      ∀ alt ∈ nt.alts, ∀ t, altTyP env memo alt = .ok t → t = ty := by
  unfold infer at h
  have hk := inferLoop_keys env G fuel order St.init (by intro k v hl; simp [St.init] at hl)
  have hok := inferLoop_ok env G fuel order St.init
  cases h1 : inferLoop env G fuel order St.init with
  | mk r1 s1 =>
    rw [h1] at h hk hok
    cases r1 with
    | error e => simp at h
    | ok u =>
      simp only [↓reduceIte] at h
      have hk2 := recheckLoop_keys env G fuel order s1 hk
      have hg2 := recheckLoop_grows env G fuel order s1
      cases h2 : recheckLoop env G fuel order s1 with
      | mk r2 s2 =>
        rw [h2] at h hk2 hg2
        cases r2 with
        | error e => simp at h
        | ok u2 =>
          simp only [Prod.mk.injEq, Except.ok.injEq] at h
          obtain ⟨hm, hs⟩ := h
          subst hs
          subst hm
          -- every key of the final table was already typed when the re-check started
          have hM : Ext s2.memo s1.memo := by
            intro k v hl
            have hfk := hk2 k v hl
            cases hf : G.find k with
            | none => rw [hf] at hfk; cases hfk
            | some ntk =>
              have hin : k ∈ order := by
                have := hcover ntk (find_mem G hf)
                rw [find_name G hf] at this; exact this
              obtain ⟨v', hv'⟩ := hok rfl k hin
              have := hg2.ext k v' hv'
              rw [hl] at this; cases this
              exact hv'
          intro nt hf hd ty hl alt hma t ht
          have hin : nt.name ∈ order := hcover nt (find_mem G hf)
          cases fuel with
          | zero =>
            cases order with
            | nil => cases hin
            | cons id rest =>
              have := inferLoop_fuel_pos env G 0 id rest St.init (by rw [h1])
              exact absurd this (Nat.lt_irrefl 0)
          | succ f =>
            exact recheckLoop_spec env G f order s1 s2.memo hM (by rw [h2]) nt.name hin nt hf hd ty hl alt hma t ht

/-! ### why the hypothesis is needed: the witness `pub A = { "a" A, "x" };` -/

/-- types as printed text, for the examples -/
def strEnv : Env String String where
  tuple ts := "(" ++ ", ".intercalate ts ++ ")"
  untuple _ := none
  subst tpl _ := tpl
  termTy _ := "&'input str"
  locTy := some "usize"
  errorTy := "ErrorRecovery"

/-- `pub A = { "a" A, "x" };` -/
def witness : Grammar String :=
  ⟨[{ name := "A", decl := none,
      alts := [⟨.default, [.term "\"a\"", .nt "A"]⟩, ⟨.default, [.term "\"x\""]⟩] }]⟩

/-- The model (like lalrpop) accepts the witness with `A: &'input str`: alternative 1 fails on the
cycle, the error is swallowed (logged in the ghost field) — but the default action of alternative 1
builds a pair, so the generated `__action` does not type-check (reproduced with rustc: E0308). -/
theorem witness_accepts_ill_typed :
    okOf (infer strEnv witness false 10 ["A"]).1 = some [("A", "&'input str")] ∧
    (infer strEnv witness false 10 ["A"]).2.suppressed = [("A", 0)] ∧
    okOf (altTyP strEnv [("A", "&'input str")] ⟨.default, [.term "\"a\"", .nt "A"]⟩)
      = some "(&'input str, &'input str)" := by
  refine ⟨by decide, by decide, by decide⟩

/-- … and the model with the candidate fix rejects it -/
theorem witness_rejected_with_recheck :
    errOf (infer strEnv witness true 10 ["A"]).1 = some (.recheck "A" 0) := by decide

/-- the hypotheses of `inferred_type_consistent_partial` are satisfiable: a well-typed grammar
    `A = { "a" B, "x" "y" }; B = "b";` is accepted with nothing suppressed -/
example :
    let G : Grammar String := ⟨[
      { name := "A", decl := none, alts := [⟨.default, [.term "a", .nt "B"]⟩, ⟨.default, [.term "x", .term "y"]⟩] },
      { name := "B", decl := none, alts := [⟨.default, [.term "b"]⟩] }]⟩
    okOf (infer strEnv G false 10 ["A", "B"]).1 = some [("A", "(&'input str, &'input str)"), ("B", "&'input str")] ∧
    (infer strEnv G false 10 ["A", "B"]).2.suppressed = [] := by
  refine ⟨by decide, by decide⟩

end TyInfer
end LalrpopModel
