import LalrpopModel.Model.TokCheck
import LalrpopModel.Lemmas.Sort
/-!
C09 (precedence part) — the pattern list handed to the runtime lexer is ordered by the
documented precedence.

Theorems about `TokCheck.matchEntries` / `TokCheck.patterns` (model of `MatchBlock::new`,
`add_match_entry`, `add_literal_from_grammar`, the sort in `construct`, and the pattern list of
`intern_token::compile`), for all `match` blocks and all terminal sequences.  Together with
`longest_then_highest` (Props/C09: among the longest matches the *greatest pattern index* wins)
they say: an earlier `match` rung beats a later one, a quoted literal beats a regex of the same
rung, literals picked up by `_` (or without a `match` block) get the rung of the `_` (resp. rung
value 0), and the implicit whitespace skip, present iff there is no skip entry, has the greatest
index of all.
-/
namespace LalrpopModel.TokCheck
open LalrpopModel.Dfa (isort insertBy isort_perm insertBy_perm mem_isort)

/-! ### where entries come from and which precedence they get -/

/-- `e` is the entry of item `it` of the rung with group precedence `g` -/
def FromItem (g : Nat) (it : Item) (e : Entry) : Prop :=
  (it = .unmapped e.lit ∧ e.user = .term (.lit e.lit) ∨ it = .mapped e.lit e.user) ∧
    e.prec = 2 * g + e.lit.base

theorem addMatchEntry_entries {b b' : Block} {g : Nat} {sym : Lit} {user : Mapping}
    (h : addMatchEntry b g sym user = .ok b') :
    b'.entries = b.entries ++ [{ prec := g * 2 + sym.base, lit := sym, user := user }] ∧
      b'.catchAll = b.catchAll := by
  simp only [addMatchEntry] at h
  split at h
  · cases h
  · cases h; exact ⟨rfl, rfl⟩

theorem addRung_spec (g : Nat) : ∀ (items : List Item) (b b' : Block), addRung g items b = .ok b' →
    (∀ e, e ∈ b'.entries → e ∈ b.entries ∨ ∃ it, it ∈ items ∧ FromItem g it e) ∧
    (b'.catchAll = b.catchAll ∨ (Item.catchAll ∈ items ∧ b'.catchAll = some g))
  | [], b, b', h => by
    simp only [addRung, Except.ok.injEq] at h
    subst h
    exact ⟨fun e he => .inl he, .inl rfl⟩
  | .unmapped sym :: rest, b, b', h => by
    simp only [addRung, bind, Except.bind] at h
    cases h1 : addMatchEntry b g sym (.term (.lit sym)) with
    | error e => rw [h1] at h; cases h
    | ok b1 =>
      rw [h1] at h
      obtain ⟨he, hc⟩ := addMatchEntry_entries h1
      obtain ⟨ih1, ih2⟩ := addRung_spec g rest b1 b' h
      refine ⟨fun e hm => ?_, ?_⟩
      · rcases ih1 e hm with hm' | ⟨it, hit, hf⟩
        · rw [he] at hm'
          rcases List.mem_append.mp hm' with hm'' | hm''
          · exact .inl hm''
          · simp only [List.mem_singleton] at hm''
            subst hm''
            exact .inr ⟨.unmapped sym, List.mem_cons_self, ⟨.inl ⟨rfl, rfl⟩, by simp only; omega⟩⟩
        · exact .inr ⟨it, List.mem_cons_of_mem _ hit, hf⟩
      · rcases ih2 with h' | ⟨h', h''⟩
        · exact .inl (h'.trans hc)
        · exact .inr ⟨List.mem_cons_of_mem _ h', h''⟩
  | .mapped sym user :: rest, b, b', h => by
    simp only [addRung, bind, Except.bind] at h
    cases h1 : addMatchEntry b g sym user with
    | error e => rw [h1] at h; cases h
    | ok b1 =>
      rw [h1] at h
      obtain ⟨he, hc⟩ := addMatchEntry_entries h1
      obtain ⟨ih1, ih2⟩ := addRung_spec g rest b1 b' h
      refine ⟨fun e hm => ?_, ?_⟩
      · rcases ih1 e hm with hm' | ⟨it, hit, hf⟩
        · rw [he] at hm'
          rcases List.mem_append.mp hm' with hm'' | hm''
          · exact .inl hm''
          · simp only [List.mem_singleton] at hm''
            subst hm''
            exact .inr ⟨.mapped sym user, List.mem_cons_self, ⟨.inr rfl, by simp only; omega⟩⟩
        · exact .inr ⟨it, List.mem_cons_of_mem _ hit, hf⟩
      · rcases ih2 with h' | ⟨h', h''⟩
        · exact .inl (h'.trans hc)
        · exact .inr ⟨List.mem_cons_of_mem _ h', h''⟩
  | .catchAll :: rest, b, b', h => by
    simp only [addRung] at h
    obtain ⟨ih1, ih2⟩ := addRung_spec g rest { b with catchAll := some g } b' h
    refine ⟨fun e hm => ?_, ?_⟩
    · rcases ih1 e hm with hm' | ⟨it, hit, hf⟩
      · exact .inl hm'
      · exact .inr ⟨it, List.mem_cons_of_mem _ hit, hf⟩
    · rcases ih2 with h' | ⟨h', h''⟩
      · exact .inr ⟨List.mem_cons_self, h'⟩
      · exact .inr ⟨List.mem_cons_of_mem _ h', h''⟩

/-- **rung precedences.** Every entry produced from the `match` block comes from an item of some
rung `k` and has precedence `2 * (number of rungs − k) + (1 if quoted, 0 if regex)`; the
catch-all precedence, if set, is `number of rungs − k` for a rung `k` containing `_`. -/
theorem addRungs_spec (total : Nat) : ∀ (rungs : List (List Item)) (idx : Nat) (b b' : Block),
    addRungs total idx rungs b = .ok b' →
    (∀ e, e ∈ b'.entries → e ∈ b.entries ∨
      ∃ k rung it, rungs[k]? = some rung ∧ it ∈ rung ∧ FromItem (total - (idx + k)) it e) ∧
    (b'.catchAll = b.catchAll ∨
      ∃ k rung, rungs[k]? = some rung ∧ Item.catchAll ∈ rung ∧ b'.catchAll = some (total - (idx + k)))
  | [], idx, b, b', h => by
    simp only [addRungs, Except.ok.injEq] at h
    subst h
    exact ⟨fun e he => .inl he, .inl rfl⟩
  | rung :: rest, idx, b, b', h => by
    simp only [addRungs, bind, Except.bind] at h
    cases h1 : addRung (total - idx) rung b with
    | error e => rw [h1] at h; cases h
    | ok b1 =>
      rw [h1] at h
      obtain ⟨r1, r2⟩ := addRung_spec (total - idx) rung b b1 h1
      obtain ⟨ih1, ih2⟩ := addRungs_spec total rest (idx + 1) b1 b' h
      refine ⟨fun e hm => ?_, ?_⟩
      · rcases ih1 e hm with hm' | ⟨k, rg, it, hk, hit, hf⟩
        · rcases r1 e hm' with hm'' | ⟨it, hit, hf⟩
          · exact .inl hm''
          · exact .inr ⟨0, rung, it, rfl, hit, by simpa using hf⟩
        · exact .inr ⟨k + 1, rg, it, by simpa using hk, hit, by
            have : idx + (k + 1) = idx + 1 + k := by omega
            rw [this]; exact hf⟩
      · rcases ih2 with h' | ⟨k, rg, hk, hc, hv⟩
        · rcases r2 with h'' | ⟨h'', h'''⟩
          · exact .inl (h'.trans h'')
          · exact .inr ⟨0, rung, rfl, h'', by rw [h', h''']; simp⟩
        · exact .inr ⟨k + 1, rg, by simpa using hk, hc, by
            have : idx + (k + 1) = idx + 1 + k := by omega
            rw [this]; exact hv⟩

/-- **literals from the grammar.** `add_literal_from_grammar` never changes the catch-all; every
entry it adds is the identity mapping of a literal used in the grammar, with precedence
`2 * catch-all + base`. -/
theorem visitTerminals_spec : ∀ (ts : List Term) (b b' : Block), visitTerminals ts b = .ok b' →
    b'.catchAll = b.catchAll ∧
    ∀ e, e ∈ b'.entries → e ∈ b.entries ∨
      (Term.lit e.lit ∈ ts ∧ e.user = .term (.lit e.lit) ∧ ∃ p, b.catchAll = some p ∧ e.prec = 2 * p + e.lit.base)
  | [], b, b', h => by
    simp only [visitTerminals, Except.ok.injEq] at h
    subst h
    exact ⟨rfl, fun e he => .inl he⟩
  | .lit l :: rest, b, b', h => by
    simp only [visitTerminals, bind, Except.bind] at h
    cases h1 : addLiteralFromGrammar b l with
    | error e => rw [h1] at h; cases h
    | ok b1 =>
      rw [h1] at h
      obtain ⟨ihc, ihe⟩ := visitTerminals_spec rest b1 b' h
      simp only [addLiteralFromGrammar] at h1
      split at h1
      · cases h1
        exact ⟨ihc, fun e he => by
          rcases ihe e he with h' | ⟨h1', h2', h3'⟩
          · exact .inl h'
          · exact .inr ⟨List.mem_cons_of_mem _ h1', h2', h3'⟩⟩
      · split at h1
        · cases h1
        · rename_i p hp
          cases h1
          refine ⟨ihc, fun e he => ?_⟩
          rcases ihe e he with h' | ⟨h1', h2', p', hp', h3'⟩
          · simp only at h'
            rcases List.mem_append.mp h' with h'' | h''
            · exact .inl h''
            · simp only [List.mem_singleton] at h''
              subst h''
              exact .inr ⟨List.mem_cons_self, rfl, p, hp, by simp only; omega⟩
          · exact .inr ⟨List.mem_cons_of_mem _ h1', h2', p', hp', h3'⟩
  | .bare s :: rest, b, b', h => by
    simp only [visitTerminals] at h
    split at h
    · obtain ⟨ihc, ihe⟩ := visitTerminals_spec rest b b' h
      exact ⟨ihc, fun e he => by
        rcases ihe e he with h' | ⟨h1', h2', h3'⟩
        · exact .inl h'
        · exact .inr ⟨List.mem_cons_of_mem _ h1', h2', h3'⟩⟩
    · cases h
  | .error :: rest, b, b', h => by
    simp only [visitTerminals] at h
    obtain ⟨ihc, ihe⟩ := visitTerminals_spec rest b b' h
    exact ⟨ihc, fun e he => by
      rcases ihe e he with h' | ⟨h1', h2', h3'⟩
      · exact .inl h'
      · exact .inr ⟨List.mem_cons_of_mem _ h1', h2', h3'⟩⟩

/-! ### the sort -/

theorem insertBy_pairwise_of {α : Type} {le : α → α → Bool} {R : α → α → Prop}
    (htrans : ∀ a b c, R a b → R b c → R a c) (h1 : ∀ a b, le a b = true → R a b)
    (h2 : ∀ a b, le a b = false → R b a) (a : α) :
    ∀ l : List α, l.Pairwise R → (insertBy le a l).Pairwise R
  | [], _ => by simp [insertBy]
  | b :: l, h => by
    simp only [insertBy]
    rw [List.pairwise_cons] at h
    split
    · rename_i hab
      rw [List.pairwise_cons]
      refine ⟨?_, List.pairwise_cons.mpr h⟩
      intro x hx
      rcases List.mem_cons.mp hx with rfl | hx
      · exact h1 _ _ hab
      · exact htrans _ _ _ (h1 _ _ hab) (h.1 x hx)
    · rename_i hab
      have hba : R b a := h2 _ _ (by simpa using hab)
      rw [List.pairwise_cons]
      refine ⟨?_, insertBy_pairwise_of htrans h1 h2 a l h.2⟩
      intro x hx
      rcases List.mem_cons.mp ((insertBy_perm le a l).mem_iff.mp hx) with rfl | hx
      · exact hba
      · exact h.1 x hx

theorem isort_pairwise_of {α : Type} {le : α → α → Bool} {R : α → α → Prop}
    (htrans : ∀ a b c, R a b → R b c → R a c) (h1 : ∀ a b, le a b = true → R a b)
    (h2 : ∀ a b, le a b = false → R b a) : ∀ l : List α, (isort le l).Pairwise R
  | [] => List.Pairwise.nil
  | a :: l => insertBy_pairwise_of htrans h1 h2 a _ (isort_pairwise_of htrans h1 h2 l)

theorem entryLe_true {a b : Entry} (h : entryLe a b = true) : a.prec ≤ b.prec := by
  simp only [entryLe, Bool.or_eq_true, decide_eq_true_eq, Bool.and_eq_true, beq_iff_eq] at h
  omega

theorem entryLe_false {a b : Entry} (h : entryLe a b = false) : b.prec ≤ a.prec := by
  simp only [entryLe, Bool.or_eq_false_iff, decide_eq_false_iff_not, Bool.and_eq_false_iff,
    beq_eq_false_iff_ne, ne_eq] at h
  omega

/-- **the sort orders by precedence.** In `InternToken::match_entries` (the sorted list) an entry
of strictly higher precedence stands strictly later, i.e. gets the greater pattern index — the
one `Matcher::next` prefers among equally long matches. The list is a permutation of the
collected entries. -/
theorem precedence_order_spec (mt : Option (List (List Item))) (ts : List Term) (es : List Entry)
    (h : matchEntries mt ts = .ok es) :
    (∀ (i j : Nat) (e1 e2 : Entry), es[i]? = some e1 → es[j]? = some e2 → e1.prec < e2.prec → i < j) ∧
    ∃ b0 b, Block.new mt = .ok b0 ∧ visitTerminals ts b0 = .ok b ∧ es.Perm b.entries := by
  simp only [matchEntries, bind, Except.bind] at h
  cases h0 : Block.new mt with
  | error e => rw [h0] at h; cases h
  | ok b0 =>
    rw [h0] at h
    simp only at h
    cases h1 : visitTerminals ts b0 with
    | error e => rw [h1] at h; cases h
    | ok b =>
      rw [h1] at h
      simp only [pure, Except.pure, Except.ok.injEq] at h
      subst h
      refine ⟨?_, b0, b, rfl, h1, isort_perm _ _⟩
      have hs : (isort entryLe b.entries).Pairwise (fun a b => a.prec ≤ b.prec) :=
        isort_pairwise_of (le := entryLe) (R := fun a b : Entry => a.prec ≤ b.prec)
          (fun _ _ _ h1 h2 => Nat.le_trans h1 h2) (fun _ _ h => entryLe_true h)
          (fun _ _ h => entryLe_false h) _
      rw [List.pairwise_iff_getElem] at hs
      intro i j e1 e2 hi hj hlt
      false_or_by_contra
      rename_i hnot
      obtain ⟨hi', rfl⟩ := List.getElem?_eq_some_iff.mp hi
      obtain ⟨hj', rfl⟩ := List.getElem?_eq_some_iff.mp hj
      by_cases hji : j = i
      · subst hji; omega
      · have := hs j i hj' hi' (by omega)
        omega

/-- **documented precedence, arithmetically.** With `total` rungs, an entry of an earlier rung has
strictly greater precedence than any entry of a later rung, whatever their kinds; within a rung a
quoted literal has strictly greater precedence than a regex. -/
theorem rung_precedence_order {total k1 k2 : Nat} {it1 it2 : Item} {e1 e2 : Entry}
    (h1 : FromItem (total - k1) it1 e1) (h2 : FromItem (total - k2) it2 e2) (hk : k1 < k2) (hk2 : k2 < total) :
    e2.prec < e1.prec := by
  have b1 : e1.lit.base ≤ 1 := by cases e1.lit <;> simp [Lit.base]
  have b2 : e2.lit.base ≤ 1 := by cases e2.lit <;> simp [Lit.base]
  rw [h1.2, h2.2]; omega

theorem literal_over_regex {g : Nat} {it1 it2 : Item} {e1 e2 : Entry} {s1 s2 : List Nat}
    (h1 : FromItem g it1 e1) (h2 : FromItem g it2 e2) (hq : e1.lit = .quoted s1) (hr : e2.lit = .regex s2) :
    e2.prec < e1.prec := by
  rw [h1.2, h2.2, hq, hr]; simp [Lit.base]

/-- without a `match` block: catch-all precedence 0, so quoted literals get 1 and regexes 0 -/
theorem no_match_block (ts : List Term) (b : Block) (h : visitTerminals ts { catchAll := some 0 } = .ok b) :
    ∀ e, e ∈ b.entries → e.prec = e.lit.base ∧ e.user = .term (.lit e.lit) := by
  intro e he
  rcases (visitTerminals_spec ts _ b h).2 e he with h' | ⟨_, hu, p, hp, hprec⟩
  · cases h'
  · simp only [Option.some.injEq] at hp
    subst hp
    exact ⟨by omega, hu⟩

/-! ### the pattern list of the generated lexer -/

/-- **the implicit whitespace skip.** If no entry is a skip entry, the pattern list is the entries
in order followed by the implicit skip, which therefore has the greatest index; otherwise it is
just the entries in order. In both cases the `i`-th entry is pattern `i` (the `Token(i, _)`
pattern of its terminal). -/
theorem patterns_spec (es : List Entry) :
    (∀ (i : Nat) (e : Entry), es[i]? = some e →
      (patterns es)[i]? = some (some e.lit, decide (e.user = Mapping.skip))) ∧
    ((∀ e : Entry, e ∈ es → e.user ≠ Mapping.skip) →
      (patterns es).length = es.length + 1 ∧ (patterns es)[es.length]? = some (none, true)) ∧
    ((∃ e : Entry, e ∈ es ∧ e.user = Mapping.skip) → (patterns es).length = es.length) := by
  have hmap : ∀ (i : Nat) (e : Entry), es[i]? = some e →
      (es.map (fun e => ((some e.lit, decide (e.user = .skip)) : Pattern)))[i]? =
        some (some e.lit, decide (e.user = .skip)) := by
    intro i e h; simp [List.getElem?_map, h]
  have hany : (es.map (fun e => ((some e.lit, decide (e.user = .skip)) : Pattern))).any (·.2) = true ↔
      ∃ e : Entry, e ∈ es ∧ e.user = Mapping.skip := by
    simp [List.any_eq_true]
  refine ⟨?_, ?_, ?_⟩
  · intro i e h
    simp only [patterns]
    split
    · exact hmap i e h
    · rw [List.getElem?_append_left (by simpa using (List.getElem?_eq_some_iff.mp h).1)]
      exact hmap i e h
  · intro hno
    have : ¬ ((es.map (fun e => ((some e.lit, decide (e.user = .skip)) : Pattern))).any (·.2) = true) := by
      rw [hany]; rintro ⟨e, he, hs⟩; exact hno e he hs
    have hb : (es.map (fun e => ((some e.lit, decide (e.user = Mapping.skip)) : Pattern))).any (·.2) = false := by
      simpa using this
    simp only [patterns, hb, Bool.false_eq_true, if_false]
    constructor
    · simp
    · rw [List.getElem?_append_right (by simp)]; simp
  · intro hsk
    have := hany.mpr hsk
    simp only [patterns, this, if_true]
    simp

/-- the hypotheses are satisfiable: a two-rung block, a literal from the grammar via `_` -/
example : ∃ es, matchEntries (some [[.unmapped (.regex [97])], [.unmapped (.quoted [98]), .catchAll]])
    [.lit (.quoted [99])] = .ok es ∧ es.length = 3 := ⟨_, rfl, rfl⟩

end LalrpopModel.TokCheck
