import LalrpopModel.Lemmas.LRCompleteUnamb
import LalrpopModel.Lemmas.LRCompleteFuel
/-!
Completeness and unambiguity of validated LR tables (final statements; proofs in
`Lemmas/LRComplete*.lean`). Everything is for arbitrary `G T A ann` under the single hypothesis
`validateComplete G T A ann = true` (clauses V0 shape/start, V1 first/nullable, V2 LR(1) items of
`Model/LR/Validate.lean`); the hypothesis is inhabited by the example at the end (a real lalrpop
automaton).

Vocabulary (`Lemmas/LRCompleteBasic.lean`): `Tree.shape` erases the spans `l r` of nodes (the
driver computes them itself); `Tree.skeleton` also reduces every leaf token to its kind;
`Tree.post` lists the productions of the nodes in post-order; `laOf v` is the lookahead in front
of the token list `v` (`none` = EOF). `NoFail T failAt` (`Lemmas/LRCompleteRun.lean`): no action
can be made to fail (`failAt = none`, or no production is fallible).
-/
namespace LalrpopModel.LR

section
variable {G : Grammar} {T : Tables} {A : Automaton} {ann : Ann}

/-! ### 1. The checked first/nullable tables contain the true sets -/

/-- a derivation tree with empty yield has a nonterminal root that `ann` marks nullable; the kind
    of the first token of a non-empty yield is listed in `first` of the root -/
theorem first_sound (h : validateComplete G T A ann = true) (t : Tree) (X : Sym)
    (hwf : Tree.WF G none t) (hroot : t.root G none = some X) :
    (t.yield = [] → ∃ B, X = Sym.n B ∧ ann.nullableNT B = true) ∧
    (∀ a rest, t.yield = a :: rest → ∃ k, a.kind = some k ∧ k ∈ ann.firstSym X) := by
  obtain ⟨h1, h2⟩ := first_sound_tree (valid_of_validateComplete h).first t X hwf hroot
  refine ⟨?_, h2⟩
  intro hy
  have := h1 hy
  cases X with
  | t a => simp [Ann.nullableSym] at this
  | n B => exact ⟨B, rfl, this⟩

/-- lifted to forests and `firstSeq`: the lookahead in front of the yield of a forest for `β`,
    followed by tokens `v` whose lookahead is `la`, is one of `firstSeq β la` -/
theorem first_sound_seq (h : validateComplete G T A ann = true) (fs : Forest) (β : List Sym)
    (v : List Tok) (la : LA) (hwf : Forest.WF G none fs β) (hla : laOf v = la) :
    laOf (fs.yield ++ v) ∈ ann.firstSeq β la :=
  hla ▸ firstSeq_sound (valid_of_validateComplete h).first fs β v hwf

/-! ### 2. Completeness of the driver -/

/-- on the yield of a derivation tree `t` of the start symbol the driver returns `Ok(v)` with `v`
    equal to `t` up to node spans; it has called `tokens.next()` once per token plus once for EOF,
    and has run one action per node of `t` in post-order, then the start production's -/
theorem drive_complete (h : validateComplete G T A ann = true) (t : Tree) (S : NT)
    (hS : G.startSym = some S) (hwf : Tree.WF G none t) (hroot : t.root G none = some (Sym.n S))
    (failAt : Option Nat) (hf : NoFail T failAt) (startLoc : Int) :
    ∃ c v, Returns T failAt startLoc (t.yield.map Item.tok) c (.ok v) ∧ v.shape = t.shape ∧
      c.pulled = (t.yield.map Item.tok).length + 1 ∧
      c.trace.reverse = t.post ++ [G.startProd] ∧ c.acts = t.post.length + 1 := by
  obtain ⟨n, c, v, hrun, hsh, hpu, htr, hac⟩ :=
    drive_complete_run (valid_of_validateComplete h) 0 failAt hf startLoc t S hS hwf hroot
  exact ⟨c, v, ⟨n, 0, hrun⟩, hsh, by simpa using hpu, htr, hac⟩

/-- the same with the fuel made explicit: whatever fuel `af` the `accepts` loop is given (it is
    never called on this path), some number of steps ends the run -/
theorem drive_complete_any_fuel (h : validateComplete G T A ann = true) (t : Tree) (S : NT)
    (hS : G.startSym = some S) (hwf : Tree.WF G none t) (hroot : t.root G none = some (Sym.n S))
    (failAt : Option Nat) (hf : NoFail T failAt) (startLoc : Int) (af : Nat) :
    ∃ n c v, run T af failAt startLoc n (init startLoc (t.yield.map Item.tok)) .pull = (c, .done (.ok v)) ∧
      v.shape = t.shape :=  by
  obtain ⟨n, c, v, hrun, hsh, _⟩ :=
    drive_complete_run (valid_of_validateComplete h) af failAt hf startLoc t S hS hwf hroot
  exact ⟨n, c, v, hrun, hsh⟩

/-! ### 3. `Returns` is functional; unambiguity -/

/-- same tables, `failAt`, start location and input give the same final configuration and
    outcome, whatever the fuel values (`panic .outOfFuel` is the model's own stop of the
    `accepts` loop, not an outcome of the Rust code, and is excluded) -/
theorem returns_unique (T : Tables) (failAt : Option Nat) (startLoc : Int) (input : List Item)
    {c₁ c₂ : Cfg} {r₁ r₂ : Outcome}
    (h₁ : Returns T failAt startLoc input c₁ r₁) (h₂ : Returns T failAt startLoc input c₂ r₂)
    (n₁ : r₁ ≠ .panic .outOfFuel) (n₂ : r₂ ≠ .panic .outOfFuel) : c₁ = c₂ ∧ r₁ = r₂ :=
  returns_unique_lemma T failAt startLoc input h₁ h₂ n₁ n₂

/-- C02 "post-order, exactly once", for *every* run: any way the driver returns on the yield of
    `t` (any fuel), it returns `Ok` of a value of the shape of `t`, the actions it ran are those of
    the nodes of `t` in post-order followed by the start production's, each once, and every token
    was pulled once -/
theorem actions_postorder_once (h : validateComplete G T A ann = true) (t : Tree) (S : NT)
    (hS : G.startSym = some S) (hwf : Tree.WF G none t) (hroot : t.root G none = some (Sym.n S))
    (failAt : Option Nat) (hf : NoFail T failAt) (startLoc : Int) (c : Cfg) (r : Outcome)
    (hret : Returns T failAt startLoc (t.yield.map Item.tok) c r) (hr : r ≠ .panic .outOfFuel) :
    (∃ v, r = .ok v ∧ v.shape = t.shape) ∧
      c.trace.reverse = t.post ++ [G.startProd] ∧ c.acts = t.post.length + 1 ∧
      c.pulled = t.yield.length + 1 := by
  obtain ⟨c', v, hret', hsh, hpu, htr, hac⟩ := drive_complete h t S hS hwf hroot failAt hf startLoc
  obtain ⟨rfl, rfl⟩ := returns_unique T failAt startLoc _ hret hret' hr (by simp)
  exact ⟨⟨v, rfl, hsh⟩, htr, hac, by simpa using hpu⟩

/-- a validated grammar is unambiguous (start symbol): two derivation trees whose yields have the
    same kinds agree up to spans and the identity of the leaf tokens -/
theorem validated_unambiguous (h : validateComplete G T A ann = true) (t₁ t₂ : Tree) (S : NT)
    (hS : G.startSym = some S)
    (h₁ : Tree.WF G none t₁) (r₁ : t₁.root G none = some (Sym.n S))
    (h₂ : Tree.WF G none t₂) (r₂ : t₂.root G none = some (Sym.n S))
    (hy : t₁.yield.map (·.kind) = t₂.yield.map (·.kind)) : t₁.skeleton = t₂.skeleton :=
  unambiguous_skeleton (valid_of_validateComplete h) t₁ t₂ S hS h₁ r₁ h₂ r₂ hy

/-- … and two derivation trees over the very same tokens agree up to spans -/
theorem validated_unambiguous_shape (h : validateComplete G T A ann = true) (t₁ t₂ : Tree) (S : NT)
    (hS : G.startSym = some S)
    (h₁ : Tree.WF G none t₁) (r₁ : t₁.root G none = some (Sym.n S))
    (h₂ : Tree.WF G none t₂) (r₂ : t₂.root G none = some (Sym.n S))
    (hy : t₁.yield = t₂.yield) : t₁.shape = t₂.shape :=
  unambiguous_shape (valid_of_validateComplete h) t₁ t₂ S hS h₁ r₁ h₂ r₂ hy

/-! ### 4. The completeness half of "accepts iff derives" -/

/-- every token list whose kinds are derivable from the start symbol is accepted: the driver
    returns `Ok(v)` for a derivation tree `v` of the start symbol over exactly these tokens -/
theorem derives_implies_ok (h : validateComplete G T A ann = true) (S : NT) (hS : G.startSym = some S)
    (w : List Term) (hd : Derives G S w) (toks : List Tok) (hk : toks.map (·.kind) = w.map some)
    (failAt : Option Nat) (hf : NoFail T failAt) (startLoc : Int) :
    ∃ c v, Returns T failAt startLoc (toks.map Item.tok) c (.ok v) ∧
      Tree.WF G none v ∧ v.root G none = some (Sym.n S) ∧ v.yield = toks := by
  obtain ⟨n, c, v, hrun, hwf, hroot, hy, _⟩ :=
    derives_ok_run (valid_of_validateComplete h) 0 failAt hf startLoc S hS w hd toks hk
  exact ⟨c, v, ⟨n, 0, hrun⟩, hwf, hroot, hy⟩

end

/-! ### The hypothesis is inhabited

`E → "(" E ")" | ε` with the synthesized `__E → E`; tables and automaton as lalrpop's lane-table
construction emits them (harness `lrdrive`, terminals `0 = "("`, `1 = ")"`), annotation as
`computeAnn` finds it. -/
namespace CompleteExample

def exG : Grammar :=
  { prods := [⟨0, [.t 0, .n 0, .t 1]⟩, ⟨0, []⟩, ⟨1, [.n 0]⟩], nTerm := 2, nNT := 2, startProd := 2 }

def exT : Tables :=
  { nTerm := 2, action := [2, 0,  2, -2,  0, 0,  0, 5,  0, -1], eofAction := [-2, 0, -3, 0, -1],
    goto := [[2, 3, 2, 2, 2], [0, 0, 0, 0, 0]], prodLen := [3, 0, 1], prodLhs := [0, 0, 0],
    isStart := [false, false, true], fallible := [false, false, false], usesRecovery := false }

def exA : Automaton :=
  { states := [
      { cores := [(1, 0), (0, 0), (2, 0)], shifts := [(0, 1)], reduces := [(1, [none])], gotos := [(0, 2)] },
      { cores := [(1, 0), (0, 0), (0, 1)], shifts := [(0, 1)], reduces := [(1, [some 1])], gotos := [(0, 3)] },
      { cores := [(2, 1)], shifts := [], reduces := [(2, [none])], gotos := [] },
      { cores := [(0, 2)], shifts := [(1, 4)], reduces := [], gotos := [] },
      { cores := [(0, 3)], shifts := [], reduces := [(0, [some 1, none])], gotos := [] }] }

def exAnn : Ann :=
  { items := [[(2, 0, none), (0, 0, none), (1, 0, none)],
              [(0, 1, none), (0, 0, some 1), (1, 0, some 1), (0, 1, some 1)],
              [(2, 1, none)],
              [(0, 2, none), (0, 2, some 1)],
              [(0, 3, none), (0, 3, some 1)]],
    nullable := [true, true],
    first := [[0], [0]] }

theorem ex_valid : validateComplete exG exT exA exAnn = true := by decide

example : validateComplete exG exT exA (computeAnn exG exT 5) = true := by decide

example : exG.startSym = some 0 := by decide

example : NoFail exT (some 3) := Or.inr (by decide)

/-- the derivation tree of `( )` -/
def exTree : Tree :=
  .node 0 0 2 (.cons (.leaf ⟨0, some 0, 0, 1⟩) (.cons (.node 1 1 1 .nil) (.cons (.leaf ⟨1, some 1, 1, 2⟩) .nil)))

theorem exTree_wf : Tree.WF exG none exTree :=
  .node 0 0 2 ⟨0, [.t 0, .n 0, .t 1]⟩ _ rfl
    (.cons _ _ _ _ (.leaf _ 0 rfl) rfl
      (.cons _ _ _ _ (.node 1 1 1 ⟨0, []⟩ _ rfl .nil) rfl
        (.cons _ _ _ _ (.leaf _ 1 rfl) rfl .nil)))

/-- `drive_complete` at work: `( )` is accepted with the three actions `E → ε`, `E → ( E )`,
    `__E → E` run in this order -/
example : ∃ c v, Returns exT none 0 [.tok ⟨0, some 0, 0, 1⟩, .tok ⟨1, some 1, 1, 2⟩] c (.ok v) ∧
    v.shape = exTree.shape ∧ c.trace.reverse = [1, 0, 2] := by
  obtain ⟨c, v, h1, h2, _, h4, _⟩ :=
    drive_complete ex_valid exTree 0 (by decide) exTree_wf rfl none (Or.inl rfl) 0
  exact ⟨c, v, h1, h2, h4⟩

end CompleteExample

end LalrpopModel.LR
