import LalrpopModel.Lemmas.Lower
import LalrpopModel.Lemmas.LowerSel
/-!
# C02, lowering part: default actions, `<>` substitution, argument patterns

Theorems about M-LOWER (`Model/Lower.lean`), the model of `normalize/lower/mod.rs`
(`LowerState::action_fn`, `patterns`, `fresh_name`) and `normalize/norm_util.rs`
(`analyze_expr`, `check_between_braces`). All statements are universal (any symbol list, any
action code, any prefix without `<`/`>`), proved by induction over the symbol list / the code.

* `analyze_expr_spec`, `analyze_expr_class_perm`, `IsSelection.unique`
* `patterns_spec`, `arg_patterns_spec`, `selPatterns_anon`, `selPatterns_named`
* `default_action_spec`
* `angle_subst_spec`, `splitAngle_spec`, `named_subst_presence_irrelevant`
* `action_fn_no_assert`, `action_fn_panic_iff`

The model is tied to /repo on every run by `checks/lowerpart.py` (`stage_dump(tyinfer)` → model
→ `stage_dump(lower)`, `check_between_braces` through the prevalidation verdict, compiled value
leg).
-/
namespace LalrpopModel.Lower
variable {B : Type}

/-! ## `analyze_expr` -/

/-- `l` lists exactly the symbols of `syms` on which `f` is defined, with their positions, in
    source order -/
def IsSelection {α : Type} (f : Sym B → Option α) (syms : List (Sym B)) (l : List (Nat × α)) : Prop :=
  l.Pairwise (fun a b => a.1 < b.1) ∧
  ∀ j a, (j, a) ∈ l ↔ ∃ x, syms[j]? = some x ∧ f x = some a

theorem filterFrom_isSelection {α : Type} (f : Sym B → Option α) (syms : List (Sym B)) :
    IsSelection f syms (filterFrom f 0 syms) := by
  refine ⟨filterFrom_sorted f 0 syms, fun j a => ?_⟩
  rw [filterFrom_mem]
  constructor
  · rintro ⟨k, rfl, x, hx, hf⟩; exact ⟨x, by simpa using hx, hf⟩
  · rintro ⟨x, hx, hf⟩; exact ⟨j, by simp, x, hx, hf⟩

/-- a selection is determined by the symbols: two lists with the property are equal -/
theorem IsSelection.unique {α : Type} {f : Sym B → Option α} {syms : List (Sym B)} {l1 l2 : List (Nat × α)}
    (h1 : IsSelection f syms l1) (h2 : IsSelection f syms l2) : l1 = l2 := by
  -- both are strictly sorted by index with the same members
  have hperm : ∀ e, e ∈ l1 ↔ e ∈ l2 := fun e => by
    obtain ⟨j, a⟩ := e; rw [h1.2, h2.2]
  have key : ∀ (l1 l2 : List (Nat × α)), l1.Pairwise (fun a b => a.1 < b.1) → l2.Pairwise (fun a b => a.1 < b.1) →
      (∀ e, e ∈ l1 ↔ e ∈ l2) → l1 = l2 := by
    intro l1
    induction l1 with
    | nil =>
      intro l2 _ _ h
      cases l2 with
      | nil => rfl
      | cons e _ => exact absurd ((h e).2 (by simp)) (by simp)
    | cons a t ih =>
      intro l2 s1 s2 h
      cases l2 with
      | nil => exact absurd ((h a).1 (by simp)) (by simp)
      | cons b u =>
        rw [List.pairwise_cons] at s1 s2
        have hab : a = b := by
          have ha := (h a).1 (by simp)
          have hb := (h b).2 (by simp)
          rcases List.mem_cons.1 ha with h' | h'
          · exact h'
          · rcases List.mem_cons.1 hb with h'' | h''
            · exact h''.symm
            · have := s2.1 a h'; have := s1.1 b h''; omega
        subst hab
        congr 1
        apply ih u s1.2 s2.2
        intro e
        constructor
        · intro he
          rcases List.mem_cons.1 ((h e).1 (by simp [he])) with h' | h'
          · subst h'; have := s1.1 _ he; omega
          · exact h'
        · intro he
          rcases List.mem_cons.1 ((h e).2 (by simp [he])) with h' | h'
          · subst h'; have := s2.1 _ he; omega
          · exact h'
  exact key l1 l2 h1.1 h2.1 hperm

/-- **analyze_expr_spec.** Which rule applies depends only on the kinds present (named symbols if
    any, else the `<>`-chosen ones, else all); the result lists exactly the symbols of that kind
    with their argument positions, in source order. -/
theorem analyze_expr_spec (syms : List (Sym B)) :
    match classify (syms.map Sym.kind) with
    | .named => ∃ l, analyzeExpr syms = .named l ∧ IsSelection Sym.binding? syms l
    | .chosen => ∃ l, analyzeExpr syms = .anon l ∧ IsSelection Sym.chosen? syms l
    | .all => ∃ l, analyzeExpr syms = .anon l ∧ IsSelection some syms l := by
  have hn : (namedFrom 0 syms).isEmpty = !(syms.map Sym.kind).any (· = .named) := by
    rw [namedFrom_eq, filterFrom_isEmpty, List.any_map]
    congr 2; funext x; simp [binding_isSome_iff]
  have hc : (chosenFrom 0 syms).isEmpty = !(syms.map Sym.kind).any (· = .chosen) := by
    rw [chosenFrom_eq, filterFrom_isEmpty, List.any_map]
    congr 2; funext x; simp [chosen_isSome_iff]
  unfold classify analyzeExpr
  by_cases h1 : (syms.map Sym.kind).any (· = .named) = true
  · simp only [h1, if_true, hn]
    exact ⟨namedFrom 0 syms, by simp, by rw [namedFrom_eq]; exact filterFrom_isSelection _ _⟩
  · simp only [h1, hn]
    by_cases h2 : (syms.map Sym.kind).any (· = .chosen) = true
    · simp only [h2, if_true, hc]
      exact ⟨chosenFrom 0 syms, by simp, by rw [chosenFrom_eq]; exact filterFrom_isSelection _ _⟩
    · simp only [h2, hc]
      exact ⟨enumFrom 0 syms, by simp, by rw [enumFrom_eq]; exact filterFrom_isSelection _ _⟩

/-- the classification is a function of the multiset of symbol kinds -/
theorem analyze_expr_class_perm (s1 s2 : List (Sym B))
    (h : (s1.map Sym.kind).Perm (s2.map Sym.kind)) :
    classify (s1.map Sym.kind) = classify (s2.map Sym.kind) := classify_perm h


theorem patAt_of_mem (chosen : List (Nat × ArgPattern)) (h : chosen.Pairwise (fun a b => a.1 < b.1))
    (j : Nat) (p : ArgPattern) (hm : (j, p) ∈ chosen) : patAt chosen j = p := by
  induction chosen with
  | nil => cases hm
  | cons e rest ih =>
    obtain ⟨ci, q⟩ := e
    rw [List.pairwise_cons] at h
    rcases List.mem_cons.1 hm with h' | h'
    · cases h'; simp [patAt]
    · have := h.1 _ h'
      have hne : ci ≠ j := by simp at this; omega
      rw [patAt_cons_ne _ _ _ _ hne]
      exact ih h.2 h'

theorem patAt_of_not_mem (chosen : List (Nat × ArgPattern)) (j : Nat) (h : ∀ p, (j, p) ∉ chosen) :
    patAt chosen j = blank := by
  induction chosen with
  | nil => rfl
  | cons e rest ih =>
    obtain ⟨ci, q⟩ := e
    have hne : ci ≠ j := by intro hc; subst hc; exact h q (by simp)
    rw [patAt_cons_ne _ _ _ _ hne]
    exact ih (fun p hp => h p (by simp [hp]))

/-- **patterns_spec.** For a selection in source order below `numArgs`, `patterns` returns one
    pattern per argument: the selected pattern at a selected position, `_` everywhere else, and
    its `debug_assert!` holds. -/
theorem patterns_spec (chosen : List (Nat × ArgPattern)) (numArgs : Nat)
    (h : SortedBelow chosen 0 numArgs) :
    ∃ r, patterns chosen numArgs = some r ∧ r.length = numArgs ∧
      (∀ j p, (j, p) ∈ chosen → r[j]? = some p) ∧
      (∀ j, j < numArgs → (∀ p, (j, p) ∉ chosen) → r[j]? = some blank) := by
  have hs := patternsGo_spec chosen 0 numArgs (by simpa using h)
  refine ⟨tabulateFrom (patAt chosen) 0 numArgs, by simp [patterns, hs], tabulateFrom_length _ _ _, ?_, ?_⟩
  · intro j p hm
    have hj : j < numArgs := by have := (h.2 _ hm).2; simpa using this
    rw [tabulateFrom_getElem? _ _ _ _ hj, Nat.zero_add, patAt_of_mem _ h.1 _ _ hm]
  · intro j hj hn
    rw [tabulateFrom_getElem? _ _ _ _ hj, Nat.zero_add, patAt_of_not_mem _ _ hn]

/-! ## what `action_fn` selects -/

/-- the names `<>` stands for: the user's names, or `fresh_name(0..)` for anonymous selections -/
def selNames (v : Variant) (pfx : Str) : Symbols B → List Str
  | .named l => l.map fun x => v.nameOf x.2.1
  | .anon l => (List.range l.length).map (freshName pfx)

/-- the (argument index, pattern) pairs handed to `patterns` -/
def selPatterns (pfx : Str) : Symbols B → List (Nat × ArgPattern)
  | .named l => l.map fun x => (x.1, x.2.1)
  | .anon l => (l.map (·.1)).zip (((List.range l.length).map (freshName pfx)).map fun n => ArgPattern.name (Name.immut n))

theorem zip_sortedBelow {α : Type} (l : List (Nat × α)) (ys : List ArgPattern) (n : Nat)
    (hl : ys.length = l.length) (hs : l.Pairwise (fun a b => a.1 < b.1)) (hb : ∀ e ∈ l, e.1 < n) :
    SortedBelow ((l.map (·.1)).zip ys) 0 n := by
  constructor
  · have hm : ((l.map (·.1)).zip ys).map (·.1) = l.map (·.1) := by
      apply List.map_fst_zip; simp [hl]
    have : (((l.map (·.1)).zip ys).map (·.1)).Pairwise (· < ·) := by
      rw [hm, List.pairwise_map]; exact hs
    rw [List.pairwise_map] at this
    exact this
  · intro e he
    obtain ⟨i, p⟩ := e
    have := (List.of_mem_zip he).1
    rw [List.mem_map] at this
    obtain ⟨x, hx, rfl⟩ := this
    exact ⟨Nat.zero_le _, hb x hx⟩

theorem selPatterns_sorted (pfx : Str) (expr : List (Sym B)) :
    SortedBelow (selPatterns pfx (analyzeExpr expr)) 0 expr.length := by
  unfold analyzeExpr
  simp only
  split
  · -- named
    simp only [selPatterns, namedFrom_eq]
    constructor
    · rw [List.pairwise_map]; exact filterFrom_sorted _ _ _
    · intro e he
      rw [List.mem_map] at he
      obtain ⟨x, hx, rfl⟩ := he
      have := filterFrom_ge _ _ _ x hx
      simpa using this
  · split
    · simp only [selPatterns, chosenFrom_eq]
      apply zip_sortedBelow
      · simp
      · exact filterFrom_sorted _ _ _
      · intro e he; have := filterFrom_ge _ _ _ e he; simpa using this.2
    · simp only [selPatterns, enumFrom_eq]
      apply zip_sortedBelow
      · simp
      · exact filterFrom_sorted _ _ _
      · intro e he; have := filterFrom_ge _ _ _ e he; simpa using this.2


/-! ## `action_fn` -/

theorem freshName_clean (pfx : Str) (h1 : '<' ∉ pfx) (h2 : '>' ∉ pfx) (i : Nat) : Clean (freshName pfx i) := by
  have hd : ∀ c ∈ Nat.toDigits 10 i, c.isDigit = true :=
    fun c hc => Nat.isDigit_of_mem_toDigits (by decide) (by decide) hc
  refine ⟨?_, ?_, ?_⟩
  · simp [freshName, Nat.toDigits_ne_nil]
  · intro h
    rcases List.mem_append.1 h with h | h
    · exact h1 h
    · have := hd _ h; revert this; decide
  · intro h
    rcases List.mem_append.1 h with h | h
    · exact h2 h
    · have := hd _ h; revert this; decide

/-- the `UserActionFnDefn` `action_fn` builds once patterns and code are known -/
def mkDefn (fallible : Bool) (pats : List ArgPattern) (symbols : List (RSym B)) (code : Str) : UserDefn B :=
  { fallible := fallible, argPatterns := pats, argTypes := symbols, code := code }

/-- the patterns `action_fn` hands to the generated function: one per symbol of the production -/
def argPatternsOf (pfx : Str) (expr : List (Sym B)) (numArgs : Nat) : List ArgPattern :=
  tabulateFrom (patAt (selPatterns pfx (analyzeExpr expr))) 0 numArgs

theorem patterns_selPatterns (pfx : Str) (expr : List (Sym B)) (n : Nat) (hlen : n = expr.length) :
    patterns (selPatterns pfx (analyzeExpr expr)) n = some (argPatternsOf pfx expr n) := by
  subst hlen
  have hs := patternsGo_spec _ 0 expr.length (by simpa using selPatterns_sorted pfx expr)
  simp [patterns, hs, argPatternsOf]

/-- the code of a `Named` selection -/
def namedCode (v : Variant) (l : List (Nat × ArgPattern × Sym B)) (act : Str) : Str :=
  let sub := if checkBetweenBraces act = .inCurlyBrackets
    then joinComma (l.flatMap fun x => v.curlyNamesOf x.2.1)
    else joinComma (l.map fun x => v.nameOf x.2.1)
  joinWith sub (splitAngle act)

/-- outcome of an anonymous selection of `k` symbols on the action `act` -/
def anonOutcome (v : Variant) (pfx : Str) (fallible : Bool) (pats : List ArgPattern)
    (symbols : List (RSym B)) (k : Nat) (act : Str) : Outcome (UserDefn B) :=
  let names := (List.range k).map (freshName pfx)
  let pieces := splitAngle act
  if pieces.length ≤ 2 then .ok (mkDefn fallible pats symbols (joinWith (joinComma names) pieces))
  else if pieces.length = k + 1 then .ok (mkDefn fallible pats symbols (interleave pieces names))
  else if k = 0 ∧ v.emptyAnonUnwrap = true then .panic
  else .error (pieces.length - 1) k

/-- complete description of `action_fn` once the action string is fixed -/
theorem actionFnOn_eq (v : Variant) (pfx : Str) (fallible : Bool) (expr : List (Sym B))
    (symbols : List (RSym B)) (act : Str) (hlen : symbols.length = expr.length)
    (h1 : '<' ∉ pfx) (h2 : '>' ∉ pfx) :
    actionFnOn v pfx fallible (analyzeExpr expr) symbols act =
      let pats := argPatternsOf pfx expr symbols.length
      match analyzeExpr expr with
      | .named l => .ok (mkDefn fallible pats symbols (namedCode v l act))
      | .anon l => anonOutcome v pfx fallible pats symbols l.length act := by
  have hp := patterns_selPatterns pfx expr symbols.length hlen
  unfold actionFnOn
  cases hsel : analyzeExpr expr with
  | named l =>
    rw [hsel] at hp
    simp only [selPatterns] at hp
    simp only [hp]
    simp only [mkDefn, namedCode]
    cases hc : checkBetweenBraces act with
    | none =>
      have h0 : countAngle act = 0 := by
        rw [← findAngle_none_iff]
        unfold checkBetweenBraces at hc
        cases hf : findAngle act with
        | none => rfl
        | some x =>
          rw [hf] at hc
          obtain ⟨b, a⟩ := x
          simp only at hc
          split at hc
          · cases hc
          · split at hc <;> cases hc
      simp only [reduceCtorEq, if_false]
      rw [← replaceAngle_eq, replaceAngle_of_count_zero _ _ h0]
    | normal => simp only [reduceCtorEq, if_false, replaceAngle_eq]
    | inCurlyBrackets => simp only [if_true, replaceAngle_eq]
  | anon l =>
    rw [hsel] at hp
    simp only [selPatterns] at hp
    simp only [hp]
    have hcount := countAngle_eq act
    have hclean : ∀ n ∈ (List.range l.length).map (freshName pfx), Clean n := by
      intro n hn
      rw [List.mem_map] at hn
      obtain ⟨i, _, rfl⟩ := hn
      exact freshName_clean pfx h1 h2 i
    simp only [anonOutcome, mkDefn, List.length_map, List.length_range]
    by_cases hgt : countAngle act > 1
    · have hp2 : ¬ (splitAngle act).length ≤ 2 := by omega
      simp only [hgt, if_true, hp2, if_false]
      by_cases hne : countAngle act ≠ l.length
      · have hp3 : ¬ (splitAngle act).length = l.length + 1 := by omega
        simp only [hne, ne_eq, not_false_eq_true, if_true, hp3, if_false]
        cases l with
        | nil =>
          simp only [List.length_nil, true_and]
          by_cases hv : v.emptyAnonUnwrap = true
          · simp [hv]
          · simp only [hv, Bool.false_eq_true, if_false]
            congr 1; omega
        | cons e rest =>
          simp only [List.length_cons, Nat.add_one_ne_zero, false_and, if_false]
          congr 1; omega
      · have hp3 : (splitAngle act).length = l.length + 1 := by omega
        simp only [hne, if_false, hp3, if_true]
        rw [replaceEach_eq _ hclean]
    · have hp2 : (splitAngle act).length ≤ 2 := by omega
      simp only [hgt, if_false, hp2, if_true, replaceAngle_eq]


/-! ## the registered theorems about `action_fn` -/

/-- **angle_subst_spec.** Let `p₀ <> p₁ <> … <> pₖ` be the decomposition of the action code into
    its `<>`-free pieces (`splitAngle_spec` below: it exists, is unique and reconstructs the code).
    * named selection: every gap is filled with the comma-separated user names (inside `{ }`:
      the names listed for field-init shorthand); no error is possible;
    * anonymous selection of `n` symbols with fresh names `f₀ … fₙ₋₁`: if `k ≤ 1` every gap is filled
      with `f₀, …, fₙ₋₁`; if `k > 1` and `k = n` the i-th gap is filled with `fᵢ` (counted multiple
      `<>`); if `k > 1` and `k ≠ n` the error "Found k `<>`s and n anonymous sources" — except that
      the pinned tree panics when `n = 0` (`Variant.emptyAnonUnwrap`).
    Patterns, types and the fallible flag do not depend on the code. -/
theorem angle_subst_spec (v : Variant) (pfx : Str) (isUnit fallible : Bool) (expr : List (Sym B))
    (symbols : List (RSym B)) (code : Str) (hlen : symbols.length = expr.length)
    (h1 : '<' ∉ pfx) (h2 : '>' ∉ pfx) :
    actionFn v pfx isUnit fallible expr symbols (some code) =
      match analyzeExpr expr with
      | .named l => .ok (mkDefn fallible (argPatternsOf pfx expr symbols.length) symbols (namedCode v l code))
      | .anon l => anonOutcome v pfx fallible (argPatternsOf pfx expr symbols.length) symbols l.length code := by
  unfold actionFn
  exact actionFnOn_eq v pfx fallible expr symbols code hlen h1 h2

/-- the decomposition used by `angle_subst_spec`: joined by `<>` the pieces give the code back,
    no piece contains `<>`, and there is one gap per match counted by `matches("<>").count()` -/
theorem splitAngle_spec (code : Str) :
    joinWith ['<', '>'] (splitAngle code) = code ∧ (∀ p ∈ splitAngle code, countAngle p = 0) ∧
      (splitAngle code).length = countAngle code + 1 :=
  ⟨joinWith_splitAngle code, countAngle_piece code, (countAngle_eq code).symm⟩

/-- on the pinned tree the three arms of `match check_between_braces(..)` are one function: the
    gaps are filled with the joined `name()`s wherever the first `<>` stands -/
theorem named_subst_presence_irrelevant (v : Variant) (hv : v.tupleNamesFixed = false)
    (l : List (Nat × ArgPattern × Sym B)) (act : Str) :
    namedCode v l act = joinWith (joinComma (l.map fun x => x.2.1.nameStr)) (splitAngle act) := by
  have hflat : ∀ (l : List (Nat × ArgPattern × Sym B)),
      (l.flatMap fun x => v.curlyNamesOf x.2.1) = l.map fun x => x.2.1.nameStr := by
    intro l; induction l with
    | nil => rfl
    | cons e rest ih =>
      rw [List.flatMap_cons, List.map_cons, ih]
      simp [Variant.curlyNamesOf, hv]
  have hmap : (l.map fun x => v.nameOf x.2.1) = l.map fun x => x.2.1.nameStr := by
    simp [Variant.nameOf, hv]
  simp only [namedCode, hflat, hmap, ite_self]

theorem range_map_two (f : Nat → Str) (n : Nat) :
    ∃ rest, (List.range (n + 2)).map f = f 0 :: f 1 :: rest := by
  refine ⟨(List.range n).map (fun i => f (i + 2)), ?_⟩
  rw [List.range_succ_eq_map, List.range_succ_eq_map]
  simp [List.map_map, Function.comp_def]

/-- **default_action_spec.** A missing action never fails; its code is `()` for a unit-typed
    nonterminal, otherwise the one selected (or only) symbol, otherwise the tuple of the selected
    symbols in source order — expressed through the names `selNames` that `patterns_spec`
    /`arg_patterns_spec` bind to exactly those arguments. -/
theorem default_action_spec (v : Variant) (pfx : Str) (isUnit fallible : Bool) (expr : List (Sym B))
    (symbols : List (RSym B)) (hlen : symbols.length = expr.length)
    (h1 : '<' ∉ pfx) (h2 : '>' ∉ pfx) :
    actionFn v pfx isUnit fallible expr symbols none =
      .ok (mkDefn fallible (argPatternsOf pfx expr symbols.length) symbols
        (if isUnit then ['(', ')']
         else match selNames v pfx (analyzeExpr expr) with
           | [n] => n
           | ns => ['('] ++ joinComma ns ++ [')'])) := by
  unfold actionFn
  simp only
  rw [actionFnOn_eq v pfx fallible expr symbols _ hlen h1 h2]
  have s0 : splitAngle ['(', ')'] = [['(', ')']] := by decide
  have s1 : splitAngle ['<', '>'] = [[], []] := by decide
  have s2 : splitAngle ['(', '<', '>', ')'] = [['('], [')']] := by decide
  have c0 : checkBetweenBraces ['(', ')'] = .none := by decide
  have c1 : checkBetweenBraces ['<', '>'] = .normal := by decide
  have c2 : checkBetweenBraces ['(', '<', '>', ')'] = .normal := by decide
  cases hsel : analyzeExpr expr with
  | named l =>
    simp only [defaultAction, selNames]
    cases isUnit with
    | true => simp [namedCode, s0, c0, joinWith]
    | false =>
      simp only [Bool.false_eq_true, if_false]
      match l with
      | [] => simp [namedCode, s2, c2, joinWith, joinComma]
      | [e] => simp [namedCode, s1, c1, joinWith, joinComma]
      | e1 :: e2 :: rest => simp [namedCode, s2, c2, joinWith]
  | anon l =>
    simp only [defaultAction, selNames, anonOutcome]
    cases isUnit with
    | true => simp [s0, joinWith]
    | false =>
      simp only [Bool.false_eq_true, if_false]
      match l with
      | [] => simp [s2, joinWith, joinComma]
      | [e] => simp [s1, joinWith, joinComma]
      | e1 :: e2 :: rest =>
        obtain ⟨r, hr⟩ := range_map_two (freshName pfx) rest.length
        simp only [List.length_cons, hr]
        simp [s2, joinWith]

/-- **arg_patterns_spec** (`patterns_spec` applied to what `action_fn` selects): the generated
    function takes one pattern per symbol of the production; a selected symbol at argument position
    `j` gets its pattern, every other argument gets `_`. -/
theorem arg_patterns_spec (pfx : Str) (expr : List (Sym B)) :
    (argPatternsOf pfx expr expr.length).length = expr.length ∧
    (∀ j p, (j, p) ∈ selPatterns pfx (analyzeExpr expr) → (argPatternsOf pfx expr expr.length)[j]? = some p) ∧
    (∀ j, j < expr.length → (∀ p, (j, p) ∉ selPatterns pfx (analyzeExpr expr)) →
      (argPatternsOf pfx expr expr.length)[j]? = some blank) := by
  obtain ⟨r, hr, hlen, hsel, hblank⟩ := patterns_spec _ _ (selPatterns_sorted pfx expr)
  rw [patterns_selPatterns pfx expr expr.length rfl] at hr
  cases hr
  exact ⟨hlen, hsel, hblank⟩

/-- anonymous selections: the k-th selected symbol (source order) is bound to `fresh_name(k)` —
    the k-th `<>` of a counted action, the k-th component of the default tuple -/
theorem selPatterns_anon (pfx : Str) (l : List (Nat × Sym B)) (k : Nat) (hk : k < l.length) :
    (selPatterns pfx (Symbols.anon l))[k]? =
      some ((l[k]).1, ArgPattern.name (Name.immut (freshName pfx k))) ∧
    (selNames Variant.pinned pfx (Symbols.anon l))[k]? = some (freshName pfx k) := by
  simp [selPatterns, selNames, hk]

/-- named selections: each named symbol is bound to the user's pattern; `<>` lists them in
    source order -/
theorem selPatterns_named (v : Variant) (pfx : Str) (l : List (Nat × ArgPattern × Sym B)) (k : Nat) (hk : k < l.length) :
    (selPatterns pfx (Symbols.named l))[k]? = some ((l[k]).1, (l[k]).2.1) ∧
    (selNames v pfx (Symbols.named l))[k]? = some (v.nameOf (l[k]).2.1) := by
  simp [selPatterns, selNames, hk]

theorem actionFnOn_no_assert (v : Variant) (pfx : Str) (fallible : Bool) (expr : List (Sym B))
    (symbols : List (RSym B)) (act : Str) (hlen : symbols.length = expr.length)
    (h1 : '<' ∉ pfx) (h2 : '>' ∉ pfx) (d : UserDefn B) :
    actionFnOn v pfx fallible (analyzeExpr expr) symbols act ≠ .assertFailed ∧
      (actionFnOn v pfx fallible (analyzeExpr expr) symbols act = .ok d →
        d.fallible = fallible ∧ d.argTypes = symbols ∧ d.argPatterns = argPatternsOf pfx expr symbols.length) := by
  rw [actionFnOn_eq v pfx fallible expr symbols act hlen h1 h2]
  have hok : ∀ c, (Outcome.ok (mkDefn fallible (argPatternsOf pfx expr symbols.length) symbols c) = .ok d →
      d.fallible = fallible ∧ d.argTypes = symbols ∧ d.argPatterns = argPatternsOf pfx expr symbols.length) := by
    intro c h
    simp only [Outcome.ok.injEq] at h; subst h; simp [mkDefn]
  cases analyzeExpr expr with
  | named l => exact ⟨by simp, hok _⟩
  | anon l =>
    simp only [anonOutcome]
    by_cases c1 : (splitAngle act).length ≤ 2
    · simp only [c1, if_true]; exact ⟨by simp, hok _⟩
    · simp only [c1, if_false]
      by_cases c2 : (splitAngle act).length = l.length + 1
      · simp only [c2, if_true]; exact ⟨by simp, hok _⟩
      · simp only [c2, if_false]
        split <;> simp

/-- `action_fn` never trips the `debug_assert!` of `patterns`; patterns, argument types and the
    fallible flag of its result do not depend on the action code -/
theorem action_fn_no_assert (v : Variant) (pfx : Str) (isUnit fallible : Bool) (expr : List (Sym B))
    (symbols : List (RSym B)) (action : Option Str) (hlen : symbols.length = expr.length)
    (h1 : '<' ∉ pfx) (h2 : '>' ∉ pfx) (d : UserDefn B) :
    actionFn v pfx isUnit fallible expr symbols action ≠ .assertFailed ∧
      (actionFn v pfx isUnit fallible expr symbols action = .ok d →
        d.fallible = fallible ∧ d.argTypes = symbols ∧ d.argPatterns = argPatternsOf pfx expr symbols.length) := by
  unfold actionFn
  exact actionFnOn_no_assert v pfx fallible expr symbols _ hlen h1 h2 d

/-- the panic of the pinned tree: exactly an empty anonymous selection (an empty alternative)
    whose explicit action contains two or more `<>`; the repaired tree reports the error -/
theorem action_fn_panic_iff (v : Variant) (pfx : Str) (isUnit fallible : Bool) (expr : List (Sym B))
    (symbols : List (RSym B)) (action : Option Str) (hlen : symbols.length = expr.length)
    (h1 : '<' ∉ pfx) (h2 : '>' ∉ pfx) :
    actionFn v pfx isUnit fallible expr symbols action = .panic ↔
      v.emptyAnonUnwrap = true ∧ analyzeExpr expr = .anon [] ∧
        ∃ code, action = some code ∧ countAngle code > 1 := by
  cases action with
  | none =>
    rw [default_action_spec v pfx isUnit fallible expr symbols hlen h1 h2]
    simp
  | some code =>
    rw [angle_subst_spec v pfx isUnit fallible expr symbols code hlen h1 h2]
    have hc := countAngle_eq code
    cases hsel : analyzeExpr expr with
    | named l => simp
    | anon l =>
      simp only [anonOutcome]
      split
      · simp; intro _ _; omega
      · split
        · rename_i h2' h3
          simp only [reduceCtorEq, false_iff, not_and]
          intro _ hl
          simp only [Symbols.anon.injEq] at hl
          subst hl
          simp at h3
          omega
        · split
          · rename_i hk
            simp only [true_iff]
            refine ⟨hk.2, ?_, code, rfl, by omega⟩
            have : l = [] := List.eq_nil_of_length_eq_zero hk.1
            rw [this]
          · rename_i hk
            simp only [reduceCtorEq, false_iff, not_and]
            intro hv hl
            simp only [Symbols.anon.injEq] at hl
            subst hl
            exact absurd ⟨rfl, hv⟩ hk

end LalrpopModel.Lower
