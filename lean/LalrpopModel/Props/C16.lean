import LalrpopModel.Props.LRSoundThms
import LalrpopModel.Props.LRGenericThms
/-!
C16 — Error recovery yields a well-formed tree and accounts for every token.

The theorems deciding this property (audited by `checks/c16.py` with `#print axioms`):

* `drive_sound` with recovery on: the result is a WF derivation with error nodes read as the `!` terminal.
* `drive_yield_sublist`, `leaves_subsequence`, `covered_subsequence`, `dropped_in_order`, `token_accounting`,
  `error_spans_ordered`, `no_recovery_without_error_action` (Props/LRGenericThms, arbitrary tables).
-/
