import LalrpopModel.Lemmas.NfaCorrect
import LalrpopModel.Lemmas.DfaBuild
/-!
C11 — lexer ambiguity is reported exactly when two equal-precedence terminals overlap.

Property theorems about the models of `Nfa::from_re` (`Model/Nfa.lean`), `remove_overlap`
and `DfaBuilder::build` (`Model/Dfa.lean`), for **all** HIRs / range sets / NFA lists.
The models follow the tree *after* the two fixes (literals decoded to scalar values in `Nfa::expr`;
`add_range` keeps the intersection in place); the code as found is kept as `fromReOrig`,
`addRangeOrig`, `buildDfaOrig`, with the counterexamples below.
-/
namespace LalrpopModel.Dfa
open LalrpopModel.Re LalrpopModel.Nfa

/-! ### NFA construction -/

/-- **nfa_correct.** The NFA `from_re` builds for a (well-formed) HIR accepts exactly the words of
the HIR's language — literals read as sequences of scalar values (the runtime reading). -/
theorem nfa_correct (e : Hir) (hwf : e.WF) (N : Nfa) (h : fromRe e = .ok N) (w : List Nat) :
    accepts N w ↔ denote .chars e w :=
  nfa_correct_with .chars e hwf N h w

/-- the same for the code as found, whose language reads every literal *byte* as one symbol -/
theorem nfa_correct_orig (e : Hir) (hwf : e.WF) (N : Nfa) (h : fromReOrig e = .ok N) (w : List Nat) :
    accepts N w ↔ denote .bytes e w :=
  nfa_correct_with .bytes e hwf N h w

/-- **unsupported_iff.** `from_re` fails iff the HIR contains, in a position the construction
visits (everywhere except under `x{0}`), look-around, a lazy repetition, a named group, or a
literal that is not UTF-8. -/
theorem unsupported_iff (e : Hir) : (∃ err, fromRe e = .error err) ↔ unsupported .chars e = true :=
  unsupported_iff_with .chars e

/-! ### bridge between the two readings of literals -/

mutual
/-- every literal byte of the HIR is ASCII -/
def AsciiLits : Hir → Prop
  | .lit bs => ∀ b, b ∈ bs → b < 128
  | .rep _ _ _ sub => AsciiLits sub
  | .cap _ sub => AsciiLits sub
  | .cat es => AsciiLitsL es
  | .alt es => AsciiLitsL es
  | _ => True
def AsciiLitsL : List Hir → Prop
  | [] => True
  | e :: es => AsciiLits e ∧ AsciiLitsL es
end

theorem decodeUtf8_ascii : ∀ (bs : List Nat), (∀ b, b ∈ bs → b < 128) → decodeUtf8 bs = some bs
  | [], _ => by simp [decodeUtf8]
  | b :: bs, h => by
    have hb := h b List.mem_cons_self
    have ih := decodeUtf8_ascii bs (fun x hx => h x (List.mem_cons_of_mem _ hx))
    unfold decodeUtf8
    simp [hb, ih]

theorem LPow_congr {L L' : List Nat → Prop} (h : ∀ w, L w ↔ L' w) : ∀ (k : Nat) (w : List Nat),
    LPow L k w ↔ LPow L' k w
  | 0, w => Iff.rfl
  | k + 1, w => by
    simp only [LPow]
    constructor
    · rintro ⟨u, v, rfl, hu, hv⟩; exact ⟨u, v, rfl, (h u).mp hu, (LPow_congr h k v).mp hv⟩
    · rintro ⟨u, v, rfl, hu, hv⟩; exact ⟨u, v, rfl, (h u).mpr hu, (LPow_congr h k v).mpr hv⟩

mutual
/-- **denoteBuild_eq_runtime.** On HIRs whose literals are ASCII the byte reading and the
scalar-value reading coincide — the hypothesis the unfixed code needs for its ambiguity verdict to
be about the runtime languages. -/
theorem denote_bytes_eq_chars : ∀ (e : Hir), AsciiLits e → ∀ w, denote .bytes e w ↔ denote .chars e w
  | .empty, _, w => Iff.rfl
  | .lit bs, h, w => by
    simp only [AsciiLits] at h
    simp [denote, litSymbols, decodeUtf8_ascii bs h]
  | .cls rs, _, w => Iff.rfl
  | .look, _, w => Iff.rfl
  | .rep min max g sub, h, w => by
    simp only [AsciiLits] at h
    simp only [denote]
    constructor
    · rintro ⟨k, h1, h2, h3⟩
      exact ⟨k, h1, h2, (LPow_congr (denote_bytes_eq_chars sub h) k w).mp h3⟩
    · rintro ⟨k, h1, h2, h3⟩
      exact ⟨k, h1, h2, (LPow_congr (denote_bytes_eq_chars sub h) k w).mpr h3⟩
  | .cap _ sub, h, w => by
    simp only [AsciiLits] at h
    simpa [denote] using denote_bytes_eq_chars sub h w
  | .cat es, h, w => by
    simp only [AsciiLits] at h
    simpa [denote] using denoteCat_bytes_eq_chars es h w
  | .alt es, h, w => by
    simp only [AsciiLits] at h
    simpa [denote] using denoteAlt_bytes_eq_chars es h w
theorem denoteCat_bytes_eq_chars : ∀ (es : List Hir), AsciiLitsL es → ∀ w,
    denoteCat .bytes es w ↔ denoteCat .chars es w
  | [], _, w => Iff.rfl
  | e :: es, h, w => by
    simp only [AsciiLitsL] at h
    simp only [denoteCat]
    constructor
    · rintro ⟨u, v, rfl, hu, hv⟩
      exact ⟨u, v, rfl, (denote_bytes_eq_chars e h.1 u).mp hu, (denoteCat_bytes_eq_chars es h.2 v).mp hv⟩
    · rintro ⟨u, v, rfl, hu, hv⟩
      exact ⟨u, v, rfl, (denote_bytes_eq_chars e h.1 u).mpr hu, (denoteCat_bytes_eq_chars es h.2 v).mpr hv⟩
theorem denoteAlt_bytes_eq_chars : ∀ (es : List Hir), AsciiLitsL es → ∀ w,
    denoteAlt .bytes es w ↔ denoteAlt .chars es w
  | [], _, w => Iff.rfl
  | e :: es, h, w => by
    simp only [AsciiLitsL] at h
    simp only [denoteAlt]
    rw [denote_bytes_eq_chars e h.1 w, denoteAlt_bytes_eq_chars es h.2 w]
end

/-- **the literal-bytes counterexample.** `r"é"` (HIR literal = bytes C3 A9) and `r"[é-ê]"`: at
run time both match the one-symbol string `é` (U+E9), but under the byte reading of the code as
found their languages are disjoint — so (by `ambiguity_iff`, which holds for either reading) the
unfixed builder cannot report the ambiguity. -/
theorem literal_bytes_counterexample :
    (denote .chars (.lit [0xC3, 0xA9]) [0xE9] ∧ denote .chars (.cls [(0xE9, 0xEA)]) [0xE9]) ∧
    (∀ w, ¬ (denote .bytes (.lit [0xC3, 0xA9]) w ∧ denote .bytes (.cls [(0xE9, 0xEA)]) w)) := by
  refine ⟨⟨by simp [denote, litSymbols, decodeUtf8, isCont], ⟨0xE9, rfl, (0xE9, 0xEA), by simp, by decide, by decide⟩⟩, ?_⟩
  rintro w ⟨h1, c, rfl, _⟩
  simp [denote, litSymbols] at h1

/-! ### remove_overlap -/

/-- **remove_overlap_partition** (fixed `add_range`). Whenever `remove_overlap` returns, its
output ranges are pairwise disjoint and non-empty, cover exactly the symbols the input ranges
cover, and each output range lies inside or is disjoint from every input range. -/
theorem remove_overlap_partition (fuel : Nat) (ranges out : List Range)
    (h : removeOverlap fuel ranges = .ok out) :
    out.Pairwise Disj ∧ (∀ t, t ∈ out → isEmpty t = false) ∧
    (∀ c, (∃ t, t ∈ out ∧ mem c t) ↔ (∃ r, r ∈ ranges ∧ mem c r)) ∧
    (∀ t, t ∈ out → ∀ r, r ∈ ranges → Sub t r ∨ Disj t r) :=
  removeOverlap_partition fuel ranges out h

/-- **the `add_range` counterexample** (code as found): on the sorted input
`{0-2, 0-3, 1-2, 2-3}` the output contains `1-2` and `2-2`, which overlap. -/
theorem remove_overlap_orig_not_partition :
    removeOverlapOrig 20 [(0, 2), (0, 3), (1, 2), (2, 3)] = .ok [(0, 0), (1, 2), (2, 2), (3, 3)] ∧
    ¬ Disj (1, 2) (2, 2) := by
  refine ⟨by rfl, fun h => h 2 ⟨by simp [mem], by simp [mem]⟩⟩

/-! ### subset construction -/

/-- pattern `i` accepts `w` -/
def AcceptsI (nfas : List Nfa) (i : Nat) (w : List Nat) : Prop :=
  i < nfas.length ∧ accepts (nfaAt nfas i) w

/-- on `w`, the accepting patterns of maximal precedence number at least two -/
def AmbiguousOn (nfas : List Nfa) (precs : List Nat) (w : List Nat) : Prop :=
  ∃ i j, i ≠ j ∧ AcceptsI nfas i w ∧ AcceptsI nfas j w ∧ precOf precs i = precOf precs j ∧
    ∀ k, AcceptsI nfas k w → precOf precs k ≤ precOf precs i

theorem rs_valid {nfas : List Nfa} {I : List Item} {w : List Nat} (hI : Rs nfas I w) : ItemsValid nfas I :=
  fun it hit => ((hI it).mp hit).1

theorem rs_accepts {nfas : List Nfa} (hok : NfasOk nfas) {I : List Item} {w : List Nat} (hI : Rs nfas I w)
    (i : Nat) : (i, 0) ∈ I ↔ AcceptsI nfas i w := by
  rw [hI (i, 0)]
  simp only [AcceptsI, accepts, acc_iff_path]
  constructor
  · rintro ⟨hlt, hp⟩; exact ⟨hlt, 0, hp, (hok i hlt 0).mpr rfl⟩
  · rintro ⟨hlt, q, hp, hq⟩
    have := (hok i hlt q).mp hq
    subst this
    exact ⟨hlt, hp⟩

theorem tie_iff_ambiguous {nfas : List Nfa} (hok : NfasOk nfas) (precs : List Nat) {I : List Item}
    {w : List Nat} (hI : Rs nfas I w) : TieIn precs I ↔ AmbiguousOn nfas precs w := by
  simp only [TieIn, AmbiguousOn, rs_accepts hok hI]

theorem build_loopResult (nfas : List Nfa) (precs : List Nat) (fuel : Nat) :
    match closure nfas fuel ((List.range nfas.length).map (fun i => (i, START))) with
    | none => build nfas precs fuel = .fuel
    | some s0 => LoopResult nfas precs fuel [s0] (build nfas precs fuel) := by
  cases h : closure nfas fuel ((List.range nfas.length).map (fun i => (i, START))) with
  | none => simp [build, buildWith, h]
  | some s0 =>
    simp only
    have e : build nfas precs fuel = buildLoop (removeOverlap fuel) nfas precs fuel fuel [s0] 0 [] := by
      simp [build, buildWith, h]
    rw [e]
    apply buildLoop_spec (removeOverlap fuel) (removeOverlap_ok fuel) nfas precs fuel fuel [s0] 0 []
    · intro I hI
      simp only [List.mem_singleton] at hI
      subst hI
      exact ⟨closure_nodup h, [], rs_start nfas fuel I h⟩
    · intro j I hj; omega
    · rfl

/-- **dfa_state_is_reachset.** If `build` completes, every DFA state's item set is the set of NFA
states reachable (with ε-closure) by some word, and every word reaches such a state: the states
are exactly the reach sets. -/
theorem dfa_state_is_reachset (nfas : List Nfa) (precs : List Nat) (fuel : Nat) (states : List DState)
    (h : build nfas precs fuel = .ok states) :
    (∀ st, st ∈ states → ∃ w, Rs nfas st.items w) ∧ (∀ w, ∃ st, st ∈ states ∧ Rs nfas st.items w) := by
  have hres := build_loopResult nfas precs fuel
  cases hc : closure nfas fuel ((List.range nfas.length).map (fun i => (i, START))) with
  | none => rw [hc] at hres; simp only at hres; rw [h] at hres; cases hres
  | some s0 =>
    rw [hc] at hres
    simp only at hres
    rw [h] at hres
    obtain ⟨ks', hstart, hall, hmap⟩ := hres
    have hmem : ∀ I, I ∈ ks' ↔ ∃ st, st ∈ states ∧ st.items = I := by
      intro I; rw [← hmap]; simp [List.mem_map]
    constructor
    · intro st hst
      exact (hall st.items ((hmem _).mpr ⟨st, hst, rfl⟩)).1.reach
    · have hgo : ∀ (w u : List Nat) (I : List Item), I ∈ ks' → Rs nfas I u →
          ∃ I', I' ∈ ks' ∧ Rs nfas I' (u ++ w) := by
        intro w
        induction w with
        | nil => intro u I hI hr; exact ⟨I, hI, by simpa using hr⟩
        | cons c w ih =>
          intro u I hI hr
          obtain ⟨I1, hI1, hS⟩ := (hall I hI).2.succ c
          have hr1 := rs_step nfas fuel I I1 u c hr hS
          obtain ⟨I2, hI2, hr2⟩ := ih (u ++ [c]) I1 hI1 hr1
          exact ⟨I2, hI2, by simpa using hr2⟩
      intro w
      have hs0 : Rs nfas s0 [] := rs_start nfas fuel s0 hc
      obtain ⟨I', hI', hr⟩ := hgo w [] s0 (hstart s0 (by simp)) hs0
      obtain ⟨st, hst, rfl⟩ := (hmem I').mp hI'
      exact ⟨st, hst, by simpa using hr⟩

/-- **ambiguity (soundness).** If `build` reports `Ambiguity { match0, match1 }` there is a word on
which the accepting patterns of maximal precedence number at least two. -/
theorem ambiguity_sound (nfas : List Nfa) (hok : NfasOk nfas) (precs : List Nat) (fuel : Nat) (m0 m1 : Nat)
    (h : build nfas precs fuel = .ambiguity m0 m1) : ∃ w, AmbiguousOn nfas precs w := by
  have hres := build_loopResult nfas precs fuel
  cases hc : closure nfas fuel ((List.range nfas.length).map (fun i => (i, START))) with
  | none => rw [hc] at hres; simp only at hres; rw [h] at hres; cases hres
  | some s0 =>
    rw [hc] at hres
    simp only at hres
    rw [h] at hres
    obtain ⟨I, ⟨hnd, w, hw⟩, hk⟩ := hres
    exact ⟨w, (tie_iff_ambiguous hok precs hw).mp
      ((stateKind_error_iff hok (rs_valid hw) hnd).mp ⟨_, hk⟩)⟩

/-- **ambiguity (completeness).** If `build` succeeds, no word has two accepting patterns of
maximal precedence. -/
theorem ambiguity_complete (nfas : List Nfa) (hok : NfasOk nfas) (precs : List Nat) (fuel : Nat)
    (states : List DState) (h : build nfas precs fuel = .ok states) : ¬ ∃ w, AmbiguousOn nfas precs w := by
  rintro ⟨w, hamb⟩
  have hres := build_loopResult nfas precs fuel
  cases hc : closure nfas fuel ((List.range nfas.length).map (fun i => (i, START))) with
  | none => rw [hc] at hres; simp only at hres; rw [h] at hres; cases hres
  | some s0 =>
    obtain ⟨_, hreach⟩ := dfa_state_is_reachset nfas precs fuel states h
    obtain ⟨st, hst, hr⟩ := hreach w
    rw [hc] at hres
    simp only at hres
    rw [h] at hres
    obtain ⟨ks', _, hall, hmap⟩ := hres
    have hI : st.items ∈ ks' := by rw [← hmap]; exact List.mem_map.mpr ⟨st, hst, rfl⟩
    obtain ⟨⟨hnd, _⟩, ⟨k, hk⟩, _⟩ := hall st.items hI
    have htie := (tie_iff_ambiguous hok precs hr).mpr hamb
    obtain ⟨m, hm⟩ := (stateKind_error_iff hok (rs_valid hr) hnd).mpr htie
    rw [hk] at hm
    cases hm

/-- **ambiguity_iff.** Whenever the subset construction runs to a verdict (it does not run out
of fuel), it reports `Ambiguity` iff some word has at least two accepting patterns of maximal
precedence. -/
theorem ambiguity_iff (nfas : List Nfa) (hok : NfasOk nfas) (precs : List Nat) (fuel : Nat)
    (hdec : (∃ states, build nfas precs fuel = .ok states) ∨ (∃ m0 m1, build nfas precs fuel = .ambiguity m0 m1)) :
    (∃ m0 m1, build nfas precs fuel = .ambiguity m0 m1) ↔ ∃ w, AmbiguousOn nfas precs w := by
  constructor
  · rintro ⟨m0, m1, h⟩; exact ambiguity_sound nfas hok precs fuel m0 m1 h
  · intro hw
    rcases hdec with ⟨states, h⟩ | h
    · exact absurd hw (ambiguity_complete nfas hok precs fuel states h)
    · exact h

/-! ### from HIRs to the verdict of `build_dfa` -/

theorem buildNfas_spec (m : LitMode) : ∀ (res : List Hir) (i0 : Nat) (nfas : List Nfa),
    buildNfas m res i0 = .ok nfas →
    nfas.length = res.length ∧
      ∀ (i : Nat) (e : Hir), res[i]? = some e → ∃ N, nfas[i]? = some N ∧ fromReWith m e = .ok N
  | [], _, nfas, h => by
    simp only [buildNfas, Except.ok.injEq] at h
    subst h
    exact ⟨rfl, fun i e he => by simp at he⟩
  | e :: es, i0, nfas, h => by
    rw [buildNfas] at h
    split at h
    · cases h
    · rename_i N hN
      split at h
      · cases h
      · rename_i ns hns
        simp only [Except.ok.injEq] at h
        subst h
        obtain ⟨hl, hall⟩ := buildNfas_spec m es (i0 + 1) ns hns
        refine ⟨by simp [hl], ?_⟩
        intro i e' he'
        cases i with
        | zero =>
          simp only [List.getElem?_cons_zero, Option.some.injEq] at he'
          subst he'
          exact ⟨N, rfl, hN⟩
        | succ i =>
          rw [List.getElem?_cons_succ] at he'
          simpa using hall i e' he'

/-- on the HIR list `res`, with maximal precedence, at least two patterns match `w` -/
def AmbiguousLang (m : LitMode) (res : List Hir) (precs : List Nat) (w : List Nat) : Prop :=
  ∃ i j ei ej, i ≠ j ∧ res[i]? = some ei ∧ res[j]? = some ej ∧ denote m ei w ∧ denote m ej w ∧
    precOf precs i = precOf precs j ∧
    ∀ k ek, res[k]? = some ek → denote m ek w → precOf precs k ≤ precOf precs i

/-- **ambiguity_iff at the level of `build_dfa`.** For well-formed HIRs all of which `from_re`
accepts, `build_dfa` (when it reaches a verdict) reports `Ambiguity` iff some word is matched,
with maximal precedence, by at least two of the regular expressions — in the reading of literals
`m` the NFA construction uses (`chars` for the tree as it is now). -/
theorem ambiguity_iff_hir (m : LitMode) (res : List Hir) (hwf : ∀ e, e ∈ res → e.WF) (precs : List Nat)
    (fuel : Nat) (nfas : List Nfa) (hn : buildNfas m res 0 = .ok nfas)
    (hdec : (∃ states, build nfas precs fuel = .ok states) ∨ (∃ m0 m1, build nfas precs fuel = .ambiguity m0 m1)) :
    (∃ m0 m1, buildDfaWith m res precs fuel = .ambiguity m0 m1) ↔ ∃ w, AmbiguousLang m res precs w := by
  obtain ⟨hlen, hall⟩ := buildNfas_spec m res 0 nfas hn
  have hget : ∀ i, i < nfas.length → ∃ e N, res[i]? = some e ∧ nfas[i]? = some N ∧ fromReWith m e = .ok N ∧ e.WF := by
    intro i hi
    have hi' : i < res.length := by omega
    obtain ⟨N, hN, hf⟩ := hall i res[i] (List.getElem?_eq_getElem hi')
    exact ⟨res[i], N, List.getElem?_eq_getElem hi', hN, hf, hwf _ (List.getElem_mem hi')⟩
  have hok : NfasOk nfas := by
    intro i hi q
    obtain ⟨e, N, _, hN, hf, hw⟩ := hget i hi
    have : nfaAt nfas i = N := by simp [nfaAt, hN]
    rw [this]
    exact fromRe_accepting_iff hw hf q
  have hacc : ∀ i w, AcceptsI nfas i w ↔ ∃ e, res[i]? = some e ∧ denote m e w := by
    intro i w
    constructor
    · rintro ⟨hi, ha⟩
      obtain ⟨e, N, he, hN, hf, hw⟩ := hget i hi
      have : nfaAt nfas i = N := by simp [nfaAt, hN]
      rw [this] at ha
      exact ⟨e, he, (nfa_correct_with m e hw N hf w).mp ha⟩
    · rintro ⟨e, he, hd⟩
      have hi : i < nfas.length := by
        rw [hlen]; exact (List.getElem?_eq_some_iff.mp he).1
      obtain ⟨e', N, he', hN, hf, hw⟩ := hget i hi
      rw [he] at he'; cases he'
      have : nfaAt nfas i = N := by simp [nfaAt, hN]
      exact ⟨hi, by rw [this]; exact (nfa_correct_with m e hw N hf w).mpr hd⟩
  have hbd : buildDfaWith m res precs fuel = build nfas precs fuel := by simp [buildDfaWith, hn]
  rw [hbd, ambiguity_iff nfas hok precs fuel hdec]
  constructor
  · rintro ⟨w, i, j, hij, hi, hj, hp, hmax⟩
    obtain ⟨ei, hei, hdi⟩ := (hacc i w).mp hi
    obtain ⟨ej, hej, hdj⟩ := (hacc j w).mp hj
    exact ⟨w, i, j, ei, ej, hij, hei, hej, hdi, hdj, hp,
      fun k ek hk hd => hmax k ((hacc k w).mpr ⟨ek, hk, hd⟩)⟩
  · rintro ⟨w, i, j, ei, ej, hij, hei, hej, hdi, hdj, hp, hmax⟩
    refine ⟨w, i, j, hij, (hacc i w).mpr ⟨ei, hei, hdi⟩, (hacc j w).mpr ⟨ej, hej, hdj⟩, hp, ?_⟩
    intro k hk
    obtain ⟨ek, hek, hdk⟩ := (hacc k w).mp hk
    exact hmax k ek hek hdk

/-- the hypotheses are satisfiable: `a` vs `[a-b]` at equal precedence is ambiguous on `"a"` -/
example : AmbiguousLang .chars [.lit [97], .cls [(97, 98)]] [0, 0] [97] :=
  ⟨0, 1, _, _, by decide, rfl, rfl, by simp [denote, litSymbols, decodeUtf8],
    ⟨97, rfl, (97, 98), by simp, by decide, by decide⟩, rfl,
    fun k ek hk _ => by
      have : k < 2 := (List.getElem?_eq_some_iff.mp hk).1
      have : k = 0 ∨ k = 1 := by omega
      rcases this with rfl | rfl <;> simp [precOf]⟩

end LalrpopModel.Dfa
