import LalrpopModel.Props.LRCompleteThms
import LalrpopModel.Props.LRSoundThms
import LalrpopModel.Props.C01
/-!
C02 — Parse results are the grammar's actions evaluated over the derivation.

The theorems deciding this property (audited by `checks/c02.py` with `#print axioms`):

* `actions_postorder_once` (Props/LRCompleteThms): on every sentence, EVERY run of the driver returns the
  tree with the shape of the (unique) derivation tree, and the action trace is exactly the post-order
  list of its productions followed by the start production: each action runs once per node, in post-order.
* `validated_unambiguous` : that derivation tree is unique.
* children left to right: `accepted_value_is_derivation` (Props/C01): the value is a WF tree whose node
  children match the right-hand side in order (`Forest.WF`) and whose yield is the input.
Lowering (default actions, `<>`, named/tuple bindings) is tied by the compiled-parser correspondence only.
-/
