import LalrpopModel.Props.LRPrefixThms
import LalrpopModel.Props.LRGenericThms
import LalrpopModel.Props.LRSoundThms
import LalrpopModel.Props.C01
/-!
C04 — Syntax errors are reported at the first token that cannot continue the input.

The theorems deciding this property (audited by `checks/c04.py` with `#print axioms`):

* `unrecognized_token_is_last_pulled`, `pulled_le` (Props/LRGenericThms, arbitrary tables): the reported token is
  the last one pulled (the parser never reads beyond it) and, with recovery off, everything before it was shifted.
* `unrecognized_eof_location`: `UnrecognizedEof` carries the end of the last token (start location for empty input)
  and all tokens were pulled.
* `no_extra_token_unless_start_reduce_under_lookahead`: `ExtraToken` needs a start-production reduce entry under a
  terminal lookahead (the validator's `checkItems` forces the start item's lookahead to be EOF).
* Props/LRPrefixThms: `error_at_first_bad_token`, `eof_error` (sentence-prefix characterisation).
-/
