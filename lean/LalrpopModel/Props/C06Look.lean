import LalrpopModel.Lemmas.LowerLook
/-!
# C06, `@L`/`@R` part

`lookaround_spec`: for every position of an `@L`/`@R` (more generally: of any inlined symbol
without symbols) in an inlined alternative — arbitrary many symbols before and after it, among
them arbitrary many other inlined-empty ones — the location the generated `__actionN` computes
(model of `emit_inline_action_code`: `arg_counter`, `num_flat_args`, the lookbehind/lookahead
fallbacks; model of `emit_lookaround_action_code`) is the one property C06 states:
`@L` = start of the following symbol, else end of the preceding one, else the enclosing empty
position; `@R` symmetric. "Following/preceding symbol" = the nearest flat argument of the
generated function after/before the position, i.e. inlined-empty neighbours *of the same function*
are skipped.

Scope. The inliner processes one nonterminal at a time and `emit_inline_action_code` emits one
function per step; the theorem speaks about one such function. A symbol that derives nothing but is
inlined by a *later* step is an ordinary argument of the earlier function, with the span
`(end of the previous symbol, start of the next symbol)`; `lookaround_composition_counterexample`
shows that the rule therefore does not hold end to end (`"c" @L @R "d"`: `@L` = end of `c`). That is a
recorded finding of C06 (`c06:lookaround-next-to-later-inlined-empty`); `checks/lowerpart.py` compares
the compiled parsers with the *composed* functions (driver `lookmodel`) and evaluates the rule
(`lookeval`, built from `declL`/`declR`) as the property-level oracle.
-/
namespace LalrpopModel.Lower
open LalrpopModel.Inline (InlinedSymbol LocSrc startSrc endSrc Step planFrom plan numFlatArgs)
variable {N T L : Type}

/-- **lookaround_spec.** -/
theorem lookaround_spec (env : Env L) (pre post : List (InlinedSymbol N T)) (a : Nat)
    (hargs : env.args.length = numFlatArgs (pre ++ .inlined a [] :: post)) :
    let before := env.args.take (numFlatArgs pre)
    let after := env.args.drop (numFlatArgs pre)
    -- what the first loop computes for this symbol (entry `temp_counter` of the temporaries)
    (tempSpans env (pre ++ .inlined a [] :: post))[inlCount pre]? =
        some (some (declR before after env.lookbehind, declL before after env.lookahead)) ∧
    -- hence what a lookaround action called with `(&__startK, &__endK)` returns
    (∀ k : Look, ∀ s e, spanAt env pre (.inlined a []) post = some (s, e) →
        lookaroundAction k s e = declLook k before after env.lookbehind env.lookahead) := by
  have hb : numFlatArgs pre ≤ env.args.length := by
    rw [hargs, numFlatArgs_append]; omega
  have hspan : spanAt env pre (.inlined a []) post =
      some (declR (env.args.take (numFlatArgs pre)) (env.args.drop (numFlatArgs pre)) env.lookbehind,
            declL (env.args.take (numFlatArgs pre)) (env.args.drop (numFlatArgs pre)) env.lookahead) := by
    unfold spanAt
    simp only [InlinedSymbol.flat, List.length_nil]
    rw [← hargs]
    exact tempSpan_empty env _ hb
  refine ⟨by rw [tempSpans_at, hspan], ?_⟩
  intro k s e h
  rw [hspan] at h
  cases h
  cases k <;> rfl

/-- the rule read off the flat arguments: the following symbol is the first flat argument that
    belongs to `post`, the preceding one the last flat argument that belongs to `pre`; other
    inlined symbols without symbols contribute nothing to either list -/
theorem neighbours_skip_empty (pre : List (InlinedSymbol N T)) (a : Nat) :
    numFlatArgs (pre ++ [.inlined a []]) = numFlatArgs pre ∧
    numFlatArgs (.inlined a [] :: pre) = numFlatArgs pre := by
  simp [numFlatArgs, InlinedSymbol.flat]

/-- several `@L`/`@R` in a row see the same two neighbours -/
theorem adjacent_lookarounds_agree (env : Env L) (pre post : List (InlinedSymbol N T)) (a b : Nat) :
    spanAt env pre (.inlined a []) (.inlined b [] :: post) =
      spanAt env (pre ++ [.inlined a []]) (.inlined b []) post := by
  simp [spanAt, numFlatArgs, InlinedSymbol.flat]

/-- an inlined symbol *with* symbols spans from the start of its first to the end of its last
    flat argument -/
theorem nonempty_inlined_span (env : Env L) (pre post : List (InlinedSymbol N T)) (a : Nat)
    (syms : List (Inline.Symbol N T)) (hne : syms ≠ []) :
    spanAt env pre (.inlined a syms) post =
      match env.args[numFlatArgs pre]?, env.args[numFlatArgs pre + syms.length - 1]? with
      | some f, some l => some (f.1, l.2)
      | _, _ => none := by
  have hl : syms.length ≠ 0 := by simpa using hne
  unfold spanAt tempSpan startSrc endSrc
  simp only [InlinedSymbol.flat, ne_eq, hl, not_false_eq_true, if_true, evalSrc]
  cases env.args[numFlatArgs pre]? <;> cases env.args[numFlatArgs pre + syms.length - 1]? <;> simp

/-- an action function without flat arguments (an empty production, or an inlined nonterminal
    all of whose symbols vanished) hands its own `(__lookbehind, __lookahead)` to every inlined
    symbol: the *enclosing empty position* -/
theorem empty_host_passthrough (env : Env L) (symbols : List (InlinedSymbol N T))
    (h0 : numFlatArgs symbols = 0) :
    ∀ sp ∈ tempSpans env symbols, sp = some (env.lookbehind, env.lookahead) := by
  have hall : ∀ (arg temp : Nat) (l : List (InlinedSymbol N T)), numFlatArgs l = 0 → arg = 0 →
      ∀ sp ∈ (planFrom arg temp l).filterMap (stepSpan env 0), sp = some (env.lookbehind, env.lookahead) := by
    intro arg temp l
    induction l generalizing arg temp with
    | nil => intro _ _ sp h; simp [planFrom] at h
    | cons s l ih =>
      intro hl harg sp h
      rw [numFlatArgs_cons] at hl
      cases s with
      | original x => simp [InlinedSymbol.flat] at hl
      | inlined act syms =>
        have hs : syms.length = 0 := by simp only [InlinedSymbol.flat] at hl; omega
        have hl' : numFlatArgs l = 0 := by omega
        simp only [planFrom, List.filterMap_cons, stepSpan, List.mem_cons] at h
        rcases h with h | h
        · subst h; subst harg
          simp [hs, tempSpan, startSrc, endSrc, evalSrc]
        · exact ih _ _ hl' (by omega) sp h
  intro sp h
  unfold tempSpans plan at h
  rw [h0] at h
  exact hall 0 0 symbols h0 rfl sp h

/-- nesting: an `@L`/`@R` inside an inlined nonterminal whose expansion contributes no flat
    argument sees what an `@L`/`@R` written directly at that place of the host would see -/
theorem nested_lookaround (env : Env L) (pre post : List (InlinedSymbol N T)) (a : Nat)
    (inner : List (InlinedSymbol N T)) (h0 : numFlatArgs inner = 0)
    (hargs : env.args.length = numFlatArgs (pre ++ .inlined a [] :: post)) (k : Look) :
    let before := env.args.take (numFlatArgs pre)
    let after := env.args.drop (numFlatArgs pre)
    ∀ s e, spanAt env pre (.inlined a []) post = some (s, e) →
      -- the inlined action is called as `__action_a(&s, &e)`: its environment
      ∀ sp ∈ tempSpans { args := [], lookbehind := s, lookahead := e } inner,
        ∃ s' e', sp = some (s', e') ∧
          lookaroundAction k s' e' = declLook k before after env.lookbehind env.lookahead := by
  intro before after s e hspan sp hsp
  have hp := empty_host_passthrough { args := [], lookbehind := s, lookahead := e } inner h0 sp hsp
  exact ⟨s, e, hp, (lookaround_spec env pre post a hargs).2 k s e hspan⟩

/-- `expand_lookaround_symbol` + `action_kind`: `@L`/`@R` become `#[inline]` nonterminals with
    one empty alternative whose lowered action is the matching lookaround function (never
    fallible, no `action_fn` involved) -/
theorem expand_lookaround_symbol_spec (v : Variant) (pfx : Str) (isUnit : Bool) (k : Look) :
    (expandLookaroundSymbol k).isInline = true ∧
    (expandLookaroundSymbol k).name = (match k with | .ahead => ['@', 'L'] | .behind => ['@', 'R']) ∧
    ∃ act, (expandLookaroundSymbol k).alts = [{ expr := [], action := some act }] ∧
      (actionKind (B := Str) v pfx isUnit [] [] (some act) =
        .ok (match k with | .ahead => DefnKind.lookahead | .behind => DefnKind.lookbehind)) := by
  cases k
  · exact ⟨rfl, rfl, .lookahead, rfl, rfl⟩
  · exact ⟨rfl, rfl, .lookbehind, rfl, rfl⟩

/-- **The rule does not compose across inlining steps** (recorded finding of C06). Alternative
    `"c" @L @R "d"` on tokens `c` = (0,1), `d` = (4,5). `@L` is inlined first, so its function
    (`inner`) has the arguments `c`, `@R`, `d`; `@R` is inlined afterwards, its function (`outer`)
    has the arguments `c`, `d`, computes the temporary `(1, _, 4)` for `@R` and hands it to `inner`
    as an ordinary argument. Inside `inner`, `lookaround_spec` applies to *its* arguments: the
    symbol that follows `@L` is `@R` with span `(1, 4)`, so `@L` = 1 — while the start of the
    following token is 4 (`declL` over the real neighbours). -/
theorem lookaround_composition_counterexample :
    let c : Nat × Nat := (0, 1)
    let d : Nat × Nat := (4, 5)
    let outer : List (InlinedSymbol Nat Nat) := [.original (.term 0), .inlined 11 [], .original (.term 1)]
    let inner : List (InlinedSymbol Nat Nat) :=
      [.original (.term 0), .inlined 10 [], .original (.nt 7), .original (.term 1)]
    tempSpans { args := [c, d], lookbehind := 0, lookahead := 0 } outer = [some (1, 4)] ∧
    tempSpans { args := [c, (1, 4), d], lookbehind := 0, lookahead := 0 } inner = [some (1, 1)] ∧
    lookaroundAction Look.ahead (1 : Nat) 1 = 1 ∧
    declL [c] [d] (0 : Nat) = 4 := by
  decide

example : ∃ (env : Env Nat) (pre post : List (InlinedSymbol Nat Nat)),
    env.args.length = numFlatArgs (pre ++ .inlined 0 [] :: post) :=
  ⟨{ args := [(3, 5)], lookbehind := 0, lookahead := 0 }, [.original (.term 0)], [], rfl⟩

end LalrpopModel.Lower
