import LalrpopModel.Props.LRSoundThms
import LalrpopModel.Props.LRCompleteThms
/-!
C01 — generated parsers accept exactly the language of the start symbol.

For EVERY grammar `G`, tables `T`, exported automaton `A` and annotation `ann` that pass the
executable validator (`validate G T A ann = true`; run by the check on every automaton the real
lalrpop builds, with each of its three construction algorithms), and for EVERY token sequence:
the model of `Parser::drive` returns `Ok` iff the token kinds are derivable from the start symbol.
-/
namespace LalrpopModel.LR

theorem validate_split {G : Grammar} {T : Tables} {A : Automaton} {ann : Ann}
    (h : validate G T A ann = true) :
    validateSound G T A = true ∧ validateComplete G T A ann = true := by
  simpa [validate, Bool.and_eq_true] using h

/-- kinds of a token list are terminal indices of the table -/
def KindsInRange (T : Tables) (toks : List Tok) : Prop :=
  ∀ t ∈ toks, ∀ k, t.kind = some k → k < T.nTerm

theorem inRange_of_kinds {T : Tables} {toks : List Tok} (h : KindsInRange T toks) :
    InRange T (toks.map Item.tok) := by
  intro t k hm hk
  obtain ⟨t', ht', he⟩ := List.mem_map.mp hm
  cases he
  exact h t ht' k hk

/-- **C01.** For validated tables without error recovery, any action-failure setting that lets no
    action fail, any start location and any token list with in-range kinds:
    `parse` returns `Ok` exactly when the kinds form a sentence of the start symbol `S`. -/
theorem accepts_iff_derives {G : Grammar} {T : Tables} {A : Automaton} {ann : Ann}
    (h : validate G T A ann = true) (hrec : T.usesRecovery = false)
    {S : NT} (hS : G.startSym = some S) (toks : List Tok) (hin : KindsInRange T toks)
    (failAt : Option Nat) (hf : NoFail T failAt) (startLoc : Int) :
    (∃ c v, Returns T failAt startLoc (toks.map Item.tok) c (.ok v)) ↔
      ∃ w : List Term, toks.map (·.kind) = w.map some ∧ Derives G S w := by
  obtain ⟨hs, hc⟩ := validate_split h
  constructor
  · rintro ⟨c, v, hr⟩
    obtain ⟨w, hw, hd⟩ := ok_implies_derives hs (inRange_of_kinds hin) hrec hS hr
    refine ⟨w, ?_, hd⟩
    simpa [List.map_map, Function.comp_def, itemKind] using hw
  · rintro ⟨w, hw, hd⟩
    obtain ⟨c, v, hr, _⟩ := derives_implies_ok hc S hS w hd toks hw failAt hf startLoc
    exact ⟨c, v, hr⟩

/-- the accepted value is a derivation tree of `S` over exactly the given tokens -/
theorem accepted_value_is_derivation {G : Grammar} {T : Tables} {A : Automaton}
    (hs : validateSound G T A = true) (hrec : T.usesRecovery = false)
    {S : NT} (hS : G.startSym = some S) (toks : List Tok) (hin : KindsInRange T toks)
    {failAt : Option Nat} {startLoc : Int} {c : Cfg} {v : Tree}
    (hr : Returns T failAt startLoc (toks.map Item.tok) c (.ok v)) :
    Tree.WF G (errT T) v ∧ v.root G (errT T) = some (Sym.n S) ∧ v.yield = toks := by
  have hi := inRange_of_kinds hin
  obtain ⟨hwf, hroot⟩ := drive_sound hs hi hS hr
  obtain ⟨hy, _⟩ := drive_yield hs hi hrec hr
  refine ⟨hwf, hroot, ?_⟩
  have hinj : ∀ (l₁ l₂ : List Tok), l₁.map Item.tok = l₂.map Item.tok → l₁ = l₂ := by
    intro l₁
    induction l₁ with
    | nil => intro l₂ h; cases l₂ <;> simp_all
    | cons a l ih =>
      intro l₂ h
      cases l₂ with
      | nil => simp at h
      | cons b l' =>
        simp only [List.map_cons, List.cons.injEq, Item.tok.injEq] at h
        rw [h.1, ih l' h.2]
  exact (hinj _ _ hy).symm

end LalrpopModel.LR
