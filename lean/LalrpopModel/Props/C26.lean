import LalrpopModel.Lemmas.TokDoc
/-!
C26 — grammar layout is insignificant and embedded Rust is transferred verbatim.

Property theorems about `Model/Tok.lean` (the model of `lalrpop/src/tok/mod.rs`).
`Cfg` = the two source facts re-extracted from `tok/mod.rs` on every run (`Gen/TokFacts.lean`):
`legacyCfg` is the tree as pinned, `fixedCfg` the tree with both candidate fixes applied.
-/
namespace LalrpopModel.Tok

def legacyCfg : Cfg := { rawLegacy := true, shebangDoubleBump := true }
def fixedCfg : Cfg := { rawLegacy := false, shebangDoubleBump := false }

/-! ### totality -/

/-- The model tokenizer is a total function: every text yields a finite list of tokens, ended by at
    most one error entry (by construction: all recursion is structural). -/
theorem tokenizer_total (cfg : Cfg) (shift : Nat) (text : List Char) :
    ∃ items : List Item, tokenize cfg shift text = items := ⟨_, rfl⟩

/-! ### comments (`block_comment_matches_rustc` is in `Lemmas/TokComment.lean`) -/

example : commentOK [' ', 'a', '*', ' ', '/', ' '] := by intro rest; simp [refComment]
example : commentOK ['/', '*', 'x', '*', '/', '*'] := by intro rest; simp [refComment]

/-! ### the code scanner -/

/-- **`code` ends exactly at the top-level terminator.**  For every sequence of Rust lexical items
    (characters, identifiers containing `r`, `/`, string / raw string / char literals, lifetimes,
    line and nested block comments, delimiters) that is well formed (`WF`: literal bodies as Rust
    delimits them, closers only inside openers) and balanced, followed by a terminator `, ; ) ] }`
    and anything after it, `Tokenizer::code` returns the offset of that terminator and leaves it as
    the lookahead — so the code token's text is exactly the snippet.  `rawOK` (inside `WF`) is the
    only place where the source variant matters: with the tree as pinned a raw string must not
    contain a backslash-quote problem (`r"…"`) or `"` followed by one hash less (`r#"…"#`). -/
theorem code_scan_ends_at_terminator (cfg : Cfg) (idx0 p : Nat) (as : List RA) (t : Char) (rest : List Char)
    (hwf : WF cfg 0 as t) (hbal : balAfter 0 as = 0) (ht : isTerminator t = true) :
    codeTop cfg idx0 ⟨p, renderAll as ++ t :: rest⟩ = .ok ⟨p + utf8Len (renderAll as), t :: rest⟩ :=
  codeTop_scan cfg idx0 p as t rest hwf hbal ht

/-- the hypotheses are satisfiable: `{ "}" , 'a' /* ) */ r#"("# }` followed by `,` -/
example : WF fixedCfg 0
    [.open_ '{', .str [.plain '}'], .ch ',', .chr 'a', .blockComment [' ', ')', ' '], .raw 1 ['('], .close '}'] ',' ∧
    balAfter 0 [.open_ '{', .str [.plain '}'], .ch ',', .chr 'a', .blockComment [' ', ')', ' '], .raw 1 ['('], .close '}'] = 0 := by
  refine ⟨⟨?_, ?_, ?_, ?_, ?_, ?_, ?_, trivial⟩, rfl⟩ <;>
    simp [atomOK, newBal, isOpenDelim, isCloseDelim, SPiece.ok, rawOK, fixedCfg, rawBodyOK,
      commentOK, refComment]

/-- …and in the fixed variant every Rust raw string is admitted: `rawOK` is Rust's own rule
    ("ends at the first `"` followed by `n` hashes"). -/
theorem rawOK_fixed (n : Nat) (body : List Char) : rawOK fixedCfg n body ↔ rawBodyOK n body = true := by
  simp [rawOK, fixedCfg]

/-! ### layout -/

/-- **The token sequence of a grammar file is its specification, whatever the layout.**
    A grammar file is specified as a list of atoms (`GA`: punctuation, identifiers and keywords,
    macro references `Id<`, `_`, string / char / regex literals, lifetimes, escapes, `=> code`,
    `=>? code`, `use code`, `#![…]`), each followed by layout (`LP`: Unicode white space, `//…⏎`, nested
    `/*…*/` as rustc delimits them).  If every atom is well formed and is followed by text it
    tolerates (`GA.followOK`: the hypotheses the proof forces, listed there), tokenizing the
    rendering yields exactly the specified tokens: no error, nothing merged, nothing split, code
    texts verbatim.  (With the pinned `shebang_attribute` no text may follow a `#![…]` atom: `GA.followOK`
    then is `False` for it, see `shebang_next_char_witness`.) -/
theorem tokens_of_render (cfg : Cfg) (shift : Nat) (lead : List LP) (items : List DItem)
    (hl : layoutOK lead) (hdoc : DocOK cfg items) :
    (tokenize cfg shift (renderDoc lead items)).map Item.tok? = items.map (fun i => some i.atom.tok) :=
  tokenize_doc cfg shift lead items hl hdoc

/-- **Layout invariance.**  Two renderings of the same atoms with any two layouts (and any two span
    shifts) that both respect the follow restrictions give the same token sequence up to spans. -/
theorem layout_invariance (cfg : Cfg) (s₁ s₂ : Nat) (lead₁ lead₂ : List LP) (items₁ items₂ : List DItem)
    (hatoms : items₁.map (·.atom.tok) = items₂.map (·.atom.tok))
    (hl₁ : layoutOK lead₁) (hl₂ : layoutOK lead₂) (h₁ : DocOK cfg items₁) (h₂ : DocOK cfg items₂) :
    (tokenize cfg s₁ (renderDoc lead₁ items₁)).map Item.tok? =
      (tokenize cfg s₂ (renderDoc lead₂ items₂)).map Item.tok? := by
  rw [tokens_of_render cfg s₁ lead₁ items₁ hl₁ h₁, tokens_of_render cfg s₂ lead₂ items₂ hl₂ h₂]
  have := congrArg (List.map some) hatoms
  simpa [List.map_map, Function.comp_def] using this

/-- the hypotheses are satisfiable: `E<T> = "a" /* c */ => 1,` with a comment, white space and a code block -/
example : layoutOK [LP.ws '\n'] ∧ DocOK legacyCfg
    [⟨.macroWord ['E'], []⟩, ⟨.punct .lessThan, []⟩, ⟨.word ['T'], []⟩, ⟨.punct .greaterThan, [.ws ' ']⟩,
     ⟨.punct .equals, [.ws ' ']⟩, ⟨.strLit [.plain 'a'], [.ws ' ', .block [' ', 'c', ' '], .ws ' ']⟩,
     ⟨.arrowCode [.ch ' ', .ch '1'], []⟩, ⟨.punct .comma, [.line ['x']]⟩] := by
  refine ⟨?_, ?_, ?_, ?_, ?_, ?_, ?_, ?_, ?_, ?_, ?_, ?_, ?_, ?_, ?_, ?_, ?_, ?_, ?_, ?_, ?_, ?_, ?_, ?_, ?_, trivial⟩
  all_goals first
    | trivial
    | (intro x hx; simp at hx; try rcases hx with rfl | rfl | rfl) <;> first
        | (show isWhitespace _ = true; decide)
        | (intro rest; simp [refComment])
        | (intro y hy; simp at hy; subst hy; decide)
    | (simp [GA.wf, SPiece.ok]; done)
    | decide
    | skip
  · refine ⟨?_, ?_, ?_⟩
    · intro c hc; simp [renderLayout, renderItems, GA.text, Punct.text] at hc; subst hc; decide
    · intro _; simp [renderLayout, renderItems, GA.text, Punct.text]
    · intro h; simp at h
  · refine ⟨',', _, by simp [renderLayout, renderItems, GA.text, Punct.text]; rfl, ⟨?_, rfl, by decide⟩, by decide, by decide⟩
    simp [WF, atomOK, newBal, isOpenDelim, isCloseDelim]
  · rintro rfl; decide

/-! ### witnesses: where the pinned source is narrower than Rust -/

/-- `=> r"\",` — a raw string without hashes that ends in a backslash: the pinned scanner reads it as
    an ordinary string whose closing quote is escaped and fails; with `r"` handled like `r#"` the code
    token ends at the comma. -/
theorem raw_string_no_hash_witness :
    tokenize legacyCfg 0 ['=', '>', ' ', 'r', '"', '\\', '"', ','] = [.err 4 .unterminatedStringLiteral] ∧
    tokenize fixedCfg 0 ['=', '>', ' ', 'r', '"', '\\', '"', ','] =
      [.tok 0 (.eqGtCode [' ', 'r', '"', '\\', '"']) 7, .tok 7 .comma 8] := by decide

/-- `=> r#"a"b"#,` — inside `code`, `regex_literal` is entered with the index of the `#`, so it looks
    for one hash less than were opened and stops at the inner quote. -/
theorem raw_string_hash_count_witness :
    tokenize legacyCfg 0 ['=', '>', ' ', 'r', '#', '"', 'a', '"', 'b', '"', '#', ','] =
      [.err 9 .unterminatedStringLiteral] ∧
    tokenize fixedCfg 0 ['=', '>', ' ', 'r', '#', '"', 'a', '"', 'b', '"', '#', ','] =
      [.tok 0 (.eqGtCode [' ', 'r', '#', '"', 'a', '"', 'b', '"', '#']) 11, .tok 11 .comma 12] := by decide

/-- `Comma<"a">` vs `Comma <"a">`: layout between an identifier and `<` changes `MacroId` into `Id`
    (inherent to the `MacroId` rule; holds for both source variants). -/
theorem macro_id_layout_witness (cfg : Cfg) :
    (tokenize cfg 0 ['C', 'o', 'm', 'm', 'a', '<', '"', 'a', '"', '>']).map Item.strip =
      [.inl (some (.macroId ['C', 'o', 'm', 'm', 'a'])), .inl (some .lessThan),
       .inl (some (.stringLiteral ['a'])), .inl (some .greaterThan)] ∧
    (tokenize cfg 0 ['C', 'o', 'm', 'm', 'a', ' ', '<', '"', 'a', '"', '>']).map Item.strip =
      [.inl (some (.id ['C', 'o', 'm', 'm', 'a'])), .inl (some .lessThan),
       .inl (some (.stringLiteral ['a'])), .inl (some .greaterThan)] := by
  rcases cfg with ⟨a, b⟩
  cases a <;> cases b <;> decide

/-- `#![a]//c⏎;` — the pinned `shebang_attribute` bumps once more after the closing `]`, so the `/`
    that starts the comment is dropped and the second `/` is an unrecognised token. -/
theorem shebang_next_char_witness :
    tokenize legacyCfg 0 ['#', '!', '[', 'a', ']', '/', '/', 'c', '\n', ';'] =
      [.tok 0 (.shebangAttribute ['#', '!', '[', 'a', ']']) 5, .err 6 .unrecognizedToken] ∧
    tokenize fixedCfg 0 ['#', '!', '[', 'a', ']', '/', '/', 'c', '\n', ';'] =
      [.tok 0 (.shebangAttribute ['#', '!', '[', 'a', ']']) 5, .tok 9 .semi 10] := by decide

end LalrpopModel.Tok
