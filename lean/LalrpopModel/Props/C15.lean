import LalrpopModel.Model.Cfg
/-!
# C15 — conditional compilation equals deleting the inactive declarations

Theorems about the model `Model/Cfg.lean` of `cond_comp/mod.rs` (and of the related code in
`prevalidate`, `lower`, `api`), for ALL attributes / grammars / feature sets:

* `cfg_active_eq_rust_semantics` — on predicates of the Rust shape (`feature = "x"`, `not(p)` with
  exactly one argument, `all(..)`, `any(..)`), `test_feat_attr` computes Rust's `cfg` semantics;
* `multiple_cfg_conjoined` — several `cfg` attributes on one item are conjoined, other attributes
  are ignored;
* `remove_eq_delete` — `remove_disabled_decls` = deleting every nonterminal, alternative and extern
  conversion whose predicate is false, nothing else touched, order preserved;
* `filter_twice_idem` — the second filtering of the conversions (in `lower`) changes nothing;
* `env_feature_names`, `env_feature_roundtrip`, `env_feature_not_injective` — the names taken from
  `CARGO_FEATURE_*`, and the limit of that route.
-/
namespace LalrpopModel.Cfg
open LalrpopModel.PT

/-! ## Rust's `cfg` predicates, declaratively -/

/-- configuration predicates over features -/
inductive Pred where
  | feature (name : Str)
  | not (p : Pred)
  | all (ps : List Pred)
  | any (ps : List Pred)

mutual
/-- Rust reference semantics: `all()` of nothing is true, `any()` of nothing is false -/
def Pred.eval (on : Str → Bool) : Pred → Bool
  | .feature n => on n
  | .not p => !(p.eval on)
  | .all ps => Pred.evalAll on ps
  | .any ps => Pred.evalAny on ps
def Pred.evalAll (on : Str → Bool) : List Pred → Bool
  | [] => true
  | p :: ps => p.eval on && Pred.evalAll on ps
def Pred.evalAny (on : Str → Bool) : List Pred → Bool
  | [] => false
  | p :: ps => p.eval on || Pred.evalAny on ps
end

mutual
/-- how a predicate is written as an attribute argument -/
def Pred.toAttr : Pred → Attr
  | .feature n => .equal FEATURE n
  | .not p => .paren NOT [p.toAttr]
  | .all ps => .paren ALL (Pred.toAttrs ps)
  | .any ps => .paren ANY (Pred.toAttrs ps)
def Pred.toAttrs : List Pred → List Attr
  | [] => []
  | p :: ps => p.toAttr :: Pred.toAttrs ps
end

/-- which features are on: the set given, or none at all when features are unset -/
def isOn (fs : Features) (n : Str) : Bool :=
  match fs with
  | none => false
  | some features => features.contains n

theorem all_ne_not : ALL ≠ NOT := by decide
theorem any_ne_not : ANY ≠ NOT := by decide
theorem any_ne_all : ANY ≠ ALL := by decide

mutual
theorem testFeat_toAttr (fs : Features) (p : Pred) : testFeat fs p.toAttr = p.eval (isOn fs) := by
  cases p with
  | feature n =>
    show testFeat fs (.equal FEATURE n) = isOn fs n
    unfold testFeat isOn
    rw [if_pos rfl]
    cases fs <;> rfl
  | not q =>
    show testFeat fs (.paren NOT [q.toAttr]) = !(q.eval (isOn fs))
    unfold testFeat
    rw [if_pos rfl]
    unfold testNotFirst
    rw [testFeat_toAttr fs q]
  | all ps =>
    show testFeat fs (.paren ALL (Pred.toAttrs ps)) = Pred.evalAll (isOn fs) ps
    unfold testFeat
    rw [if_neg all_ne_not, if_pos rfl]
    exact testAll_toAttrs fs ps
  | any ps =>
    show testFeat fs (.paren ANY (Pred.toAttrs ps)) = Pred.evalAny (isOn fs) ps
    unfold testFeat
    rw [if_neg any_ne_not, if_neg any_ne_all, if_pos rfl]
    exact testAny_toAttrs fs ps
theorem testAll_toAttrs (fs : Features) (ps : List Pred) :
    testAll fs (Pred.toAttrs ps) = Pred.evalAll (isOn fs) ps := by
  cases ps with
  | nil => rfl
  | cons p ps =>
    show (testFeat fs p.toAttr && testAll fs (Pred.toAttrs ps)) = (p.eval (isOn fs) && Pred.evalAll (isOn fs) ps)
    rw [testFeat_toAttr fs p, testAll_toAttrs fs ps]
theorem testAny_toAttrs (fs : Features) (ps : List Pred) :
    testAny fs (Pred.toAttrs ps) = Pred.evalAny (isOn fs) ps := by
  cases ps with
  | nil => rfl
  | cons p ps =>
    show (testFeat fs p.toAttr || testAny fs (Pred.toAttrs ps)) = (p.eval (isOn fs) || Pred.evalAny (isOn fs) ps)
    rw [testFeat_toAttr fs p, testAny_toAttrs fs ps]
end

/-- **Predicates evaluate like Rust's.**  For every predicate `p` built from `feature = ".."`,
`not`, `all`, `any` and every feature set, an item carrying `#[cfg(p)]` (and any attributes that are
not named `cfg`) is active iff `p` holds in Rust's semantics; with features unset every feature
is off. -/
theorem cfg_active_eq_rust_semantics (fs : Features) (p : Pred) (others : List Attr)
    (ho : ∀ a ∈ others, a.id ≠ CFG) :
    cfgActive fs (others ++ [.paren CFG [p.toAttr]]) = p.eval (isOn fs) := by
  unfold cfgActive
  have : (others ++ [Attr.paren CFG [p.toAttr]]).filter (fun a => decide (a.id = CFG))
      = [Attr.paren CFG [p.toAttr]] := by
    rw [List.filter_append]
    have h1 : others.filter (fun a => decide (a.id = CFG)) = [] := by
      apply List.filter_eq_nil_iff.mpr
      intro a ha
      simpa using ho a ha
    rw [h1]
    simp [Attr.id]
  rw [this]
  simp [cfgAttrHolds, testFeat_toAttr]

/-! ## several `cfg` attributes -/

/-- **Several `cfg` attributes are conjoined**, wherever they stand among the attributes -/
theorem multiple_cfg_conjoined (fs : Features) (as bs : List Attr) :
    cfgActive fs (as ++ bs) = (cfgActive fs as && cfgActive fs bs) := by
  unfold cfgActive
  rw [List.filter_append, List.all_append]

/-- attributes that are not named `cfg` play no role -/
theorem non_cfg_ignored (fs : Features) (a : Attr) (as : List Attr) (h : a.id ≠ CFG) :
    cfgActive fs (a :: as) = cfgActive fs as := by
  unfold cfgActive
  simp [List.filter_cons, h]

/-- one `cfg` attribute in front: its own predicate and the rest -/
theorem cfg_cons (fs : Features) (a : Attr) (as : List Attr) (h : a.id = CFG) :
    cfgActive fs (a :: as) = (cfgAttrHolds fs a && cfgActive fs as) := by
  unfold cfgActive
  simp [List.filter_cons, h]

/-- no `cfg` attribute: active -/
theorem no_cfg_active (fs : Features) (as : List Attr) (h : ∀ a ∈ as, a.id ≠ CFG) :
    cfgActive fs as = true := by
  unfold cfgActive
  have : as.filter (fun a => decide (a.id = CFG)) = [] := by
    apply List.filter_eq_nil_iff.mpr
    intro a ha
    simpa using h a ha
  rw [this]; rfl

/-! ## removal = deletion -/

theorem retainMap_eq (α : Type) (keep : α → Bool) (upd : α → α) (l : List α) :
    retainMap keep upd l = (l.filter keep).map upd := by
  induction l with
  | nil => rfl
  | cons x xs ih =>
    simp only [retainMap, List.filter_cons]
    split <;> simp [ih]

/-- an item of the grammar with its inactive parts deleted -/
def deleteInItem (fs : Features) : Item → Item
  | .nonterm nt => .nonterm { nt with alts := nt.alts.filter fun alt => cfgActive fs alt.attrs }
  | .externTok assoc (some (ty, convs)) =>
      .externTok assoc (some (ty, convs.filter fun c => cfgActive fs c.attrs))
  | it => it

/-- is the item a nonterminal whose own predicate is false? -/
def inactiveNonterm (fs : Features) : Item → Bool
  | .nonterm nt => !cfgActive fs nt.attrs
  | _ => false

/-- the grammar with the inactive declarations deleted, written with `filter`/`map` -/
def deleteInactive (fs : Features) (g : Grammar) : Grammar :=
  { g with items := (g.items.filter fun it => !inactiveNonterm fs it).map (deleteInItem fs) }

/-- **`remove_disabled_decls` is deletion**: the result is the grammar in which exactly the
nonterminals whose predicate is false are missing (with all their alternatives, whatever those
carry), the remaining nonterminals keep exactly their active alternatives in order, the `extern`
block keeps exactly its active conversions in order, and everything else — order of items, names,
attributes, other items, header — is unchanged. -/
theorem remove_eq_delete (fs : Features) (g : Grammar) : removeDisabled fs g = deleteInactive fs g := by
  unfold removeDisabled deleteInactive
  rw [retainMap_eq]
  have h1 : itemActive fs = fun it => !inactiveNonterm fs it := by
    funext it; cases it <;> simp [itemActive, inactiveNonterm]
  have h2 : itemUpdate fs = deleteInItem fs := by
    funext it
    cases it with
    | nonterm nt => simp [itemUpdate, deleteInItem, retainMap_eq]
    | externTok a e =>
      cases e with
      | none => rfl
      | some tc => obtain ⟨ty, convs⟩ := tc; simp [itemUpdate, deleteInItem, retainMap_eq]
    | other r => rfl
  rw [h1, h2]

/-- membership form: an alternative survives iff it was there and its predicate holds -/
theorem surviving_alternatives (fs : Features) (alts : List Alt) (alt : Alt) :
    alt ∈ retainMap (fun a => cfgActive fs a.attrs) id alts ↔ alt ∈ alts ∧ cfgActive fs alt.attrs = true := by
  rw [retainMap_eq]
  simp [List.mem_filter]

/-- and the survivors keep their relative order -/
theorem surviving_alternatives_sublist (fs : Features) (alts : List Alt) :
    (retainMap (fun a => cfgActive fs a.attrs) id alts).Sublist alts := by
  rw [retainMap_eq]
  simp

/-! ## the conversions are filtered twice (`cond_comp`, then `lower`) -/

/-- **Filtering the conversions again in `lower` changes nothing** (same session, same predicate) -/
theorem filter_twice_idem (fs : Features) (convs : List Conv) :
    lowerConversions fs (retainMap (fun c => cfgActive fs c.attrs) id convs)
      = retainMap (fun c => cfgActive fs c.attrs) id convs := by
  unfold lowerConversions
  rw [retainMap_eq]
  simp [List.filter_filter]

/-- and `lower` alone would already delete the inactive conversions -/
theorem lower_filter_eq_delete (fs : Features) (convs : List Conv) :
    lowerConversions fs convs = retainMap (fun c => cfgActive fs c.attrs) id convs := by
  unfold lowerConversions
  rw [retainMap_eq]
  simp

/-! ## feature names from `CARGO_FEATURE_*` -/

theorem stripPrefix_append (p s : Str) : stripPrefix p (p ++ s) = some s := by
  induction p with
  | nil => rfl
  | cons c cs ih => simp [stripPrefix, ih]

/-- **Names taken from the environment**: the variable `CARGO_FEATURE_<S>` switches on the feature
`<S>` with every `_` turned into `-` and ASCII letters lowered; variables without the prefix are
ignored. -/
theorem env_feature_names (s : Str) :
    envFeature (CARGO_FEATURE_ ++ s) = some ((s.map fun c => if c = '_' then '-' else c).map asciiLower) := by
  unfold envFeature
  rw [stripPrefix_append]
  rfl

theorem toNat_ofNat_small (n : Nat) (h : n < 0xD800) : (Char.ofNat n).toNat = n := by
  have hv : n.isValidChar := Or.inl h
  unfold Char.ofNat
  rw [dif_pos hv]
  unfold Char.ofNatAux Char.toNat
  simp [UInt32.toNat, BitVec.toNat_ofNatLT]

theorem char_ext_toNat (c d : Char) (h : c.toNat = d.toNat) : c = d := by
  rw [← Char.ofNat_toNat c, ← Char.ofNat_toNat d, h]

/-- the ASCII-lowered character, as a number -/
theorem asciiLower_toNat (c : Char) :
    (asciiLower c).toNat = if 65 ≤ c.toNat ∧ c.toNat ≤ 90 then c.toNat + 32 else c.toNat := by
  unfold asciiLower
  by_cases h : 'A' ≤ c ∧ c ≤ 'Z'
  · have h1 : 65 ≤ c.toNat := h.1
    have h2 : c.toNat ≤ 90 := h.2
    rw [if_pos h, if_pos ⟨h1, h2⟩, toNat_ofNat_small _ (by omega)]
  · rw [if_neg h]
    have : ¬ (65 ≤ c.toNat ∧ c.toNat ≤ 90) := fun ⟨a, b⟩ => h ⟨a, b⟩
    rw [if_neg this]

theorem asciiUpper_toNat (c : Char) :
    (asciiUpper c).toNat = if 97 ≤ c.toNat ∧ c.toNat ≤ 122 then c.toNat - 32 else c.toNat := by
  unfold asciiUpper
  by_cases h : 'a' ≤ c ∧ c ≤ 'z'
  · have h1 : 97 ≤ c.toNat := h.1
    have h2 : c.toNat ≤ 122 := h.2
    rw [if_pos h, if_pos ⟨h1, h2⟩, toNat_ofNat_small _ (by omega)]
  · rw [if_neg h]
    have : ¬ (97 ≤ c.toNat ∧ c.toNat ≤ 122) := fun ⟨a, b⟩ => h ⟨a, b⟩
    rw [if_neg this]

/-- one character through `envFeature` -/
def envChar (c : Char) : Char := asciiLower (if c = '_' then '-' else c)

theorem envChar_toNat (c : Char) :
    (envChar c).toNat = if c.toNat = 95 then 45 else if 65 ≤ c.toNat ∧ c.toNat ≤ 90 then c.toNat + 32 else c.toNat := by
  unfold envChar
  by_cases h : c = '_'
  · subst h; decide
  · have hn : c.toNat ≠ 95 := fun e => h (char_ext_toNat c '_' (by rw [e]; decide))
    rw [if_neg h, if_neg hn, asciiLower_toNat]

/-- **The environment route never yields `_` or an upper-case ASCII letter**: a predicate
`feature = "x_y"` or `feature = "Foo"` cannot be switched on through `CARGO_FEATURE_*`. -/
theorem env_feature_chars (var f : Str) (h : envFeature var = some f) :
    ∀ c ∈ f, c.toNat ≠ 95 ∧ ¬ (65 ≤ c.toNat ∧ c.toNat ≤ 90) := by
  unfold envFeature at h
  cases hs : stripPrefix CARGO_FEATURE_ var with
  | none => simp [hs] at h
  | some s =>
    simp only [hs, Option.map_some, Option.some.injEq] at h
    subst h
    intro c hc
    simp only [List.map_map, List.mem_map] at hc
    obtain ⟨d, _, rfl⟩ := hc
    have := envChar_toNat d
    simp only [Function.comp, envChar] at this ⊢
    rw [this]
    constructor
    · split
      · omega
      · split <;> omega
    · split
      · omega
      · split <;> omega

/-- one character through Cargo's naming and back -/
def cargoChar (c : Char) : Char := asciiUpper (if c = '-' then '_' else c)

theorem cargoChar_toNat (c : Char) :
    (cargoChar c).toNat = if c.toNat = 45 then 95 else if 97 ≤ c.toNat ∧ c.toNat ≤ 122 then c.toNat - 32 else c.toNat := by
  unfold cargoChar
  by_cases h : c = '-'
  · subst h; decide
  · have hn : c.toNat ≠ 45 := fun e => h (char_ext_toNat c '-' (by rw [e]; decide))
    rw [if_neg h, if_neg hn, asciiUpper_toNat]

/-- **Round trip**: a feature name without `_` and without upper-case ASCII letters (e.g. `serde`,
`x-y`, `v1.2`) set by Cargo comes back unchanged. -/
theorem env_feature_roundtrip (f : Str)
    (h : ∀ c ∈ f, c.toNat ≠ 95 ∧ ¬ (65 ≤ c.toNat ∧ c.toNat ≤ 90)) :
    envFeature (cargoVar f) = some f := by
  unfold cargoVar
  rw [env_feature_names]
  congr 1
  simp only [List.map_map]
  have : ∀ c ∈ f, ((asciiLower ∘ fun c => if c = '_' then '-' else c) ∘ fun c => asciiUpper (if c = '-' then '_' else c)) c = c := by
    intro c hc
    obtain ⟨h1, h2⟩ := h c hc
    apply char_ext_toNat
    show (envChar (cargoChar c)).toNat = c.toNat
    rw [envChar_toNat, cargoChar_toNat]
    by_cases e1 : c.toNat = 45
    · simp [e1]
    · rw [if_neg e1]
      by_cases e2 : 97 ≤ c.toNat ∧ c.toNat ≤ 122
      · rw [if_pos e2]
        have : ¬ (c.toNat - 32 = 95) := by omega
        rw [if_neg this]
        have : 65 ≤ c.toNat - 32 ∧ c.toNat - 32 ≤ 90 := by omega
        rw [if_pos this]
        omega
      · rw [if_neg e2, if_neg h1, if_neg h2]
  calc f.map _ = f.map id := List.map_congr_left this
    _ = f := List.map_id f

/-- **The route is not injective on Cargo feature names**: `x_y` and `x-y` (both legal, distinct
Cargo features) get the same variable, and both come back as `x-y`; so with Cargo feature `x_y`
enabled, `#[cfg(feature = "x_y")]` is off in the grammar while Rust's `cfg(feature = "x_y")` is on. -/
theorem env_feature_not_injective :
    cargoVar ['x','_','y'] = cargoVar ['x','-','y'] ∧
    envFeature (cargoVar ['x','_','y']) = some ['x','-','y'] ∧
    envFeature (cargoVar ['x','_','y']) ≠ some ['x','_','y'] := by
  refine ⟨by decide, by decide, by decide⟩

/-! ## the hypotheses are satisfiable / concrete instances -/

example : cfgActive (some [['a']]) [.paren CFG [(Pred.all [.feature ['a'], .not (.feature ['b'])]).toAttr]] = true := by
  decide
example : cfgActive none [.paren CFG [(Pred.feature ['a']).toAttr]] = false := by decide
/-- lalrpop's validator accepts more than Rust: `not(a, b)` passes and means `not(a)` -/
example : validateCfgAttr (.paren CFG [.paren NOT [.equal FEATURE ['a'], .equal FEATURE ['b']]]) = .ok () := by
  rfl
/-- and less: `all()` is rejected although Rust gives it the value true -/
example : validateCfgAttr (.paren CFG [.paren ALL []]) = .error .allArity := by rfl

end LalrpopModel.Cfg
