import LalrpopModel.Lemmas.LRCanonCollapse
import LalrpopModel.Props.LRCompleteThms
import LalrpopModel.Props.LRSoundThms
/-!
C03 — a grammar is accepted exactly when it is deterministic for the chosen algorithm.

What is proved here, for ALL grammars / states (no sampling):

* (i)   `no_parser_for_ambiguous`: an ambiguous grammar has no tables/automaton/annotation that pass
        `validateComplete` — whatever construction produced them (lane table included). Together
        with the per-run validation of everything lalrpop accepts (`checks/c03.py`, `validate`
        lines) this is "lalrpop never emits a parser for an ambiguous grammar", instance by instance.
* (ii)  `conflicts_iff`: the model of `<TokenSet as Lookahead>::conflicts` (lr1/lookahead.rs) answers
        `[]` exactly when the state's shift map and reduction lookahead sets induce a partial
        function token ↦ action; lifted to whole automata and to the two reference verdicts
        (`lr1_accept_iff_deterministic`, `lalr_accept_iff_deterministic`).
* (iii) `lalr_collapse_spec`: the model of `collapse_to_lalr_states` (lr1/build_lalr/mod.rs) merges
        exactly the states of equal LR(0) kernel (`remap i = remap j ↔ kernels equal`, onto), and in
        a merged state the lookaheads of an LR(0) core / of a reduction are the unions over the merged
        states. (Correspondence, not theorem: that the merged item list has ONE entry per core and is
        ordered — needed for nothing here —, and that the Lean `collapse` is what the Rust computes:
        `iso lalr` lines of the check.)
* (iv)  `reference_is_correct_parser`: a reference automaton that passes `selfCheck` (run for every
        conflict-free reference automaton of every generated grammar) is a sound, complete and
        unambiguous parser for the grammar: "the canonical LR(1) automaton has no conflict" is a
        meaningful acceptance criterion, certified instance by instance.
        `lane_table_sound_partial`: the half of

          theorem lane_table_exact (G : Grammar) :
              lalrpopDefaultAccepts G ↔ ∃ b, buildStates G fuel = some b ∧ b.conflicts = []

        that follows from (i): if the default construction accepts an (in fact any) grammar and what it
        emits passes the validator, the grammar is unambiguous and the parser accepts exactly its
        language; hence for an ambiguous grammar — all of which have canonical LR(1) conflicts by
        `reference_is_correct_parser` read contrapositively — acceptance is impossible without a
        validation failure. The rest of `lane_table_exact` (an LR(1) grammar is never rejected;
        an unambiguous non-LR(1) grammar is never accepted) is NOT proved: the lane-table
        construction is not modelled. It is the correspondence `verdict lr1 algo=lane` of the check,
        which currently FAILS on the real code (known findings `lane-table-rejects-LR1-grammar:*`).
-/
namespace LalrpopModel.LR.Canon

open LalrpopModel.LR

/-! ### (i) no parser for an ambiguous grammar -/

/-- two derivation trees of the start symbol `S` with the same token kinds but different skeletons -/
def Ambiguous (G : Grammar) (S : NT) : Prop :=
  ∃ t₁ t₂ : Tree, Tree.WF G none t₁ ∧ t₁.root G none = some (Sym.n S) ∧
    Tree.WF G none t₂ ∧ t₂.root G none = some (Sym.n S) ∧
    t₁.yield.map (·.kind) = t₂.yield.map (·.kind) ∧ t₁.skeleton ≠ t₂.skeleton

theorem no_parser_for_ambiguous (G : Grammar) (S : NT) (hS : G.startSym = some S)
    (hamb : Ambiguous G S) :
    ¬ ∃ (T : Tables) (A : Automaton) (ann : Ann), validateComplete G T A ann = true := by
  rintro ⟨T, A, ann, hv⟩
  obtain ⟨t₁, t₂, w₁, r₁, w₂, r₂, hy, hne⟩ := hamb
  exact hne (validated_unambiguous hv t₁ t₂ S hS w₁ r₁ w₂ r₂ hy)

/-! ### (ii) `TokenSet::conflicts` -/

/-- `<TokenSet as Lookahead>::conflicts(state)` is empty iff every token has at most one action in
    the state (its shift, or one reduction whose lookahead set contains it) -/
theorem conflicts_iff (st : State) : conflicts st = [] ↔ Deterministic st :=
  conflicts_nil_iff st

/-- spelled out: no terminal with a shift lies in a reduction's lookahead, and no token lies in the
    lookahead sets of two reductions -/
theorem conflicts_iff_sets (st : State) :
    conflicts st = [] ↔
      (∀ sh ∈ st.shifts, ∀ r ∈ st.reductions, sh.1 ∉ r.1) ∧
      st.reductions.Pairwise (fun a b => ∀ x, x ∈ a.1 → x ∉ b.1) := by
  rw [conflicts_iff, deterministic_iff]

/-- the canonical LR(1) reference accepts iff the construction ends and every state it built is
    deterministic -/
theorem lr1_accept_iff_deterministic (G : Grammar) (fuel : Nat) (sts : List State) :
    lr1Verdict G fuel = .accept sts ↔
      ∃ b, buildStates G fuel = some b ∧ b.states = sts ∧ ∀ st ∈ sts, Deterministic st := by
  unfold lr1Verdict
  cases hb : buildStates G fuel with
  | none => simp
  | some b =>
    have hc := buildStates_conflicts hb
    simp only [List.isEmpty_iff]
    constructor
    · intro h
      split at h
      · rename_i he
        simp at h
        refine ⟨b, rfl, h, ?_⟩
        rw [hc, flatMap_conflicts_nil_iff] at he
        rw [← h]; exact he
      · simp at h
    · rintro ⟨b', hb', hs, hd⟩
      simp at hb'; subst hb'
      have : b.conflicts = [] := by rw [hc, flatMap_conflicts_nil_iff, hs]; exact hd
      simp [this, hs]

/-- the LALR(1) reference accepts iff the canonical one does, the collapse does not trip an
    assertion, and every merged state is deterministic -/
theorem lalr_accept_iff_deterministic (G : Grammar) (fuel : Nat) (sts : List State) :
    lalrVerdict G fuel = .accept sts ↔
      ∃ sts₁ b remap, lr1Verdict G fuel = .accept sts₁ ∧ collapse sts₁ = .ok b remap ∧
        b.states = sts ∧ ∀ st ∈ sts, Deterministic st := by
  unfold lalrVerdict
  cases h1 : lr1Verdict G fuel with
  | accept sts₁ =>
    simp only
    cases hc : collapse sts₁ with
    | assertFailed => simp [hc]
    | ok b remap =>
      have hb : b.conflicts = b.states.flatMap conflicts := by
        unfold collapse at hc
        simp only at hc
        split at hc
        · simp at hc; rw [← hc.1]
        · simp at hc
      simp only [List.isEmpty_iff]
      constructor
      · intro h
        split at h
        · rename_i he
          simp at h
          refine ⟨sts₁, b, remap, rfl, hc, h, ?_⟩
          rw [hb, flatMap_conflicts_nil_iff] at he
          rw [← h]; exact he
        · simp at h
      · rintro ⟨sts₁', b', remap', e1, e2, hs, hd⟩
        simp at e1; subst e1
        rw [hc] at e2; simp at e2; obtain ⟨e2, _⟩ := e2; subst e2
        have : b.conflicts = [] := by rw [hb, flatMap_conflicts_nil_iff, hs]; exact hd
        simp [this, hs]
  | conflict b => simp
  | fuel => simp
  | panic => simp

/-! ### (iii) the LALR collapse -/

/-- `collapse_to_lalr_states`:
    1. `remap` has one entry per LR(1) state and two states are sent to the same LALR state iff
       their LR(0) kernels are equal;
    2. every entry is an index of a built LALR state and every LALR state is the image of some state;
    3. in LALR state `k`, token `tok` is a lookahead of the LR(0) core `c` iff it is one in some
       LR(1) state sent to `k` (lookaheads are unioned, nothing is lost or invented), and the same
       for the lookahead of each reduction;
    4. the reported conflicts are those of the merged states. -/
theorem lalr_collapse_spec (states : List State) (b : Built) (remap : List Nat)
    (h : collapse states = .ok b remap) :
    remap.length = states.length ∧
    (∀ (i j : Nat) (s₁ s₂ : State) (m n : Nat), states[i]? = some s₁ → states[j]? = some s₂ →
        remap[i]? = some m → remap[j]? = some n → (m = n ↔ lr0Kernel s₁ = lr0Kernel s₂)) ∧
    (∀ (i m : Nat), remap[i]? = some m → m < b.states.length) ∧
    (∀ k : Nat, k < b.states.length → ∃ i : Nat, remap[i]? = some k) ∧
    (∀ (k : Nat) (st : State), b.states[k]? = some st →
        (∀ c tok, HasLa st.items c tok ↔
           ∃ (i : Nat) (s : State), states[i]? = some s ∧ remap[i]? = some k ∧ HasLa s.items c tok) ∧
        (∀ p tok, RedLa st.reductions p tok ↔
           ∃ (i : Nat) (s : State), states[i]? = some s ∧ remap[i]? = some k ∧ RedLa s.reductions p tok)) ∧
    b.conflicts = b.states.flatMap conflicts := by
  unfold collapse at h
  simp only at h
  split at h
  · rename_i sts hsts
    simp at h
    obtain ⟨hb, hr⟩ := h
    have hmap := allSome_eq_some hsts
    obtain ⟨s1, _, _, s4, s5⟩ := internAll_spec (states.map lr0Kernel) [] List.nodup_nil
    have hlen : sts.length = (internAll (states.map lr0Kernel) []).2.length := by
      have := congrArg List.length hmap
      simpa using this.symm
    subst hr
    have hbs : b.states = sts := by rw [← hb]
    refine ⟨by simpa using s1, ?_, ?_, ?_, ?_, by rw [← hb]⟩
    · intro i j s₁ s₂ m n h1 h2 h3 h4
      exact internAll_remap_eq_iff (states.map lr0Kernel) i j _ _ m n
        (by simp [h1]) (by simp [h2]) h3 h4
    · intro i m hm
      have hi : i < states.length := by
        have : i < (internAll (states.map lr0Kernel) []).1.length := by
          rcases List.getElem?_eq_some_iff.1 hm with ⟨h, _⟩; exact h
        simpa [s1] using this
      obtain ⟨m', hm1, hm2⟩ := s4 i (lr0Kernel states[i]) (by simp [hi])
      rw [hm] at hm1; simp at hm1; subst hm1
      rw [hbs, hlen]
      rcases List.getElem?_eq_some_iff.1 hm2 with ⟨h, _⟩; exact h
    · intro k hk
      rw [hbs, hlen] at hk
      exact s5 k hk (by simp)
    · intro k st hst
      rw [hbs] at hst
      have hk : k < (internAll (states.map lr0Kernel) []).2.length := by
        rw [← hlen]; rcases List.getElem?_eq_some_iff.1 hst with ⟨h, _⟩; exact h
      have hls : lalrState states (internAll (states.map lr0Kernel) []).1 k = some st := by
        have := congrArg (fun l => l[k]?) hmap
        simp [List.getElem?_range hk, hst] at this
        exact this
      obtain ⟨_, hit, hred⟩ := lalrState_some hls
      constructor
      · intro c tok
        rw [hit, hasLa_mmCollect]
        simp only [HasLa, List.mem_flatMap]
        constructor
        · rintro ⟨it, ⟨s, hs, hmem⟩, hc, ht⟩
          obtain ⟨i, h1, h2⟩ := mem_members.1 hs
          exact ⟨i, s, h1, h2, it, hmem, hc, ht⟩
        · rintro ⟨i, s, h1, h2, it, hmem, hc, ht⟩
          exact ⟨it, ⟨s, mem_members.2 ⟨i, h1, h2⟩, hmem⟩, hc, ht⟩
      · intro p tok
        rw [hred, redLa_redCollect]
        simp only [RedLa, List.mem_flatMap]
        constructor
        · rintro ⟨r, ⟨s, hs, hmem⟩, hc, ht⟩
          obtain ⟨i, h1, h2⟩ := mem_members.1 hs
          exact ⟨i, s, h1, h2, r, hmem, hc, ht⟩
        · rintro ⟨i, s, h1, h2, r, hmem, hc, ht⟩
          exact ⟨r, ⟨s, mem_members.2 ⟨i, h1, h2⟩, hmem⟩, hc, ht⟩
  · simp at h

/-! ### (iv) the reference automaton is a correct parser; the lane-table half that follows -/

/-- What a passed `selfCheck` certifies about a reference automaton `sts` (encoded as the tables
    `toTables G (toAutomaton …)` that lalrpop's table writer would emit for it): the driver run on
    those tables accepts only sentences of `G` (returning a derivation tree over exactly the input),
    accepts every sentence of `G`, and `G` is unambiguous. -/
theorem reference_is_correct_parser (G : Grammar) (sts : List State) (S : NT)
    (hS : G.startSym = some S) (hc : selfCheck G sts = true) :
    let A := toAutomaton G.nTerm sts
    let T := toTables G A
    (∀ (input : List LR.Item) (failAt : Option Nat) (startLoc : Int) (c : Cfg) (v : Tree),
        InRange T input → Returns T failAt startLoc input c (.ok v) →
        Tree.WF G none v ∧ v.root G none = some (Sym.n S) ∧ input = v.yield.map LR.Item.tok) ∧
    (∀ (w : List Term) (toks : List Tok), Derives G S w → toks.map (·.kind) = w.map some →
        ∀ startLoc : Int, ∃ c v, Returns T none startLoc (toks.map LR.Item.tok) c (.ok v) ∧ v.yield = toks) ∧
    ¬ Ambiguous G S := by
  intro A T
  have hboth : validateSound G T A = true ∧
      validateComplete G T A (computeAnn G T A.states.length) = true := by
    have := hc
    unfold selfCheck at this
    simpa [Bool.and_eq_true] using this
  obtain ⟨hsound, hcomplete⟩ := hboth
  have hrec : T.usesRecovery = false := rfl
  refine ⟨?_, ?_, ?_⟩
  · intro input failAt startLoc c v hin hr
    have h1 := drive_sound hsound hin hS hr
    have h2 := drive_yield hsound hin hrec hr
    have he : errT T = none := by simp [errT, hrec]
    rw [he] at h1
    exact ⟨h1.1, h1.2, h2.1⟩
  · intro w toks hd hk startLoc
    obtain ⟨c, v, hr, _, _, hy⟩ :=
      derives_implies_ok hcomplete S hS w hd toks hk none (Or.inl rfl) startLoc
    exact ⟨c, v, hr, hy⟩
  · rintro ⟨t₁, t₂, w₁, r₁, w₂, r₂, hy, hne⟩
    exact hne (validated_unambiguous hcomplete t₁ t₂ S hS w₁ r₁ w₂ r₂ hy)

/-- the canonical LR(1) verdict `accept`, once its automaton passed `selfCheck`, excludes ambiguity:
    every ambiguous grammar either has a canonical LR(1) conflict (or runs out of fuel) or its
    reference automaton fails the check — which the run reports -/
theorem ambiguous_not_accepted_by_reference (G : Grammar) (S : NT) (hS : G.startSym = some S)
    (hamb : Ambiguous G S) (fuel : Nat) (sts : List State)
    (_hacc : lr1Verdict G fuel = .accept sts) : selfCheck G sts = false := by
  cases hc : selfCheck G sts with
  | false => rfl
  | true => exact absurd hamb (reference_is_correct_parser G sts S hS hc).2.2

/-- The proved half of `lane_table_exact` (see the header): whatever lalrpop's default (lane table)
    construction — or any other — emits for `G`, if it passes the validator then `G` is
    unambiguous and the emitted parser accepts exactly the sentences of `G` (no recovery). So
    accepting an ambiguous grammar necessarily shows up as a failed `validate` line. -/
theorem lane_table_sound_partial (G : Grammar) (T : Tables) (A : Automaton) (ann : Ann) (S : NT)
    (hS : G.startSym = some S) (hs : validateSound G T A = true)
    (hc : validateComplete G T A ann = true) (hrec : T.usesRecovery = false) :
    ¬ Ambiguous G S ∧
    (∀ (w : List Term) (toks : List Tok), toks.map (·.kind) = w.map some → (∀ a ∈ w, a < T.nTerm) →
      (Derives G S w ↔ ∃ c v, Returns T none 0 (toks.map LR.Item.tok) c (.ok v))) := by
  constructor
  · rintro ⟨t₁, t₂, w₁, r₁, w₂, r₂, hy, hne⟩
    exact hne (validated_unambiguous hc t₁ t₂ S hS w₁ r₁ w₂ r₂ hy)
  · intro w toks hk hshape
    constructor
    · intro hd
      obtain ⟨c, v, hr, _⟩ := derives_implies_ok hc S hS w hd toks hk none (Or.inl rfl) 0
      exact ⟨c, v, hr⟩
    · rintro ⟨c, v, hr⟩
      have hin : InRange T (toks.map LR.Item.tok) := by
        intro t k hm hkk
        simp only [List.mem_map, LR.Item.tok.injEq, exists_eq_right] at hm
        have : some k ∈ toks.map (·.kind) := by
          rw [← hkk]; exact List.mem_map.2 ⟨t, hm, rfl⟩
        rw [hk] at this
        simp only [List.mem_map, Option.some.injEq, exists_eq_right] at this
        exact hshape k this
      obtain ⟨w', hw1, hw2⟩ := ok_implies_derives hs hin hrec hS hr
      have : w' = w := by
        have e : (toks.map LR.Item.tok).map itemKind = toks.map (·.kind) := by
          simp [List.map_map, Function.comp_def, itemKind]
        rw [e, hk] at hw1
        exact ((List.map_inj_right (fun _ _ h => Option.some.inj h)).1 hw1).symm
      rw [← this]; exact hw2

/-! ### the hypotheses are satisfiable, the conclusions not vacuous -/

/-- reduce/reduce on EOF (bit 2) and shift/reduce on terminal 0 -/
def exConflicting : State :=
  { index := 0, items := [⟨0, 1, [0, 2]⟩, ⟨1, 1, [2]⟩, ⟨2, 0, [2]⟩],
    shifts := [(0, 1)], reductions := [([0, 2], 0), ([2], 1)], gotos := [] }

/-- the same state with disjoint lookaheads -/
def exConsistent : State :=
  { index := 0, items := [⟨0, 1, [1]⟩, ⟨1, 1, [2]⟩, ⟨2, 0, [2]⟩],
    shifts := [(0, 1)], reductions := [([1], 0), ([2], 1)], gotos := [] }

example : conflicts exConflicting =
    [⟨0, [0], 0, .shift 0 1⟩, ⟨0, [2], 0, .reduce 1⟩] := by decide
example : ¬ Deterministic exConflicting := fun h => by
  have := (conflicts_iff exConflicting).2 h
  exact absurd this (by decide)
example : conflicts exConsistent = [] := by decide
example : Deterministic exConsistent := (conflicts_iff exConsistent).1 (by decide)

/-- `N0 → a N1 c | a N2 d | b N2 c | b N1 d`, `N1 → e`, `N2 → e`, `S' → N0`: LR(1) but not LALR(1) -/
def exLr1NotLalr : Grammar :=
  { prods := [⟨0, [.t 0, .n 1, .t 2]⟩, ⟨0, [.t 0, .n 2, .t 3]⟩, ⟨0, [.t 1, .n 2, .t 2]⟩,
              ⟨0, [.t 1, .n 1, .t 3]⟩, ⟨1, [.t 4]⟩, ⟨2, [.t 4]⟩, ⟨3, [.n 0]⟩],
    nTerm := 5, nNT := 4, startProd := 6 }

example : (lr1Verdict exLr1NotLalr 100).isAccept = true := by decide
example : (lalrVerdict exLr1NotLalr 100).isConflict = true := by decide

/-- the canonical automaton of this grammar (14 states) passes `selfCheck`, so
    `reference_is_correct_parser` applies to it -/
example : (match lr1Verdict exLr1NotLalr 100 with
    | .accept sts => sts.length == 14 && selfCheck exLr1NotLalr sts
    | _ => false) = true := by decide

/-- `E → E + E | a`, `S' → E`: ambiguous -/
def exAmbig : Grammar :=
  { prods := [⟨0, [.n 0, .t 0, .n 0]⟩, ⟨0, [.t 1]⟩, ⟨1, [.n 0]⟩], nTerm := 2, nNT := 2, startProd := 2 }

def tokA (i : Nat) : Tok := ⟨0, some 1, i, 0⟩
def tokP (i : Nat) : Tok := ⟨0, some 0, i, 0⟩
def leafA (i : Nat) : Tree := .node 1 0 0 (.cons (.leaf (tokA i)) .nil)
def plus (l : Tree) (i : Nat) (r : Tree) : Tree := .node 0 0 0 (.cons l (.cons (.leaf (tokP i)) (.cons r .nil)))

theorem leafA_wf (i : Nat) : Tree.WF exAmbig none (leafA i) :=
  .node 1 0 0 ⟨0, [.t 1]⟩ _ rfl (.cons _ _ _ _ (.leaf _ 1 rfl) rfl .nil)

theorem plus_wf {l r : Tree} (i : Nat) (hl : Tree.WF exAmbig none l) (hr : Tree.WF exAmbig none r)
    (rl : l.root exAmbig none = some (Sym.n 0)) (rr : r.root exAmbig none = some (Sym.n 0)) :
    Tree.WF exAmbig none (plus l i r) :=
  .node 0 0 0 ⟨0, [.n 0, .t 0, .n 0]⟩ _ rfl
    (.cons _ _ _ _ hl rl (.cons _ _ _ _ (.leaf _ 0 rfl) rfl (.cons _ _ _ _ hr rr .nil)))

/-- `a + a + a` grouped to the left and to the right -/
theorem exAmbig_ambiguous : Ambiguous exAmbig 0 :=
  ⟨plus (plus (leafA 0) 1 (leafA 2)) 3 (leafA 4), plus (leafA 0) 1 (plus (leafA 2) 3 (leafA 4)),
    plus_wf 3 (plus_wf 1 (leafA_wf 0) (leafA_wf 2) rfl rfl) (leafA_wf 4) rfl rfl, rfl,
    plus_wf 1 (leafA_wf 0) (plus_wf 3 (leafA_wf 2) (leafA_wf 4) rfl rfl) rfl rfl, rfl,
    by decide, by simp [plus, leafA, tokA, tokP, Tree.skeleton, Forest.skeleton]⟩

example : exAmbig.startSym = some 0 := by decide

/-- hence nothing validates for it … -/
example : ¬ ∃ T A ann, validateComplete exAmbig T A ann = true :=
  no_parser_for_ambiguous exAmbig 0 (by decide) exAmbig_ambiguous

/-- … and the reference construction does report a conflict -/
example : (lr1Verdict exAmbig 100).isConflict = true := by decide

end LalrpopModel.LR.Canon
