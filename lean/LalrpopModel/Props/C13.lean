import LalrpopModel.Lemmas.MacroCache
import LalrpopModel.Lemmas.MacroValues
import LalrpopModel.Lemmas.MacroPrint
/-!
C13 — macros, repetitions and conditional alternatives expand by substitution.

Property theorems about `Model/Macro.lean`.

* `expandOne key re defs t` is the definition that *substitution* prescribes for the symbol `t`
  (macro use: body with arguments substituted and conditions evaluated; group; repetition;
  lookaround). `rewriteNt` replaces the uses inside it by nonterminals named by their keys.
* lalrpop never compares symbols, only keys (`canonical_form()`): a symbol whose key is already in
  `expansion_set` is not expanded again.  `cached_expand_eq_subst`: this is the same as expansion
  by substitution provided the key is injective on the symbols met; `canonical_form_injective`
  says when the printed form is; the `…collision…` theorems show that the hypotheses are needed.
-/
set_option linter.unusedSectionVars false

namespace LalrpopModel.Macro

variable (key : KeyFn) (re : String → String → Option Bool)

/-! ### conditions -/

/-- the documented meaning of a condition whose left-hand side is bound to the literal `l` -/
def condHolds (c : Cond) (l : String) : Option Bool :=
  match c.op with
  | .eq => some (l = c.rhs)
  | .ne => some (l ≠ c.rhs)
  | .matches => re c.rhs l
  | .notMatches => (re c.rhs l).map (!·)

/-- `evaluate_cond`: `==`/`!=` compare the literal with the right-hand side, `~~`/`!~` ask the
    regex (an invalid regex is an error); a left-hand side that is not bound to a string literal
    is an error; no condition = true. -/
theorem cond_eval_spec (env : Env) (c : Cond) :
    evaluateCond re env none = .ok true ∧
    (∀ l, env.get c.lhs = some (.terminal (.quoted l)) →
      (∀ b, condHolds re c l = some b → evaluateCond re env (some c) = .ok b) ∧
      (condHolds re c l = none → ∃ m, evaluateCond re env (some c) = .error m)) ∧
    (∀ s, env.get c.lhs = some s → (∀ l, s ≠ .terminal (.quoted l)) →
      ∃ m, evaluateCond re env (some c) = .error m) := by
  refine ⟨rfl, ?_, ?_⟩
  · intro l hl
    constructor
    · intro b hb
      simp only [evaluateCond, hl, evalCond]
      unfold condHolds at hb
      cases hop : c.op <;> rw [hop] at hb <;> simp only [] at hb ⊢
      · cases hb; rfl
      · cases hb; rfl
      · rw [hb]
      · cases hr : re c.rhs l with
        | none => rw [hr] at hb; cases hb
        | some x => rw [hr] at hb; cases hb; rfl
    · intro hn
      simp only [evaluateCond, hl, evalCond]
      unfold condHolds at hn
      cases hop : c.op <;> rw [hop] at hn <;> simp only [] at hn ⊢
      · cases hn
      · cases hn
      · rw [hn]; exact ⟨_, rfl⟩
      · cases hr : re c.rhs l with
        | none => exact ⟨_, rfl⟩
        | some x => rw [hr] at hn; cases hn
  · intro s hs hnl
    simp only [evaluateCond, hs]
    cases s with
    | terminal t =>
      cases t with
      | quoted l => exact absurd rfl (hnl l)
      | _ => exact ⟨_, rfl⟩
    | _ => exact ⟨_, rfl⟩

/-- the alternative a macro alternative turns into -/
def instAlt (env : Env) (a : Alt) : Option Alt :=
  (substList env a.expr).map fun e => { expr := e, cond := none, action := a.action, attrs := a.attrs }

/-- **An alternative is kept exactly when its condition holds**: if the expansion of the
    alternatives succeeds, every condition evaluated to a Boolean and the result is, in order, the
    substitution instances of the alternatives whose condition is true. -/
theorem expand_alts_spec (env : Env) (alts out : List Alt) (h : expandAlts re env alts = .ok out) :
    (∀ a ∈ alts, ∃ b, evaluateCond re env a.cond = .ok b) ∧
    out.map some = (alts.filter fun a =>
      match evaluateCond re env a.cond with | .ok true => true | _ => false).map (instAlt env) := by
  induction alts generalizing out with
  | nil => simp [expandAlts] at h; subst h; simp
  | cons a rest ih =>
    simp only [expandAlts] at h
    cases hc : evaluateCond re env a.cond with
    | error m => rw [hc] at h; simp at h
    | panic w => rw [hc] at h; simp at h
    | ok b =>
      rw [hc] at h
      cases b with
      | false =>
        simp only [] at h
        obtain ⟨h1, h2⟩ := ih out h
        refine ⟨?_, by simp [hc, h2]⟩
        intro x hx
        rcases List.mem_cons.mp hx with rfl | hx
        · exact ⟨false, hc⟩
        · exact h1 x hx
      | true =>
        simp only [] at h
        cases hs : substList env a.expr with
        | none => rw [hs] at h; simp at h
        | some e =>
          rw [hs] at h
          cases hr : expandAlts re env rest with
          | error m => rw [hr] at h; simp at h
          | panic w => rw [hr] at h; simp at h
          | ok rest' =>
            rw [hr] at h; simp at h; subst h
            obtain ⟨h1, h2⟩ := ih rest' hr
            refine ⟨?_, by simp [hc, h2, instAlt, hs]⟩
            intro x hx
            rcases List.mem_cons.mp hx with rfl | hx
            · exact ⟨true, hc⟩
            · exact h1 x hx

/-! ### the cache -/

/-- the symbols the expander meets: candidates of the original items, and candidates of the
    definition (by substitution) of a symbol already met -/
inductive Encountered (defs : List NtData) (rest : List Item) : Sym → Prop where
  | orig {r c t} : rewriteItems key rest = some (r, c) → t ∈ c → Encountered defs rest t
  | gen {t0 d d' c t} : Encountered defs rest t0 → expandOne key re defs t0 = .ok d →
      rewriteNt key d = some (d', c) → t ∈ c → Encountered defs rest t

/-- the macro definitions / the other items of a grammar, as `expand_macros` splits them -/
def macroDefs (items : List Item) : List NtData :=
  items.filterMap fun | .nt d => if d.args.isEmpty then none else some d | .other _ => none
def nonMacroItems (items : List Item) : List Item := items.filter (fun i => !isMacroDef i)

/-- **The cache keyed by the printed form implements expansion by substitution, provided the
    key is injective on the symbols met.**  If `expand_macros` succeeds and no two different
    encountered symbols share a key, then the result consists of the original items (uses
    rewritten) followed by generated nonterminals, and for *every* symbol `t` met — which was
    replaced by the nonterminal `key t` — the result contains the definition that substitution
    prescribes for `t` (`expandOne … t`, with its own uses rewritten). -/
theorem cached_expand_eq_subst (limit : Nat) (items out : List Item)
    (h : expandMacros key re limit items = .ok out)
    (hinj : ∀ t t', Encountered key re (macroDefs items) (nonMacroItems items) t →
      Encountered key re (macroDefs items) (nonMacroItems items) t' → key t = key t' → t = t') :
    ∃ rest' c0 generated, rewriteItems key (nonMacroItems items) = some (rest', c0) ∧
      out = rest' ++ generated ∧
      ∀ t, Encountered key re (macroDefs items) (nonMacroItems items) t →
        ∃ d d' c, expandOne key re (macroDefs items) t = .ok d ∧ rewriteNt key d = some (d', c) ∧
          Item.nt d' ∈ generated := by
  unfold expandMacros at h
  obtain ⟨F', cF, G, hF, hout, hok, _, hcF, hcG, hU⟩ :=
    expandLoop_spec key re (macroDefs items) limit
      (Encountered key re (macroDefs items) (nonMacroItems items))
      (fun t ht d d' c h1 h2 t' ht' => .gen ht h1 h2 ht') _ _ _ _ _ _ h
  change rewriteItems key (nonMacroItems items) = some (F', cF) at hF
  have hGU := hU (fun t ht => .orig hF ht)
  refine ⟨F', cF, G.map (fun g => Item.nt g.defn'), hF, by simpa using hout, ?_⟩
  -- every encountered symbol has its own generated entry
  have key_lemma : ∀ t, Encountered key re (macroDefs items) (nonMacroItems items) t →
      ∃ g ∈ G, g.sym = t := by
    intro t ht
    induction ht with
    | @orig r c t hr htc =>
      rw [hF] at hr; cases hr
      rcases hcF t htc with h | ⟨g, hg, he⟩
      · simp at h
      · exact ⟨g, hg, hinj _ _ (hGU g hg) (.orig hF htc) he⟩
    | @gen t0 d d' c t ht0 h1 h2 htc ih =>
      obtain ⟨g0, hg0, rfl⟩ := ih
      obtain ⟨e1, e2⟩ := hok g0 hg0
      rw [e1] at h1; cases h1
      rw [e2] at h2; cases h2
      rcases hcG g0 hg0 t htc with h | ⟨g, hg, he⟩
      · simp at h
      · exact ⟨g, hg, hinj _ _ (hGU g hg) (.gen ht0 e1 e2 htc) he⟩
  intro t ht
  obtain ⟨g, hg, rfl⟩ := key_lemma t ht
  obtain ⟨e1, e2⟩ := hok g hg
  exact ⟨g.defn, g.defn', g.cands, e1, e2, List.mem_map_of_mem hg⟩

/-- **Distinct instantiations never interfere**: what is generated for a use `t` is a function of
    `t` and of the macro definitions alone — two grammars with the same macro definitions that both
    meet `t` (and whose keys do not collide) contain the same definition for it, whatever else
    they instantiate. -/
theorem instances_independent (limit : Nat) (items₁ items₂ out₁ out₂ : List Item)
    (hdefs : macroDefs items₁ = macroDefs items₂)
    (h₁ : expandMacros key re limit items₁ = .ok out₁) (h₂ : expandMacros key re limit items₂ = .ok out₂)
    (hinj₁ : ∀ t t', Encountered key re (macroDefs items₁) (nonMacroItems items₁) t →
      Encountered key re (macroDefs items₁) (nonMacroItems items₁) t' → key t = key t' → t = t')
    (hinj₂ : ∀ t t', Encountered key re (macroDefs items₂) (nonMacroItems items₂) t →
      Encountered key re (macroDefs items₂) (nonMacroItems items₂) t' → key t = key t' → t = t')
    (t : Sym) (ht₁ : Encountered key re (macroDefs items₁) (nonMacroItems items₁) t)
    (ht₂ : Encountered key re (macroDefs items₂) (nonMacroItems items₂) t) :
    ∃ d', Item.nt d' ∈ out₁ ∧ Item.nt d' ∈ out₂ ∧
      ∃ d c, expandOne key re (macroDefs items₁) t = .ok d ∧ rewriteNt key d = some (d', c) := by
  obtain ⟨r1, c1, g1, _, rfl, hall1⟩ := cached_expand_eq_subst key re limit items₁ out₁ h₁ hinj₁
  obtain ⟨r2, c2, g2, _, rfl, hall2⟩ := cached_expand_eq_subst key re limit items₂ out₂ h₂ hinj₂
  obtain ⟨d, d', c, e1, e2, m1⟩ := hall1 t ht₁
  obtain ⟨d2, d2', c2', f1, f2, m2⟩ := hall2 t ht₂
  rw [← hdefs, e1] at f1; cases f1
  rw [e2] at f2; cases f2
  exact ⟨d', List.mem_append_right _ m1, List.mem_append_right _ m2, d, c, e1, e2⟩

/-! ### values of `X+`, `X*`, `X?` -/

section values

variable {Tk : Type} (sym0 : Sym) (base : List Tk → Val → Prop)

/-- the grammar fragment consisting of the generated `X+` -/
def plusTable : String → Option NtData := fun k =>
  if k = key (.repeat .plus sym0) then some (expandRepeat key .plus sym0) else none

def plusSpecTable : String → Option (List Tk → Val → Prop) := fun k =>
  if k = key (.repeat .plus sym0) then some (PlusSpec base) else none

/-- the two alternatives of `X+` meet `PlusSpec`, for any specification table that assigns
    `PlusSpec` to `X+` -/
theorem plus_alts_sound (spec : String → Option (List Tk → Val → Prop)) (hcore : core sym0 = sym0)
    (hspec : spec (key (.repeat .plus sym0)) = some (PlusSpec base))
    (hnt : ∀ k P, spec k = some P → sym0 ≠ .nonterminal k) :
    ∀ a ∈ (expandRepeat key .plus sym0).alts, ∀ code f args u v, a.action = .user code →
      snippet code = some f → Good spec sym0 base a.expr u args → f args = some v →
      PlusSpec base u v := by
  intro a ha code f args u v hc hf hg hv
  simp only [expandRepeat, List.mem_cons, List.not_mem_nil, or_false] at ha
  rcases ha with rfl | rfl
  · simp only [userAlt, Action.user.injEq] at hc hg; subst hc
    rw [snippet_single] at hf; cases hf
    obtain ⟨x, rfl, hx⟩ := good_singleton hg
    have hb := goodSym_base hx hcore hnt
    simp [fSingle] at hv; subst hv
    exact ⟨[(u, x)], by simp, by simpa using hb, by simp, by simp⟩
  · simp only [userAlt, Action.user.injEq] at hc hg; subst hc
    rw [snippet_push] at hf; cases hf
    obtain ⟨u1, w', x1, xs, rfl, rfl, hg1, hgr⟩ := hg
    obtain ⟨x2, rfl, hg2⟩ := good_singleton hgr
    obtain ⟨P, hP, h1⟩ := goodSym_nt hg1 (by simp [core]) (hnt _ _ hspec)
    rw [hspec] at hP; cases hP
    have h2 : base w' x2 := goodSym_base hg2 (by simp [core, hcore]) hnt
    obtain ⟨items, hne', hall, rfl, rfl⟩ := h1
    simp [fPush] at hv; subst hv
    refine ⟨items ++ [(w', x2)], by simp, ?_, by simp, by simp⟩
    intro p hp
    rcases List.mem_append.mp hp with hp | hp
    · exact hall p hp
    · simp at hp; subst hp; exact h2

theorem plus_sound (hcore : core sym0 = sym0)
    (hne : sym0 ≠ .nonterminal (key (.repeat .plus sym0))) :
    Sound (plusTable key sym0) (plusSpecTable key sym0 base) sym0 base := by
  have hnt : ∀ k P, plusSpecTable key sym0 base k = some P → sym0 ≠ .nonterminal k := by
    intro k P hk; unfold plusSpecTable at hk
    split at hk
    · rename_i h; subst h; exact hne
    · cases hk
  intro k d hl
  unfold plusTable at hl
  split at hl
  · rename_i hk; subst hk; cases hl
    exact ⟨PlusSpec base, by simp [plusSpecTable],
      plus_alts_sound key sym0 base _ hcore (by simp [plusSpecTable]) hnt⟩
  · cases hl

/-- a derivation of `X+` for every nonempty sequence of items, in any table containing `X+` -/
theorem plus_build (lookup : String → Option NtData)
    (hl : lookup (key (.repeat .plus sym0)) = some (expandRepeat key .plus sym0))
    (w : List Tk) (v : Val) (h : PlusSpec base w v) :
    Der lookup sym0 base [.nonterminal (key (.repeat .plus sym0))] w [v] := by
  obtain ⟨items, hne', hall, rfl, rfl⟩ := h
  have build : ∀ (rest acc : List (List Tk × Val)), (∀ p ∈ rest, base p.1 p.2) →
      Der lookup sym0 base [.nonterminal (key (.repeat .plus sym0))]
        (acc.flatMap (·.1)) [.list (acc.map (·.2))] →
      Der lookup sym0 base [.nonterminal (key (.repeat .plus sym0))]
        ((acc ++ rest).flatMap (·.1)) [.list ((acc ++ rest).map (·.2))] := by
    intro rest
    induction rest with
    | nil => intro acc _ h; simpa using h
    | cons p rest ih =>
      intro acc hall h
      have hp := hall p (List.mem_cons_self ..)
      have step : Der lookup sym0 base [.nonterminal (key (.repeat .plus sym0))]
          ((acc ++ [p]).flatMap (·.1)) [.list ((acc ++ [p]).map (·.2))] := by
        have inner : Der lookup sym0 base
            [.name false "v" (.nonterminal (key (.repeat .plus sym0))), .name false "e" sym0]
            (acc.flatMap (·.1) ++ (p.1 ++ [])) ([.list (acc.map (·.2))] ++ [p.2]) :=
          .named (Der.append h (.named (.item hp .nil)))
        have := Der.nt (lookup := lookup) (sym0 := sym0) (base := base)
          (k := key (.repeat .plus sym0)) (ss := []) (w := []) (xs := [])
          (f := fPush) (v := .list (acc.map (·.2) ++ [p.2]))
          hl (a := userAlt [.name false "v" (.nonterminal (key (.repeat .plus sym0))), .name false "e" sym0]
            "{ let mut v = v; v.push(e); v }") (by simp [expandRepeat]) rfl
          snippet_push inner rfl .nil
        simpa using this
      have := ih (acc ++ [p]) (fun q hq => hall q (List.mem_cons_of_mem _ hq)) step
      simpa using this
  cases items with
  | nil => exact absurd rfl hne'
  | cons p rest =>
    have hp := hall p (List.mem_cons_self ..)
    have first : Der lookup sym0 base [.nonterminal (key (.repeat .plus sym0))]
        ([p].flatMap (·.1)) [.list ([p].map (·.2))] := by
      have := Der.nt (lookup := lookup) (sym0 := sym0) (base := base)
        (k := key (.repeat .plus sym0)) (ss := []) (w := []) (xs := [])
        (f := fSingle) (v := .list [p.2])
        hl (a := userAlt [sym0] "alloc::vec![<>]") (by simp [expandRepeat]) rfl
        snippet_single (.item hp .nil) rfl .nil
      simpa using this
    have := build rest [p] (fun q hq => hall q (List.mem_cons_of_mem _ hq)) first
    simpa using this

/-- **`X+` yields the `Vec` of its items in input order**: the generated nonterminal derives
    exactly the nonempty sequences of items, with the list of their values. -/
theorem repeat_plus_values (hcore : core sym0 = sym0)
    (hne : sym0 ≠ .nonterminal (key (.repeat .plus sym0))) (w : List Tk) (v : Val) :
    Der (plusTable key sym0) sym0 base [.nonterminal (key (.repeat .plus sym0))] w [v] ↔
      PlusSpec base w v := by
  constructor
  · intro h
    have hg := der_good hcore (plus_sound key sym0 base hcore hne) h
    obtain ⟨x, hx, hgs⟩ := good_singleton hg
    cases hx
    obtain ⟨P, hP, hPw⟩ := goodSym_nt hgs (by simp [core]) hne
    simp [plusSpecTable] at hP; subst hP; exact hPw
  · exact plus_build key sym0 base _ (by simp [plusTable]) w v

/-! `X*`: the generated `X*` refers to `X+`; its definition is taken as it stands in the grammar,
    i.e. after the use of `X+` inside it was rewritten (`rewriteNt`). -/

/-- the definition of `X*` after the use of `X+` in it was rewritten -/
def starRewritten : NtData :=
  { expandRepeat key .star sym0 with
    alts := [userAlt [] "alloc::vec![]",
             userAlt [.name false "v" (.nonterminal (key (.repeat .plus sym0)))] "v"] }

def starTable (dstar : NtData) : String → Option NtData := fun k =>
  if k = key (.repeat .star sym0) then some dstar
  else if k = key (.repeat .plus sym0) then some (expandRepeat key .plus sym0) else none

def starSpecTable : String → Option (List Tk → Val → Prop) := fun k =>
  if k = key (.repeat .star sym0) then some (StarSpec base)
  else if k = key (.repeat .plus sym0) then some (PlusSpec base) else none

/-- **`X*` yields the `Vec` of its items in input order** (possibly empty): for an item symbol
    that needs no expansion itself, the definition of `X*` after rewriting refers to `X+`, and
    together they derive exactly the sequences of items with the list of their values. -/
theorem repeat_star_values (hcore : core sym0 = sym0)
    (hsimple : rewriteSym key sym0 = some (sym0, []))
    (hne1 : sym0 ≠ .nonterminal (key (.repeat .plus sym0)))
    (hne2 : sym0 ≠ .nonterminal (key (.repeat .star sym0)))
    (hk : key (.repeat .star sym0) ≠ key (.repeat .plus sym0)) :
    rewriteNt key (expandRepeat key .star sym0) = some (starRewritten key sym0, [.repeat .plus sym0]) ∧
      ∀ (w : List Tk) (v : Val),
        Der (starTable key sym0 (starRewritten key sym0)) sym0 base
          [.nonterminal (key (.repeat .star sym0))] w [v] ↔ StarSpec base w v := by
  refine ⟨?_, ?_⟩
  · simp [rewriteNt, expandRepeat, rewriteAlts, rewriteList, rewriteSym, hsimple, userAlt, starRewritten]
  · intro w v
    have hnt : ∀ k P, starSpecTable key sym0 base k = some P → sym0 ≠ .nonterminal k := by
      intro k P hkP; unfold starSpecTable at hkP
      split at hkP
      · rename_i h; subst h; exact hne2
      · split at hkP
        · rename_i h; subst h; exact hne1
        · cases hkP
    have hspecP : starSpecTable key sym0 base (key (.repeat .plus sym0)) = some (PlusSpec base) := by
      simp [starSpecTable, Ne.symm hk]
    constructor
    · intro h
      have hs : Sound (starTable key sym0 (starRewritten key sym0)) (starSpecTable key sym0 base) sym0 base := by
        intro k d hlk
        unfold starTable at hlk
        split at hlk
        · rename_i hkk; subst hkk; cases hlk
          refine ⟨StarSpec base, by simp [starSpecTable], ?_⟩
          intro a ha code f args u v hc hf hg hv
          simp only [starRewritten, List.mem_cons, List.not_mem_nil, or_false] at ha
          rcases ha with rfl | rfl
          · simp only [userAlt, Action.user.injEq] at hc hg; subst hc
            rw [snippet_nil] at hf; cases hf
            obtain ⟨rfl, rfl⟩ := hg
            simp [fNil] at hv; subst hv
            exact ⟨[], by simp, by simp, by simp⟩
          · simp only [userAlt, Action.user.injEq] at hc hg; subst hc
            rw [snippet_id] at hf; cases hf
            obtain ⟨x, rfl, hx⟩ := good_singleton hg
            obtain ⟨P, hP, hPu⟩ := goodSym_nt hx (by simp [core]) hne1
            rw [hspecP] at hP; cases hP
            simp [fId] at hv; subst hv
            obtain ⟨items, _, hall, rfl, rfl⟩ := hPu
            exact ⟨items, hall, rfl, rfl⟩
        · split at hlk
          · rename_i hkk; subst hkk; cases hlk
            exact ⟨PlusSpec base, hspecP, plus_alts_sound key sym0 base _ hcore hspecP hnt⟩
          · cases hlk
      have hg := der_good hcore hs h
      obtain ⟨x, hx, hgs⟩ := good_singleton hg
      cases hx
      obtain ⟨P, hP, hPw⟩ := goodSym_nt hgs (by simp [core]) hne2
      simp [starSpecTable] at hP; subst hP; exact hPw
    · rintro ⟨items, hall, rfl, rfl⟩
      have hlS : starTable key sym0 (starRewritten key sym0) (key (.repeat .star sym0)) =
          some (starRewritten key sym0) := by simp [starTable]
      cases items with
      | nil =>
        have := Der.nt (sym0 := sym0) (base := base)
          (k := key (.repeat .star sym0)) (ss := []) (w := []) (xs := []) (u := []) (args := [])
          (f := fNil) (v := .list []) hlS (a := userAlt [] "alloc::vec![]") (by simp [starRewritten]) rfl
          snippet_nil .nil rfl .nil
        simpa using this
      | cons p rest =>
        have hplus : Der (starTable key sym0 (starRewritten key sym0)) sym0 base [.nonterminal (key (.repeat .plus sym0))]
            ((p :: rest).flatMap (·.1)) [.list ((p :: rest).map (·.2))] :=
          plus_build key sym0 base _ (by simp [starTable, Ne.symm hk]) _ _
            ⟨p :: rest, by simp, hall, rfl, rfl⟩
        have := Der.nt (sym0 := sym0) (base := base)
          (k := key (.repeat .star sym0)) (ss := []) (w := []) (xs := [])
          (f := fId) (v := .list ((p :: rest).map (·.2))) hlS
          (a := userAlt [.name false "v" (.nonterminal (key (.repeat .plus sym0)))] "v")
          (by simp [starRewritten]) rfl
          snippet_id (.named hplus) rfl .nil
        simpa using this

/-! `X?` -/

def optTable : String → Option NtData := fun k =>
  if k = key (.repeat .question sym0) then some (expandRepeat key .question sym0) else none

def optSpecTable : String → Option (List Tk → Val → Prop) := fun k =>
  if k = key (.repeat .question sym0) then some (OptSpec base) else none

/-- **`X?` yields an `Option`**: the generated nonterminal derives the empty word with `None`, or
    one item with `Some` of its value — nothing else. -/
theorem option_values (hcore : core sym0 = sym0)
    (hne : sym0 ≠ .nonterminal (key (.repeat .question sym0))) (w : List Tk) (v : Val) :
    Der (optTable key sym0) sym0 base [.nonterminal (key (.repeat .question sym0))] w [v] ↔
      OptSpec base w v := by
  have hnt : ∀ k P, optSpecTable key sym0 base k = some P → sym0 ≠ .nonterminal k := by
    intro k P hk; unfold optSpecTable at hk
    split at hk
    · rename_i h; subst h; exact hne
    · cases hk
  have hl : optTable key sym0 (key (.repeat .question sym0)) = some (expandRepeat key .question sym0) := by
    simp [optTable]
  constructor
  · intro h
    have hs : Sound (optTable key sym0) (optSpecTable key sym0 base) sym0 base := by
      intro k d hlk
      unfold optTable at hlk
      split at hlk
      · rename_i hk; subst hk; cases hlk
        refine ⟨OptSpec base, by simp [optSpecTable], ?_⟩
        intro a ha code f args u v hc hf hg hv
        simp only [expandRepeat, List.mem_cons, List.not_mem_nil, or_false] at ha
        rcases ha with rfl | rfl
        · simp only [userAlt, Action.user.injEq] at hc hg; subst hc
          rw [snippet_some] at hf; cases hf
          obtain ⟨x, rfl, hx⟩ := good_singleton hg
          have hb := goodSym_base hx hcore hnt
          simp [fSome] at hv; subst hv
          exact .inr ⟨x, hb, rfl⟩
        · simp only [userAlt, Action.user.injEq] at hc hg; subst hc
          rw [snippet_none] at hf; cases hf
          obtain ⟨rfl, rfl⟩ := hg
          simp [fNone] at hv; subst hv
          exact .inl ⟨rfl, rfl⟩
      · cases hlk
    have hg := der_good hcore hs h
    obtain ⟨x, hx, hgs⟩ := good_singleton hg
    cases hx
    obtain ⟨P, hP, hPw⟩ := goodSym_nt hgs (by simp [core]) hne
    simp [optSpecTable] at hP; subst hP; exact hPw
  · rintro (⟨rfl, rfl⟩ | ⟨x, hb, rfl⟩)
    · have := Der.nt (lookup := optTable key sym0) (sym0 := sym0) (base := base)
        (k := key (.repeat .question sym0)) (ss := []) (w := []) (xs := []) (u := []) (args := [])
        (f := fNone) (v := .none) hl (a := userAlt [] "None") (by simp [expandRepeat]) rfl
        snippet_none .nil rfl .nil
      simpa using this
    · have := Der.nt (lookup := optTable key sym0) (sym0 := sym0) (base := base)
        (k := key (.repeat .question sym0)) (ss := []) (w := []) (xs := [])
        (f := fSome) (v := .some x) hl (a := userAlt [sym0] "Some(<>)") (by simp [expandRepeat]) rfl
        snippet_some (.item hb .nil) rfl .nil
      simpa using this

end values

/-! ### injectivity of the printed form -/

/-- `canonical_form()` is the concatenation of the spellings of the pieces `Display` writes -/
theorem print_eq (s : Sym) : s.print = String.join (s.toks.map Tok.spell) := rfl

/-- **The printed form is injective on parser-shaped symbols** — at the level of the pieces
    written by the `Display` impls (identifiers, literals, punctuation), for symbols of the shape
    the LALRPOP parser and `resolve` produce (`shaped`: bindings and `<…>` only at the top level of
    a group/argument, repetition operators only on unbound symbols, no tuple bindings), whose
    identifiers are classified consistently (`cls`: nonterminal / terminal / macro, as `resolve`
    enforces) and with **no nonterminal or terminal called `error`**. -/
theorem canonical_form_injective (cls : String → Nat) (s s' : Sym)
    (hs : shaped cls true s) (hs' : shaped cls true s') (h : s.toks = s'.toks) : s = s' := by
  have := (unique_all cls s.size).2.2 s s' [] [] (Nat.le_refl _) hs hs' trivial trivial
    (by simpa using h)
  exact this.1

/-- the hypotheses are satisfiable: `Comma<("a" <B>)*, C?>` -/
example : shaped (fun n => if n = "Comma" then 2 else 0) true
    (.macro "Comma" [.repeat .star (.expr [.terminal (.quoted "a"), .choose (.nonterminal "B")]),
      .repeat .question (.nonterminal "C")]) := by
  simp (decide := true) [shaped, shapedList]

/-- **Collision 1 (`error`)**: `SymbolKind::Error` (`!`) and a nonterminal named `error` write the
    same pieces, so `M<error>` and `M<!>` have the same canonical form although they differ — the
    hypothesis "no nonterminal called `error`" of `canonical_form_injective` cannot be dropped. -/
theorem canonical_form_collision_error :
    (Sym.macro "M" [.nonterminal "error"]).toks = (Sym.macro "M" [.error]).toks ∧
    (Sym.macro "M" [.nonterminal "error"]).print = (Sym.macro "M" [.error]).print ∧
    Sym.macro "M" [.nonterminal "error"] ≠ Sym.macro "M" [.error] := by
  refine ⟨rfl, rfl, ?_⟩
  intro h; cases h

/-- **Collision 2 (escaped names)**: a nonterminal may be named by any text between backticks; a
    name that spells a symbol has the canonical form of that symbol although the pieces differ —
    the token-level statement does not extend to the printed string unless identifiers look like
    identifiers. -/
theorem canonical_form_collision_escaped_name :
    (Sym.nonterminal "W<A>").print = (Sym.macro "W" [.nonterminal "A"]).print ∧
    (Sym.nonterminal "W<A>").toks ≠ (Sym.macro "W" [.nonterminal "A"]).toks ∧
    (Sym.nonterminal "A+").print = (Sym.repeat .plus (.nonterminal "A")).print ∧
    (Sym.nonterminal "\"a\"").print = (Sym.terminal (.quoted "a")).print ∧
    (Sym.macro "M" [.nonterminal "\"a\""]).print = (Sym.macro "M" [.terminal (.quoted "a")]).print := by
  refine ⟨by decide, by simp [Sym.toks, Sym.toksComma], by decide, by decide, by decide⟩

end LalrpopModel.Macro
