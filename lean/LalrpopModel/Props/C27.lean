import LalrpopModel.Lemmas.Reent
/-!
C27 — generated parsers are reentrant and safe to share across threads.

Model: `Model/Reent.lean`.  A parser value (tables + `MatcherBuilder`) is the *shared component*;
every `parse` call owns its driver configuration (`Cfg × Phase` of `Model/LR/Driver.lean`) and its
`Matcher` (text, `consumed`, lazy-DFA cache).  A *schedule* is any finite list of run indices: the
order in which the small steps of the N concurrent calls happen.

What the theorems say: under the hypothesis that a step never writes the shared component
(`ReadOnly`; discharged for the extracted source facts in `Gen/ParserStruct.lean`), every
schedule — any interleaving, any length — leaves each run exactly where it would be had it taken
its steps alone on a fresh parser, and leaves the parser value unchanged.

Residue (not expressible here): the model's steps are atomic, so it cannot exhibit a data race;
that `&self` access to `regex_automata::hybrid::dfa::DFA` is race-free (`DFA: Sync`) is trusted,
as is Rust's guarantee that code without `unsafe`/interior mutability cannot write through `&`.
-/
namespace LalrpopModel.Reent

variable {S P : Type}

/-! ### generic -/

/-- **Every interleaving equals the sequential runs.**  If steps only read the shared component,
then after *any* schedule the shared component is unchanged and run `i` is in the state it reaches
by taking `count i sched` steps alone. -/
theorem interleaving_equals_sequential (pg : Prog S P) (h : ReadOnly pg) (w : World S P) (sched : List Nat) :
    exec pg w sched = { shared := w.shared, runs := sequentialRuns pg w.shared w.runs sched } := by
  obtain ⟨h1, h2⟩ := exec_readOnly pg h sched w
  cases hw : exec pg w sched with
  | mk s r => rw [hw] at h1 h2; simp only at h1 h2; rw [h1, h2]

/-- two schedules that give every run the same number of steps end in the same world -/
theorem interleaving_schedule_independent (pg : Prog S P) (h : ReadOnly pg) (w : World S P)
    (s1 s2 : List Nat) (hc : ∀ i, s1.count i = s2.count i) : exec pg w s1 = exec pg w s2 := by
  rw [interleaving_equals_sequential pg h, interleaving_equals_sequential pg h]
  simp only [sequentialRuns, hc]

/-- in particular every interleaving equals the sequential execution "run 0 to the end, then run 1, …" -/
theorem interleaving_equals_seqSched (pg : Prog S P) (h : ReadOnly pg) (w : World S P) (sched : List Nat)
    (ns : List Nat) (hns : ∀ i, ns.getD i 0 = sched.count i) :
    exec pg w sched = exec pg w (seqSched ns) := by
  apply interleaving_schedule_independent pg h
  intro i; rw [count_seqSched, hns]

/-- **Complete interleavings yield the sequential results.**  If run `i`, alone, reaches a state
`q` in `n` steps and `q` is final (the step leaves it unchanged), then in every schedule that gives
run `i` at least `n` steps, run `i` ends in `q` — whatever the other runs do in between. -/
theorem complete_interleaving_result (pg : Prog S P) (h : ReadOnly pg) (w : World S P) (sched : List Nat)
    (i : Nat) (p q : P) (n : Nat) (hp : w.runs[i]? = some p)
    (hq : iter (pg.localStep w.shared) n p = q) (hfix : pg.localStep w.shared q = q)
    (hn : n ≤ sched.count i) :
    (exec pg w sched).runs[i]? = some q := by
  rw [interleaving_equals_sequential pg h, sequentialRuns_getElem?, hp]
  obtain ⟨k, hk⟩ := Nat.exists_eq_add_of_le hn
  simp only [Option.map_some]
  rw [hk, iter_add, hq, iter_fixed _ _ hfix]

/-! ### write sets and the extracted facts -/

/-- a program that may write no shared location is read-only -/
theorem readOnly_of_no_writable {L V : Type} [DecidableEq L] (cp : CapProg L V P) :
    ReadOnly (cp.toProg []) := by
  intro s p
  simp only [CapProg.toProg, filter_not_mem_nil, applyWrites]

/-- writes outside `W` never show: the part of the store outside `W` is read-only for every step -/
theorem toProg_frame {L V : Type} [DecidableEq L] (cp : CapProg L V P) (W : List L) (s : L → V) (p : P)
    (x : L) (hx : x ∉ W) : ((cp.toProg W).step s p).1 x = s x := by
  simp only [CapProg.toProg]
  apply applyWrites_frame
  intro w hw
  simp only [List.mem_filter, decide_eq_true_eq] at hw
  intro e; apply hx; rw [← e]; exact hw.2

/-- the Boolean check of the extracted facts means: no module has a writable shared location -/
theorem facts_no_writable (ms : List ModuleFacts) (h : noSharedMutableState ms = true) :
    ∀ m ∈ ms, m.writable = [] := by
  intro m hm
  simp only [noSharedMutableState, List.all_eq_true, Bool.and_eq_true] at h
  have := (h m hm).1
  simpa [List.isEmpty_iff] using this

/-- **The general theorem with "no shared mutable state" as its hypothesis**: for source facts that
pass the check, a program whose shared writes are confined to the locations those facts make
writable behaves, under every interleaving, like the sequential runs. -/
theorem no_shared_mutable_state_interleaving {V : Type} (ms : List ModuleFacts)
    (h : noSharedMutableState ms = true) (m : ModuleFacts) (hm : m ∈ ms)
    (cp : CapProg String V P) (w : World (String → V) P) (sched : List Nat) :
    exec (cp.toProg m.writable) w sched =
      { shared := w.shared, runs := sequentialRuns (cp.toProg m.writable) w.shared w.runs sched } := by
  rw [facts_no_writable ms h m hm]
  exact interleaving_equals_sequential _ (readOnly_of_no_writable cp) w sched

/-- the hypothesis is needed: with a shared counter that every step increments and copies, two
schedules with the same step counts end differently -/
example : ∃ (pg : Prog Nat Nat) (w : World Nat Nat) (s1 s2 : List Nat),
    (∀ i, s1.count i = s2.count i) ∧ (exec pg w s1).runs ≠ (exec pg w s2).runs :=
  ⟨⟨fun s _ => (s + 1, s)⟩, ⟨0, [0, 0]⟩, [0, 1], [1, 0],
    by intro i; simp [List.count_cons]; omega, by decide⟩

/-- and it is satisfiable: a step that only touches private state -/
example : ReadOnly (⟨fun s p => (s, p + s)⟩ : Prog Nat Nat) := fun _ _ => rfl

/-! ### the LR driver: `parse` -/

/-- **parse is pure.**  Use a parser value in any way (any runs `others`, any schedule `hist`), then
start a new `parse` call on it: its outcome after `n` steps is `parseWith s … input n`, a function
of the shared component and the call's own arguments only. -/
theorem parse_pure (s : LRShared) (others : List LRRun) (hist : List Nat)
    (failAt : Option Nat) (startLoc : Int) (input : List LR.Item) (n : Nat) :
    let w' := exec lrProg ⟨s, others⟩ hist
    let k := w'.runs.length
    ((exec lrProg ⟨w'.shared, w'.runs ++ [lrStart failAt startLoc input]⟩ (List.replicate n k)).runs[k]?).bind lrOutcome
      = parseWith s failAt startLoc input n := by
  intro w' k
  have hw' : w'.shared = s := (exec_readOnly lrProg lrProg_readOnly hist ⟨s, others⟩).1
  rw [interleaving_equals_sequential lrProg lrProg_readOnly, sequentialRuns_getElem?]
  simp only [hw', k, List.getElem?_append_right (Nat.le_refl _), Nat.sub_self, List.getElem?_cons_zero,
    Option.map_some, Option.bind_some, List.count_replicate_self, parseWith]

/-- the outcome does not depend on how long one waits: once `parse` has returned `r`, more steps
change nothing (so `parseWith` defines at most one result per input) -/
theorem parse_fuel_monotone (s : LRShared) (failAt : Option Nat) (startLoc : Int) (input : List LR.Item)
    (n m : Nat) (r : LR.Outcome) (h : parseWith s failAt startLoc input n = some r) (hm : n ≤ m) :
    parseWith s failAt startLoc input m = some r := by
  obtain ⟨k, rfl⟩ := Nat.exists_eq_add_of_le hm
  unfold parseWith at *
  rw [iter_add, iter_fixed _ _ (lr_done_fixed s _ r h)]
  exact h

theorem parse_result_unique (s : LRShared) (failAt : Option Nat) (startLoc : Int) (input : List LR.Item)
    (n m : Nat) (r r' : LR.Outcome) (h : parseWith s failAt startLoc input n = some r)
    (h' : parseWith s failAt startLoc input m = some r') : r = r' := by
  rcases Nat.le_total n m with hle | hle
  · have := parse_fuel_monotone s failAt startLoc input n m r h hle
    rw [this] at h'; cases h'; rfl
  · have := parse_fuel_monotone s failAt startLoc input m n r' h' hle
    rw [this] at h; cases h; rfl

/-- **N concurrent `parse` calls on one parser value** (the driver model's real `step`): after any
interleaving of their steps the tables are untouched and call `i` is where `count i sched` steps of
`LR.step` take it from its own initial configuration. -/
theorem lr_interleaving_equals_sequential (s : LRShared) (calls : List LRRun) (sched : List Nat) :
    exec lrProg ⟨s, calls⟩ sched = ⟨s, sequentialRuns lrProg s calls sched⟩ :=
  interleaving_equals_sequential lrProg lrProg_readOnly ⟨s, calls⟩ sched

/-- … and if call `i` parses `input` and, alone on a fresh parser, returns `r` within `n` steps, then
in every interleaving that lets it run for at least `n` steps it has returned `r`. -/
theorem lr_concurrent_result_eq_fresh (s : LRShared) (calls : List LRRun) (sched : List Nat) (i : Nat)
    (failAt : Option Nat) (startLoc : Int) (input : List LR.Item) (n : Nat) (r : LR.Outcome)
    (hi : calls[i]? = some (lrStart failAt startLoc input))
    (hr : parseWith s failAt startLoc input n = some r) (hn : n ≤ sched.count i) :
    ((exec lrProg ⟨s, calls⟩ sched).runs[i]?).bind lrOutcome = some r := by
  have hfix := lr_done_fixed s _ r hr
  rw [complete_interleaving_result lrProg lrProg_readOnly ⟨s, calls⟩ sched i _ _ n hi rfl hfix hn]
  exact hr

/-! ### the built-in lexer: matchers -/

section Lexer
variable {α : Type} [DecidableEq α]

theorem lexProg_readOnly : ReadOnly (lexProg : Prog (Builder α) (Matcher α)) := fun _ _ => rfl

/-- one `next()` call over a cache that only holds answers of the builder's DFA returns what the
cache-free `Matcher::next` of M-LEX returns: the content of the cache is unobservable -/
theorem cache_unobservable (b : Builder α) (st : Lex.St α) (c : Cache α) (hc : c.Consistent b.dfa) :
    (nextC b.dfa b.skip st c).1 = (Lex.next b.dfa b.skip st).1 ∧
      (nextC b.dfa b.skip st c).2.1 = (Lex.next b.dfa b.skip st).2 :=
  ⟨(nextC_spec _ _ _ _ hc).1, (nextC_spec _ _ _ _ hc).2.1⟩

/-- **Matcher state is local.**  Create one matcher per text from the same builder (each gets its own
empty cache) and interleave their `next()` calls in any way: the builder is unchanged, and matcher
`i` has returned exactly the items, and is at exactly the position, that `count i sched` calls of the
cache-free `Lex.next` give for its text alone; its cache still only holds answers of the builder's DFA. -/
theorem matcher_state_is_local (b : Builder α) (texts : List (List α)) (sched : List Nat) :
    let w := exec lexProg ⟨b, texts.map b.matcher⟩ sched
    w.shared = b ∧
    ∀ i text, texts[i]? = some text →
      ∃ m, w.runs[i]? = some m ∧ (m.st, m.out) = lexRef b (sched.count i) (Lex.init text) [] ∧
        m.cache.Consistent b.dfa := by
  intro w
  have hw : w = ⟨b, sequentialRuns lexProg b (texts.map b.matcher) sched⟩ :=
    interleaving_equals_sequential lexProg lexProg_readOnly _ sched
  refine ⟨by rw [hw], ?_⟩
  intro i text hi
  have hspec := lex_iter_spec b (sched.count i) (b.matcher text) (empty_consistent b.dfa)
  refine ⟨iter (lexProg.localStep b) (sched.count i) (b.matcher text), ?_, hspec.1, hspec.2⟩
  rw [hw, sequentialRuns_getElem?]
  simp [hi]

end Lexer

end LalrpopModel.Reent
