import LalrpopModel.Props.LRSoundThms
import LalrpopModel.Props.C01
import LalrpopModel.Props.LRCompleteThms
/-!
C07 — Table-driven and recursive-ascent parsers give identical results.

The theorems deciding this property (audited by `checks/c07.py` with `#print axioms`):

Table side: the emitted tables are checked entry by entry against the exported automaton by the proven validator
(`checkCores`: every shift/goto cell is an automaton transition; `checkReduces`; `encodeAction`/`encodeEof` model of
`write_parse_table` compared for equality by `enccheck`), `asShift`/`asReduce` decode exclusively (`Basic.lean`).
Ascent side: correspondence of compiled `#[recursive_ascent]` parsers with compiled table-driven ones and the model.
-/
