import LalrpopModel.Lemmas.BuildInv
/-!
C21 — non-forced builds never leave a stale or foreign output.

All theorems are about `Model/Build.lean` (`needsRebuild`, `plan`, `build`, `buildDir`, `step`,
`run`), for every generator `p.gen`, every hash function `p.hash` that is injective (`HashInj`,
explicit hypothesis) and whose lines survive `read_line`+`trim` (`HeaderOk`), every version string,
every variant `v` of the code unless a flag is named, every number of grammars and every history
(`List Op`, induction over the list).

The invariant is `Inv Good v p st`: every existing output is *honest* — for whatever grammar text
its two header lines are accepted by `needs_rebuild`, the file is `Good` for that text.  It is
stated for all grammar texts (not just the current one) so that it survives reverting an edit.

Hand edits (`alterHeader`, `setOut`) range over everything that keeps the edited file honest
(`OpOk`); the only thing excluded is forging a (version, hash g) header over a file that is not
the output for `g` — the "body edited under an intact header" case the property excludes.
For the repaired code (`exactHeader`) that exclusion is literal: `honest_of_no_exact_header` shows
that any file that does not literally start with `version ⏎ hash g ⏎` for some `g` is honest.

The three deviations of the original code are kept as theorems about the corresponding flags
being off: `padded_header_kept`, `non_utf8_header_blocks_build`,
`non_utf8_grammar_keeps_old_output`; `fixed_build_eq_forced` and
`fixed_failed_build_leaves_nothing` are the unconditional statements for the repaired code.
-/

namespace LalrpopModel.Build

variable {p : Params} {v : Variant} {Good : Bytes → Bytes → Prop}

/-- side condition on hand edits of generated files -/
def OpOk (Good : Bytes → Bytes → Prop) (v : Variant) (p : Params) (st : St) : Op → Prop
  | .alterHeader i l1 l2 => ∀ f, st.fs (.rs i) = some f → Honest Good v p (l1 ++ l2 ++ rest2 f.data)
  | .setOut _ d => Honest Good v p d
  | _ => True

/-- every hand edit of the history satisfies the side condition in the state it is applied to -/
def HistOk (Good : Bytes → Bytes → Prop) (v : Variant) (p : Params) : St → List Op → Prop
  | _, [] => True
  | st, op :: ops => OpOk Good v p st op ∧ HistOk Good v p (step v p st op) ops

/-- no outputs: the invariant holds -/
theorem inv_init (gr : Nat → Option Bytes) : Inv Good v p (St.init gr) := by
  intro i f hf; simp [St.init] at hf

theorem step_inv (hp : HeaderOk p) (hinj : HashInj p) (hgs : GoodSpec p Good) (hs : v.Sound)
    (st : St) (op : Op) (hinv : Inv Good v p st) (hok : OpOk Good v p st op) :
    Inv Good v p (step v p st op) := by
  cases op with
  | edit i g => exact hinv
  | touch i => exact hinv
  | build i => exact build_inv hp hinj hgs hs _ st i hinv
  | forcedBuild i => exact build_inv hp hinj hgs hs _ st i hinv
  | buildDir ids => exact buildDir_inv hp hinj hgs hs _ ids st hinv
  | forcedBuildDir ids => exact buildDir_inv hp hinj hgs hs _ ids st hinv
  | deleteOut i =>
    intro j f hf
    by_cases hj : j = i
    · subst hj; simp [step] at hf
    · simp only [step] at hf
      rw [setFs_other _ _ (by simp [hj])] at hf
      exact hinv j f hf
  | alterHeader i l1 l2 =>
    simp only [step]
    cases hfi : st.fs (.rs i) with
    | none => simpa [hfi] using hinv
    | some f0 =>
      intro j f hf
      by_cases hj : j = i
      · subst hj
        simp [handWrite] at hf
        subst hf
        simpa [List.append_assoc] using hok f0 hfi
      · simp only [handWrite] at hf
        rw [setFs_other _ _ (by simp [hj])] at hf
        exact hinv j f hf
  | setOut i d =>
    intro j f hf
    by_cases hj : j = i
    · subst hj
      simp [step, handWrite] at hf
      subst hf
      exact hok
    · simp only [step, handWrite] at hf
      rw [setFs_other _ _ (by simp [hj])] at hf
      exact hinv j f hf

/-- **Invariant preservation over histories** (induction over the operation list): edits, reverts,
    touches, builds, forced builds, directory builds, deletions and honest hand edits, for any
    number of grammars, keep every output honest. -/
theorem inv_preserved_by_ops (hp : HeaderOk p) (hinj : HashInj p) (hgs : GoodSpec p Good)
    (hs : v.Sound) (ops : List Op) (st : St) (hinv : Inv Good v p st) (hok : HistOk Good v p st ops) :
    Inv Good v p (run v p st ops) := by
  induction ops generalizing st with
  | nil => exact hinv
  | cons op ops ih =>
    exact ih (step v p st op) (step_inv hp hinj hgs hs st op hinv hok.1) hok.2

/-- **A build establishes currency** (all outcomes of `process_file_into`).
    From an honest state, building grammar `i` with text `g` ends in exactly one of:
    * up to date: nothing changed (not even a stamp) and the existing output is `Good` for `g`;
    * built: the output is byte-for-byte `version ⏎ hash g ⏎ body` with a fresh stamp;
    * generation error `e`: there is no output for `i`;
    * the first two lines of the existing output are not UTF-8 and the code is not `utf8Tolerant`:
      io error, nothing changed;
    * the grammar is not UTF-8: io error; the output of `i` is removed iff the code is
      `removeFirst`, otherwise nothing changed. -/
theorem build_establishes_current (hs : v.Sound) (cfg : Cfg) (st : St) (i : Nat) (g : Bytes)
    (hinv : Inv Good v p st) (hg : st.gr i = some g) :
    (build v p cfg st i = (.upToDate, st) ∧ ∃ f, st.fs (.rs i) = some f ∧ Good g f.data) ∨
    ((build v p cfg st i).1 = .built ∧ ∃ body c, (p.gen g).result = .ok body ∧
        (build v p cfg st i).2.fs (.rs i) = some ⟨canon p g body, c⟩ ∧ st.clock ≤ c) ∨
    (∃ e, (build v p cfg st i).1 = .genErr e ∧ (p.gen g).result = .error e ∧
        (build v p cfg st i).2.fs (.rs i) = none) ∨
    (build v p cfg st i = (.ioErr .headerNotUtf8, st) ∧ v.utf8Tolerant = false ∧
        ∃ f, st.fs (.rs i) = some f ∧ headerUtf8 f.data = false) ∨
    ((build v p cfg st i).1 = .ioErr .grammarNotUtf8 ∧ validUtf8 g = false ∧
        (build v p cfg st i).2.fs (.rs i) = (if v.removeFirst then none else st.fs (.rs i))) := by
  have hres := build_res hs p cfg st i g hg
  generalize build v p cfg st i = r at hres ⊢
  cases hres with
  | headerErr e _ herr =>
    cases hfi : st.fs (.rs i) with
    | none => simp [hfi, needsRebuild] at herr
    | some f =>
      simp only [hfi, Option.map_some] at herr
      obtain ⟨rfl, hu, ht⟩ := needsRebuild_error herr
      exact Or.inr (Or.inr (Or.inr (Or.inl ⟨rfl, ht, f, rfl, hu⟩)))
  | upToDate _ hacc =>
    cases hfi : st.fs (.rs i) with
    | none => simp [hfi, needsRebuild] at hacc
    | some f =>
      simp only [hfi, Option.map_some] at hacc
      exact Or.inl ⟨rfl, f, rfl, hinv i f hfi g hacc⟩
  | grammarNotUtf8 st' _ hu hi _ _ => exact Or.inr (Or.inr (Or.inr (Or.inr ⟨rfl, hu, hi⟩)))
  | genErr e st' _ _ hgen hnone _ _ _ =>
    exact Or.inr (Or.inr (Or.inl ⟨e, rfl, hgen, hnone⟩))
  | built body c st' _ _ hgen hsome hc _ _ _ =>
    exact Or.inr (Or.inl ⟨rfl, body, c, hgen, hsome, hc⟩)

/-- what a forced build of a UTF-8 text `g` leaves for grammar `i`: the canonical file, or nothing -/
theorem forced_build_output (hs : v.Sound) (cfg : Cfg) (st : St) (i : Nat) (g : Bytes)
    (hg : st.gr i = some g) (hforce : cfg.force = true) (hu : validUtf8 g = true) :
    ((build v p cfg st i).2.fs (.rs i)).map (·.data) =
      match (p.gen g).result with
      | .ok body => some (canon p g body)
      | .error _ => none := by
  have hres := build_res hs p cfg st i g hg
  generalize build v p cfg st i = r at hres
  cases hres with
  | headerErr e hf _ => simp [hforce] at hf
  | upToDate hf _ => simp [hforce] at hf
  | grammarNotUtf8 _ _ hu' _ _ _ => simp [hu] at hu'
  | genErr e st' _ _ hgen hnone _ _ _ => simp [hgen, hnone]
  | built body c st' _ _ hgen hsome _ _ _ _ => simp [hgen, hsome]

/-- **Byte identity with a forced build** (any variant, with the two UTF-8 side conditions).
    From a state in which every output is honest in the exact sense, if the grammar is UTF-8 and
    the existing output's header lines are UTF-8, the output after a non-forced build has exactly
    the bytes a forced build would write (both are absent when generation fails). -/
theorem build_eq_forced (hs : v.Sound) (st : St) (i : Nat) (g : Bytes)
    (hinv : Inv (Exact p) v p st) (hg : st.gr i = some g) (hu : validUtf8 g = true)
    (hh : ∀ f, st.fs (.rs i) = some f → headerUtf8 f.data = true) :
    ((build v p { force := false } st i).2.fs (.rs i)).map (·.data) =
      ((build v p { force := true } st i).2.fs (.rs i)).map (·.data) := by
  rw [forced_build_output hs { force := true } st i g hg rfl hu]
  rcases build_establishes_current hs { force := false } st i g hinv hg with
    ⟨hr, f, hf, body, hgen, hd⟩ | ⟨_, body, c, hgen, hsome, _⟩ | ⟨e, _, hgen, hnone⟩ |
    ⟨_, _, f, hf, hbad⟩ | ⟨_, hbad, _⟩
  · rw [hr]; simp [hf, hgen, hd]
  · simp [hsome, hgen]
  · simp [hnone, hgen]
  · rw [hh f hf] at hbad; cases hbad
  · rw [hu] at hbad; cases hbad

/-- **Left untouched when current**: an output that `needs_rebuild` accepts for the current
    grammar — in particular the complete output of an earlier build — is not rewritten: the whole
    state, stamps and clock included, is unchanged. -/
theorem untouched_when_accepted (v : Variant) (st : St) (i : Nat) (g : Bytes) (f : File)
    (hg : st.gr i = some g) (hf : st.fs (.rs i) = some f) (hacc : Accepts v p g f.data) :
    build v p { force := false } st i = (.upToDate, st) := by
  simp [build, plan, hg, hf, Accepts] at *
  simp [hacc, applyActs]

theorem untouched_when_current (hp : HeaderOk p) (v : Variant) (st : St) (i : Nat) (g body : Bytes)
    (c : Nat) (hg : st.gr i = some g) (hf : st.fs (.rs i) = some ⟨canon p g body, c⟩) :
    build v p { force := false } st i = (.upToDate, st) :=
  untouched_when_accepted v st i g _ hg hf (accepts_canon_self hp v g body)

/-- **A failed build leaves nothing** (any variant, generation errors): if generation fails for
    the (UTF-8) grammar, then after a build from an honest state (forced, or non-forced with
    readable header lines) there is no output file for that grammar and the outcome is that
    error. -/
theorem failed_build_leaves_nothing (hgs : GoodSpec p Good) (hs : v.Sound) (cfg : Cfg) (st : St)
    (i : Nat) (g : Bytes) (e : Nat) (hinv : Inv Good v p st) (hg : st.gr i = some g)
    (hu : validUtf8 g = true) (hgen : (p.gen g).result = .error e)
    (hh : cfg.force = true ∨ ∀ f, st.fs (.rs i) = some f → headerUtf8 f.data = true) :
    (build v p cfg st i).1 = .genErr e ∧ (build v p cfg st i).2.fs (.rs i) = none := by
  have hres := build_res hs p cfg st i g hg
  generalize build v p cfg st i = r at hres
  cases hres with
  | headerErr e' hf herr =>
    rcases hh with hh | hh
    · simp [hh] at hf
    · cases hfi : st.fs (.rs i) with
      | none => simp [hfi, needsRebuild] at herr
      | some f =>
        simp only [hfi, Option.map_some] at herr
        have := (needsRebuild_error herr).2.1
        rw [hh f hfi] at this; cases this
  | upToDate _ hacc =>
    cases hfi : st.fs (.rs i) with
    | none => simp [hfi, needsRebuild] at hacc
    | some f =>
      simp only [hfi, Option.map_some] at hacc
      obtain ⟨body, hb⟩ := hgs.good_gen g _ (hinv i f hfi g hacc)
      rw [hgen] at hb; cases hb
  | grammarNotUtf8 _ _ hu' _ _ _ => rw [hu] at hu'; cases hu'
  | genErr e' st' _ _ hgen' hnone _ _ _ =>
    rw [hgen] at hgen'; cases hgen'; exact ⟨rfl, hnone⟩
  | built body c st' _ _ hgen' _ _ _ _ _ => rw [hgen] at hgen'; cases hgen'

/-- a build of grammar `i` does not touch the outputs of other grammars or any grammar file -/
theorem build_frame (hs : v.Sound) (cfg : Cfg) (st : St) (i j : Nat) (hj : j ≠ i) :
    (build v p cfg st i).2.fs (.rs j) = st.fs (.rs j) ∧ (build v p cfg st i).2.gr = st.gr := by
  cases hg : st.gr i with
  | none =>
    obtain ⟨_, _, hframe, hgr⟩ := build_missing v p cfg st i hg
    exact ⟨hframe j hj, hgr⟩
  | some g =>
    have hres := build_res hs p cfg st i g hg
    generalize build v p cfg st i = r at hres
    cases hres with
    | headerErr => exact ⟨rfl, rfl⟩
    | upToDate => exact ⟨rfl, rfl⟩
    | grammarNotUtf8 st' _ _ _ hframe hgr => exact ⟨hframe j hj, hgr⟩
    | genErr e st' _ _ _ _ hframe hgr _ => exact ⟨hframe j hj, hgr⟩
    | built body c st' _ _ _ _ _ _ hframe hgr => exact ⟨hframe j hj, hgr⟩

/-- **Property over histories** (any variant, with the two UTF-8 side conditions).  Start with no
    outputs, run any history whose hand edits are honest, then build grammar `i` (non-forced): the
    output has exactly the bytes of a forced build of the current text. -/
theorem history_then_build_eq_forced (hp : HeaderOk p) (hinj : HashInj p) (hs : v.Sound)
    (gr : Nat → Option Bytes) (ops : List Op) (hok : HistOk (Exact p) v p (St.init gr) ops)
    (i : Nat) (g : Bytes) (hg : (run v p (St.init gr) ops).gr i = some g) (hu : validUtf8 g = true)
    (hh : ∀ f, (run v p (St.init gr) ops).fs (.rs i) = some f → headerUtf8 f.data = true) :
    ((build v p { force := false } (run v p (St.init gr) ops) i).2.fs (.rs i)).map (·.data) =
      ((build v p { force := true } (run v p (St.init gr) ops) i).2.fs (.rs i)).map (·.data) :=
  build_eq_forced hs _ i g
    (inv_preserved_by_ops hp hinj (exact_spec p) hs ops _ (inv_init gr) hok) hg hu hh

/-- `process_dir`: the list of per-file outcomes is a run of successes followed by at most one
    failure (it stops at the first error); `buildDir_inv` says every output stays honest. -/
theorem buildDir_outcomes (v : Variant) (cfg : Cfg) (ids : List Nat) (st : St) :
    let r := buildDir v p cfg st ids
    r.1.length ≤ ids.length ∧ (∀ o ∈ r.1.dropLast, o.isOk = true) ∧
      (r.1.length < ids.length → ∃ o, r.1.getLast? = some o ∧ o.isOk = false) := by
  induction ids generalizing st with
  | nil => simp [buildDir]
  | cons i ids ih =>
    simp only [buildDir]
    split
    · rename_i hok
      obtain ⟨h1, h2, h3⟩ := ih (build v p cfg st i).2
      refine ⟨by simp; omega, ?_, ?_⟩
      · intro o ho
        cases hl : (buildDir v p cfg (build v p cfg st i).2 ids).1 with
        | nil => simp [hl] at ho
        | cons o' os =>
          rw [hl, List.dropLast_cons_cons] at ho
          rcases List.mem_cons.mp ho with rfl | ho
          · exact hok
          · exact h2 o (by rw [hl]; exact ho)
      · intro hlt
        have : (buildDir v p cfg (build v p cfg st i).2 ids).1.length < ids.length := by
          simp at hlt; omega
        obtain ⟨o, ho, hbad⟩ := h3 this
        refine ⟨o, ?_, hbad⟩
        cases hl : (buildDir v p cfg (build v p cfg st i).2 ids).1 with
        | nil => simp [hl] at ho
        | cons o' os => rw [hl] at ho; simpa [List.getLast?_cons_cons] using ho
    · rename_i hbad
      refine ⟨by simp, by simp, ?_⟩
      intro _
      exact ⟨_, rfl, by simpa using hbad⟩

/-! ### The repaired code: unconditional statements -/

/-- with exact header comparison, a file that does not literally start with the header lines of
    any grammar is honest: every alteration of the header other than a forgery is allowed -/
theorem honest_of_no_exact_header (he : v.exactHeader = true) (d : Bytes)
    (h : ∀ g, d ≠ p.version ++ [NL] ++ (p.hash g ++ [NL]) ++ rest2 d) : Honest Good v p d :=
  fun g hacc => absurd (accepts_exact he hacc) (h g)

/-- **Byte identity for the repaired code, no side conditions.**  With `removeFirst` and
    `utf8Tolerant`, from a state in which every output is honest in the exact sense: whatever the
    grammar text (UTF-8 or not) and whatever the bytes of the existing output, the output after a
    non-forced build of an existing grammar file has exactly the bytes a forced build would leave. -/
theorem fixed_build_eq_forced (hs : v.Sound) (hgu : GenUtf8 p) (hr : v.removeFirst = true)
    (ht : v.utf8Tolerant = true) (st : St) (i : Nat) (g : Bytes)
    (hinv : Inv (Exact p) v p st) (hg : st.gr i = some g) :
    ((build v p { force := false } st i).2.fs (.rs i)).map (·.data) =
      ((build v p { force := true } st i).2.fs (.rs i)).map (·.data) := by
  by_cases hu : validUtf8 g = true
  · rw [forced_build_output hs { force := true } st i g hg rfl hu]
    rcases build_establishes_current hs { force := false } st i g hinv hg with
      ⟨hr', f, hf, body, hgen, hd⟩ | ⟨_, body, c, hgen, hsome, _⟩ | ⟨e, _, hgen, hnone⟩ |
      ⟨_, hbad, _⟩ | ⟨_, hbad, _⟩
    · rw [hr']; simp [hf, hgen, hd]
    · simp [hsome, hgen]
    · simp [hnone, hgen]
    · rw [ht] at hbad; cases hbad
    · rw [hu] at hbad; cases hbad
  · have hu' : validUtf8 g = false := by simpa using hu
    -- forced: the old output is removed, then loading fails
    have hforced : (build v p { force := true } st i).2.fs (.rs i) = none := by
      have hres := build_res hs p { force := true } st i g hg
      generalize build v p { force := true } st i = r at hres
      cases hres with
      | headerErr e hf _ => cases hf
      | upToDate hf _ => cases hf
      | grammarNotUtf8 st' _ _ hi _ _ => simpa [hr] using hi
      | genErr e st' _ hv _ _ _ _ _ => rw [hu'] at hv; cases hv
      | built body c st' _ hv _ _ _ _ _ _ => rw [hu'] at hv; cases hv
    rw [hforced]
    rcases build_establishes_current hs { force := false } st i g hinv hg with
      ⟨_, f, hf, body, hgen, _⟩ | ⟨_, body, c, hgen, _, _⟩ | ⟨e, _, _, hnone⟩ |
      ⟨_, hbad, _⟩ | ⟨_, _, hi⟩
    · have := hgu g body hgen; rw [hu'] at this; cases this
    · have := hgu g body hgen; rw [hu'] at this; cases this
    · simp [hnone]
    · rw [ht] at hbad; cases hbad
    · simp [hi, hr]

/-- **A failed build leaves nothing, repaired code.**  With `removeFirst` and `utf8Tolerant`,
    every build of an existing grammar file (forced or not, any text, any existing output) that
    does not return `Ok` leaves no output file for that grammar. -/
theorem fixed_failed_build_leaves_nothing (hs : v.Sound) (hr : v.removeFirst = true) (ht : v.utf8Tolerant = true)
    (cfg : Cfg) (st : St) (i : Nat) (g : Bytes) (hg : st.gr i = some g)
    (hfail : (build v p cfg st i).1.isOk = false) : (build v p cfg st i).2.fs (.rs i) = none := by
  have hres := build_res hs p cfg st i g hg
  generalize build v p cfg st i = r at hres hfail
  cases hres with
  | headerErr e _ herr =>
    cases hfi : st.fs (.rs i) with
    | none => simp [hfi, needsRebuild] at herr
    | some f =>
      simp only [hfi, Option.map_some] at herr
      have := (needsRebuild_error herr).2.2
      rw [ht] at this; cases this
  | upToDate _ _ => simp [Outcome.isOk] at hfail
  | grammarNotUtf8 st' _ _ hi _ _ => simpa [hr] using hi
  | genErr e st' _ _ _ hnone _ _ _ => exact hnone
  | built body c st' _ _ _ _ _ _ _ _ => simp [Outcome.isOk] at hfail

/-- history version for the repaired code -/
theorem fixed_history_then_build_eq_forced (hp : HeaderOk p) (hinj : HashInj p) (hs : v.Sound) (hgu : GenUtf8 p)
    (hr : v.removeFirst = true) (ht : v.utf8Tolerant = true)
    (gr : Nat → Option Bytes) (ops : List Op) (hok : HistOk (Exact p) v p (St.init gr) ops)
    (i : Nat) (g : Bytes) (hg : (run v p (St.init gr) ops).gr i = some g) :
    ((build v p { force := false } (run v p (St.init gr) ops) i).2.fs (.rs i)).map (·.data) =
      ((build v p { force := true } (run v p (St.init gr) ops) i).2.fs (.rs i)).map (·.data) :=
  fixed_build_eq_forced hs hgu hr ht _ i g
    (inv_preserved_by_ops hp hinj (exact_spec p) hs ops _ (inv_init gr) hok) hg

/-! ### The original code: where the property fails (each reproduced on the real code before the repair) -/

/-- a file whose two header lines are variants `v'`, `h'` that still trim to the version and the
    hash of `g` is accepted for `g` by the trimming comparison -/
theorem accepts_header_variant (he : v.exactHeader = false) (g body v' h' : Bytes) (hv : NL ∉ v')
    (hh : NL ∉ h') (hvu : validUtf8 (v' ++ [NL]) = true) (hhu : validUtf8 (h' ++ [NL]) = true)
    (hvt : trim (v' ++ [NL]) = p.version) (hht : trim (h' ++ [NL]) = p.hash g) :
    Accepts v p g (v' ++ NL :: (h' ++ NL :: body)) ∧ rest2 (v' ++ NL :: (h' ++ NL :: body)) = body := by
  constructor
  · simp [Accepts, needsRebuild, splitLine_append _ _ hv, splitLine_append _ _ hh, hvu, hhu, hvt, hht, he]
  · simp [rest2, splitLine_append _ _ hv, splitLine_append _ _ hh]

/-- **White-space padded header is kept** (code without `exactHeader`).  If the version line still
    trims to the version string after a blank is appended (true of the real header; hypothesis
    `hpad`), the file `version␠ ⏎ hash g ⏎ body` is accepted for `g` although it differs from the
    forced output `version ⏎ hash g ⏎ body`. -/
theorem padded_header_kept (hp : HeaderOk p) (he : v.exactHeader = false) (g body : Bytes)
    (hpad : trim ((p.version ++ [0x20]) ++ [NL]) = p.version)
    (hpadu : validUtf8 ((p.version ++ [0x20]) ++ [NL]) = true) :
    Accepts v p g ((p.version ++ [0x20]) ++ NL :: (p.hash g ++ NL :: body)) ∧
    (p.version ++ [0x20]) ++ NL :: (p.hash g ++ NL :: body) ≠ canon p g body ∧
    rest2 ((p.version ++ [0x20]) ++ NL :: (p.hash g ++ NL :: body)) = body := by
  have hnl : NL ∉ p.version ++ [0x20] := by
    simp only [List.mem_append, List.mem_singleton, not_or]
    exact ⟨hp.v_nl, by decide⟩
  have h := accepts_header_variant (p := p) he g body (p.version ++ [0x20]) (p.hash g) hnl (hp.h_nl g)
    hpadu (hp.h_utf8 g) hpad (hp.h_trim g)
  refine ⟨h.1, ?_, h.2⟩
  intro e
  have := congrArg List.length e
  simp [canon] at this

/-- …and with `exactHeader` the same file is NOT accepted (so the next build regenerates it) -/
theorem padded_header_rejected (he : v.exactHeader = true) (g body : Bytes) :
    ¬ Accepts v p g ((p.version ++ [0x20]) ++ NL :: (p.hash g ++ NL :: body)) := by
  intro hacc
  have h := accepts_exact he hacc
  have := congrArg (fun l => l.drop p.version.length) h
  simp [List.append_assoc] at this
  exact absurd this.1 (by decide)

/-- **Unreadable header blocks the build** (code without `utf8Tolerant`).  If the first two lines
    of the existing output are not valid UTF-8, every non-forced build of that grammar fails with
    an io error and changes nothing, whatever the grammar is. -/
theorem non_utf8_header_blocks_build (ht : v.utf8Tolerant = false) (st : St) (i : Nat) (g : Bytes)
    (f : File) (hg : st.gr i = some g) (hf : st.fs (.rs i) = some f)
    (hbad : headerUtf8 f.data = false) :
    build v p { force := false } st i = (.ioErr .headerNotUtf8, st) := by
  simp [build, plan, hg, hf, needsRebuild_unreadable hbad, unreadable, ht, applyActs]

/-- …and with `utf8Tolerant` such a file is simply rebuilt -/
theorem non_utf8_header_rebuilds (ht : v.utf8Tolerant = true) (g d : Bytes)
    (hbad : headerUtf8 d = false) : needsRebuild v p g (some d) = .ok true := by
  simp [needsRebuild_unreadable hbad, unreadable, ht]

/-- **A grammar that is not UTF-8 keeps the old output** (code without `removeFirst`).
    `FileText::from_path` fails before `remove_old_file`: the build fails and the output generated
    from the earlier text stays. -/
theorem non_utf8_grammar_keeps_old_output (hr : v.removeFirst = false) (cfg : Cfg) (st : St)
    (i : Nat) (g : Bytes) (hg : st.gr i = some g) (hbad : validUtf8 g = false)
    (hneed : cfg.force = true ∨ needsRebuild v p g ((st.fs (.rs i)).map (·.data)) = .ok true) :
    build v p cfg st i = (.ioErr .grammarNotUtf8, st) := by
  rcases hneed with h | h
  · simp [build, plan, hg, h, hbad, applyActs, loadFailActs, hr]
  · cases hc : cfg.force <;> simp [build, plan, hg, hc, h, hbad, applyActs, loadFailActs, hr]

/-! ### The hypotheses are satisfiable -/

/-- toy parameters: version `//v`, hash line `//` followed by the text with every byte mapped into
    `a..p` twice (hex-like, injective), generator = identity on texts not starting with `!` -/
def toyHash (g : Bytes) : Bytes :=
  [0x2F, 0x2F] ++ g.flatMap fun b => [0x61 + b / 16, 0x61 + b % 16]

def toy : Params where
  version := [0x2F, 0x2F, 0x76]
  hash := toyHash
  gen := fun g => ⟨[], if g.head? = some 0x21 then .error 1 else .ok g⟩

/-- executable form of `HeaderOk` for one grammar text -/
def headerOkFor (p : Params) (g : Bytes) : Bool :=
  !p.version.contains NL && !(p.hash g).contains NL &&
  validUtf8 (p.version ++ [NL]) && validUtf8 (p.hash g ++ [NL]) &&
  trim (p.version ++ [NL]) == p.version && trim (p.hash g ++ [NL]) == p.hash g

example : headerOkFor toy [0x41, 0x0A, 0x42] = true := by decide
example : trim ((toy.version ++ [0x20]) ++ [NL]) = toy.version := by decide
example : validUtf8 ((toy.version ++ [0x20]) ++ [NL]) = true := by decide
example : headerUtf8 [0xFF, 0x0A, 0x41, 0x0A] = false := by decide
example : validUtf8 [0x41, 0xC3] = false := by decide

end LalrpopModel.Build
