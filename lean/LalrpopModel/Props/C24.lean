import LalrpopModel.Lemmas.RwFmt
import LalrpopModel.Gen.GuardedSites
/-!
C24 — formatting options do not change the generated program.

`Model/Rw.lean` is the model of `RustWrite`, `Model/RustLex.lean` the Rust lexer; the theorems say
that what `emit_comments` / `emit_whitespace` change (indentation, comment lines, the layout of table
rows) never reaches the token stream.  `Gen/GuardedSites.lean` is regenerated from the source on every
run.
-/
namespace LalrpopModel.Rw
open LalrpopModel.RustLex

/-- a comment line (blanks, `//`, a non-doc body without newline) followed by its newline lexes to
    nothing, whatever follows -/
theorem line_comment_lexes_empty (s rest : List Char) (h : isCommentLine s) :
    lexRust (s ++ '\n' :: rest) = lexRust rest := by
  have := (neutral_commentLine s h).lex rest
  simpa using this

/-- indentation lexes to nothing -/
theorem indentation_lexes_empty (f : Flags) (n : Nat) (rest : List Char) :
    lexRust (indentation f n ++ rest) = lexRust rest := by
  simpa using (neutral_indentation f n).lex rest

/-- the three layouts of `write_table_row` (one commented entry per line; one line with blanks; one
    line without) give the same tokens, at any indentation -/
theorem row_layouts_lex_equal (f f' : Flags) (indent indent' : Nat) (es : List (Int × List Char))
    (h : rowCommentsOK es) (rest : List Char) :
    lexRust (writeTableRow f indent es ++ rest) = lexRust (writeTableRow f' indent' es ++ rest) := by
  rw [(neutral_tableRow f indent es h).lex rest, (neutral_tableRow f' indent' es h).lex rest]

/-- **The token stream of the generated file is a function of the emission events alone.**  For every
    flag setting under which `RustWrite` does not panic, if every `rust!` line is lexically closed, every
    line emitted only under `emit_comments` is a comment line and every table-row comment is a comment,
    then lexing the output gives `specToks evs`, in which the flags do not occur. -/
theorem render_lex_spec (f : Flags) (indent : Nat) (evs : List Ev) (out : List Char)
    (hok : ∀ e ∈ evs, evOK e) (h : render f indent evs = some out) : lexRust out = specToks evs :=
  (neutral_render f evs indent out hok h).lex_all

/-- **`render_flags_lex_equal`**: any two flag settings give the same token stream. -/
theorem render_flags_lex_equal (f f' : Flags) (indent indent' : Nat) (evs : List Ev) (out out' : List Char)
    (hok : ∀ e ∈ evs, evOK e) (h : render f indent evs = some out) (h' : render f' indent' evs = some out') :
    lexRust out = lexRust out' := by
  rw [render_lex_spec f indent evs out hok h, render_lex_spec f' indent' evs out' hok h']

/-! ### multi-line buffers

A `line s` event is ONE `rust!` call; `s` may contain newlines (user action code is written by a single
call, and may contain string / raw string / byte string literals and block comments that span several
source lines).  What the theorems above assume about such a buffer is only `Closed s`: lexing
`s ++ "\n"` from between tokens ends between tokens — literals and block comments may span lines
INSIDE the buffer, they just may not be left open at its end.  That this is enough rests on the fact
proved next: `write_fmt` writes the indentation once, in front of the whole buffer, and then the
buffer verbatim, so no newline inside the buffer is ever followed by inserted blanks. -/

/-- **`multi_line_buffer_verbatim`**: for a non-empty buffer, `write_fmt` outputs exactly
    `indentation ++ s ++ "\n"` — one indentation (a run of blanks, empty when `emit_whitespace` is off) in
    front, then the buffer unchanged, whatever newlines it contains. -/
theorem multi_line_buffer_verbatim (f : Flags) (indent : Nat) (s out : List Char) (indent' : Nat)
    (hs : s ≠ []) (h : writeFmt f indent s = some (out, indent')) :
    ∃ k, out = List.replicate k ' ' ++ s ++ ['\n'] ∧ (f.whitespace = false → k = 0) := by
  cases s with
  | nil => exact absurd rfl hs
  | cons c cs =>
    simp only [writeFmt] at h
    split at h
    · simp at h
    · rename_i indent1 _
      simp at h
      obtain ⟨rfl, _⟩ := h
      by_cases hw : f.whitespace = true
      · exact ⟨indent1, by simp [indentation, hw], by simp [hw]⟩
      · exact ⟨0, by simp [indentation, hw], fun _ => rfl⟩

/-- consequently the two white-space settings differ on a buffer only by that leading run of blanks:
    the text from the first character of the buffer on is identical, in particular inside every
    literal that spans lines -/
theorem multi_line_buffer_flag_independent (c : Bool) (indent : Nat) (s o₁ o₂ : List Char) (i₁ i₂ : Nat)
    (hs : s ≠ []) (h₁ : writeFmt ⟨c, true⟩ indent s = some (o₁, i₁)) (h₂ : writeFmt ⟨c, false⟩ indent s = some (o₂, i₂)) :
    ∃ k, o₁ = List.replicate k ' ' ++ o₂ := by
  obtain ⟨k, hk, _⟩ := multi_line_buffer_verbatim _ indent s o₁ i₁ hs h₁
  obtain ⟨k', hk', hz⟩ := multi_line_buffer_verbatim _ indent s o₂ i₂ hs h₂
  have : k' = 0 := hz rfl
  subst this
  exact ⟨k, by rw [hk, hk']; simp⟩

/-- a buffer whose string literal spans three lines is `Closed`, and both white-space settings lex to
    the same single string token with the original line breaks -/
example :
    Closed ['"', 'a', '\n', ' ', ' ', 'b', '\n', 'c', '"', ';'] ∧
    (render ⟨false, true⟩ 4 [.line ['"', 'a', '\n', ' ', ' ', 'b', '\n', 'c', '"', ';']]).map lexRust =
      some [.str ['a', '\n', ' ', ' ', 'b', '\n', 'c'], .punct ';'] ∧
    (render ⟨false, false⟩ 4 [.line ['"', 'a', '\n', ' ', ' ', 'b', '\n', 'c', '"', ';']]).map lexRust =
      some [.str ['a', '\n', ' ', ' ', 'b', '\n', 'c'], .punct ';'] := by
  refine ⟨?_, ?_, ?_⟩
  · show runMode .normal _ = .normal; decide
  · decide
  · decide

/-- the hypotheses are satisfiable and the statement has content: a function with a guarded comment
    and a table row, rendered with comments on / white space off and with the defaults -/
example :
    let evs : List Ev :=
      [.line ['f', 'n', ' ', 'f', '(', ')', ' ', '{'], .cline ['/', '/', ' ', 'S', 't', 'a', 't', 'e', ' ', '0'],
       .row [(3, [' ', '/', '/', ' ', 'o', 'n', ' ', '"', 'a', '"']), (-1, [' ', '/', '/', ' ', 'e'])],
       .line ['}']]
    render ⟨true, false⟩ 0 evs ≠ none ∧ render Flags.default 0 evs ≠ none ∧
    render ⟨true, false⟩ 0 evs ≠ render Flags.default 0 evs ∧
    (render ⟨true, false⟩ 0 evs).map lexRust = (render Flags.default 0 evs).map lexRust := by
  decide

/-! ### the side condition, from the source -/

/-- **every emission under an `emit_comments` test is a comment**: its format string (for `{}` of a
    `Comment`, the format strings of its `Display`) has no escapes and parses to blanks, `//`, and a
    body that does not start with `/` or `!`, with no literal newline.  Closed by `decide` over the
    table regenerated from `lr1/codegen/*.rs` on every run. -/
theorem guarded_sites_are_comments : ∀ s ∈ Gen.guardedSites, isCommentFormat s.fmt = true := by decide

/-- the comments written next to table-row entries (`impl Display for Comment`) are comments -/
theorem comment_display_formats_are_comments : ∀ f ∈ Gen.commentDisplayFormats, isCommentFormat f = true := by
  decide

/-- the constants the model of `rust/mod.rs` uses are the ones in the source: `TAB`, the closers that
    dedent, the openers that indent, the indentation format, the two row formats -/
theorem rw_source_facts_match_model :
    Gen.tab = TAB ∧ (∀ c, isCloser c = Gen.closers.contains c) ∧ (∀ c, isOpener c = Gen.openers.contains c) ∧
    Gen.indentFmt = ['{', '0', ':', '1', '$', '}'] ∧
    Gen.rowThenFormats = [['{', 'i', '}', ',', ' ', '{', 'c', 'o', 'm', 'm', 'e', 'n', 't', '}']] ∧
    Gen.rowElseFormats = [[' '], ['{', 'i', '}', ',']] := by
  refine ⟨rfl, ?_, ?_, rfl, rfl, rfl⟩
  · intro c; simp only [isCloser, Gen.closers, List.contains, List.elem]
    cases (c == '}') <;> cases (c == ']') <;> cases (c == ')') <;> rfl
  · intro c; simp only [isOpener, Gen.openers, List.contains, List.elem]
    cases (c == '{') <;> cases (c == '[') <;> cases (c == '(') <;> rfl

end LalrpopModel.Rw
