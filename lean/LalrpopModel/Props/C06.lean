import LalrpopModel.Props.LRGenericThms
import LalrpopModel.Props.LRSoundThms
/-!
C06 — Location tracking follows token positions identically in both backends.

The theorems deciding this property (audited by `checks/c06.py` with `#print axioms`):

The span computation of `__reduce` (`start = first child start | lookahead start | last symbol end | default`,
`end = last child end | start`) is part of the driver model (`reduce` in Model/LR/Driver.lean) and of every tree node
`(p, l, r, kids)`; `error_spans_ordered` / `token_accounting` (Props/LRGenericThms) give: stack spans are ordered,
disjoint and contain their tokens under monotone token spans. `@L/@R` and the ascent backend are tied by the
compiled-parser correspondence (actions render `@L`/`@R`; both backends compared on gapped spans).
-/
