import LalrpopModel.Props.C21
/-!
C22 — a crash during generation never leaves output that a later build accepts.

A crash (process killed at any point, or a write failing at any byte) leaves the state
`applyActs st cut` for some `CrashPrefix (plan v p cfg st i).2 cut`: any prefix of the file-system
actions of `process_file_into`, the last write possibly cut at any byte.

* `header_then_crash`: for the original write sequence (`tmpRename = false`: version line and hash
  line written into the `.rs` file before the body) the property is FALSE, for every generator and
  hash function: the crash state after the two header lines and any proper prefix of the body is
  accepted by the next non-forced build, which leaves the truncated file in place.
* `fixed_crash_then_history_then_build_current`: after a crash, any further history (editing the
  grammar to one with a shorter or longer output included) and then a build gives the forced output
  of the then-current text; needs the temporary file to be truncated when opened (`Variant.Sound`).
  `stale_tmp_tail_kept` is the counterexample for opening it without truncation.
* `crash_then_build_current`: for the repaired sequence (`tmpRename = true`: temporary sibling +
  atomic `rename`) the property holds for every crash prefix; `fixed_crash_then_build_current` is
  the statement without UTF-8 side conditions for the fully repaired code.
-/

namespace LalrpopModel.Build

variable {p : Params} {v : Variant} {Good : Bytes → Bytes → Prop}

theorem CrashPrefix.of_nil {cut : List FsAct} (h : CrashPrefix [] cut) : cut = [] := by
  cases h; rfl

theorem CrashPrefix.append_left (xs : List FsAct) {ys cut : List FsAct} (h : CrashPrefix ys cut) :
    CrashPrefix (xs ++ ys) (xs ++ cut) := by
  induction xs with
  | nil => exact h
  | cons x xs ih => exact .cons x ih

/-- no action of the list touches any `.rs` path -/
def NoRs (acts : List FsAct) : Prop := ∀ a ∈ acts, ∀ j, ¬ touches a (.rs j)

theorem noRs_report (cfg : Cfg) (i : Nat) (reps : List Bytes) : NoRs (reportActs cfg i reps) :=
  fun a ha j => reportActs_touches cfg i reps (.rs j) (by simp) a ha

theorem noRs_writeTmp (i : Nat) (p : Params) (g body : Bytes) : NoRs (writeOut (.tmp i) p g body) :=
  fun a ha j => writeOut_touches (.tmp i) p g body (.rs j) (by simp) a ha

theorem noRs_writeTmpKeep (i : Nat) (p : Params) (g body : Bytes) : NoRs (writeOutKeep (.tmp i) p g body) :=
  fun a ha j => writeOutKeep_touches (.tmp i) p g body (.rs j) (by simp) a ha

theorem NoRs.append {xs ys : List FsAct} (hx : NoRs xs) (hy : NoRs ys) : NoRs (xs ++ ys) := by
  intro a ha j
  rcases List.mem_append.mp ha with h | h
  · exact hx a h j
  · exact hy a h j

theorem NoRs.cut {acts cut : List FsAct} (h : NoRs acts) (hc : CrashPrefix acts cut) : NoRs cut := by
  intro a ha j
  exact CrashPrefix.forall_mem (P := fun a => ¬ touches a (.rs j)) (cutStable_not_touches _) hc
    (fun b hb => h b hb j) a ha

/-- crash prefixes of `remove (rs i) :: mid` where `mid` does not touch `.rs` files -/
theorem crash_remove_mid {i : Nat} {mid cut : List FsAct} (hmid : NoRs mid)
    (h : CrashPrefix (FsAct.remove (.rs i) :: mid) cut) :
    cut = [] ∨ ∃ cut', cut = FsAct.remove (.rs i) :: cut' ∧ NoRs cut' := by
  rcases CrashPrefix.cons_inv h with rfl | ⟨cut', rfl, h'⟩ | ⟨_, _, _, e, _⟩
  · exact Or.inl rfl
  · exact Or.inr ⟨cut', rfl, hmid.cut h'⟩
  · cases e

/-- **Shape of the crash prefixes of the fixed sequence**: nothing, or everything, or the removal
    of the old output followed by actions on the report and the temporary file only. -/
theorem crash_shape_fixed (ht : v.tmpRename = true) (cfg : Cfg) (st : St) (i : Nat)
    {cut : List FsAct} (h : CrashPrefix (plan v p cfg st i).2 cut) :
    cut = (plan v p cfg st i).2 ∨ cut = [] ∨
      ∃ cut', cut = FsAct.remove (.rs i) :: cut' ∧ NoRs cut' := by
  have hload : ∀ {cut : List FsAct}, CrashPrefix (loadFailActs v i) cut →
      cut = [] ∨ ∃ cut', cut = FsAct.remove (.rs i) :: cut' ∧ NoRs cut' := by
    intro cut hc
    unfold loadFailActs at hc
    cases hr : v.removeFirst
    · simp only [hr] at hc; exact Or.inl hc.of_nil
    · simp only [hr, ↓reduceIte] at hc
      exact crash_remove_mid (mid := []) (fun a ha => by cases ha) hc
  unfold plan at h ⊢
  cases hg : st.gr i with
  | none =>
    simp only [hg] at h ⊢
    generalize (if cfg.force = true then (Except.ok true : Except IoErr Bool)
      else needsRebuildMissing v ((st.fs (.rs i)).map (·.data))) = need at h ⊢
    match need with
    | .error e => exact Or.inr (Or.inl h.of_nil)
    | .ok false => exact Or.inr (Or.inl h.of_nil)
    | .ok true => exact Or.inr (hload h)
  | some g =>
    simp only [hg] at h ⊢
    generalize (if cfg.force = true then (Except.ok true : Except IoErr Bool)
      else needsRebuild v p g ((st.fs (.rs i)).map (·.data))) = need at h ⊢
    match need with
    | .error e => exact Or.inr (Or.inl h.of_nil)
    | .ok false => exact Or.inr (Or.inl h.of_nil)
    | .ok true =>
      simp only at h ⊢
      by_cases hu : validUtf8 g = true
      · simp only [hu, Bool.not_true, Bool.false_eq_true, ↓reduceIte] at h ⊢
        cases hr : (p.gen g).result with
        | error e =>
          simp only [hr] at h ⊢
          exact Or.inr (crash_remove_mid (noRs_report cfg i _) h)
        | ok body =>
          simp only [hr, ht, ↓reduceIte] at h ⊢
          generalize hw : (if v.truncTmp = true then writeOut (.tmp i) p g body
            else writeOutKeep (.tmp i) p g body) = w at h ⊢
          have hwn : NoRs w := by
            subst hw
            split
            · exact noRs_writeTmp i p g body
            · exact noRs_writeTmpKeep i p g body
          have e : (FsAct.remove (.rs i) :: reportActs cfg i (p.gen g).reports) ++
              (w ++ [FsAct.rename (.tmp i) (.rs i)]) =
              (FsAct.remove (.rs i) :: (reportActs cfg i (p.gen g).reports ++ w)) ++
                [FsAct.rename (.tmp i) (.rs i)] := by simp
          rw [e] at h ⊢
          rcases CrashPrefix.snoc_rename h with h' | rfl
          · exact Or.inr (crash_remove_mid ((noRs_report cfg i _).append hwn) h')
          · exact Or.inl rfl
      · have hu' : validUtf8 g = false := by simpa using hu
        simp only [hu', Bool.not_false, ↓reduceIte] at h ⊢
        exact Or.inr (hload h)

/-- what a crash of the fixed sequence can leave in the `.rs` files: for every grammar `j` the old
    output; or, for the grammar being built, nothing or the complete new output -/
theorem crash_states_fixed (hs : v.Sound) (ht : v.tmpRename = true) (cfg : Cfg) (st : St) (i : Nat) (g : Bytes)
    (hg : st.gr i = some g) {cut : List FsAct} (h : CrashPrefix (plan v p cfg st i).2 cut) :
    (applyActs st cut).gr = st.gr ∧
    (∀ j, j ≠ i → (applyActs st cut).fs (.rs j) = st.fs (.rs j)) ∧
    ((applyActs st cut).fs (.rs i) = st.fs (.rs i) ∨ (applyActs st cut).fs (.rs i) = none ∨
      ∃ body c, (p.gen g).result = .ok body ∧
        (applyActs st cut).fs (.rs i) = some ⟨canon p g body, c⟩) := by
  refine ⟨applyActs_gr _ _, ?_⟩
  rcases crash_shape_fixed ht cfg st i h with rfl | rfl | ⟨cut', rfl, hno⟩
  · -- the complete run
    have hres := build_res hs p cfg st i g hg
    have e : applyActs st (plan v p cfg st i).2 = (build v p cfg st i).2 := rfl
    rw [e]
    generalize build v p cfg st i = r at hres
    cases hres with
    | headerErr => exact ⟨fun _ _ => rfl, Or.inl rfl⟩
    | upToDate => exact ⟨fun _ _ => rfl, Or.inl rfl⟩
    | grammarNotUtf8 st' _ _ hi hframe _ =>
      refine ⟨hframe, ?_⟩
      cases hrf : v.removeFirst
      · simp [hrf] at hi; exact Or.inl hi
      · simp [hrf] at hi; exact Or.inr (Or.inl hi)
    | genErr e st' _ _ _ hnone hframe _ _ => exact ⟨hframe, Or.inr (Or.inl hnone)⟩
    | built body c st' _ _ hgen hsome _ _ hframe _ =>
      exact ⟨hframe, Or.inr (Or.inr ⟨body, c, hgen, hsome⟩)⟩
  · exact ⟨fun _ _ => rfl, Or.inl rfl⟩
  · constructor
    · intro j hj
      rw [applyActs_cons, applyActs_frame _ _ _ (fun a ha => hno a ha j)]
      exact setFs_other _ _ (by simp [hj])
    · refine Or.inr (Or.inl ?_)
      rw [applyActs_cons, applyActs_frame _ _ _ (fun a ha => hno a ha i)]
      simp [applyAct]

/-- every crash state of the fixed sequence is honest -/
theorem crash_inv_fixed (hp : HeaderOk p) (hinj : HashInj p) (hgs : GoodSpec p Good)
    (hs : v.Sound) (ht : v.tmpRename = true) (cfg : Cfg)
    (st : St) (i : Nat) (hinv : Inv Good v p st) {cut : List FsAct}
    (h : CrashPrefix (plan v p cfg st i).2 cut) : Inv Good v p (applyActs st cut) := by
  cases hg : st.gr i with
  | none =>
    -- nothing, or only the removal of the old output
    rcases crash_shape_fixed ht cfg st i h with rfl | rfl | ⟨cut', rfl, hno⟩
    · exact build_inv hp hinj hgs hs cfg st i hinv
    · exact hinv
    · intro j f hf
      rw [applyActs_cons, applyActs_frame _ _ _ (fun a ha => hno a ha j)] at hf
      by_cases hj : j = i
      · subst hj; simp [applyAct] at hf
      · simp only [applyAct] at hf
        rw [setFs_other _ _ (by simp [hj])] at hf
        exact hinv j f hf
  | some g =>
    obtain ⟨_, hframe, hi⟩ := crash_states_fixed hs ht cfg st i g hg h
    intro j f hf
    by_cases hj : j = i
    · subst hj
      rcases hi with e | e | ⟨body, c, hgen, e⟩
      · rw [e] at hf; exact hinv j f hf
      · rw [e] at hf; cases hf
      · rw [e] at hf; cases hf; exact honest_canon hp hinj hgs hgen
    · rw [hframe j hj] at hf; exact hinv j f hf

theorem headerUtf8_canon (hp : HeaderOk p) (g body : Bytes) : headerUtf8 (canon p g body) = true := by
  simp [headerUtf8, canon_eq, splitLine_append _ _ hp.v_nl, splitLine_append _ _ (hp.h_nl g),
    hp.v_utf8, hp.h_utf8 g]

/-- **Crash consistency of the fixed sequence.**  Take any state in which every output is honest
    (for instance any state reached by a history, `inv_preserved_by_ops`), a UTF-8 grammar `g` for
    `i` and readable header lines.  Interrupt a build of `i` (forced or not, with or without
    report) at ANY crash prefix — any step boundary, any byte of any write.  Then the next
    non-forced build leaves exactly the bytes a forced build of `g` writes (`version ⏎ hash ⏎ body`,
    or no file when generation fails).  `rename` being atomic is the assumption built into
    `CrashPrefix`. -/
theorem crash_then_build_current (hp : HeaderOk p) (hinj : HashInj p) (hs : v.Sound) (ht : v.tmpRename = true)
    (cfg : Cfg) (st : St) (i : Nat)
    (g : Bytes) (hinv : Inv (Exact p) v p st) (hg : st.gr i = some g) (hu : validUtf8 g = true)
    (hh : ∀ f, st.fs (.rs i) = some f → headerUtf8 f.data = true)
    {cut : List FsAct} (h : CrashPrefix (plan v p cfg st i).2 cut) :
    ((build v p { force := false } (applyActs st cut) i).2.fs (.rs i)).map (·.data) =
      match (p.gen g).result with
      | .ok body => some (canon p g body)
      | .error _ => none := by
  obtain ⟨hgr, _, hi⟩ := crash_states_fixed hs ht cfg st i g hg h
  have hg1 : (applyActs st cut).gr i = some g := by rw [hgr]; exact hg
  have hinv1 := crash_inv_fixed hp hinj (exact_spec p) hs ht cfg st i hinv h
  have hh1 : ∀ f, (applyActs st cut).fs (.rs i) = some f → headerUtf8 f.data = true := by
    intro f hf
    rcases hi with e | e | ⟨body, c, _, e⟩
    · rw [e] at hf; exact hh f hf
    · rw [e] at hf; cases hf
    · rw [e] at hf; cases hf; exact headerUtf8_canon hp g body
  exact (build_eq_forced hs _ i g hinv1 hg1 hu hh1).trans
    (forced_build_output hs { force := true } _ i g hg1 rfl hu)

/-- other grammars' outputs are not affected by the crash -/
theorem crash_frame (hs : v.Sound) (ht : v.tmpRename = true) (cfg : Cfg) (st : St) (i j : Nat) (g : Bytes)
    (hg : st.gr i = some g) (hj : j ≠ i)
    {cut : List FsAct} (h : CrashPrefix (plan v p cfg st i).2 cut) :
    (applyActs st cut).fs (.rs j) = st.fs (.rs j) :=
  (crash_states_fixed hs ht cfg st i g hg h).2.1 j hj

/-- **Crash consistency of the repaired code, no side conditions** (`Variant.fixed`-like: temp +
    rename, old output removed first, unreadable headers rebuilt): from any honest state, for any
    grammar text and any existing output bytes, after any crash prefix of a build the next
    non-forced build leaves exactly what a forced build leaves. -/
theorem fixed_crash_then_build_current (hp : HeaderOk p) (hinj : HashInj p) (hgu : GenUtf8 p)
    (hs : v.Sound) (ht : v.tmpRename = true) (hr : v.removeFirst = true) (hut : v.utf8Tolerant = true)
    (cfg : Cfg) (st : St) (i : Nat) (g : Bytes) (hinv : Inv (Exact p) v p st)
    (hg : st.gr i = some g) {cut : List FsAct} (h : CrashPrefix (plan v p cfg st i).2 cut) :
    ((build v p { force := false } (applyActs st cut) i).2.fs (.rs i)).map (·.data) =
      ((build v p { force := true } (applyActs st cut) i).2.fs (.rs i)).map (·.data) := by
  have hg1 : (applyActs st cut).gr i = some g := by rw [applyActs_gr]; exact hg
  exact fixed_build_eq_forced hs hgu hr hut _ i g
    (crash_inv_fixed hp hinj (exact_spec p) hs ht cfg st i hinv h) hg1

/-- **Crash, then anything, then build** (repaired code).  After ANY crash prefix of a build, ANY
    further history — in particular editing the grammar to a different text with a shorter or a
    longer output, changing options, deleting or altering outputs (honest hand edits), more builds
    — followed by a non-forced build of an existing grammar file leaves exactly the bytes of a
    forced build of the text the grammar has AT THAT TIME.  Whatever the interrupted build left in
    the temporary file does not matter: the temporary file is truncated when it is opened
    (`v.Sound`; without truncation this is false, `stale_tmp_tail_kept`). -/
theorem fixed_crash_then_history_then_build_current (hp : HeaderOk p) (hinj : HashInj p)
    (hgu : GenUtf8 p) (hs : v.Sound) (ht : v.tmpRename = true) (hr : v.removeFirst = true)
    (hut : v.utf8Tolerant = true) (cfg : Cfg) (st : St) (i : Nat) (hinv : Inv (Exact p) v p st)
    {cut : List FsAct} (h : CrashPrefix (plan v p cfg st i).2 cut)
    (ops : List Op) (hok : HistOk (Exact p) v p (applyActs st cut) ops)
    (j : Nat) (g' : Bytes) (hg' : (run v p (applyActs st cut) ops).gr j = some g') :
    ((build v p { force := false } (run v p (applyActs st cut) ops) j).2.fs (.rs j)).map (·.data) =
      ((build v p { force := true } (run v p (applyActs st cut) ops) j).2.fs (.rs j)).map (·.data) :=
  fixed_build_eq_forced hs hgu hr hut _ j g'
    (inv_preserved_by_ops hp hinj (exact_spec p) hs ops _
      (crash_inv_fixed hp hinj (exact_spec p) hs ht cfg st i hinv h) hok) hg'

/-! ### Opening the temporary file without truncation: counterexample -/

/-- **`stale_tmp_tail_kept`**: if the temporary file is opened WITHOUT truncation
    (`truncTmp = false`: `OpenOptions::new().write(true).create(true)`), a temporary file left
    behind by an interrupted build (any contents `old` longer than the new output) is only
    overwritten at its beginning: the complete, uninterrupted build of grammar `g` renames into
    place the file `version ⏎ hash g ⏎ body ++ tail-of-old`, which differs from the forced output
    of a clean directory, and every later non-forced build accepts it. -/
theorem stale_tmp_tail_kept (hp : HeaderOk p) (ht : v.tmpRename = true) (hk : v.truncTmp = false)
    (cfg : Cfg) (st : St) (i : Nat) (g body old : Bytes) (c : Nat)
    (hg : st.gr i = some g) (hu : validUtf8 g = true) (hgen : (p.gen g).result = .ok body)
    (hneed : cfg.force = true ∨ needsRebuild v p g ((st.fs (.rs i)).map (·.data)) = .ok true)
    (htmp : st.fs (.tmp i) = some ⟨old, c⟩) (hlen : (canon p g body).length < old.length) :
    (build v p cfg st i).1 = .built ∧
    (∃ c', (build v p cfg st i).2.fs (.rs i) =
      some ⟨canon p g body ++ old.drop (canon p g body).length, c'⟩) ∧
    canon p g body ++ old.drop (canon p g body).length ≠ canon p g body ∧
    build v p { force := false } (build v p cfg st i).2 i = (.upToDate, (build v p cfg st i).2) := by
  have hplan : plan v p cfg st i = (.built,
      (FsAct.remove (.rs i) :: reportActs cfg i (p.gen g).reports) ++
        (writeOutKeep (.tmp i) p g body ++ [.rename (.tmp i) (.rs i)])) := by
    rcases hneed with h | h
    · simp [plan, hg, h, hu, hgen, ht, hk]
    · cases hc : cfg.force <;> simp [plan, hg, hc, h, hu, hgen, ht, hk]
  -- the temporary file survives the removal of the old output and the report writes
  have htmp1 : (applyActs st (FsAct.remove (.rs i) :: reportActs cfg i (p.gen g).reports)).fs (.tmp i) =
      some ⟨old, c⟩ := by
    rw [applyActs_frame _ _ (.tmp i), htmp]
    intro a ha
    rcases List.mem_cons.mp ha with rfl | ha
    · intro e; simp [touches] at e
    · exact reportActs_touches cfg i _ _ (by simp) a ha
  have hrs : ∃ c', (build v p cfg st i).2.fs (.rs i) =
      some ⟨canon p g body ++ old.drop (canon p g body).length, c'⟩ := by
    refine ⟨(applyActs st (FsAct.remove (.rs i) :: reportActs cfg i (p.gen g).reports)).clock, ?_⟩
    simp only [build, hplan]
    rw [applyActs_append, applyActs_append, applyActs_singleton,
      applyAct_rename_fs_dst _ _ _ (by simp), (applyActs_writeOutKeep_dst _ _ _ _ _).1, htmp1]
    rfl
  refine ⟨by simp [build, hplan], hrs, ?_, ?_⟩
  · intro e
    have := congrArg List.length e
    simp at this
    omega
  · obtain ⟨c', hc'⟩ := hrs
    have hgr : (build v p cfg st i).2.gr i = some g := by
      simp only [build]; rw [applyActs_gr]; exact hg
    have hcan : canon p g body ++ old.drop (canon p g body).length =
        canon p g (body ++ old.drop (canon p g body).length) := by simp [canon, List.append_assoc]
    rw [hcan] at hc'
    exact untouched_when_current hp v _ i g _ _ hgr hc'

/-! ### The unchanged code: counterexample -/

/-- the crash prefix "old output removed, reports written, file created, version line, hash line,
    first `k` bytes of the body" of the old sequence -/
def headerCrashCut (p : Params) (cfg : Cfg) (i : Nat) (g body : Bytes) (k : Nat) : List FsAct :=
  (FsAct.remove (.rs i) :: reportActs cfg i (p.gen g).reports) ++ writeOut (.rs i) p g (body.take k)

/-- **`header_then_crash`: the old sequence violates C22**, for every generator, hash function and
    version string (`HeaderOk`), every state in which grammar `i` (UTF-8 text `g`, generated body
    `body`) has to be rebuilt, and every `k < body.length`:
    * `headerCrashCut … k` is a crash prefix of the build (the body write cut at byte `k`);
    * the next non-forced build answers "up to date" and changes nothing;
    * the file it leaves is `version ⏎ hash g ⏎ body[..k]`, not what a forced build writes. -/
theorem header_then_crash (hp : HeaderOk p) (ht : v.tmpRename = false) (cfg : Cfg) (st : St) (i : Nat)
    (g body : Bytes) (k : Nat)
    (hg : st.gr i = some g) (hu : validUtf8 g = true) (hgen : (p.gen g).result = .ok body)
    (hneed : cfg.force = true ∨ needsRebuild v p g ((st.fs (.rs i)).map (·.data)) = .ok true)
    (hk : k < body.length) :
    CrashPrefix (plan v p cfg st i).2 (headerCrashCut p cfg i g body k) ∧
    (let st1 := applyActs st (headerCrashCut p cfg i g body k)
     build v p { force := false } st1 i = (.upToDate, st1) ∧
     (st1.fs (.rs i)).map (·.data) = some (canon p g (body.take k)) ∧
     (st1.fs (.rs i)).map (·.data) ≠
       ((build v p { force := true } st1 i).2.fs (.rs i)).map (·.data)) := by
  have hplan : (plan v p cfg st i).2 =
      (FsAct.remove (.rs i) :: reportActs cfg i (p.gen g).reports) ++ writeOut (.rs i) p g body := by
    rcases hneed with h | h
    · simp [plan, hg, h, hu, hgen, ht]
    · cases hc : cfg.force <;> simp [plan, hg, hc, h, hu, hgen, ht]
  have hfs : (applyActs st (headerCrashCut p cfg i g body k)).fs (.rs i) =
      some ⟨canon p g (body.take k),
        (applyActs st (FsAct.remove (.rs i) :: reportActs cfg i (p.gen g).reports)).clock⟩ := by
    rw [headerCrashCut, applyActs_append, applyActs_writeOut_dst]
  have hg1 : (applyActs st (headerCrashCut p cfg i g body k)).gr i = some g := by
    rw [applyActs_gr]; exact hg
  refine ⟨?_, ?_, ?_, ?_⟩
  · rw [hplan]
    refine CrashPrefix.append_left _ ?_
    exact .cons _ (.cons _ (.cons _ (.partialWrite _ _ _ _)))
  · exact untouched_when_current hp v _ i g _ _ hg1 hfs
  · rw [hfs]; rfl
  · rw [forced_build_output (Variant.sound_of_not_tmp ht) { force := true } _ i g hg1 rfl hu, hgen, hfs]
    simp only [Option.map_some, ne_eq, Option.some.injEq]
    intro e
    have := congrArg List.length e
    simp [canon, List.length_take] at this
    omega

/-- the hypotheses of `header_then_crash` are satisfiable (toy parameters, empty state) -/
example : ∃ st : St, st.gr 0 = some [0x41] ∧ validUtf8 [0x41] = true ∧
    (toy.gen [0x41]).result = .ok [0x41] ∧
    needsRebuild Variant.old toy [0x41] ((st.fs (.rs 0)).map (·.data)) = .ok true :=
  ⟨St.init (fun _ => some [0x41]), rfl, by decide, rfl, rfl⟩

end LalrpopModel.Build
