import LalrpopModel.Lemmas.PrecTiers
/-!
# C12 — precedence and associativity annotations yield the documented operator grammar

Theorems about the model `Model/Prec.lean` of `normalize/precedence/mod.rs`
(`expand_nonterm`, `replace_symbols`), for ALL nonterminals / symbol lists:

* `inherit_spec` — effective level and associativity of every alternative;
* `replace_every`, `replace_first`, `replace_last` — what `replace_symbols` does for the plans
  `Every` / `OneThen` in both directions, in terms of the occurrence numbering `substAtL`;
* `expand_eq_tiered_spec` — the expansion is the tiered grammar of the book (`tiered`);
* `expand_items_spec` — everything else in the grammar is untouched, order preserved.

The model is tied to the Rust code by the correspondence run of `checks/c12.py`.
-/
namespace LalrpopModel.Prec
open LalrpopModel.PT

/-! ## inheritance of level and associativity -/

theorem inherit_index (l0 : Nat) (a0 : Assoc) (alts : List Alt) :
    ∀ (i : Nat) (alt : Alt) (a : Ann),
      alts[i]? = some alt → (inherit l0 a0 alts)[i]? = some a →
        a.alt = stripAttrs alt ∧
        (i = 0 → a.lvl = effLevel l0 alt ∧ a.assoc = effAssoc a0 alt) ∧
        (∀ j p, i = j + 1 → (inherit l0 a0 alts)[j]? = some p →
            a.lvl = effLevel p.lvl alt ∧ a.assoc = effAssoc p.assoc alt) := by
  induction alts generalizing l0 a0 with
  | nil => intro i alt a h; simp at h
  | cons x xs ih =>
    intro i alt a h1 h2
    cases i with
    | zero =>
      simp only [List.getElem?_cons_zero, Option.some.injEq] at h1
      simp only [inherit, List.getElem?_cons_zero, Option.some.injEq] at h2
      subst h1; subst h2
      refine ⟨rfl, fun _ => ⟨rfl, rfl⟩, ?_⟩
      intro j p hj; omega
    | succ i =>
      simp only [List.getElem?_cons_succ] at h1
      simp only [inherit, List.getElem?_cons_succ] at h2
      have := ih (effLevel l0 x) (effAssoc a0 x) i alt a h1 h2
      refine ⟨this.1, fun h => by omega, ?_⟩
      intro j p hj hp
      have hj' : i = j := by omega
      subst hj'
      cases i with
      | zero =>
        simp only [inherit, List.getElem?_cons_zero, Option.some.injEq] at hp
        subst hp
        exact this.2.1 rfl
      | succ k =>
        simp only [inherit, List.getElem?_cons_succ] at hp
        exact this.2.2 k p rfl hp

/-- **Effective level/associativity of each alternative.**  If the fold of `expand_nonterm`
succeeds with `anns`, there is one annotated alternative per alternative, in order; alternative
`i` carries the level it declares itself (`ownLevel`), otherwise the level of alternative `i-1`
(the fold's initial `0` for `i = 0`); it carries the associativity it declares itself
(`ownAssoc`), otherwise `all` if it has its own `precedence` attribute, otherwise the
associativity of alternative `i-1` (`all` for `i = 0`); and it loses exactly its first
`precedence` and first `assoc` attribute.  The fold succeeds iff every attribute present is
readable (`Readable`). -/
theorem inherit_spec (alts : List Alt) (anns : List Ann) (h : annotate 0 .fullyAssoc alts = .ok anns) :
    anns.length = alts.length ∧
    (∀ alt ∈ alts, Readable alt) ∧
    ∀ (i : Nat) (alt : Alt) (a : Ann), alts[i]? = some alt → anns[i]? = some a →
      a.alt = stripAttrs alt ∧
      (i = 0 → a.lvl = (ownLevel alt).getD 0 ∧
               a.assoc = (ownAssoc alt).getD .fullyAssoc) ∧
      (∀ j p, i = j + 1 → anns[j]? = some p →
          a.lvl = (ownLevel alt).getD p.lvl ∧
          a.assoc = (ownAssoc alt).getD (if (precAttr alt).isSome then .fullyAssoc else p.assoc)) := by
  obtain ⟨hr, rfl⟩ := (annotate_ok_iff 0 .fullyAssoc alts anns).mp h
  refine ⟨inherit_length _ _ _, hr, ?_⟩
  intro i alt a h1 h2
  have := inherit_index 0 .fullyAssoc alts i alt a h1 h2
  refine ⟨this.1, ?_, this.2.2⟩
  intro hi
  have := this.2.1 hi
  simpa [effLevel, effAssoc] using this

/-- the fold succeeds exactly when every present `precedence`/`assoc` attribute has a first
argument of the form `key = "value"` whose value parses (as `u32`, as an associativity) -/
theorem annotate_total_iff (alts : List Alt) :
    (∃ anns, annotate 0 .fullyAssoc alts = .ok anns) ↔ ∀ alt ∈ alts, Readable alt := by
  constructor
  · rintro ⟨anns, h⟩; exact ((annotate_ok_iff _ _ _ _).mp h).1
  · intro h; exact ⟨_, annotate_readable _ _ _ h⟩

/-! ## `replace_symbols` -/

/-- **Every.** With the plan `Every(a)`, in either direction, every recursive occurrence
(pre-order through groups, repeats, bindings, macro arguments) becomes `a`; nothing else changes;
the plan is returned unchanged. -/
theorem replace_every (dir : Dir) (t : Str) (a : Sym) (syms : List Sym) (h : noAmbigL syms = true) :
    replaceSymbols dir t (.every a) syms = .ok (substAtL t (fun _ => a) 0 syms, .every a) := by
  cases dir with
  | forward =>
    simp only [replaceSymbols]
    rw [replaceFwd_fwd t _ 0 syms h]
    have : (Subst.every a).advance (occL t syms) = .every a := by
      cases occL t syms <;> rfl
    rw [this]
    rfl
  | backward =>
    simp only [replaceSymbols]
    rw [replaceBwd_bwd t _ 0 syms h]
    have : (Subst.every a).advance (occL t syms) = .every a := by
      cases occL t syms <;> rfl
    rw [this]
    rfl

theorem advance_oneThen (a b : Sym) (n : Nat) :
    (Subst.oneThen a b).advance n = if n = 0 then .oneThen a b else .every b := by
  cases n <;> simp [Subst.advance]

/-- **OneThen, forward (`left`).** The first recursive occurrence becomes `a`, all later ones `b`. -/
theorem replace_first (t : Str) (a b : Sym) (syms : List Sym) (h : noAmbigL syms = true) :
    replaceSymbols .forward t (.oneThen a b) syms =
      .ok (substAtL t (fun k => if k = 0 then a else b) 0 syms,
           if occL t syms = 0 then .oneThen a b else .every b) := by
  simp only [replaceSymbols]
  rw [replaceFwd_fwd t _ 0 syms h, advance_oneThen]
  congr 2
  apply substAtL_congr
  intro i _ _
  cases i <;> simp [Subst.pick]

/-- **OneThen, backward (`right`).** The last recursive occurrence becomes `a`, all earlier ones `b`. -/
theorem replace_last (t : Str) (a b : Sym) (syms : List Sym) (h : noAmbigL syms = true) :
    replaceSymbols .backward t (.oneThen a b) syms =
      .ok (substAtL t (fun k => if k + 1 = occL t syms then a else b) 0 syms,
           if occL t syms = 0 then .oneThen a b else .every b) := by
  simp only [replaceSymbols]
  rw [replaceBwd_bwd t _ 0 syms h, advance_oneThen]
  congr 2
  apply substAtL_congr
  intro i _ h2
  generalize hm : 0 + occL t syms - 1 - i = m
  by_cases hi : i + 1 = occL t syms
  · have : m = 0 := by omega
    subst this
    simp [hi, Subst.pick]
  · cases m with
    | zero => omega
    | succ j => simp [hi, Subst.pick]

/-! `substAtL` really is "occurrence `k` ↦ `f k`, nothing else": putting the target back is the
identity, and the number of positions it fills is `occL`. -/
mutual
theorem substAt_self (t : Str) (k : Nat) (s : Sym) : substAt t (fun _ => .nonterminal t) k s = s := by
  cases s with
  | nonterminal n =>
    simp only [substAt]
    split
    · rename_i h; rw [h]
    · rfl
  | «macro» name args => simp only [substAt]; rw [substAtL_self t k args]
  | expr syms => simp only [substAt]; rw [substAtL_self t k syms]
  | «repeat» op s => simp only [substAt]; rw [substAt_self t k s]
  | choose s => simp only [substAt]; rw [substAt_self t k s]
  | name n s => simp only [substAt]; rw [substAt_self t k s]
  | tuple tp s => simp only [substAt]; rw [substAt_self t k s]
  | ambiguous _ => rfl
  | terminal _ => rfl
  | error => rfl
  | lookahead => rfl
  | lookbehind => rfl
theorem substAtL_self (t : Str) (k : Nat) (l : List Sym) : substAtL t (fun _ => .nonterminal t) k l = l := by
  cases l with
  | nil => rfl
  | cons x xs => simp only [substAtL]; rw [substAt_self t k x, substAtL_self t _ xs]
end

/-! ## the expansion is the documented tiered grammar -/

/-- **Expansion = tiers of the book.**  For a nonterminal whose annotations are readable
(`annotate` succeeds with `anns`), that has at least one alternative, contains no unresolved
identifier, and uses only `all` on its lowest level, `expand_nonterm` returns `tiered nt anns`:
the distinct levels in ascending order, one nonterminal per level `l`, named `N` for the highest
level and `N{l}` otherwise, with the same visibility/attributes/parameters/type as `N`; it holds
the alternatives of effective level `l` in source order with recursive occurrences replaced per
associativity (`assocPlan`: `left` first→current rest→previous, `right` last→current
rest→previous, `none` all→previous, `all` all→current) followed — except on the lowest level —
by the alternative `N{previous level}`. -/
theorem expand_eq_tiered_spec (nt : Nonterm) (anns : List Ann)
    (hann : annotate 0 .fullyAssoc nt.alts = .ok anns) (hne : nt.alts ≠ [])
    (hamb : ∀ alt ∈ nt.alts, noAmbigL alt.expr = true)
    (hfirst : ∀ a ∈ anns, (∀ b ∈ anns, a.lvl ≤ b.lvl) → a.assoc = .fullyAssoc) :
    expandNonterm nt = .ok (tiered nt anns) := by
  obtain ⟨hr, rfl⟩ := (annotate_ok_iff 0 .fullyAssoc nt.alts anns).mp hann
  apply expandNonterm_eq_tiered nt _ hann
  · intro h
    have := inherit_length 0 .fullyAssoc nt.alts
    rw [h] at this
    cases hnt : nt.alts with
    | nil => exact hne hnt
    | cons a as => rw [hnt] at this; simp at this
  · -- stripping attributes does not touch the symbols
    have key : ∀ (l0 : Nat) (a0 : Assoc) (alts : List Alt),
        (∀ alt ∈ alts, noAmbigL alt.expr = true) → ∀ a ∈ inherit l0 a0 alts, noAmbigL a.alt.expr = true := by
      intro l0 a0 alts
      induction alts generalizing l0 a0 with
      | nil => intro _ a ha; simp [inherit] at ha
      | cons x xs ih =>
        intro hx a ha
        simp only [inherit, List.mem_cons] at ha
        cases ha with
        | inl e => rw [e]; exact hx x (by simp)
        | inr m => exact ih _ _ (fun y hy => hx y (by simp [hy])) a m
    exact key _ _ _ hamb
  · exact hfirst

/-- the tier of the highest level keeps the name of the nonterminal: references from elsewhere
denote the loosest level -/
theorem tierName_top (name : Str) (lvlMax : Nat) : tierName name lvlMax lvlMax = name := by
  simp [tierName]

/-- the levels of the tiers are the distinct effective levels, strictly ascending -/
theorem tier_levels (anns : List Ann) :
    (sortDedup (anns.map (·.lvl))).Pairwise (· < ·) ∧
    ∀ l, l ∈ sortDedup (anns.map (·.lvl)) ↔ ∃ a ∈ anns, a.lvl = l := by
  refine ⟨sortDedup_sorted _, ?_⟩
  intro l
  rw [mem_sortDedup]
  simp [List.mem_map]

/-! ## the rest of the grammar -/

/-- items the pass rewrites -/
def annotated : Item → Bool
  | .nonterm nt => hasPrecAttr nt
  | _ => false

/-- **Only annotated nonterminals are rewritten**, in place: if every annotated nonterminal
expands (`f` gives its tiers), the result is the item list with each annotated nonterminal
replaced by its tiers and every other item (including nonterminals without annotations on their
first alternative) unchanged, order preserved. -/
theorem expand_items_spec (items : List Item) (f : Nonterm → List Nonterm)
    (h : ∀ nt, Item.nonterm nt ∈ items → hasPrecAttr nt = true → expandNonterm nt = .ok (f nt)) :
    expandItems items = .ok (items.flatMap fun it =>
      match it with
      | .nonterm nt => if hasPrecAttr nt then (f nt).map .nonterm else [it]
      | _ => [it]) := by
  induction items with
  | nil => rfl
  | cons it items ih =>
    have ih' := ih (fun nt hnt hp => h nt (by simp [hnt]) hp)
    cases it with
    | nonterm nt =>
      simp only [expandItems, List.flatMap_cons]
      by_cases hp : hasPrecAttr nt = true
      · simp only [hp, if_true]
        rw [h nt (by simp) hp, ih']
      · simp only [hp]
        rw [ih']
        simp
    | externTok a e => simp only [expandItems, List.flatMap_cons]; rw [ih']; simp
    | other raw => simp only [expandItems, List.flatMap_cons]; rw [ih']; simp

/-! ## the hypotheses are satisfiable (documented example: levels 1 < 2, `left` on 2) -/

def exAtom : Alt :=
  { expr := [.terminal (.atom "a")], cond := none, action := none,
    attrs := [.paren PREC_ATTR [.equal LVL_ARG ['1']]] }
def exPlus : Alt :=
  { expr := [.nonterminal ['E'], .terminal (.atom "+"), .nonterminal ['E']], cond := none, action := none,
    attrs := [.paren PREC_ATTR [.equal LVL_ARG ['2']], .paren ASSOC_ATTR [.equal SIDE_ARG ['l','e','f','t']]] }
def exNt : Nonterm :=
  { name := ['E'], vis := .atom "priv", attrs := [], args := [], typeDecl := .atom "notype", alts := [exAtom, exPlus] }
def exAnns : List Ann :=
  [{ lvl := 1, assoc := .fullyAssoc, alt := { exAtom with attrs := [] } },
   { lvl := 2, assoc := .left, alt := { exPlus with attrs := [] } }]

example : annotate 0 .fullyAssoc exNt.alts = .ok exAnns := by rfl
example : exNt.alts ≠ [] := by decide
example : ∀ alt ∈ exNt.alts, noAmbigL alt.expr = true := by decide
example : ∀ a ∈ exAnns, (∀ b ∈ exAnns, a.lvl ≤ b.lvl) → a.assoc = .fullyAssoc := by decide

end LalrpopModel.Prec
