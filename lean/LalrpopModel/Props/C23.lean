import LalrpopModel.Lemmas.Path
import LalrpopModel.Lemmas.PathOrder
/-!
C23 — each grammar file maps to exactly one output at the documented path.

Theorems about `Model/Path.lean` (`genResolve`, `withExtension`, `lalrpopFiles`, `processFiles`,
`apiProcessDir`, `apiProcessFile`), for all paths, names, trees and configurations.
-/

namespace LalrpopModel.PathM

open LalrpopModel.Build (validUtf8)

variable {v : Variant}

/-! ### `with_extension` (dotted and hidden names) -/

/-- a name without any dot: the extension is appended -/
theorem with_extension_plain (n ext : Name) (h : DOT ∉ n) (hext : ext ≠ []) :
    withExtensionName n ext = some (n ++ DOT :: ext) := by
  have hn : n ≠ [DOT, DOT] := by intro e; apply h; simp [e]
  simp [withExtensionName, extension, fileStem, rsplitDot_noDot n h, hn, hext]

/-- a hidden name (`.name`, no other dot) has no extension: the new one is appended -/
theorem with_extension_hidden (m ext : Name) (h : DOT ∉ m) (hext : ext ≠ []) :
    withExtensionName (DOT :: m) ext = some (DOT :: m ++ DOT :: ext) := by
  have hn : DOT :: m ≠ [DOT, DOT] := by intro e; apply h; simp at e; simp [e]
  simp [withExtensionName, extension, fileStem, rsplitDot_hidden m h, hn, hext]

/-- **`with_extension_spec`**: a dotted name `stem.e` (`e` the part after the LAST dot, `stem` not
    empty and not just `.`) becomes `stem.ext`; `stem` may itself contain dots (`a.b.lalrpop` ↦
    `a.b.rs`) or start with one (`.hid.lalrpop` ↦ `.hid.rs`). -/
theorem with_extension_spec (s e ext : Name) (he : DOT ∉ e) (hs : s ≠ []) (hs' : s ≠ [DOT])
    (hext : ext ≠ []) :
    withExtensionName (s ++ DOT :: e) ext = some (s ++ DOT :: ext) ∧
    extension (s ++ DOT :: e) = some e := by
  have hdd : s ++ DOT :: e ≠ [DOT, DOT] := by
    intro h
    cases s with
    | nil => exact hs rfl
    | cons a s =>
      cases s with
      | nil => simp at h; exact hs' (by simp [h.1])
      | cons b s => simp at h
  have hdd' : s ++ [DOT] ≠ [DOT, DOT] := by
    intro h
    cases s with
    | nil => exact hs rfl
    | cons a s =>
      cases s with
      | nil => simp at h; exact hs' (by simp [h])
      | cons b s => simp at h
  have hext' : extension (s ++ DOT :: e) = some e := by
    simp [extension, rsplitDot_append s e he hs hdd]
  refine ⟨?_, hext'⟩
  have hbase : (s ++ DOT :: e).take ((s ++ DOT :: e).length - e.length) = s ++ [DOT] := by
    have : (s ++ DOT :: e).length - e.length = (s ++ [DOT]).length := by simp; omega
    rw [this]
    have e2 : s ++ DOT :: e = (s ++ [DOT]) ++ e := by simp
    rw [e2, List.take_left']
    rfl
  have hstem : fileStem (s ++ [DOT]) = s := by
    have := rsplitDot_append s [] (by simp) hs (by simpa using hdd')
    simp [fileStem, this]
  simp only [withExtensionName, hext', hbase, if_neg hdd', hstem, if_neg hext]

/-- the quirk of `std`: a name of the form `..<ext>` (stem `.`) loses its file name: the component
    becomes `..` (so the "output path" is a directory and the build fails with an io error) -/
theorem with_extension_dotdot (e ext : Name) (he : DOT ∉ e) :
    withExtensionName (DOT :: DOT :: e) ext = none := by
  cases e with
  | nil => simp [withExtensionName, extension, rsplitDot]
  | cons x e =>
    have h1 : extension (DOT :: DOT :: x :: e) = some (x :: e) := by
      have := rsplitDot_append [DOT] (x :: e) he (by simp) (by simp)
      simp at this
      simp [extension, this]
    simp [withExtensionName, h1]

/-! ### `gen_resolve_file`: the documented output path -/

/-- **No out dir ⇒ beside the input**: `dir/name` ↦ `dir/stem.ext`. -/
theorem out_path_spec_beside (inDir : Option PathC) (d : PathC) (n n' ext : Name)
    (hu : validUtf8 n = true) (hw : containsWs n = false)
    (hx : withExtensionName n ext = some n') :
    genResolve v none inDir (d ++ [.normal n]) ext = .ok (d ++ [.normal n']) := by
  simp [genResolve, outDirFor, parent_snoc_normal, fileName_snoc_normal, hu, hw, join,
    withExtension_snoc d n n' ext hx]

/-- one leading `src` component is dropped -/
def dropSrc : PathC → PathC
  | .normal n :: r => if n = SRC then r else .normal n :: r
  | p => p

/-- **Out dir + in dir (`process_dir`)**: a file `in/rel/name` found under the input directory
    goes to `out/(rel minus ONE leading "src")/stem.ext`. -/
theorem out_path_spec (o root rel : PathC) (n n' ext : Name) (hrel : AllNormal rel)
    (hu : validUtf8 n = true) (hw : containsWs n = false)
    (hx : withExtensionName n ext = some n') :
    genResolve v (some o) (some root) (root ++ rel ++ [.normal n]) ext =
      .ok (o ++ dropSrc rel ++ [.normal n']) := by
  have hstrip : (stripPrefix rel [.normal SRC]).getD rel = dropSrc rel := by
    cases rel with
    | nil => simp [stripPrefix, dropSrc]
    | cons c r =>
      obtain ⟨m, rfl⟩ := hrel c List.mem_cons_self
      by_cases hm : m = SRC
      · subst hm; cases r <;> simp [stripPrefix, dropSrc]
      · simp [stripPrefix, dropSrc, hm]
  have hdn : AllNormal (dropSrc rel) := by
    cases rel with
    | nil => simpa [dropSrc] using hrel
    | cons c r =>
      obtain ⟨m, rfl⟩ := hrel c List.mem_cons_self
      simp only [dropSrc]
      split
      · intro x hx'; exact hrel x (List.mem_cons_of_mem _ hx')
      · exact hrel
  have hdir : outDirFor v (some o) (some root) (root ++ rel ++ [.normal n]) = .ok (o ++ dropSrc rel) := by
    simp only [outDirFor, parent_snoc_normal, stripPrefix_append, hstrip]
    split
    · rename_i h; simp [h]
    · rw [join_of_allNormal _ _ hdn]
  simp only [genResolve, hdir, fileName_snoc_normal, hu, hw]
  have := withExtension_snoc (o ++ dropSrc rel) n n' ext hx
  simpa [join] using this

/-- **Single `process_file` with an out dir ⇒ directly in the out dir**, whatever directory the
    input is in. -/
theorem out_path_spec_single_file (o d : PathC) (n n' ext : Name)
    (hu : validUtf8 n = true) (hw : containsWs n = false)
    (hx : withExtensionName n ext = some n') :
    genResolve v (some o) none (d ++ [.normal n]) ext = .ok (o ++ [.normal n']) := by
  simp [genResolve, outDirFor, parent_snoc_normal, fileName_snoc_normal, hu, hw, join,
    withExtension_snoc o n n' ext hx]

/-- **Names with white space are rejected** (wherever the directory computation succeeds). -/
theorem whitespace_rejected (outDir inDir : Option PathC) (file dir : PathC) (n ext : Name)
    (hdir : outDirFor v outDir inDir file = .ok dir) (hn : fileName file = some n)
    (hu : validUtf8 n = true) (hw : containsWs n = true) :
    genResolve v outDir inDir file ext = .error .whitespace := by
  simp [genResolve, hdir, hn, hu, hw]

/-- …and so `process_file` does nothing for them: no rerun directive, nothing generated -/
theorem whitespace_rejected_no_events (s : Session) (good : PathC → Bool) (file dir : PathC) (n : Name)
    (hdir : outDirFor v s.outDir s.inDir file = .ok dir) (hn : fileName file = some n)
    (hu : validUtf8 n = true) (hw : containsWs n = true) :
    processFile v s good file = ([], .resolveErr .whitespace) := by
  simp [processFile, whitespace_rejected (v := v) s.outDir s.inDir file dir n RS hdir hn hu hw]

/-! ### the walk -/

/-- **`walk_selects_lalrpop_ext`**: the files handed to the generator are exactly the regular files
    (or links to regular files) reachable through directories (or links to directories) whose name
    has the extension `lalrpop`; sorting the directory entries does not lose or add any. -/
theorem walk_selects_lalrpop_ext (root : PathC) (t : Node) (fs : List PathC)
    (h : lalrpopFiles root t = some fs) (p : PathC) :
    p ∈ fs ↔ Item.file p ∈ walk root t ∧ hasLalrpopExt p = true := by
  unfold lalrpopFiles at h
  simp only at h
  split at h
  · cases h
  · cases h
    simp only [List.mem_filterMap]
    constructor
    · rintro ⟨it, hit, hp⟩
      cases it with
      | file q =>
        simp only [selectLalrpop] at hp
        split at hp
        · cases hp; rename_i hq
          exact ⟨(mem_walk_sortTree root t _).mp hit, hq⟩
        · cases hp
      | fatal q => simp [selectLalrpop] at hp
    · rintro ⟨hit, hq⟩
      exact ⟨.file p, (mem_walk_sortTree root t _).mpr hit, by simp [selectLalrpop, hq]⟩

theorem selected_eq_filter (items : List Item) :
    items.filterMap selectLalrpop = (filesOf items).filter hasLalrpopExt := by
  induction items with
  | nil => rfl
  | cons it items ih =>
    cases it with
    | file p =>
      by_cases hp : hasLalrpopExt p = true
      · simp [filesOf, List.filterMap_cons, selectLalrpop, hp] at ih ⊢; exact ih
      · simp [filesOf, List.filterMap_cons, selectLalrpop, hp] at ih ⊢; exact ih
    | fatal p => simp [filesOf, List.filterMap_cons, selectLalrpop] at ih ⊢; exact ih

/-- **`walk_order_sorted`**: the files are handed to the generator in the component-wise
    lexicographic order of their paths relative to the walked directory (names compared byte-wise,
    a directory's files before those of the next sibling, independent of the order in which the
    operating system lists a directory), provided no directory has two entries of the same name. -/
theorem walk_order_sorted (root : PathC) (t : Node) (fs : List PathC) (hnd : NoDupTree t)
    (h : lalrpopFiles root t = some fs) :
    ∃ rels : List (List Name), fs = rels.map (absPath root) ∧ rels.Pairwise relLt := by
  unfold lalrpopFiles at h
  simp only at h
  split at h
  · cases h
  · cases h
    refine ⟨(relWalk (sortTree t)).filter (fun r => hasLalrpopExt (absPath root r)), ?_, ?_⟩
    · rw [selected_eq_filter, filesOf_walk, List.filter_map]
      rfl
    · exact (relWalk_sortTree_pairwise t hnd).filter _

/-- a walk error that is not a dangling link makes the whole collection fail (nothing is
    processed); dangling links and other non-files are skipped -/
theorem walk_fatal_iff (root : PathC) (t : Node) :
    lalrpopFiles root t = none ↔ ∃ q, Item.fatal q ∈ walk root t := by
  unfold lalrpopFiles
  simp only
  constructor
  · intro h
    split at h
    · rename_i hany
      obtain ⟨it, hit, hf⟩ := List.any_eq_true.mp hany
      cases it with
      | file q => simp [Item.isFatal] at hf
      | fatal q => exact ⟨q, (mem_walk_sortTree root t _).mp hit⟩
    · cases h
  · rintro ⟨q, hq⟩
    have : (walk root (sortTree t)).any Item.isFatal = true :=
      List.any_eq_true.mpr ⟨.fatal q, (mem_walk_sortTree root t _).mpr hq, rfl⟩
    simp [this]

/-- every walked file lies under the walked directory: `root ++ rel` with `rel` made of normal
    components, non-empty when the root is a directory -/
theorem walked_files_under_root (root : PathC) (t : Node) (fs : List PathC)
    (h : lalrpopFiles root t = some fs) (p : PathC) (hp : p ∈ fs) :
    ∃ rel, p = root ++ rel ∧ AllNormal rel ∧ (∀ es, t = .dir es → rel ≠ []) := by
  have := ((walk_selects_lalrpop_ext root t fs h p).mp hp).1
  obtain ⟨rel, h1, h2, h3⟩ := walk_under root t _ this
  exact ⟨rel, h1, h2, h3⟩

/-- **The `strip_prefix(in_dir).unwrap()` of `gen_resolve_file` cannot panic in `process_dir` on a
    directory**: for every file the walk of a directory yields, the directory part of the output
    path is computed without error. -/
theorem out_path_total (o root : PathC) (es : List (Name × Node)) (fs : List PathC)
    (h : lalrpopFiles root (.dir es) = some fs) (p : PathC) (hp : p ∈ fs) :
    ∃ dir, outDirFor v (some o) (some root) p = .ok dir := by
  obtain ⟨rel, rfl, hn, hne⟩ := walked_files_under_root root _ fs h p hp
  have hne := hne es rfl
  -- rel = rel' ++ [normal n]
  obtain ⟨rel', c, rfl⟩ : ∃ rel' c, rel = rel' ++ [c] :=
    ⟨rel.dropLast, rel.getLast hne, (List.dropLast_concat_getLast hne).symm⟩
  obtain ⟨n, rfl⟩ := hn c (by simp)
  have e : root ++ (rel' ++ [Comp.normal n]) = (root ++ rel') ++ [.normal n] := by simp
  rw [e]
  simp only [outDirFor, parent_snoc_normal, stripPrefix_append]
  split <;> exact ⟨_, rfl⟩

theorem root_file_parent (root : PathC) (hx : hasLalrpopExt root = true) :
    parent root = some root.dropLast ∧ stripPrefix root.dropLast root = none ∧
    ∃ n, root = root.dropLast ++ [.normal n] := by
  have hfn : ∃ n, fileName root = some n := by
    unfold hasLalrpopExt at hx
    cases hf : fileName root with
    | none => simp [hf] at hx
    | some n => exact ⟨n, rfl⟩
  obtain ⟨n, hn⟩ := hfn
  have hlast : root.getLast? = some (.normal n) := by
    unfold fileName at hn
    split at hn
    · rename_i m hm; cases hn; exact hm
    · cases hn
  have hne : root ≠ [] := by intro e; simp [e] at hlast
  refine ⟨by simp [parent, hlast], ?_, n, ?_⟩
  · cases hs : stripPrefix root.dropLast root with
    | none => rfl
    | some r =>
      have := stripPrefix_length hs
      have hl : root.dropLast.length = root.length - 1 := by simp
      have : 0 < root.length := List.length_pos_iff.mpr hne
      omega
  · have h1 := List.dropLast_concat_getLast hne
    have h2 : root.getLast hne = .normal n := by
      have := List.getLast?_eq_some_getLast hne
      rw [this] at hlast
      exact Option.some.inj hlast
    rw [h2] at h1
    exact h1.symm

/-- …but (code without the fallback) `process_dir` on a path that is itself a regular `.lalrpop`
    FILE does reach the `unwrap` on `None` (a panic instead of an `io::Error`): the walk yields the
    root, whose parent is not under it. -/
theorem process_dir_on_file_panics (hv : v.stripFallback = false) (o root : PathC)
    (hx : hasLalrpopExt root = true) :
    lalrpopFiles root .file = some [root] ∧
    outDirFor v (some o) (some root) root = .error .panicNotUnderInDir := by
  constructor
  · simp [lalrpopFiles, sortTree, walk, Item.isFatal, selectLalrpop, hx]
  · obtain ⟨hpar, hs, _⟩ := root_file_parent root hx
    simp [outDirFor, hpar, hs, hv]

/-- with the fallback (`strip_prefix(in_dir).unwrap_or("")`) the file given to `process_dir` is
    written directly into the out dir -/
theorem process_dir_on_file_fixed (hv : v.stripFallback = true) (o root : PathC) (n n' ext : Name)
    (hx : hasLalrpopExt root = true) (hn : fileName root = some n)
    (hu : validUtf8 n = true) (hw : containsWs n = false)
    (hxn : withExtensionName n ext = some n') :
    genResolve v (some o) (some root) root ext = .ok (o ++ [.normal n']) := by
  obtain ⟨hpar, hs, m, hm⟩ := root_file_parent root hx
  have hdir : outDirFor v (some o) (some root) root = .ok o := by
    simp [outDirFor, hpar, hs, hv, stripPrefix]
  have hnm : n = m := by
    rw [hm, fileName_snoc_normal] at hn
    exact (Option.some.inj hn).symm
  subst hnm
  simp only [genResolve, hdir, hn, hu, hw]
  have := withExtension_snoc o n n' ext hxn
  simpa [join] using this

/-- with the fallback the directory part never fails -/
theorem out_dir_total_fixed (hv : v.stripFallback = true) (outDir inDir : Option PathC) (file : PathC) :
    ∃ dir, outDirFor v outDir inDir file = .ok dir := by
  unfold outDirFor
  cases outDir with
  | none => exact ⟨_, rfl⟩
  | some d =>
    cases parent file with
    | none => exact ⟨_, rfl⟩
    | some p =>
      cases inDir with
      | none => exact ⟨_, rfl⟩
      | some ind =>
        simp only
        cases stripPrefix p ind with
        | none => simp only [hv, ↓reduceIte]; split <;> exact ⟨_, rfl⟩
        | some rel => simp only; split <;> exact ⟨_, rfl⟩

/-! ### rerun directives -/

def rerunsOf (ev : List Event) : List PathC :=
  ev.filterMap fun e => match e with
    | .rerun p => some p
    | _ => none

def generatedOf (ev : List Event) : List PathC :=
  ev.filterMap fun e => match e with
    | .generate src _ => some src
    | _ => none

theorem processFile_events (s : Session) (good : PathC → Bool) (f : PathC) :
    (rerunsOf (processFile v s good f).1 = [] ∨ (s.emitRerun = true ∧ rerunsOf (processFile v s good f).1 = [f])) ∧
    (generatedOf (processFile v s good f).1 = [] ∨
      ((processFile v s good f).2 = .ok ∧ generatedOf (processFile v s good f).1 = [f])) ∧
    ((processFile v s good f).2 = .ok → generatedOf (processFile v s good f).1 = [f] ∧
      (s.emitRerun = true → rerunsOf (processFile v s good f).1 = [f])) ∧
    (s.emitRerun = false → rerunsOf (processFile v s good f).1 = []) := by
  unfold processFile
  cases genResolve v s.outDir s.inDir f RS with
  | error e => simp [rerunsOf, generatedOf]
  | ok rs =>
    cases genResolve v s.outDir s.inDir f REPORT with
    | error e => simp [rerunsOf, generatedOf]
    | ok rp =>
      cases hr : s.emitRerun <;> cases hfn : (fileName rs).isNone <;> cases hg : good f <;>
        cases hu : s.unreadable.contains f <;>
        simp [rerunsOf, generatedOf, hr, hfn, hg, hu]

/-- **`rerun_lists_processed`**: when every file is processed successfully, the rerun directives
    (if enabled) name exactly the processed files, in processing order, and these are exactly the
    files for which output was generated. -/
theorem rerun_lists_processed (s : Session) (good : PathC → Bool) (fs : List PathC)
    (hok : (processFiles v s good fs).2 = .ok) :
    generatedOf (processFiles v s good fs).1 = fs ∧
    (s.emitRerun = true → rerunsOf (processFiles v s good fs).1 = fs) ∧
    (s.emitRerun = false → rerunsOf (processFiles v s good fs).1 = []) := by
  induction fs with
  | nil => simp [processFiles, generatedOf, rerunsOf]
  | cons f fs ih =>
    unfold processFiles at hok ⊢
    have hev := processFile_events (v := v) s good f
    cases hpf : processFile v s good f with
    | mk ev o =>
      rw [hpf] at hev
      cases o with
      | ok =>
        simp only [hpf] at hok ⊢
        obtain ⟨ih1, ih2, ih3⟩ := ih hok
        obtain ⟨_, _, h3, h4⟩ := hev
        obtain ⟨hg, hr⟩ := h3 rfl
        simp only [generatedOf, rerunsOf, List.filterMap_append] at *
        refine ⟨by rw [hg, ih1]; rfl, ?_, ?_⟩
        · intro he; rw [hr he, ih2 he]; rfl
        · intro he; rw [h4 he, ih3 he]; rfl
      | resolveErr e => simp [hpf] at hok
      | buildErr p => simp [hpf] at hok
      | inDirConflict => simp [hpf] at hok
      | missingOutDir => simp [hpf] at hok
      | walkErr => simp [hpf] at hok

/-- in general (also when a file fails) the directives name a prefix of the file list and the
    generated files are a prefix of those: processing stops at the first error -/
theorem rerun_prefix (s : Session) (good : PathC → Bool) (fs : List PathC) :
    (s.emitRerun = false → rerunsOf (processFiles v s good fs).1 = []) ∧
    (s.emitRerun = true → rerunsOf (processFiles v s good fs).1 <+: fs) ∧
    generatedOf (processFiles v s good fs).1 <+: fs := by
  induction fs with
  | nil => simp [processFiles, generatedOf, rerunsOf]
  | cons f fs ih =>
    unfold processFiles
    have hev := processFile_events (v := v) s good f
    cases hpf : processFile v s good f with
    | mk ev o =>
      rw [hpf] at hev
      obtain ⟨h1, h2, h3, h4⟩ := hev
      have pre1 : rerunsOf ev <+: [f] := by
        rcases h1 with h | ⟨_, h⟩ <;> simp [h]
      have pre2 : generatedOf ev <+: [f] := by
        rcases h2 with h | ⟨_, h⟩ <;> simp [h]
      have lift : ∀ l : List PathC, l <+: [f] → l <+: f :: fs := by
        intro l hl
        obtain ⟨t, ht⟩ := hl
        exact ⟨t ++ fs, by rw [← List.append_assoc, ht]; rfl⟩
      have stop : (s.emitRerun = false → rerunsOf ev = []) ∧ (s.emitRerun = true → rerunsOf ev <+: f :: fs) ∧
          generatedOf ev <+: f :: fs := ⟨h4, fun _ => lift _ pre1, lift _ pre2⟩
      cases o with
      | ok =>
        simp only
        obtain ⟨hg, hr⟩ := h3 rfl
        obtain ⟨ih1, ih2, ih3⟩ := ih
        have app_r : rerunsOf (ev ++ (processFiles v s good fs).1) =
            rerunsOf ev ++ rerunsOf (processFiles v s good fs).1 := by simp [rerunsOf, List.filterMap_append]
        have app_g : generatedOf (ev ++ (processFiles v s good fs).1) =
            generatedOf ev ++ generatedOf (processFiles v s good fs).1 := by
          simp [generatedOf, List.filterMap_append]
        refine ⟨?_, ?_, ?_⟩
        · intro he; rw [app_r, h4 he, ih1 he]; rfl
        · intro he; rw [app_r, hr he]; exact (List.prefix_cons_inj f).mpr (ih2 he)
        · rw [app_g, hg]; exact (List.prefix_cons_inj f).mpr ih3
      | resolveErr e => exact stop
      | buildErr p => exact stop
      | inDirConflict => exact stop
      | missingOutDir => exact stop
      | walkErr => exact stop

/-! ### `verify_no_in_dir_conflict` -/

theorem processFile_no_conflict (s : Session) (good : PathC → Bool) (f : PathC) :
    (processFile v s good f).2 ≠ .inDirConflict := by
  unfold processFile
  cases genResolve v s.outDir s.inDir f RS with
  | error e => simp
  | ok rs =>
    cases genResolve v s.outDir s.inDir f REPORT with
    | error e => simp
    | ok rp =>
      simp only
      split
      · simp
      · split
        · simp
        · split <;> simp

theorem processFiles_no_conflict (s : Session) (good : PathC → Bool) (fs : List PathC) :
    (processFiles v s good fs).2 ≠ .inDirConflict := by
  induction fs with
  | nil => simp [processFiles]
  | cons f fs ih =>
    unfold processFiles
    have := processFile_no_conflict (v := v) s good f
    cases hpf : processFile v s good f with
    | mk ev o =>
      rw [hpf] at this
      cases o <;> simp_all

/-- **`in_dir_conflict_spec`** for `process_dir(path)`: the call is refused — before anything is
    walked or written — exactly when an input directory was configured and is a different path
    (component-wise comparison, so `./src` and `src` differ). -/
theorem in_dir_conflict_spec (s : Session) (envOut : Option PathC) (good : PathC → Bool) (path : PathC)
    (t : Node) :
    (apiProcessDir v s envOut good path t).2 = .inDirConflict ↔ ∃ q, s.inDir = some q ∧ q ≠ path := by
  unfold apiProcessDir
  cases hin : s.inDir with
  | none =>
    simp only [inDirConflict, hin, Option.isSome_none, Bool.false_and, Bool.false_eq_true, ↓reduceIte]
    constructor
    · intro h
      exfalso
      split at h
      · cases h
      · split at h
        · cases h
        · exact processFiles_no_conflict _ _ _ h
    · rintro ⟨q, hq, _⟩; cases hq
  | some q =>
    by_cases hq : q = path
    · subst hq
      simp only [inDirConflict, hin, Option.isSome_some, bne_self_eq_false, Bool.and_false,
        Bool.false_eq_true, ↓reduceIte]
      constructor
      · intro h
        exfalso
        split at h
        · cases h
        · split at h
          · cases h
          · exact processFiles_no_conflict _ _ _ h
      · rintro ⟨q', hq', hne⟩; cases hq'; exact absurd rfl hne
    · have : inDirConflict s (some path) = true := by
        simp [inDirConflict, hin, hq]
      simp only [this, ↓reduceIte, true_iff]
      exact ⟨q, rfl, hq⟩

/-- `process_file` is refused exactly when an input directory was configured at all; then nothing
    is printed or generated -/
theorem in_dir_conflict_spec_file (s : Session) (good : PathC → Bool) (file : PathC) :
    ((apiProcessFile v s good file).2 = .inDirConflict ↔ s.inDir.isSome = true) ∧
    (s.inDir.isSome = true → apiProcessFile v s good file = ([], .inDirConflict)) := by
  unfold apiProcessFile
  cases hin : s.inDir with
  | none =>
    simp [inDirConflict, hin]
    exact processFile_no_conflict (v := v) s good file
  | some q => simp [inDirConflict, hin]

/-- in `process_file` the directory part of the output never involves `strip_prefix` (no in_dir) -/
theorem process_file_dir_total (s : Session) (file : PathC) (h : s.inDir = none) :
    ∃ dir, outDirFor v s.outDir s.inDir file = .ok dir := by
  unfold outDirFor
  rw [h]
  cases s.outDir with
  | none => exact ⟨_, rfl⟩
  | some d => cases parent file <;> exact ⟨_, rfl⟩

end LalrpopModel.PathM
