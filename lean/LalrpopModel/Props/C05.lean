import LalrpopModel.Props.LRPrefixThms
import LalrpopModel.Props.LRGenericThms
/-!
C05 — Expected-token lists name only tokens that could actually continue the input.

The theorems deciding this property (audited by `checks/c05.py` with `#print axioms`):

* `expected_nodup_sorted`: every expected list is strictly increasing (no duplicates), its members are `< nRepr`,
  so with recovery on it never names the error terminal.
* `expected_mem_iff`: `a` is listed iff the `accepts` simulation over the whole state stack ends in a shift/accept.
* Props/LRPrefixThms: `expected_sound`.
The recursive-ascent list is the action row of the error state (modelled by `runx`); its over-breadth is a known finding.
-/
