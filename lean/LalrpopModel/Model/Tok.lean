import LalrpopModel.Model.XidTable
/-!
M-TOK — model of `lalrpop/src/tok/mod.rs` (`Tokenizer`), function by function.

* The Rust tokenizer state `(chars, lookahead)` is `St = ⟨pos, rest⟩`: `rest` is the not yet bumped
  text *including* the lookahead character (its head), `pos` the byte offset of that head
  (`text.len()` at end of input).  `bump` drops the head and advances `pos` by its UTF-8 length.
* `&self.text[a..b]` is modelled by the characters between the *states* at offsets `a` and `b`
  (`between`) or by the characters a `take_until` consumed; spans are computed with the same
  byte arithmetic as the Rust.
* Every `loop {}` whose iterations call sub-scanners takes a fuel argument; running out of fuel is
  the explicit outcome `outOfFuel` (never produced with fuel `> rest.length`, see
  `Lemmas/TokFuel.lean`), so every function is total by construction.
* `Cfg` records two source facts of `tok/mod.rs` that are re-extracted from the source on every run
  (`Gen/TokFacts.lean`): how `code` treats the character `r`, and whether `shebang_attribute`
  bumps twice after the closing `]`.
-/
namespace LalrpopModel.Tok

/-! ### character classes -/

/-- membership in a sorted table of inclusive ranges (unicode-xid's `bsearch_range_table`) -/
def inRanges : List (Nat × Nat) → Nat → Bool
  | [], _ => false
  | (lo, hi) :: t, n => if n < lo then false else if n ≤ hi then true else inRanges t n

/-- `is_identifier_start`: `UnicodeXID::is_xid_start(c) || c == '_'` -/
def isIdStart (c : Char) : Bool := inRanges xidStartTable c.toNat || c == '_'
/-- `is_identifier_continue`: `UnicodeXID::is_xid_continue(c) || c == '_'` -/
def isIdContinue (c : Char) : Bool := inRanges xidContinueTable c.toNat || c == '_'

/-- code points with the Unicode property White_Space (`char::is_whitespace`) -/
def wsCodes : List Nat :=
  [9, 10, 11, 12, 13, 32, 0x85, 0xA0, 0x1680, 0x2000, 0x2001, 0x2002, 0x2003, 0x2004, 0x2005, 0x2006,
   0x2007, 0x2008, 0x2009, 0x200A, 0x2028, 0x2029, 0x202F, 0x205F, 0x3000]
def isWhitespace (c : Char) : Bool := wsCodes.contains c.toNat

/-! ### tokens, errors -/

inductive ErrorCode
  | unrecognizedToken | unterminatedEscape | unterminatedAsciiEscape | unrecognizedEscape
  | unterminatedStringLiteral | unterminatedCharacterLiteral | unterminatedAttribute
  | unterminatedCode | expectedStringLiteral | unterminatedBlockComment
  /-- model only: a fuel-bounded loop ran out of fuel (proved impossible for the fuel the entry points pass) -/
  | outOfFuel
  deriving DecidableEq, Repr

structure Error where
  location : Nat
  code : ErrorCode
  deriving DecidableEq, Repr

inductive Tok
  | enum_ | extern_ | grammar_ | match_ | else_ | if_ | mut_ | pub_ | in_ | type_ | where_ | for_ | dyn_
  | use_ (s : List Char)
  | escape (s : List Char) | id (s : List Char) | macroId (s : List Char) | lifetime (s : List Char)
  | stringLiteral (s : List Char) | charLiteral (s : List Char) | regexLiteral (s : List Char)
  | ampersand | bangEquals | bangTilde | colon | colonColon | comma | dotDot | equals | equalsEquals
  | eqGtCode (s : List Char) | eqGtQuestionCode (s : List Char) | eqGtLookahead | eqGtLookbehind
  | hash | greaterThan | leftBrace | leftBracket | leftParen | lessThan | lookahead | lookbehind
  | minusGreaterThan | plus | question | rightBrace | rightBracket | rightParen | semi | star
  | tildeTilde | underscore | bang | shebangAttribute (s : List Char)
  deriving DecidableEq, Repr

abbrev Spanned := Nat × Tok × Nat
abbrev Res (α : Type) := Except Error α

def err {α : Type} (c : ErrorCode) (l : Nat) : Res α := .error ⟨l, c⟩

/-- `KEYWORDS` -/
def keywords : List (List Char × Tok) :=
  [ (['e','n','u','m'], .enum_), (['e','x','t','e','r','n'], .extern_), (['g','r','a','m','m','a','r'], .grammar_),
    (['m','a','t','c','h'], .match_), (['e','l','s','e'], .else_), (['i','f'], .if_), (['m','u','t'], .mut_),
    (['p','u','b'], .pub_), (['i','n'], .in_), (['t','y','p','e'], .type_), (['w','h','e','r','e'], .where_),
    (['f','o','r'], .for_), (['d','y','n'], .dyn_) ]

def keyword? (w : List Char) : Option Tok := (keywords.find? (·.1 == w)).map (·.2)

/-! ### source facts (regenerated into `Gen/TokFacts.lean`) -/

structure Cfg where
  /-- `code`: `true` = only `r#` starts a raw string and `regex_literal` is entered with the index of
      the `#` (tree as pinned); `false` = `r#` and `r"` both do, entered with the index of the `r`. -/
  rawLegacy : Bool
  /-- `shebang_attribute`: `true` = a second `bump()` after the closing `]` (tree as pinned) -/
  shebangDoubleBump : Bool
  deriving DecidableEq, Repr

/-! ### state -/

structure St where
  pos : Nat
  rest : List Char
  deriving DecidableEq, Repr

def utf8Len : List Char → Nat
  | [] => 0
  | c :: cs => c.utf8Size + utf8Len cs

/-- `self.bump()` -/
def St.bump (st : St) : St :=
  match st.rest with
  | [] => st
  | c :: r => ⟨st.pos + c.utf8Size, r⟩

/-- `&self.text[a.pos .. b.pos]` for a state `b` reached from `a` -/
def between (a b : St) : List Char := a.rest.take (a.rest.length - b.rest.length)

/-- `take_until` with a stateless predicate: (found a terminator?, consumed characters, state with the
    terminator as lookahead) -/
def takeUntil (p : Char → Bool) (pos : Nat) : List Char → Bool × List Char × St
  | [] => (false, [], ⟨pos, []⟩)
  | c :: r =>
    if p c then (true, [], ⟨pos, c :: r⟩)
    else
      let t := takeUntil p (pos + c.utf8Size) r
      (t.1, c :: t.2.1, t.2.2)

/-- `take_until` with an `FnMut` closure: the closure state is threaded explicitly -/
def takeUntilS {σ : Type} (f : σ → Char → σ × Bool) (s : σ) (pos : Nat) : List Char → Bool × List Char × St
  | [] => (false, [], ⟨pos, []⟩)
  | c :: r =>
    if (f s c).2 then (true, [], ⟨pos, c :: r⟩)
    else
      let t := takeUntilS f (f s c).1 (pos + c.utf8Size) r
      (t.1, c :: t.2.1, t.2.2)

/-! ### literals and comments -/

/-- the `terminate` closure of `string_or_char_literal` (state = `escape`) -/
def strTerminate (quote : Char) (escape : Bool) (c : Char) : Bool × Bool :=
  if escape then (false, false)
  else if c == '\\' then (true, false)
  else (false, c == quote)

/-- `string_or_char_literal(idx0, quote, variant)`, entered after the opening quote was bumped -/
def stringOrCharLiteral (idx0 : Nat) (quote : Char) (variant : List Char → Tok) (st : St) : Option (Spanned × St) :=
  match takeUntilS (strTerminate quote) false st.pos st.rest with
  | (true, text, st1) => some ((idx0, variant text, st1.pos + 1), st1.bump)
  | (false, _, _) => none

/-- `string_literal(idx0)` -/
def stringLiteral (idx0 : Nat) (st : St) : Res (Spanned × St) :=
  match stringOrCharLiteral idx0 '"' .stringLiteral st with
  | some x => .ok x
  | none => err .unterminatedStringLiteral idx0

inductive CState | initial | slash | star | complete
  deriving DecidableEq, Repr

/-- the `end_of_comment` closure of `block_comment` (state = `(depth, state)`) -/
def commentStep (s : Nat × CState) (c : Char) : (Nat × CState) × Bool :=
  let (depth, state) := s
  let s' : Nat × CState :=
    if (state == .initial || state == .star) && c == '*' then (depth, .star)
    else if (state == .initial || state == .slash) && c == '/' then (depth, .slash)
    else if state == .slash && c == '*' then (depth + 1, .initial)
    else if state == .star && c == '/' then
      (if depth - 1 == 0 then (depth - 1, .complete) else (depth - 1, .initial))
    else (depth, .initial)
  (s', s'.2 == .complete)

/-- `block_comment(idx0)`, entered after `/*` was bumped -/
def blockComment (idx0 : Nat) (st : St) : Res St :=
  match takeUntilS commentStep (1, .initial) st.pos st.rest with
  | (true, _, st1) => .ok st1.bump
  | (false, _, _) => err .unterminatedBlockComment idx0

/-- the `end_of_regex` closure of `regex_literal` -/
def regexStep (hashes : Nat) (state : Nat) (c : Char) : Nat × Bool :=
  let s1 := if state > 0 then (if c == '#' then state + 1 else 0) else state
  let s2 := if s1 == 0 && c == '"' then 1 else s1
  (s2, s2 == hashes + 1)

/-- `word(idx0)`: the identifier characters from the lookahead on; returns them and the end state -/
def word (st : St) : List Char × St :=
  let t := takeUntil (fun c => !isIdContinue c) st.pos st.rest
  (t.2.1, t.2.2)

/-- `identifierish(idx0)`; `pre` = the characters of `text[idx0..]` already bumped by the caller;
    `codeK idx0` = `self.code(idx0, "([{", "}])")` -/
def identifierish (codeK : Nat → St → Res St) (idx0 : Nat) (pre : List Char) (st : St) : Res (Spanned × St) :=
  let (w, st1) := word st
  let wd := pre ++ w
  let end_ := st1.pos
  if wd == ['_'] then .ok ((idx0, .underscore, idx0 + 1), st1)
  else if wd == ['r', '#', '_'] then .ok ((idx0, .underscore, idx0 + 3), st1)
  else if wd == ['u', 's', 'e'] then
    match codeK idx0 st1 with
    | .error e => .error e
    | .ok st2 => .ok ((idx0, .use_ (between st1 st2), st2.pos), st2)
  else
    let tok :=
      match keyword? wd with
      | some t => t
      | none =>
        match st1.rest with
        | '<' :: _ => .macroId wd
        | _ => .id wd
    .ok ((idx0, tok, end_), st1)

/-- `regex_literal(idx0)`, entered after the `r` was bumped; `pre` = `text[idx0 .. lookahead]` -/
def regexLiteral (codeK : Nat → St → Res St) (idx0 : Nat) (pre : List Char) (st : St) : Res (Spanned × St) :=
  match takeUntil (fun c => !(c == '#')) st.pos st.rest with
  | (false, _, _) => err .unterminatedStringLiteral idx0
  | (true, hs, st1) =>
    let idx1 := st1.pos
    match st1.rest with
    | [] => err .expectedStringLiteral idx1
    | c :: r =>
      if c == '"' then
        let hashes := idx1 - idx0 - 1
        match takeUntilS (regexStep hashes) 0 (idx1 + c.utf8Size) r with
        | (true, body, st3) =>
          .ok ((idx0, .regexLiteral (body.take (body.length - hashes)), st3.pos + 1), st3.bump)
        | (false, _, _) => err .unterminatedStringLiteral idx0
      else if isIdStart c then
        identifierish codeK idx0 (pre ++ hs ++ [c]) ⟨idx1 + c.utf8Size, r⟩
      else err .expectedStringLiteral idx1

/-- `take_lifetime_or_character_literal()`, entered after the `'` was bumped; only `is_none()` of the
    result is ever used, so the model returns the state -/
def takeLifetimeOrCharLit (st : St) : Option St :=
  match st.rest with
  | [] => none
  | c :: r =>
    if c == '\\' then
      -- bump; bump; take_until('\''); and then bump().map(..)
      let st2 := (St.bump ⟨st.pos + c.utf8Size, r⟩)
      match takeUntil (· == '\'') st2.pos st2.rest with
      | (true, _, st3) => match st3.bump.rest with
                          | [] => none
                          | _ :: _ => some st3.bump
      | (false, _, _) => none
    else
      match r with
      | [] => none
      | c2 :: r2 =>
        let st1 : St := ⟨st.pos + c.utf8Size, c2 :: r2⟩
        if c2 == '\'' then
          match r2 with
          | [] => none
          | _ :: _ => some st1.bump
        else some st1

def isOpenDelim (c : Char) : Bool := c == '(' || c == '[' || c == '{'
def isCloseDelim (c : Char) : Bool := c == '}' || c == ']' || c == ')'

/-- `code(idx0, "([{", "}])")`: returns the state whose lookahead is the terminator (`idx2 = pos`) -/
def code (cfg : Cfg) (idx0 : Nat) : Nat → Nat → St → Res St
  | 0, _, st => err .outOfFuel st.pos
  | fuel + 1, balance, st =>
    match st.rest with
    | [] => if balance > 0 then err .unterminatedCode idx0 else .ok st
    | c :: r =>
      let idx := st.pos
      let st1 : St := ⟨st.pos + c.utf8Size, r⟩
      if c == '"' then
        match stringLiteral idx st1 with
        | .error e => .error e
        | .ok (_, st2) => code cfg idx0 fuel balance st2
      else if c == '\'' then
        match takeLifetimeOrCharLit st1 with
        | none => err .unterminatedCharacterLiteral idx
        | some st2 => code cfg idx0 fuel balance st2
      else if c == 'r' then
        match r with
        | '#' :: _ =>
          let k := fun i s => code cfg i fuel 0 s
          let res := if cfg.rawLegacy then regexLiteral k st1.pos [] st1 else regexLiteral k idx ['r'] st1
          match res with
          | .error e => .error e
          | .ok (_, st2) => code cfg idx0 fuel balance st2
        | '"' :: _ =>
          if cfg.rawLegacy then code cfg idx0 fuel balance st1
          else
            match regexLiteral (fun i s => code cfg i fuel 0 s) idx ['r'] st1 with
            | .error e => .error e
            | .ok (_, st2) => code cfg idx0 fuel balance st2
        | _ => code cfg idx0 fuel balance st1
      else if c == '/' then
        match r with
        | '/' :: _ => code cfg idx0 fuel balance (takeUntil (· == '\n') st1.pos st1.rest).2.2
        | '*' :: r2 =>
          match blockComment idx ⟨st1.pos + 1, r2⟩ with
          | .error e => .error e
          | .ok st2 => code cfg idx0 fuel balance st2
        | _ => code cfg idx0 fuel balance st1
      else if isOpenDelim c then code cfg idx0 fuel (balance + 1) st1
      else if balance > 0 then
        (if isCloseDelim c then code cfg idx0 fuel (balance - 1) st1 else code cfg idx0 fuel balance st1)
      else if c == ',' || c == ';' || isCloseDelim c then .ok st
      else code cfg idx0 fuel balance st1

/-- `self.code(idx0, …)` with the fuel that always suffices -/
def codeTop (cfg : Cfg) (idx0 : Nat) (st : St) : Res St := code cfg idx0 (st.rest.length + 1) 0 st

/-- `escape(idx0)`, entered after the backquote was bumped -/
def escape (idx0 : Nat) (st : St) : Res (Spanned × St) :=
  match takeUntil (· == '`') st.pos st.rest with
  | (true, text, st1) => .ok ((idx0, .escape text, st1.pos + 1), st1.bump)
  | (false, _, _) => err .unterminatedEscape idx0

/-- `lifetimeish(idx0)`, entered after the `'` was bumped -/
def lifetimeish (idx0 : Nat) (st : St) : Res (Spanned × St) :=
  match st.rest with
  | [] => err .unterminatedCharacterLiteral idx0
  | c :: _ =>
    if isIdStart c then
      let (w, st1) := word st
      match st1.rest with
      | '\'' :: r => .ok ((idx0, .charLiteral w, st1.pos + 1), ⟨st1.pos + 1, r⟩)
      | _ => .ok ((idx0, .lifetime ('\'' :: w), st1.pos), st1)
    else
      match stringOrCharLiteral idx0 '\'' .charLiteral st with
      | some x => .ok x
      | none => err .unterminatedCharacterLiteral idx0

/-- `right_arrow(idx0)`, entered after `=>` was bumped -/
def rightArrow (cfg : Cfg) (idx0 : Nat) (st : St) : Res (Spanned × St) :=
  match st.rest with
  | [] => err .unterminatedCode idx0
  | c :: r =>
    if c == '@' then
      match r with
      | 'L' :: r2 => .ok ((idx0, .eqGtLookahead, st.pos + 1 + 1), ⟨st.pos + 2, r2⟩)
      | 'R' :: r2 => .ok ((idx0, .eqGtLookbehind, st.pos + 1 + 1), ⟨st.pos + 2, r2⟩)
      | _ => err .unrecognizedToken idx0
    else if c == '?' then
      let st1 : St := ⟨st.pos + 1, r⟩
      match codeTop cfg idx0 st1 with
      | .error e => .error e
      | .ok st2 => .ok ((idx0, .eqGtQuestionCode (between st1 st2), st2.pos), st2)
    else
      match codeTop cfg idx0 st with
      | .error e => .error e
      | .ok st2 => .ok ((idx0, .eqGtCode (between st st2), st2.pos), st2)

/-- the `while let` loop of `shebang_attribute`; `st0` = state at `idx0` (the `#`) for the slice -/
def shebangLoop (cfg : Cfg) (idx0 : Nat) (st0 : St) : Nat → Nat → St → Res (Spanned × St)
  | 0, _, st => err .outOfFuel st.pos
  | fuel + 1, counter, st =>
    match st.rest with
    | [] => err .unrecognizedToken idx0
    | c :: r =>
      let idx1 := st.pos
      let st1 : St := ⟨st.pos + c.utf8Size, r⟩
      if c == '[' then shebangLoop cfg idx0 st0 fuel (counter + 1) st1
      else if c == ']' then
        -- counter is an i32 starting at 1; it is decremented only here and the loop leaves at 0
        if counter == 1 then
          let idx2 := idx1 + 1
          .ok ((idx0, .shebangAttribute (between st0 st1), idx2), if cfg.shebangDoubleBump then st1.bump else st1)
        else shebangLoop cfg idx0 st0 fuel (counter - 1) st1
      else if c == '"' then
        match stringLiteral idx1 st1 with
        | .error e => .error e
        | .ok (_, st2) => shebangLoop cfg idx0 st0 fuel counter st2
      else if c == '\n' then err .unrecognizedToken idx0
      else shebangLoop cfg idx0 st0 fuel counter st1

/-- `shebang_attribute(idx0)`, entered after the `#` was bumped; `st0` = state at the `#` -/
def shebangAttribute (cfg : Cfg) (idx0 : Nat) (st0 : St) (st : St) : Res (Spanned × St) :=
  match st.rest with
  | [] => err .unrecognizedToken idx0
  | c :: r =>
    if c == '!' then
      match r with
      | [] => err .unterminatedAttribute idx0
      | c2 :: r2 =>
        if c2 == '[' then
          shebangLoop cfg idx0 st0 (r2.length + 1) 1 ⟨st.pos + c.utf8Size + c2.utf8Size, r2⟩
        else err .unrecognizedToken (st.pos + c.utf8Size)
    else err .unrecognizedToken st.pos

/-! ### `next_unshifted` -/

inductive Out
  | eof
  | tok (l : Nat) (t : Tok) (r : Nat)
  | err (e : Error)
  deriving DecidableEq, Repr

def ofRes (st : St) : Res (Spanned × St) → Out × St
  | .ok ((l, t, r), st') => (.tok l t r, st')
  | .error e => (.err e, st)

/-- `next_unshifted()`; the fuel bounds the `continue`s (whitespace and comments) -/
def nextUnshifted (cfg : Cfg) : Nat → St → Out × St
  | 0, st => (.err ⟨st.pos, .outOfFuel⟩, st)
  | fuel + 1, st =>
    match st.rest with
    | [] => (.eof, st)
    | c :: r =>
      let idx0 := st.pos
      let st1 : St := ⟨st.pos + c.utf8Size, r⟩
      let one (t : Tok) : Out × St := (.tok idx0 t (idx0 + 1), st1)
      let kcode := fun i s => codeTop cfg i s
      if c == '&' then one .ampersand
      else if c == '!' then
        match r with
        | '=' :: r2 => (.tok idx0 .bangEquals (st1.pos + 1), ⟨st1.pos + 1, r2⟩)
        | '~' :: r2 => (.tok idx0 .bangTilde (st1.pos + 1), ⟨st1.pos + 1, r2⟩)
        | _ => one .bang
      else if c == ':' then
        match r with
        | ':' :: r2 => (.tok idx0 .colonColon (st1.pos + 1), ⟨st1.pos + 1, r2⟩)
        | _ => one .colon
      else if c == ',' then one .comma
      else if c == '.' then
        match r with
        | '.' :: r2 => (.tok idx0 .dotDot (st1.pos + 1), ⟨st1.pos + 1, r2⟩)
        | _ => (.err ⟨idx0, .unrecognizedToken⟩, st1)
      else if c == '=' then
        match r with
        | '=' :: r2 => (.tok idx0 .equalsEquals (st1.pos + 1), ⟨st1.pos + 1, r2⟩)
        | '>' :: r2 => ofRes st1 (rightArrow cfg idx0 ⟨st1.pos + 1, r2⟩)
        | _ => one .equals
      else if c == '#' then
        -- first!(self, shebang_attribute(idx0), Ok(Hash)): any error restores the state after the `#`
        match shebangAttribute cfg idx0 st st1 with
        | .ok ((l, t, e), st2) => (.tok l t e, st2)
        | .error _ => one .hash
      else if c == '>' then one .greaterThan
      else if c == '{' then one .leftBrace
      else if c == '[' then one .leftBracket
      else if c == '(' then one .leftParen
      else if c == '<' then one .lessThan
      else if c == '@' then
        match r with
        | 'L' :: r2 => (.tok idx0 .lookahead (st1.pos + 1), ⟨st1.pos + 1, r2⟩)
        | 'R' :: r2 => (.tok idx0 .lookbehind (st1.pos + 1), ⟨st1.pos + 1, r2⟩)
        | _ => (.err ⟨idx0, .unrecognizedToken⟩, st1)
      else if c == '+' then one .plus
      else if c == '?' then one .question
      else if c == '}' then one .rightBrace
      else if c == ']' then one .rightBracket
      else if c == ')' then one .rightParen
      else if c == ';' then one .semi
      else if c == '*' then one .star
      else if c == '~' then
        match r with
        | '~' :: r2 => (.tok idx0 .tildeTilde (st1.pos + 1), ⟨st1.pos + 1, r2⟩)
        | _ => (.err ⟨idx0, .unrecognizedToken⟩, st1)
      else if c == '`' then ofRes st1 (escape idx0 st1)
      else if c == '\'' then ofRes st1 (lifetimeish idx0 st1)
      else if c == '"' then ofRes st1 (stringLiteral idx0 st1)
      else if c == '/' then
        match r with
        | '/' :: _ => nextUnshifted cfg fuel (takeUntil (· == '\n') st1.pos st1.rest).2.2
        | '*' :: r2 =>
          match blockComment idx0 ⟨st1.pos + 1, r2⟩ with
          | .error e => (.err e, st1)
          | .ok st2 => nextUnshifted cfg fuel st2
        | _ => (.err ⟨idx0, .unrecognizedToken⟩, st1)
      else if c == '-' then
        match r with
        | '>' :: r2 => (.tok idx0 .minusGreaterThan (st1.pos + 1), ⟨st1.pos + 1, r2⟩)
        | _ => (.err ⟨idx0, .unrecognizedToken⟩, st1)
      else if isIdStart c then
        if c == 'r' then
          match r with
          | '#' :: _ => ofRes st1 (regexLiteral kcode idx0 ['r'] st1)
          | '"' :: _ => ofRes st1 (regexLiteral kcode idx0 ['r'] st1)
          | _ => ofRes st1 (identifierish kcode idx0 ['r'] st1)
        else ofRes st (identifierish kcode idx0 [] st)
      else if isWhitespace c then nextUnshifted cfg fuel st1
      else (.err ⟨idx0, .unrecognizedToken⟩, st)

/-- `Iterator::next` with the fuel that always suffices -/
def next (cfg : Cfg) (st : St) : Out × St := nextUnshifted cfg (st.rest.length + 1) st

/-! ### whole input -/

/-- one entry of the token stream as the `tokenize` hook prints it (spans shifted by `shift`) -/
inductive Item
  | tok (l : Nat) (t : Tok) (r : Nat)
  | err (location : Nat) (code : ErrorCode)
  deriving DecidableEq, Repr

/-- drive the iterator until `None` or the first error (what the LALRPOP parser consumes) -/
def collect (cfg : Cfg) (shift : Nat) : Nat → St → List Item
  | 0, st => [.err (st.pos + shift) .outOfFuel]
  | fuel + 1, st =>
    match next cfg st with
    | (.eof, _) => []
    | (.err e, _) => [.err (e.location + shift) e.code]
    | (.tok l t r, st') => .tok (l + shift) t (r + shift) :: collect cfg shift fuel st'

/-- `Tokenizer::new(text, shift).collect()` up to the first error -/
def tokenize (cfg : Cfg) (shift : Nat) (text : List Char) : List Item :=
  collect cfg shift (text.length + 1) ⟨0, text⟩

/-- tokens without spans (what the LALRPOP grammar parser's decisions depend on) -/
def Item.strip : Item → Option Tok ⊕ ErrorCode
  | .tok _ t _ => .inl (some t)
  | .err _ c => .inr c

end LalrpopModel.Tok
