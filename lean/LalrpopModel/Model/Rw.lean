import LalrpopModel.Model.RustLex
/-!
M-RW — model of `lalrpop/src/rust/mod.rs` (`RustWrite`): `write_fmt` (what `rust!` calls) with its
indentation bookkeeping, `write_indentation`, `write_table_row` with its three layouts, under the
session flags `emit_comments` / `emit_whitespace`.

The code generator is a sequence of events: `line s` = `rust!(out, …)` producing the text `s`
(without the newline `writeln!` adds), `cline s` = the same inside an `if …emit_comments { … }`,
`row es` = `out.write_table_row(es)`.  `render` returns `none` where the Rust would panic
(`self.indent -= TAB` below zero: arithmetic overflow in debug builds).
-/
namespace LalrpopModel.Rw

structure Flags where
  comments : Bool
  whitespace : Bool
  deriving DecidableEq, Repr

/-- `Session::default`: comments off, white space on -/
def Flags.default : Flags := ⟨false, true⟩

inductive Ev
  | line (s : List Char)
  | cline (s : List Char)
  | row (entries : List (Int × List Char))
  deriving Repr

def TAB : Nat := 4

/-- decimal digits of a natural number, most significant first (fuel = the number itself + 1) -/
def natDigitsAux : Nat → Nat → List Char → List Char
  | 0, _, acc => acc
  | fuel + 1, n, acc =>
    let d := Char.ofNat (48 + n % 10)
    if n / 10 = 0 then d :: acc else natDigitsAux fuel (n / 10) (d :: acc)

def natDigits (n : Nat) : List Char := natDigitsAux (n + 1) n []

/-- `Display` of an `i32` -/
def i32Chars (i : Int) : List Char :=
  match i with
  | .ofNat n => natDigits n
  | .negSucc n => '-' :: natDigits (n + 1)

/-- `write_indentation`: `write!(self.write, "{0:1$}", "", self.indent)` when `emit_whitespace` -/
def indentation (f : Flags) (indent : Nat) : List Char :=
  if f.whitespace then List.replicate indent ' ' else []

def isCloser (c : Char) : Bool := c == '}' || c == ']' || c == ')'
def isOpener (c : Char) : Bool := c == '{' || c == '[' || c == '('

/-- `write_fmt` on the formatted text `s ++ "\n"`: output and new indent, `none` = panic -/
def writeFmt (f : Flags) (indent : Nat) (s : List Char) : Option (List Char × Nat) :=
  match s with
  | [] => some (['\n'], indent)                       -- `[b'\n'] => write_all(b"\n")`
  | c :: _ =>
    let indent1? : Option Nat :=
      if isCloser c then (if indent < TAB then none else some (indent - TAB)) else some indent
    match indent1? with
    | none => none
    | some indent1 =>
      let out := indentation f indent1 ++ s ++ ['\n']
      -- `buf[buf.len().saturating_sub(2)]` = the last byte of `s`
      let indent2 := if isOpener (s.getLast?.getD ' ') then indent1 + TAB else indent1
      some (out, indent2)

/-- the `emit_comments` branch of `write_table_row`: one entry per line, followed by its comment -/
def rowCommented (f : Flags) (indent : Nat) : List (Int × List Char) → List Char
  | [] => []
  | (i, comment) :: es =>
    indentation f indent ++ i32Chars i ++ [',', ' '] ++ comment ++ ['\n'] ++ rowCommented f indent es

/-- the other branch: all entries on one line, separated by a blank when `emit_whitespace` -/
def rowCompact (f : Flags) : Bool → List (Int × List Char) → List Char
  | _, [] => []
  | first, (i, _) :: es =>
    (if !first && f.whitespace then [' '] else []) ++ i32Chars i ++ [','] ++ rowCompact f false es

/-- `write_table_row` -/
def writeTableRow (f : Flags) (indent : Nat) (es : List (Int × List Char)) : List Char :=
  if f.comments then rowCommented f indent es ++ ['\n']
  else indentation f indent ++ rowCompact f true es ++ ['\n']

def renderEv (f : Flags) (indent : Nat) : Ev → Option (List Char × Nat)
  | .line s => writeFmt f indent s
  | .cline s => if f.comments then writeFmt f indent s else some ([], indent)
  | .row es => some (writeTableRow f indent es, indent)

/-- the text the generator writes for a sequence of events -/
def render (f : Flags) : Nat → List Ev → Option (List Char)
  | _, [] => some []
  | indent, ev :: evs =>
    match renderEv f indent ev with
    | none => none
    | some (out, indent') =>
      match render f indent' evs with
      | none => none
      | some more => some (out ++ more)

end LalrpopModel.Rw
