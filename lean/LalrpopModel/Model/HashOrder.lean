/-!
M-HASH: an abstract hash container whose internal (= iteration) order is chosen by an arbitrary
parameter, and programs over it (C20).

* The container is a list of key/value pairs with distinct keys, in the order an iteration would
  visit them.  `OrderParam` decides where a new entry is placed and how the entries are rearranged
  after any mutation (rehash, resize, removal): it stands for the `RandomState` seed, the bucket
  layout and the growth history.  The only thing assumed about `rearrange` is that it permutes.
* A `Prog` is an interaction tree: each step calls one container method and continues with a
  continuation that receives the method's answer, so later calls may depend on earlier answers.
  `iter` hands the whole entry list in internal order to the continuation (it stands for `iter`,
  `keys`, `values`, `into_iter`, `drain`, `retain` with an observable closure, `for … in &map`).
* `Meth` is the vocabulary of method names the source translator (`checks/c20.py`) maps call sites
  to; `Meth.lookupOnly` says which of them are expressible without `Prog.iter`.
-/

namespace LalrpopModel.HashOrder

variable {K V R : Type}

structure OrderParam (K V : Type) where
  /-- position at which a new entry is placed -/
  place : List (K × V) → K × V → Nat
  /-- rearrangement after a mutation -/
  rearrange : List (K × V) → List (K × V)

/-- the order parameter only permutes -/
def OrderParam.Valid (o : OrderParam K V) : Prop := ∀ l, (o.rearrange l).Perm l

def insertAt (l : List (K × V)) (n : Nat) (x : K × V) : List (K × V) := l.take n ++ x :: l.drop n

section
variable [DecidableEq K]

/-- entries with key `k` (at most one when keys are distinct) -/
def entriesOf (m : List (K × V)) (k : K) : List (K × V) := m.filter (fun p => p.1 = k)

def lookup (m : List (K × V)) (k : K) : Option V := ((entriesOf m k).head?).map (·.2)

/-- `insert`: replaces the value of an existing key, else places a new entry; then rearranges -/
def hmInsert (o : OrderParam K V) (m : List (K × V)) (k : K) (v : V) : Option V × List (K × V) :=
  match lookup m k with
  | some old => (some old, o.rearrange (m.map fun p => if p.1 = k then (k, v) else p))
  | none => (none, o.rearrange (insertAt m (o.place m (k, v)) (k, v)))

def hmRemove (o : OrderParam K V) (m : List (K × V)) (k : K) : Option V × List (K × V) :=
  (lookup m k, o.rearrange (m.filter fun p => p.1 ≠ k))

/-- programs over one container -/
inductive Prog (K V R : Type) where
  | ret (r : R)
  /-- `insert`, `entry(k).or_insert(v)` (after a `get`), `extend`/`collect` one element at a time -/
  | insert (k : K) (v : V) (next : Option V → Prog K V R)
  /-- `get`, `get_mut`, `contains_key`, `contains`, `[k]` (index; `none` = panic), `entry(k)` -/
  | get (k : K) (next : Option V → Prog K V R)
  | remove (k : K) (next : Option V → Prog K V R)
  /-- `len`, `is_empty` -/
  | len (next : Nat → Prog K V R)
  | clear (next : Prog K V R)
  /-- anything that exposes the internal order -/
  | iter (next : List (K × V) → Prog K V R)

def Prog.run (o : OrderParam K V) : Prog K V R → List (K × V) → R × List (K × V)
  | .ret r, m => (r, m)
  | .insert k v next, m => let r := hmInsert o m k v; (next r.1).run o r.2
  | .get k next, m => (next (lookup m k)).run o m
  | .remove k next, m => let r := hmRemove o m k; (next r.1).run o r.2
  | .len next, m => (next m.length).run o m
  | .clear next, m => next.run o []
  | .iter next, m => (next m).run o m

/-- the program never looks at the internal order -/
def Prog.LookupOnly : Prog K V R → Prop
  | .ret _ => True
  | .insert _ _ next => ∀ a, (next a).LookupOnly
  | .get _ next => ∀ a, (next a).LookupOnly
  | .remove _ next => ∀ a, (next a).LookupOnly
  | .len next => ∀ n, (next n).LookupOnly
  | .clear next => next.LookupOnly
  | .iter _ => False

end

/-! ### vocabulary of the source translator -/

/-- method names (and syntactic uses) the translator recognises on `HashMap`/`HashSet` bindings -/
inductive Meth where
  -- construction
  | decl | new | withCapacity | default | collectInto | fromIter | moveInto | passToTracked
  -- lookups and point updates
  | insert | get | getMut | contains | containsKey | index | entry | orInsert | orInsertWith | orDefault
  | remove | len | isEmpty | clear | extendFromOrdered | clone
  -- order-exposing
  | iter | iterMut | keys | values | valuesMut | intoIter | drain | retain | forLoop | extendInto | debugFmt
  -- anything else (escapes to untracked code, unknown method, unaccounted mention of the type)
  | escape | unknown | unaccounted
  deriving DecidableEq, Repr

/-- expressible as a `Prog` without `iter` -/
def Meth.lookupOnly : Meth → Bool
  | .decl | .new | .withCapacity | .default | .collectInto | .fromIter | .moveInto | .passToTracked => true
  | .insert | .get | .getMut | .contains | .containsKey | .index | .entry | .orInsert | .orInsertWith
  | .orDefault | .remove | .len | .isEmpty | .clear | .extendFromOrdered | .clone => true
  | _ => false

/-- one use of a hash-typed binding in the source -/
structure SiteOp where
  file : Nat
  line : Nat
  binding : Nat
  meth : Meth
  /-- flagged by the translator as the one reviewed exception (`tyinfer`: `self.nonterminals.keys()`) -/
  exception : Bool
  deriving DecidableEq, Repr

/-! ### the reviewed exception: a memoising evaluation driven in hash order -/

/-- `TypeInferencer::infer_types`: `for id in ids { self.nonterminal_type(&id)?; }` with `ids` in hash
    order.  `eval table id` is `nonterminal_type` (memoising, recursive): it returns the extended
    table or an error. -/
def evalAll {Id Ty E : Type} (eval : (Id → Option Ty) → Id → Except E (Id → Option Ty)) :
    (Id → Option Ty) → List Id → Except E (Id → Option Ty)
  | t, [] => .ok t
  | t, id :: ids =>
    match eval t id with
    | .ok t' => evalAll eval t' ids
    | .error e => .error e

end LalrpopModel.HashOrder
