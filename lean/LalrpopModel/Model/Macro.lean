/-!
M-MACRO: model of lalrpop's macro expansion pass
(`lalrpop/src/normalize/macro_expand/mod.rs`), of the `Display` impls used for
`canonical_form()` (`grammar/parse_tree.rs`) and of `norm_util::analyze_expr`.

Rust ↦ model:
* `SymbolKind` ↦ `Sym` (spans dropped; `Box`/`Vec` children ↦ nested inductive);
* `Display` ↦ `toks` (the pieces written, as tokens) and `print = concat of the spellings`;
* `MacroExpander { macro_defs, expansion_set, expansion_stack }` ↦ `State` with the set as a list
  of keys; `HashMap`/`HashSet` are only looked up / inserted into, never iterated;
* the `loop` of `expand` ↦ a loop with fuel `recursion_limit + 1` (the Rust loop returns after at
  most `recursion_limit + 1` rounds by construction);
* `panic!`, `args[&c.lhs]` on a missing key ↦ outcome `panic`; `return_err!` ↦ outcome `error msg`;
* `Regex::new(..).is_match(..)` ↦ an oracle parameter `re : regex → text → Option Bool`
  (`none` = the regex does not compile).
Type declarations (`type_decl`, `macro_expand_type_ref`) are not modelled (types do not influence
the language or the values); the driver prints a placeholder for them.
-/

namespace LalrpopModel.Macro

inductive RepeatOp where
  | star | plus | question
  deriving DecidableEq, Repr

/-- `TerminalString` as it occurs in parse-tree symbols -/
inductive Terminal where
  | quoted (s : String)
  | regex (s : String)
  | bare (s : String)
  | error
  deriving DecidableEq, Repr

/-- `ArgPattern` -/
inductive Pat where
  | name (mutable : Bool) (n : String)
  | tuple (ps : List Pat)
  deriving Repr

/-- `SymbolKind` -/
inductive Sym where
  | expr (syms : List Sym)
  | ambiguous (id : String)
  | terminal (t : Terminal)
  | nonterminal (n : String)
  | macro (name : String) (args : List Sym)
  | repeat (op : RepeatOp) (s : Sym)
  | choose (s : Sym)
  | name (mutable : Bool) (n : String) (s : Sym)
  | tuple (pats : List Pat) (s : Sym)
  | lookahead
  | lookbehind
  | error
  deriving Repr

/-! ### Display -/

inductive Tok where
  | lparen | rparen | langle | rangle
  | sp            -- `" "`, separator of `ExprSymbol`
  | comma         -- `", "`, separator of macro arguments and tuple patterns
  | colon
  | mutKw         -- `"mut "`
  | op (o : RepeatOp)
  | lookahead     -- `@L`
  | lookbehind    -- `@R`
  | ident (s : String)     -- a name printed with `{}`
  | strLit (s : String)    -- `{:?}` of a quoted terminal
  | regexLit (s : String)  -- `r#{:?}#` of a regex terminal
  deriving DecidableEq, Repr

/-- items separated by `sep` (`util::Sep`) -/
def sepBy (sep : Tok) : List (List Tok) → List Tok
  | [] => []
  | [x] => x
  | x :: y :: rest => x ++ sep :: sepBy sep (y :: rest)

def Terminal.toks : Terminal → List Tok
  | .quoted s => [.strLit s]
  | .regex s => [.regexLit s]
  | .bare s => [.ident s]
  | .error => [.ident "error"]

mutual
def Pat.toks : Pat → List Tok
  | .name false n => [.ident n]
  | .name true n => [.mutKw, .ident n]
  | .tuple ps => .lparen :: Pat.toksList ps ++ [.rparen]
/-- patterns separated by `", "` -/
def Pat.toksList : List Pat → List Tok
  | [] => []
  | [p] => p.toks
  | p :: q :: rest => p.toks ++ .comma :: Pat.toksList (q :: rest)
end

mutual
/-- `impl Display for SymbolKind` -/
def Sym.toks : Sym → List Tok
  | .expr syms => .lparen :: Sym.toksSp syms ++ [.rparen]
  | .ambiguous id => [.ident id]
  | .terminal t => t.toks
  | .nonterminal n => [.ident n]
  | .macro nm args => .ident nm :: .langle :: Sym.toksComma args ++ [.rangle]
  | .repeat op s => s.toks ++ [.op op]
  | .choose s => .langle :: s.toks ++ [.rangle]
  | .name false n s => .ident n :: .colon :: s.toks
  | .name true n s => .mutKw :: .ident n :: .colon :: s.toks
  | .tuple pats s => .lparen :: Pat.toksList pats ++ .rparen :: .colon :: s.toks
  | .lookahead => [.lookahead]
  | .lookbehind => [.lookbehind]
  | .error => [.ident "error"]
/-- `Sep(" ", symbols)` -/
def Sym.toksSp : List Sym → List Tok
  | [] => []
  | [s] => s.toks
  | s :: t :: rest => s.toks ++ .sp :: Sym.toksSp (t :: rest)
/-- `Sep(", ", symbols)` -/
def Sym.toksComma : List Sym → List Tok
  | [] => []
  | [s] => s.toks
  | s :: t :: rest => s.toks ++ .comma :: Sym.toksComma (t :: rest)
end

def hexDigitLower (n : Nat) : Char :=
  if n < 10 then Char.ofNat (48 + n) else Char.ofNat (87 + n)

def hexLower (n : Nat) : List Char :=
  if n < 16 then [hexDigitLower n] else hexLower (n / 16) ++ [hexDigitLower (n % 16)]

/-- `str::escape_debug` restricted to what the harness generates: ASCII (controls escaped) and
    printable non-ASCII characters (kept) -/
def escapeDebugChar (c : Char) : List Char :=
  if c = '"' then ['\\', '"']
  else if c = '\\' then ['\\', '\\']
  else if c = '\n' then ['\\', 'n']
  else if c = '\t' then ['\\', 't']
  else if c = '\r' then ['\\', 'r']
  else if c = '\x00' then ['\\', '0']
  else if c.toNat < 32 ∨ c.toNat = 127 then ['\\', 'u', '{'] ++ hexLower c.toNat ++ ['}']
  else [c]

def debugStr (s : String) : String :=
  "\"" ++ String.ofList (s.toList.flatMap escapeDebugChar) ++ "\""

def RepeatOp.spell : RepeatOp → String
  | .star => "*"
  | .plus => "+"
  | .question => "?"

def Tok.spell : Tok → String
  | .lparen => "(" | .rparen => ")" | .langle => "<" | .rangle => ">"
  | .sp => " " | .comma => ", " | .colon => ":" | .mutKw => "mut "
  | .op o => o.spell
  | .lookahead => "@L" | .lookbehind => "@R"
  | .ident s => s
  | .strLit s => debugStr s
  | .regexLit s => "r#" ++ debugStr s ++ "#"

/-- `canonical_form()` -/
def Sym.print (s : Sym) : String := String.join (s.toks.map Tok.spell)

/-! ### grammar items -/

inductive CondOp where
  | eq | ne | matches | notMatches
  deriving DecidableEq, Repr

structure Cond where
  op : CondOp
  lhs : String
  rhs : String
  deriving Repr

/-- `Option<ActionKind>` -/
inductive Action where
  | none
  | user (code : String)
  | fallible (code : String)
  | lookahead
  | lookbehind
  deriving DecidableEq, Repr

/-- an alternative; attributes are opaque text -/
structure Alt where
  expr : List Sym
  cond : Option Cond
  action : Action
  attrs : List String

/-- an attribute of a nonterminal: `#[inline]` (which the expander attaches to the nonterminals
    it generates) or anything else (opaque text) -/
inductive Attr where
  | inline
  | other (x : String)
  deriving DecidableEq, Repr

inductive Vis where
  | priv
  | other (x : String)
  deriving DecidableEq, Repr

structure NtData where
  name : String
  vis : Vis
  attrs : List Attr
  args : List String
  alts : List Alt

inductive Item where
  | nt (d : NtData)
  | other (x : String)

inductive Outcome (α : Type) where
  | ok (a : α)
  | error (msg : String)
  | panic (what : String)

/-! ### substitution (`macro_expand_symbol`) -/

abbrev Env := List (String × Sym)

def Env.get (env : Env) (n : String) : Option Sym :=
  match env.find? (fun p => p.1 = n) with
  | some p => some p.2
  | none => none

mutual
/-- `macro_expand_symbol`; `none` = the `panic!` on `AmbiguousId` -/
def subst (env : Env) : Sym → Option Sym
  | .expr syms => do pure (.expr (← substList env syms))
  | .terminal t => some (.terminal t)
  | .nonterminal n =>
    match env.get n with
    | some s => some s
    | none => some (.nonterminal n)
  | .macro name args => do pure (.macro name (← substList env args))
  | .repeat op s => do pure (.repeat op (← subst env s))
  | .choose s => do pure (.choose (← subst env s))
  | .name m n s => do pure (.name m n (← subst env s))
  | .tuple ps s => do pure (.tuple ps (← subst env s))
  | .lookahead => some .lookahead
  | .lookbehind => some .lookbehind
  | .error => some .error
  | .ambiguous _ => none
def substList (env : Env) : List Sym → Option (List Sym)
  | [] => some []
  | s :: rest => do
    let s' ← subst env s
    let rest' ← substList env rest
    pure (s' :: rest')
end

/-! ### conditions -/

/-- `evaluate_cond` on the already looked-up left-hand side -/
def evalCond (re : String → String → Option Bool) (c : Cond) (lhs : Sym) : Outcome Bool :=
  match lhs with
  | .terminal (.quoted l) =>
    match c.op with
    | .eq => .ok (l = c.rhs)
    | .ne => .ok (l ≠ c.rhs)
    | .matches =>
      match re c.rhs l with
      | some b => .ok b
      | none => .error ("invalid regular expression `" ++ c.rhs ++ "`: ")
    | .notMatches =>
      match re c.rhs l with
      | some b => .ok (!b)
      | none => .error ("invalid regular expression `" ++ c.rhs ++ "`: ")
  | other =>
    .error ("invalid condition LHS `" ++ c.lhs ++ "`, expected a string literal, not `" ++ other.print ++ "`")

def evaluateCond (re : String → String → Option Bool) (env : Env) : Option Cond → Outcome Bool
  | none => .ok true
  | some c =>
    match env.get c.lhs with
    | none => .panic "condition lhs is not a macro argument"     -- `args[&c.lhs]`
    | some lhs => evalCond re c lhs

/-! ### the expander -/

structure State where
  expansionSet : List String       -- keys inserted so far
  expansionStack : List Sym        -- top of the stack = head

/-- The expander is parametric in the function computing the key of a symbol; lalrpop uses
    `canonical_form()` = `Sym.print`. (The theorems of Props/C13 say what injectivity of the key
    buys; the check also runs the model with a structural key to detect collisions.) -/
abbrev KeyFn := Sym → String

variable (key : KeyFn)

/-! `replace_symbol` has two effects: it rewrites the symbol in place, and (through `&mut self`) it
inserts keys into `expansion_set` / pushes symbols on `expansion_stack`. The model separates them:
`rewriteSym` returns the rewritten symbol together with the ordered list of *candidates* (the
symbols that reach the fall-through of `replace_symbol`, children before parents, left to right);
`pushAll` replays the inserts/pushes in that order. The pushes only depend on the order of the
candidates, so this is the same computation. -/

mutual
/-- `replace_symbol`: the rewritten symbol and the candidates, in order. `none` = the `panic!` on
    `AmbiguousId`. A candidate is replaced by the nonterminal named by its key. -/
def rewriteSym : Sym → Option (Sym × List Sym)
  | .ambiguous _ => none
  | .macro nm args => do
    let (args', c) ← rewriteList args
    pure (.nonterminal (key (.macro nm args')), c ++ [.macro nm args'])
  | .expr syms => do
    let (syms', c) ← rewriteList syms
    pure (.nonterminal (key (.expr syms')), c ++ [.expr syms'])
  | .repeat op s => do
    let (s', c) ← rewriteSym s
    pure (.nonterminal (key (.repeat op s')), c ++ [.repeat op s'])
  | .terminal t => some (.terminal t, [])
  | .nonterminal n => some (.nonterminal n, [])
  | .error => some (.error, [])
  | .choose s => do
    let (s', c) ← rewriteSym s
    pure (.choose s', c)
  | .name m n s => do
    let (s', c) ← rewriteSym s
    pure (.name m n s', c)
  | .tuple ps s => do
    let (s', c) ← rewriteSym s
    pure (.tuple ps s', c)
  | .lookahead => some (.nonterminal (key .lookahead), [.lookahead])
  | .lookbehind => some (.nonterminal (key .lookbehind), [.lookbehind])
/-- `replace_symbols` -/
def rewriteList : List Sym → Option (List Sym × List Sym)
  | [] => some ([], [])
  | s :: rest => do
    let (s', c1) ← rewriteSym s
    let (rest', c2) ← rewriteList rest
    pure (s' :: rest', c1 ++ c2)
end

/-- `replace_item` on the alternatives of a nonterminal -/
def rewriteAlts : List Alt → Option (List Alt × List Sym)
  | [] => some ([], [])
  | a :: rest => do
    let (e', c1) ← rewriteList key a.expr
    let (rest', c2) ← rewriteAlts rest
    pure ({ a with expr := e' } :: rest', c1 ++ c2)

/-- `for item in &mut items[counter..] { self.replace_item(item) }` -/
def rewriteItems : List Item → Option (List Item × List Sym)
  | [] => some ([], [])
  | .other x :: rest => do
    let (rest', c) ← rewriteItems rest
    pure (.other x :: rest', c)
  | .nt d :: rest => do
    let (alts', c1) ← rewriteAlts key d.alts
    let (rest', c2) ← rewriteItems rest
    pure (.nt { d with alts := alts' } :: rest', c1 ++ c2)

/-- the fall-through of `replace_symbol` for one candidate:
    `if self.expansion_set.insert(key) { self.expansion_stack.push(to_expand) }` -/
def push1 (st : State) (toExpand : Sym) : State :=
  let k := key toExpand
  if st.expansionSet.contains k then st
  else { expansionSet := k :: st.expansionSet, expansionStack := toExpand :: st.expansionStack }

def pushAll (st : State) (cands : List Sym) : State := cands.foldl (push1 key) st

/-- `analyze_expr` -/
inductive Symbols where
  | named (first : Nat × Pat × Sym)       -- only the first entry is used (error message)
  | anon (n : Nat)                        -- number of selected symbols

def isChoose : Sym → Bool
  | .choose _ => true
  | _ => false

def analyzeExpr (syms : List Sym) : Symbols :=
  let named := syms.zipIdx.filterMap fun (s, i) =>
    match s with
    | .name m n sub => some (i, Pat.name m n, sub)
    | .tuple ps sub => some (i, Pat.tuple ps, sub)
    | _ => none
  match named with
  | first :: _ => .named first
  | [] =>
    let chosen := syms.filter isChoose
    if chosen.isEmpty then .anon syms.length else .anon chosen.length

def Pat.print (p : Pat) : String := String.join (p.toks.map Tok.spell)

def userAlt (expr : List Sym) (code : String) : Alt :=
  { expr := expr, cond := none, action := .user code, attrs := [] }

/-- `expand_expr_symbol` -/
def expandExpr (expr : List Sym) : Outcome NtData :=
  match analyzeExpr expr with
  | .named (_, pat, sym) =>
    .error ("named symbols like `" ++ pat.print ++ ":" ++ sym.print ++
      "` are only allowed at the top-level of a nonterminal")
  | .anon n =>
    .ok { name := key (Sym.expr expr), vis := .priv, attrs := [.inline], args := []
          alts := [userAlt expr (if n = 1 then "<>" else "(<>)")] }

/-- `expand_repeat_symbol` -/
def expandRepeat (op : RepeatOp) (sym : Sym) : NtData :=
  let name := key (Sym.repeat op sym)
  match op with
  | .star =>
    { name := name, vis := .priv, attrs := [.inline], args := []
      alts := [ userAlt [] "alloc::vec![]",
                userAlt [.name false "v" (.repeat .plus sym)] "v" ] }
  | .plus =>
    { name := name, vis := .priv, attrs := [], args := []
      alts := [ userAlt [sym] "alloc::vec![<>]",
                userAlt [.name false "v" (.nonterminal name), .name false "e" sym]
                  "{ let mut v = v; v.push(e); v }" ] }
  | .question =>
    { name := name, vis := .priv, attrs := [.inline], args := []
      alts := [ userAlt [sym] "Some(<>)", userAlt [] "None" ] }

/-- `expand_lookaround_symbol` -/
def expandLookaround (name : String) (action : Action) : NtData :=
  { name := name, vis := .priv, attrs := [.inline], args := []
    alts := [{ expr := [], cond := none, action := action, attrs := [] }] }

/-- the loop over `mdef.alternatives` in `expand_macro_symbol` -/
def expandAlts (re : String → String → Option Bool) (env : Env) : List Alt → Outcome (List Alt)
  | [] => .ok []
  | a :: rest =>
    match evaluateCond re env a.cond with
    | .error m => .error m
    | .panic w => .panic w
    | .ok false => expandAlts re env rest
    | .ok true =>
      match substList env a.expr with
      | none => .panic "ambiguous id encountered after name resolution"
      | some e =>
        match expandAlts re env rest with
        | .ok rest' => .ok ({ expr := e, cond := none, action := a.action, attrs := a.attrs } :: rest')
        | other => other

/-- `expand_macro_symbol` -/
def expandMacro (re : String → String → Option Bool) (defs : List NtData) (name : String)
    (args : List Sym) : Outcome NtData :=
  match defs.find? (fun d => d.name = name) with
  | none => .error ("no macro definition found for `" ++ name ++ "`")
  | some mdef =>
    if mdef.args.length ≠ args.length then
      .error ("expected " ++ toString mdef.args.length ++ " arguments to `" ++ name ++
        "` but found " ++ toString args.length)
    else
      -- `zip … collect()` into a HashMap: a later duplicate key would win; duplicates are
      -- rejected by resolve, the model keeps the last binding as a HashMap does
      let env : Env := (mdef.args.zip args).reverse
      match expandAlts re env mdef.alts with
      | .ok alts =>
        .ok { name := key (Sym.macro name args), vis := mdef.vis, attrs := mdef.attrs, args := []
              alts := alts }
      | .error m => .error m
      | .panic w => .panic w

/-- one popped symbol of `while let Some(sym) = self.expansion_stack.pop()` -/
def expandOne (re : String → String → Option Bool) (defs : List NtData) : Sym → Outcome NtData
  | .macro name args => expandMacro key re defs name args
  | .expr syms => expandExpr key syms
  | .repeat op s => .ok (expandRepeat key op s)
  | .lookahead => .ok (expandLookaround "@L" .lookahead)
  | .lookbehind => .ok (expandLookaround "@R" .lookbehind)
  | _ => .panic "don't know how to expand"

/-- drain the expansion stack: pop, expand, push the new item (`items.push`) -/
def drain (re : String → String → Option Bool) (defs : List NtData) :
    List Sym → Outcome (List Item)
  | [] => .ok []
  | s :: rest =>
    match expandOne key re defs s with
    | .ok d =>
      match drain re defs rest with
      | .ok items => .ok (.nt d :: items)
      | other => other
    | .error m => .error m
    | .panic w => .panic w

def recursionMessage (limit : Nat) : String :=
  "Exceeded recursion cap (" ++ toString limit ++ ") while expanding this macro.  This typically is a symptom of infinite recursion during macro resolution.  If you believe the recursion will complete eventually, you can increase this limit using Configuration::set_macro_recursion_limit()."

/-- `MacroExpander::expand`: `done` = `items[..counter]` (already rewritten), `fresh` =
    `items[counter..]`, `round` = `loop_counter` before the increment. `fuel` bounds the number of
    rounds (the loop returns an error once `loop_counter > recursion_limit`). -/
def expandLoop (re : String → String → Option Bool) (defs : List NtData) (limit : Nat) :
    Nat → Nat → List String → List Item → List Item → Outcome (List Item)
  | 0, _, _, _, _ => .panic "out of fuel"
  | fuel + 1, round, set, done, fresh =>
    match rewriteItems key fresh with
    | none => .panic "ambiguous id encountered after name resolution"
    | some (fresh', cands) =>
      let st := pushAll key { expansionSet := set, expansionStack := [] } cands
      let items := done ++ fresh'
      let loopCounter := round + 1
      if st.expansionStack.isEmpty then .ok items
      else if loopCounter > limit then .error (recursionMessage limit)
      else
        match drain key re defs st.expansionStack with
        | .ok newItems => expandLoop re defs limit fuel loopCounter st.expansionSet items newItems
        | .error m => .error m
        | .panic w => .panic w

def isMacroDef : Item → Bool
  | .nt d => !d.args.isEmpty
  | .other _ => false

/-- `expand_macros` (after the repeated `resolve`): macro definitions are taken out of the item
    list; the rest is expanded -/
def expandMacros (re : String → String → Option Bool) (limit : Nat) (items : List Item) :
    Outcome (List Item) :=
  let defs := items.filterMap fun | .nt d => if d.args.isEmpty then none else some d | .other _ => none
  let rest := items.filter (fun i => !isMacroDef i)
  expandLoop key re defs limit (limit + 2) 0 [] [] rest

end LalrpopModel.Macro
