import LalrpopModel.Model.LR.Driver
import LalrpopModel.Model.Lex
/-!
M-REENT (C27): N runs over one shared component.

A generated parser value is `FooParser { builder: MatcherBuilder, _priv: () }` plus the constant
tables of its module; `parse(&self, input)` creates everything it mutates itself
(`__StateMachine { input, .. }`, the `Parser { states, symbols, tokens, .. }` of
`lalrpop_util::state_machine`, the `Matcher { text, consumed, cache, .. }` returned by
`self.builder.matcher(input)`).  The model:

* `Prog S P`     — a small step of one run: reads the shared component `S` and the run's own
                   private state `P`, and returns the next private state *and the next shared
                   component* (so that "the step does not write the shared component" is a
                   hypothesis, `ReadOnly`, and not built in);
* `World S P`    — the shared component and the private states of the N runs;
* `exec`         — executes a *schedule* (a list of run indices: any interleaving, any length);
* `CapProg`      — the same with the shared component split into locations and the writes of a
                   step made explicit; `toProg W` lets through only the writes to the locations in
                   `W` (the locations Rust's aliasing rules let a `parse(&self)` call write: interior
                   mutability, `static mut`, `unsafe`; computed from the extracted source facts by
                   `ModuleFacts.writable`);
* `lrProg`       — the instance whose private state is the driver configuration `Cfg × Phase`
                   of `Model/LR/Driver.lean` and whose step is that model's `step`;
* `lexProg`      — the instance for the built-in lexer: private state = `Matcher` (remaining text,
                   `consumed`, the matcher's own lazy-DFA `Cache`, the items returned so far), step
                   = one `Iterator::next` call that consults and fills the cache.
-/
namespace LalrpopModel.Reent

/-! ### generic part -/

structure Prog (S P : Type) where
  step : S → P → S × P

/-- the step never changes the shared component ("no shared mutable state") -/
def ReadOnly {S P : Type} (pg : Prog S P) : Prop := ∀ s p, (pg.step s p).1 = s

/-- what one step does to the private state -/
def Prog.localStep {S P : Type} (pg : Prog S P) (s : S) (p : P) : P := (pg.step s p).2

structure World (S P : Type) where
  shared : S
  runs : List P

/-- run `i` takes one step (an index that names no run does nothing) -/
def World.stepRun {S P : Type} (pg : Prog S P) (w : World S P) (i : Nat) : World S P :=
  match w.runs[i]? with
  | none => w
  | some p =>
    let r := pg.step w.shared p
    { shared := r.1, runs := w.runs.set i r.2 }

/-- execute a schedule, left to right -/
def exec {S P : Type} (pg : Prog S P) : World S P → List Nat → World S P
  | w, [] => w
  | w, i :: rest => exec pg (w.stepRun pg i) rest

/-- `n` steps of one run alone -/
def iter {P : Type} (f : P → P) : Nat → P → P
  | 0, p => p
  | n + 1, p => iter f n (f p)

/-- the sequential schedule: run 0 takes `ns[0]` steps, then run 1 takes `ns[1]` steps, … -/
def seqSchedFrom : Nat → List Nat → List Nat
  | _, [] => []
  | i, n :: ns => List.replicate n i ++ seqSchedFrom (i + 1) ns

def seqSched (ns : List Nat) : List Nat := seqSchedFrom 0 ns

/-- the state of each run after it has taken `count i sched` steps on its own -/
def sequentialRuns {S P : Type} (pg : Prog S P) (s : S) (runs : List P) (sched : List Nat) : List P :=
  runs.mapIdx (fun i p => iter (pg.localStep s) (sched.count i) p)

/-! ### explicit write sets -/

/-- a step over a shared store `L → V`: next private state and the writes it attempts -/
structure CapProg (L V P : Type) where
  act : (L → V) → P → P × List (L × V)

def applyWrites {L V : Type} [DecidableEq L] : List (L × V) → (L → V) → (L → V)
  | [], st => st
  | (l, v) :: ws, st => applyWrites ws (fun x => if x = l then v else st x)

/-- only writes to locations in `W` take effect -/
def CapProg.toProg {L V P : Type} [DecidableEq L] (cp : CapProg L V P) (W : List L) : Prog (L → V) P where
  step s p :=
    let r := cp.act s p
    (applyWrites (r.2.filter (fun w => decide (w.1 ∈ W))) s, r.1)

/-! ### extracted source facts (`Gen/ParserStruct.lean` is a list of these) -/

inductive Receiver where
  | ref        -- `&self`
  | refMut     -- `&mut self`
  | owned      -- `self`
  | missing    -- no `parse` method found
  deriving DecidableEq, Repr

structure FieldFact where
  owner : String
  name : String
  ty : String
  /-- the type mentions an interior-mutability / synchronisation wrapper
      (`Cell`, `RefCell`, `UnsafeCell`, `OnceCell`, `OnceLock`, `LazyLock`, `Mutex`, `RwLock`, `Atomic*`) -/
  interior : Bool
  /-- the type mentions `&mut` or a raw pointer -/
  mutPtr : Bool
  deriving Repr

/-- facts of one Rust source file (a generated parser module or a file of lalrpop-util) -/
structure ModuleFacts where
  source : String
  /-- fields of every `pub struct …Parser` -/
  parserFields : List FieldFact
  /-- fields of `__StateMachine` (generated) / of `Parser`, `Matcher`, `MatcherBuilder` (runtime) -/
  machineFields : List FieldFact
  /-- receivers of every `pub fn parse` of a `…Parser` (empty for runtime files) -/
  parseReceivers : List Receiver
  /-- number of `…Parser` structs found -/
  parsers : Nat
  staticMut : Nat
  /-- `static NAME: T` items (not `const`); a plain static can hold interior mutability -/
  staticItems : Nat
  cell : Nat          -- tokens `Cell`, `RefCell`, `UnsafeCell`, `OnceCell`
  threadLocal : Nat   -- `thread_local!`
  unsafeKw : Nat      -- keyword `unsafe`
  lazyStatic : Nat    -- `lazy_static!`, `OnceLock`, `LazyLock`, `Lazy`
  syncPrims : Nat     -- `Mutex`, `RwLock`, `Atomic*`
  deriving Repr

/-- names of the shared locations a `parse(&self, …)` call could write, by Rust's rules -/
def ModuleFacts.writable (m : ModuleFacts) : List String :=
  (m.parserFields.filter (fun f => f.interior || f.mutPtr)).map (fun f => f.owner ++ "." ++ f.name)
  ++ (if m.parseReceivers.all (· == .ref) then [] else m.parserFields.map (fun f => f.owner ++ "." ++ f.name) ++ ["self"])
  ++ List.replicate m.staticMut "static mut"
  ++ List.replicate m.staticItems "static"
  ++ List.replicate m.cell "cell"
  ++ List.replicate m.threadLocal "thread_local"
  ++ List.replicate m.unsafeKw "unsafe"
  ++ List.replicate m.lazyStatic "lazy"
  ++ List.replicate m.syncPrims "sync"

/-- the per-call state (`__StateMachine`, `Parser`, `Matcher`) holds no interior mutability
    either (it is private anyway; this keeps the model's "private state is plain data" honest) -/
def ModuleFacts.machinePlain (m : ModuleFacts) : Bool :=
  m.machineFields.all (fun f => !f.interior)

def noSharedMutableState (ms : List ModuleFacts) : Bool :=
  ms.all (fun m => m.writable.isEmpty && m.machinePlain)

/-! ### instance 1: the LR driver of `Model/LR/Driver.lean` -/

/-- what is shared by all `parse` calls on one parser value: the tables (constants of the
    generated module) and the fuel parameter of the model's `accepts` loop -/
structure LRShared where
  tables : LR.Tables
  af : Nat

/-- per call: the arguments (`failAt`: which action invocation fails, the start location) and the
    driver configuration -/
structure LRRun where
  failAt : Option Nat
  startLoc : Int
  cfg : LR.Cfg
  phase : LR.Phase

def lrProg : Prog LRShared LRRun where
  step s p :=
    let r := LR.step s.tables s.af p.failAt p.startLoc p.cfg p.phase
    (s, { p with cfg := r.1, phase := r.2 })

/-- a fresh `parse` call on `input` -/
def lrStart (failAt : Option Nat) (startLoc : Int) (input : List LR.Item) : LRRun :=
  { failAt := failAt, startLoc := startLoc, cfg := LR.init startLoc input, phase := .pull }

/-- the model of `parse`: the outcome after `n` steps, if the run has finished by then -/
def lrOutcome (p : LRRun) : Option LR.Outcome :=
  match p.phase with
  | .done r => some r
  | _ => none

def parseWith (s : LRShared) (failAt : Option Nat) (startLoc : Int) (input : List LR.Item) (n : Nat) : Option LR.Outcome :=
  lrOutcome (iter (lrProg.localStep s) n (lrStart failAt startLoc input))

/-! ### instance 2: matchers of the built-in lexer -/

/-- the matcher's lazy-DFA cache: memoised answers of the DFA for the prefixes fed so far -/
structure Cache (α : Type) where
  entries : List (List α × (List Nat × Bool))

def Cache.empty {α : Type} : Cache α := ⟨[]⟩

/-- every memoised answer is what the builder's DFA computes -/
def Cache.Consistent {α : Type} (o : Lex.Oracle α) (c : Cache α) : Prop :=
  ∀ e ∈ c.entries, e.2 = (o.matchSet e.1, o.dead e.1)

/-- `dfa.next_state(&mut cache, …)`: answer from the cache, or compute from the (read-only) DFA
    and remember -/
def Cache.query {α : Type} [DecidableEq α] (o : Lex.Oracle α) (c : Cache α) (p : List α) :
    (List Nat × Bool) × Cache α :=
  match c.entries.lookup p with
  | some r => (r, c)
  | none => let r := (o.matchSet p, o.dead p); (r, ⟨(p, r) :: c.entries⟩)

/-- `Lex.scan` with every DFA question going through the cache -/
def scanC {α : Type} [DecidableEq α] (o : Lex.Oracle α) (text : List α) (i : Nat) (best : Option Nat)
    (c : Cache α) : Option Nat × Cache α :=
  if i < text.length then
    let q := c.query o (text.take i)
    if !q.1.1.isEmpty then scanC o text (i + 1) (some i) q.2
    else
      let q2 := q.2.query o (text.take (i + 1))
      if q2.1.2 then (best, q2.2)
      else scanC o text (i + 1) best q2.2
  else
    let q := c.query o (text.take i)
    if !q.1.1.isEmpty then (some i, q.2) else (best, q.2)
termination_by text.length - i

/-- `Lex.next` (`Matcher::next`) over the cache -/
def nextC {α : Type} [DecidableEq α] (o : Lex.Oracle α) (skip : List Bool) (st : Lex.St α) (c : Cache α) :
    Lex.Item α × Lex.St α × Cache α :=
  if st.text.isEmpty then (.eof, st, c)
  else
    match scanC o st.text 0 none c with
    | (none, c1) => (.invalid st.consumed, st, c1)
    | (some len, c1) =>
      let q := c1.query o (st.text.take len)
      let index := Lex.maxIdx q.1.1
      let st' := st.advance len
      if len = 0 then (.invalid st.consumed, st', q.2)
      else
        match skip[index]? with
        | none => (.panic, st', q.2)
        | some true => nextC o skip st' q.2
        | some false => (.tok st.consumed index (st.text.take len) (st.consumed + len), st', q.2)
termination_by st.text.length
decreasing_by
  simp only [Lex.St.advance, List.length_drop]
  have : st.text.length ≠ 0 := by
    intro h; simp_all [List.isEmpty_iff]
  omega

/-- `MatcherBuilder`: the DFA (as the oracle of M-LEX) and `skip_vec` -/
structure Builder (α : Type) where
  dfa : Lex.Oracle α
  skip : List Bool

/-- `Matcher`: all of it is created by `matcher()` and owned by the caller -/
structure Matcher (α : Type) where
  st : Lex.St α
  cache : Cache α
  /-- the items `next()` has returned so far, most recent first -/
  out : List (Lex.Item α)

/-- `MatcherBuilder::matcher(text)`: a fresh cache per call -/
def Builder.matcher {α : Type} (_b : Builder α) (text : List α) : Matcher α :=
  { st := Lex.init text, cache := Cache.empty, out := [] }

def lexProg {α : Type} [DecidableEq α] : Prog (Builder α) (Matcher α) where
  step b m :=
    let r := nextC b.dfa b.skip m.st m.cache
    (b, { st := r.2.1, cache := r.2.2, out := r.1 :: m.out })

/-- the cache-free reference: `n` calls of M-LEX's `next` -/
def lexRef {α : Type} (b : Builder α) : Nat → Lex.St α → List (Lex.Item α) → Lex.St α × List (Lex.Item α)
  | 0, st, out => (st, out)
  | n + 1, st, out =>
    let r := Lex.next b.dfa b.skip st
    lexRef b n r.2 (r.1 :: out)

end LalrpopModel.Reent
