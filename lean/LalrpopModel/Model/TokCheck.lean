import LalrpopModel.Model.Dfa
/-!
M-TOKCHECK: model of the precedence assignment of the built-in lexer
(`lalrpop/src/normalize/token_check/mod.rs`: `MatchBlock::new`, `add_match_entry`,
`add_literal_from_grammar`, the `match_entries.sort()` of `construct`;
`lalrpop/src/lexer/intern_token/mod.rs: compile`: the pattern list handed to the runtime
`MatcherBuilder`, with the implicit whitespace skip).

Atoms (`string_cache::Atom`) are byte strings (`List Nat`), ordered byte-wise like `str`.
-/
namespace LalrpopModel.TokCheck
open LalrpopModel.Dfa (isort)

/-- `TerminalLiteral` (`derive(Ord)`: `Quoted < Regex`, then the text) -/
inductive Lit where
  | quoted (s : List Nat)
  | regex (s : List Nat)
  deriving Repr, DecidableEq

/-- `TerminalString` (`derive(Ord)`: `Literal < Bare < Error`) -/
inductive Term where
  | lit (l : Lit)
  | bare (s : List Nat)
  | error
  deriving Repr, DecidableEq

/-- `MatchMapping` (`derive(Ord)`: `Terminal < Skip`) -/
inductive Mapping where
  | term (t : Term)
  | skip
  deriving Repr, DecidableEq

/-- `MatchEntry` (`derive(Ord)`: precedence, then literal, then user name) -/
structure Entry where
  prec : Nat
  lit : Lit
  user : Mapping
  deriving Repr, DecidableEq

/-- `MatchItem` -/
inductive Item where
  | catchAll
  | unmapped (sym : Lit)
  | mapped (sym : Lit) (user : Mapping)
  deriving Repr, DecidableEq

inductive Err where
  | multipleEntries (sym : Lit)        -- "multiple match entries for `…`"
  | noMapping (sym : Lit)              -- "terminal `…` does not have a match mapping defined for it"
  | bareWithoutEntry (s : List Nat)    -- assert!: "bare terminal without match entry"
  deriving Repr, DecidableEq

/-- `MatchBlock` (`spans` is only used as the set of literals seen) -/
structure Block where
  entries : List Entry := []
  userNames : List Term := []
  spans : List Lit := []
  catchAll : Option Nat := none
  deriving Repr

/-- `TerminalLiteral::base_precedence` -/
def Lit.base : Lit → Nat
  | .quoted _ => 1
  | .regex _ => 0

/-- `add_match_entry` -/
def addMatchEntry (b : Block) (groupPrec : Nat) (sym : Lit) (user : Mapping) : Except Err Block :=
  if b.spans.contains sym then .error (.multipleEntries sym)
  else
    let userNames := match user with
      | .term t => if b.userNames.contains t then b.userNames else b.userNames ++ [t]
      | .skip => b.userNames
    .ok { b with spans := b.spans ++ [sym], userNames := userNames,
                 entries := b.entries ++ [{ prec := groupPrec * 2 + sym.base, lit := sym, user := user }] }

/-- the items of one `match` rung, all with `precedence = contents.len() - idx` -/
def addRung (prec : Nat) : List Item → Block → Except Err Block
  | [], b => .ok b
  | .unmapped sym :: rest, b => do
    let b ← addMatchEntry b prec sym (.term (.lit sym))
    addRung prec rest b
  | .mapped sym user :: rest, b => do
    let b ← addMatchEntry b prec sym user
    addRung prec rest b
  | .catchAll :: rest, b => addRung prec rest { b with catchAll := some prec }

/-- the `for (idx, mc) in match_token.contents.iter().enumerate()` loop; `total` = `contents.len()` -/
def addRungs (total : Nat) : Nat → List (List Item) → Block → Except Err Block
  | _, [], b => .ok b
  | idx, rung :: rest, b => do
    let b ← addRung (total - idx) rung b
    addRungs total (idx + 1) rest b

/-- `MatchBlock::new` -/
def Block.new : Option (List (List Item)) → Except Err Block
  | some contents => addRungs contents.length 0 contents {}
  | none => .ok { catchAll := some 0 }

/-- `add_literal_from_grammar` -/
def addLiteralFromGrammar (b : Block) (sym : Lit) : Except Err Block :=
  if b.userNames.contains (.lit sym) then .ok b
  else
    match b.catchAll with
    | none => .error (.noMapping sym)
    | some p =>
      .ok { b with userNames := b.userNames ++ [.lit sym],
                   entries := b.entries ++ [{ prec := p * 2 + sym.base, lit := sym, user := .term (.lit sym) }],
                   spans := if b.spans.contains sym then b.spans else b.spans ++ [sym] }

/-- `validate_terminal` (internal-token mode) over the terminals of the grammar, in traversal order -/
def visitTerminals : List Term → Block → Except Err Block
  | [], b => .ok b
  | .lit l :: rest, b => do
    let b ← addLiteralFromGrammar b l
    visitTerminals rest b
  | .bare s :: rest, b =>
    if b.userNames.contains (.bare s) then visitTerminals rest b else .error (.bareWithoutEntry s)
  | .error :: rest, b => visitTerminals rest b

/-! ### orders (`derive(Ord)`) -/

def bytesLe : List Nat → List Nat → Bool
  | [], _ => true
  | _ :: _, [] => false
  | a :: as, b :: bs => a < b || (a == b && bytesLe as bs)

def Lit.rank : Lit → Nat × List Nat
  | .quoted s => (0, s)
  | .regex s => (1, s)

def litLe (a b : Lit) : Bool := a.rank.1 < b.rank.1 || (a.rank.1 == b.rank.1 && bytesLe a.rank.2 b.rank.2)

def termLe : Term → Term → Bool
  | .lit a, .lit b => litLe a b
  | .lit _, _ => true
  | .bare _, .lit _ => false
  | .bare a, .bare b => bytesLe a b
  | .bare _, .error => true
  | .error, .error => true
  | .error, _ => false

def mappingLe : Mapping → Mapping → Bool
  | .term a, .term b => termLe a b
  | .term _, .skip => true
  | .skip, .term _ => false
  | .skip, .skip => true

def entryLe (a b : Entry) : Bool :=
  a.prec < b.prec || (a.prec == b.prec &&
    (if a.lit = b.lit then mappingLe a.user b.user else litLe a.lit b.lit))

/-- everything up to and including `match_entries.sort()`: the `InternToken::match_entries` -/
def matchEntries (mt : Option (List (List Item))) (terminals : List Term) : Except Err (List Entry) := do
  let b ← Block.new mt
  let b ← visitTerminals terminals b
  pure (isort entryLe b.entries)

/-- a pattern of the runtime lexer: the terminal it comes from (`none` = the implicit whitespace
skip `\s+`) and its skip flag -/
abbrev Pattern := Option Lit × Bool

/-- `intern_token::compile`: one pattern per entry, in order, plus the implicit whitespace skip
when no entry is a skip entry -/
def patterns (entries : List Entry) : List Pattern :=
  let ps := entries.map (fun e => (some e.lit, decide (e.user = .skip)))
  if ps.any (·.2) then ps else ps ++ [(none, true)]

end LalrpopModel.TokCheck
