/-!
M-RE (syntax part): the fragment of `regex_syntax::hir::Hir` that lalrpop's lexer generator looks
at (`lalrpop/src/lexer/nfa/mod.rs: Nfa::expr`), and its denotation.

Alphabet: natural numbers (the build-time NFA labels its edges with `u32` ranges).  A literal of
the HIR is a *byte* string (UTF-8).  There are two readings of a literal:
* `LitMode.bytes` — every byte is taken as one symbol (the code as found: `Test::byte(b)`);
* `LitMode.chars` — the bytes are UTF-8-decoded and every scalar value is one symbol (what the
  runtime matcher does, and what `Nfa::expr` does after the fix).
-/
namespace LalrpopModel.Re

inductive Hir where
  | empty
  | lit (bytes : List Nat)
  /-- `Class::Unicode` / `Class::Bytes`: inclusive ranges -/
  | cls (ranges : List (Nat × Nat))
  | look
  | rep (min : Nat) (max : Option Nat) (greedy : Bool) (sub : Hir)
  | cap (named : Bool) (sub : Hir)
  | cat (es : List Hir)
  | alt (es : List Hir)
  deriving Repr, Inhabited

inductive LitMode where
  | bytes
  | chars
  deriving Repr, DecidableEq

def isCont (b : Nat) : Bool := 0x80 ≤ b && b < 0xC0

/-- strict UTF-8 decoding (what `std::str::from_utf8` accepts): no overlong forms, no surrogates,
nothing above U+10FFFF -/
def decodeUtf8 : List Nat → Option (List Nat)
  | [] => some []
  | b0 :: rest =>
    if b0 < 0x80 then (decodeUtf8 rest).map (b0 :: ·)
    else if b0 < 0xC2 then none
    else if b0 < 0xE0 then
      match rest with
      | b1 :: r =>
        if isCont b1 then (decodeUtf8 r).map (((b0 - 0xC0) * 64 + (b1 - 0x80)) :: ·) else none
      | _ => none
    else if b0 < 0xF0 then
      match rest with
      | b1 :: b2 :: r =>
        let c := (b0 - 0xE0) * 4096 + (b1 - 0x80) * 64 + (b2 - 0x80)
        if isCont b1 && isCont b2 && 0x800 ≤ c && !(0xD800 ≤ c && c < 0xE000) then
          (decodeUtf8 r).map (c :: ·) else none
      | _ => none
    else if b0 < 0xF5 then
      match rest with
      | b1 :: b2 :: b3 :: r =>
        let c := (b0 - 0xF0) * 262144 + (b1 - 0x80) * 4096 + (b2 - 0x80) * 64 + (b3 - 0x80)
        if isCont b1 && isCont b2 && isCont b3 && 0x10000 ≤ c && c < 0x110000 then
          (decodeUtf8 r).map (c :: ·) else none
      | _ => none
    else none
termination_by l => l.length

/-- the symbols a literal stands for; `none` = not valid UTF-8 in `chars` mode -/
def litSymbols : LitMode → List Nat → Option (List Nat)
  | .bytes, bs => some bs
  | .chars, bs => decodeUtf8 bs

/-- `k`-fold concatenation power of a language -/
def LPow (L : List Nat → Prop) : Nat → List Nat → Prop
  | 0, w => w = []
  | k + 1, w => ∃ u v, w = u ++ v ∧ L u ∧ LPow L k v

def inRanges (rs : List (Nat × Nat)) (c : Nat) : Prop := ∃ r ∈ rs, r.1 ≤ c ∧ c ≤ r.2

mutual
/-- the language of a HIR (look-around has none; capture groups and greediness do not matter) -/
def denote (m : LitMode) : Hir → List Nat → Prop
  | .empty, w => w = []
  | .lit bs, w => litSymbols m bs = some w
  | .cls rs, w => ∃ c, w = [c] ∧ inRanges rs c
  | .look, _ => False
  | .rep min max _ sub, w =>
      ∃ k, min ≤ k ∧ (∀ mx, max = some mx → k ≤ mx) ∧ LPow (denote m sub) k w
  | .cap _ sub, w => denote m sub w
  | .cat es, w => denoteCat m es w
  | .alt es, w => denoteAlt m es w
def denoteCat (m : LitMode) : List Hir → List Nat → Prop
  | [], w => w = []
  | e :: es, w => ∃ u v, w = u ++ v ∧ denote m e u ∧ denoteCat m es v
def denoteAlt (m : LitMode) : List Hir → List Nat → Prop
  | [], _ => False
  | e :: es, w => denote m e w ∨ denoteAlt m es w
end

mutual
/-- repetition bounds are consistent (`regex-syntax` guarantees `min ≤ max`) -/
def Hir.WF : Hir → Prop
  | .rep min max _ sub => (∀ mx, max = some mx → min ≤ mx) ∧ sub.WF
  | .cap _ sub => sub.WF
  | .cat es => WFs es
  | .alt es => WFs es
  | _ => True
def WFs : List Hir → Prop
  | [] => True
  | e :: es => e.WF ∧ WFs es
end

end LalrpopModel.Re
