/-!
M-RUSTLEX — a small Rust lexer, right about what the formatting flags of the code generator can
touch: white space, `//` and nested `/* */` comments (doc comments are tokens), string / raw string /
byte string / char literal and lifetime boundaries, and punctuation (one token per character, no
joint/alone distinction).  Identifiers, keywords and numbers are all `word`s.

It is a transducer: `step` consumes one character, emits tokens and moves to the next mode, so
`run m (a ++ b) = runOut m a ++ run (runMode m a) b` holds by construction.
-/
namespace LalrpopModel.RustLex

inductive RTok
  | word (s : List Char)
  | punct (c : Char)
  | str (s : List Char)
  | raw (s : List Char)
  | chr (s : List Char)
  | lifetime (s : List Char)
  | doc (s : List Char)
  /-- the input ended inside a literal or a block comment -/
  | unterminated
  deriving DecidableEq, Repr

/-- accumulators are kept reversed -/
inductive Mode
  | normal
  | word (acc : List Char)
  | slash                                   -- seen `/`
  | slash2                                  -- seen `//`
  | slash3                                  -- seen `///`
  | lineComment
  | docLine (acc : List Char)
  | blockStart                              -- seen `/*`
  | blockStart2                             -- seen `/**`
  | block (depth : Nat) (prev : Nat)        -- prev: 0 nothing, 1 = `/`, 2 = `*`
  | docBlock (acc : List Char) (depth : Nat) (prev : Nat)
  | str (acc : List Char) (esc : Bool)
  | rawHashes (pre : List Char) (n : Nat)
  | raw (n : Nat) (acc : List Char) (k : Nat)
  | tick                                    -- seen `'`
  | tick1 (c : Char)                        -- seen `'c`
  | chrEsc (acc : List Char) (esc : Bool)   -- inside `'\…`
  | lifetime (acc : List Char)
  deriving DecidableEq, Repr

/-- Rust's `Pattern_White_Space` -/
def isWs (c : Char) : Bool :=
  c == ' ' || c == '\n' || c == '\t' || c == '\r' || c.toNat == 0xB || c.toNat == 0xC || c.toNat == 0x85 ||
  c.toNat == 0x200E || c.toNat == 0x200F || c.toNat == 0x2028 || c.toNat == 0x2029

/-- characters of identifiers, keywords and numbers (every non-ASCII non-blank character counts) -/
def isWordCh (c : Char) : Bool := (c.isAlphanum || c == '_' || c.toNat ≥ 128) && !isWs c

def isRawPrefix (acc : List Char) : Bool :=
  acc == ['r'] || acc == ['r', 'b'] || acc == ['r', 'c']       -- reversed `r`, `br`, `cr`

/-- a character met in normal mode -/
def start (c : Char) : List RTok × Mode :=
  if isWs c then ([], .normal)
  else if isWordCh c then ([], .word [c])
  else if c == '/' then ([], .slash)
  else if c == '"' then ([], .str [] false)
  else if c == '\'' then ([], .tick)
  else ([.punct c], .normal)

/-- transitions that do not need a second level of re-dispatch -/
def step0 (m : Mode) (c : Char) : List RTok × Mode :=
  match m with
  | .normal => start c
  | .word acc =>
    if isWordCh c then ([], .word (c :: acc))
    else if c == '"' then
      (if isRawPrefix acc then ([], .raw 0 [] 0) else ([.word acc.reverse], .str [] false))
    else if c == '#' && isRawPrefix acc then ([], .rawHashes acc 1)
    else
      let (ts, m') := start c
      (.word acc.reverse :: ts, m')
  | .slash =>
    if c == '/' then ([], .slash2)
    else if c == '*' then ([], .blockStart)
    else
      let (ts, m') := start c
      (.punct '/' :: ts, m')
  | .slash2 =>
    if c == '/' then ([], .slash3)
    else if c == '!' then ([], .docLine [])
    else if c == '\n' then ([], .normal)
    else ([], .lineComment)
  | .slash3 =>
    if c == '/' then ([], .lineComment)            -- four slashes: an ordinary comment
    else if c == '\n' then ([.doc []], .normal)
    else ([], .docLine [c])
  | .lineComment => if c == '\n' then ([], .normal) else ([], .lineComment)
  | .docLine acc => if c == '\n' then ([.doc acc.reverse], .normal) else ([], .docLine (c :: acc))
  | .blockStart =>
    if c == '*' then ([], .blockStart2)
    else if c == '!' then ([], .docBlock [] 0 0)
    else if c == '/' then ([], .block 0 1)
    else ([], .block 0 0)
  | .blockStart2 =>
    if c == '/' then ([], .normal)                  -- `/**/`
    else if c == '*' then ([], .block 0 2)          -- `/***`: an ordinary comment
    else ([], .docBlock [c] 0 0)
  | .block d prev =>
    if prev == 1 && c == '*' then ([], .block (d + 1) 0)
    else if prev == 2 && c == '/' then (if d == 0 then ([], .normal) else ([], .block (d - 1) 0))
    else if c == '/' then ([], .block d 1)
    else if c == '*' then ([], .block d 2)
    else ([], .block d 0)
  | .docBlock acc d prev =>
    if prev == 1 && c == '*' then ([], .docBlock (c :: acc) (d + 1) 0)
    else if prev == 2 && c == '/' then
      (if d == 0 then ([.doc acc.reverse], .normal) else ([], .docBlock (c :: acc) (d - 1) 0))
    else if c == '/' then ([], .docBlock (c :: acc) d 1)
    else if c == '*' then ([], .docBlock (c :: acc) d 2)
    else ([], .docBlock (c :: acc) d 0)
  | .str acc esc =>
    if esc then ([], .str (c :: acc) false)
    else if c == '\\' then ([], .str (c :: acc) true)
    else if c == '"' then ([.str acc.reverse], .normal)
    else ([], .str (c :: acc) false)
  | .rawHashes pre n =>
    if c == '#' then ([], .rawHashes pre (n + 1))
    else if c == '"' then ([], .raw n [] 0)
    else
      -- a raw identifier `r#name` (or stray hashes): word, hashes, then the character itself
      let (ts, m') := start c
      (.word pre.reverse :: (List.replicate n (.punct '#') ++ ts), m')
  | .raw n acc k =>
    let k1 := if k > 0 then (if c == '#' then k + 1 else 0) else 0
    let k2 := if k1 == 0 && c == '"' then 1 else k1
    if k2 == n + 1 then ([.raw (c :: acc).reverse], .normal) else ([], .raw n (c :: acc) k2)
  | .tick => if c == '\\' then ([], .chrEsc [c] true) else ([], .tick1 c)
  | .tick1 a =>
    if c == '\'' then ([.chr [a]], .normal)
    else if isWordCh a then
      (if isWordCh c then ([], .lifetime [c, a])
       else
        let (ts, m') := start c
        (.lifetime [a] :: ts, m'))
    else ([.punct '\'', .punct a, .punct c], .normal)      -- not Rust; kept total
  | .chrEsc acc esc =>
    if esc then ([], .chrEsc (c :: acc) false)
    else if c == '\\' then ([], .chrEsc (c :: acc) true)
    else if c == '\'' then ([.chr acc.reverse], .normal)
    else ([], .chrEsc (c :: acc) false)
  | .lifetime acc =>
    if isWordCh c then ([], .lifetime (c :: acc))
    else
      let (ts, m') := start c
      (.lifetime acc.reverse :: ts, m')

def step (m : Mode) (c : Char) : List RTok × Mode := step0 m c

/-- what is still pending at end of input -/
def flush : Mode → List RTok
  | .normal => []
  | .word acc => [.word acc.reverse]
  | .slash => [.punct '/']
  | .slash2 => []
  | .slash3 => [.doc []]
  | .lineComment => []
  | .docLine acc => [.doc acc.reverse]
  | .rawHashes pre n => .word pre.reverse :: List.replicate n (.punct '#')
  | .lifetime acc => [.lifetime acc.reverse]
  | .tick1 a => [.lifetime [a]]
  | _ => [.unterminated]

def run : Mode → List Char → List RTok
  | m, [] => flush m
  | m, c :: rest => (step m c).1 ++ run (step m c).2 rest

def runOut : Mode → List Char → List RTok
  | _, [] => []
  | m, c :: rest => (step m c).1 ++ runOut (step m c).2 rest

def runMode : Mode → List Char → Mode
  | m, [] => m
  | m, c :: rest => runMode (step m c).2 rest

/-- the token stream of a Rust source text -/
def lexRust (s : List Char) : List RTok := run .normal s

end LalrpopModel.RustLex
