import LalrpopModel.Model.LR.Driver
/-!
M-LR, part 3: the automaton as exported from lalrpop (`lr1::build_states` result), the model of
table emission, and the validator.

`validate G T A ann` is an executable check of emitted tables `T` against grammar `G`, with the
exported automaton `A` (LR(0) cores and transitions) and a computed LR(1) annotation `ann`
(items with one lookahead each, nullable/first tables) as certificates. Its clauses:

* V0 shape (sizes, entries in range, production tables agree with `G`, start production).
* V3 soundness side: cores justified by closure of the advanced kernel along every transition,
  table shifts/gotos are automaton transitions, every reduce entry has its complete item in
  the state's cores, every initial item has its goto.
* V1 nullable/first tables are closed under the defining rules.
* V2 completeness side: LR(1) items closed under closure/shift/goto, complete items have
  their reduce entry, the start item accepts on EOF.

`Lemmas/LR*.lean` prove, for arbitrary `G T A ann`, that `validate … = true` makes the driver
sound (V0+V3) and complete (V0+V1+V2).
-/
namespace LalrpopModel.LR

abbrev Item0 := Nat × Nat                    -- (production, dot)
/-- lookahead: `some a` terminal, `none` end of input -/
abbrev LA := Option Term
abbrev Item1 := Nat × Nat × LA

structure AState where
  cores : List Item0
  shifts : List (Term × Nat)
  /-- reductions in the order lalrpop stores them: production and its lookahead set -/
  reduces : List (Nat × List LA)
  gotos : List (NT × Nat)
  deriving Repr, Inhabited

structure Automaton where
  states : List AState
  deriving Repr, Inhabited

structure Ann where
  /-- LR(1) items per state -/
  items : List (List Item1)
  nullable : List Bool                       -- per nonterminal
  first : List (List Term)                   -- per nonterminal
  deriving Repr, Inhabited

def lookupAssoc {α : Type} (l : List (Nat × α)) (k : Nat) : Option α :=
  (l.find? (·.1 == k)).map (·.2)

namespace Automaton
def shiftOf (A : Automaton) (s : Nat) (t : Term) : Option Nat :=
  (A.states[s]?).bind fun st => lookupAssoc st.shifts t
def gotoOf (A : Automaton) (s : Nat) (B : NT) : Option Nat :=
  (A.states[s]?).bind fun st => lookupAssoc st.gotos B
def coresOf (A : Automaton) (s : Nat) : List Item0 :=
  match A.states[s]? with
  | some st => st.cores
  | none => []
/-- transition on a symbol -/
def trans (A : Automaton) (s : Nat) : Sym → Option Nat
  | .t a => A.shiftOf s a
  | .n B => A.gotoOf s B
end Automaton

/-! ### Model of `write_parse_table` (action / EOF rows; goto only where defined) -/

/-- `write_reduction`: the first reduction whose lookahead set contains the token -/
def reductionFor (st : AState) (la : LA) : Int :=
  match st.reduces.find? (fun r => r.2.contains la) with
  | some r => -((r.1 : Int) + 1)
  | none => 0

def encodeActionRow (nTerm : Nat) (st : AState) : List Int :=
  (List.range nTerm).map fun t =>
    match lookupAssoc st.shifts t with
    | some s' => (s' : Int) + 1
    | none => reductionFor st (some t)

def encodeAction (nTerm : Nat) (A : Automaton) : List Int :=
  A.states.flatMap (encodeActionRow nTerm)

def encodeEof (A : Automaton) : List Int :=
  A.states.map fun st => reductionFor st none

/-! ### LR(0) closure (computed) -/

def symAt (G : Grammar) (p d : Nat) : Option Sym :=
  (G.prods[p]?).bind fun pr => pr.rhs[d]?

/-- productions whose lhs is `B`, as initial items -/
def initialItems (G : Grammar) (B : NT) : List Item0 :=
  (List.range G.prods.length).filterMap fun q =>
    match G.prods[q]? with
    | some pr => if pr.lhs = B then some (q, 0) else none
    | none => none

/-- one round: add the initial items of every nonterminal after a dot -/
def closureRound (G : Grammar) (items : List Item0) : List Item0 :=
  items ++ (items.flatMap fun it =>
    match symAt G it.1 it.2 with
    | some (Sym.n B) => initialItems G B
    | _ => [])

def closureIter (G : Grammar) : Nat → List Item0 → List Item0
  | 0, items => items
  | k + 1, items => closureIter G k (closureRound G items).eraseDups

def closure0 (G : Grammar) (kernel : List Item0) : List Item0 :=
  closureIter G (G.nNT + 1) kernel

/-- kernel of the successor over symbol `X` -/
def advance (G : Grammar) (cores : List Item0) (X : Sym) : List Item0 :=
  cores.filterMap fun it => if symAt G it.1 it.2 = some X then some (it.1, it.2 + 1) else none

def subsetOf {α : Type} [BEq α] (xs ys : List α) : Bool := xs.all ys.contains

/-! ### first / nullable over the annotation -/

def Ann.nullableNT (ann : Ann) (B : NT) : Bool := ann.nullable.getD B false
def Ann.firstNT (ann : Ann) (B : NT) : List Term := ann.first.getD B []

def Ann.nullableSym (ann : Ann) : Sym → Bool
  | .t _ => false
  | .n B => ann.nullableNT B
def Ann.firstSym (ann : Ann) : Sym → List Term
  | .t a => [a]
  | .n B => ann.firstNT B

/-- lookaheads that can follow an item whose remaining rhs is `β` and whose lookahead is `la` -/
def Ann.firstSeq (ann : Ann) : List Sym → LA → List LA
  | [], la => [la]
  | X :: β, la => (ann.firstSym X).map some ++ (if ann.nullableSym X then ann.firstSeq β la else [])

/-! ### The validator -/

section
variable (G : Grammar) (T : Tables) (A : Automaton) (ann : Ann)

def nProds : Nat := G.prods.length

/-- V0: shapes and ranges -/
def checkShape : Bool :=
  let nS := A.states.length
  T.nTerm == G.nTerm &&
  T.eofAction.length == nS &&
  T.action.length == nS * G.nTerm &&
  T.goto.length == G.nNT &&
  T.goto.all (fun row => row.length == nS && row.all (· < nS)) &&
  T.prodLen == G.prods.map (·.rhs.length) &&
  T.prodLhs.length == G.prods.length &&
  -- (`__simulate_reduce` has no lhs for the start production: `Accept`)
  (List.range G.prods.length).all (fun p =>
    T.isStart.getD p false || T.prodLhs[p]? == (G.prods[p]?).map (·.lhs)) &&
  T.isStart.length == G.prods.length &&
  T.fallible.length == G.prods.length &&
  0 < nS &&
  -- the error terminal (last terminal) exists whenever the parser uses error recovery
  (!T.usesRecovery || 0 < G.nTerm) &&
  T.action.all (fun a => (a > 0 → (a - 1).toNat < nS) && (a < 0 → (-(a + 1)).toNat < G.prods.length)) &&
  T.eofAction.all (fun a => a ≤ 0 && (a < 0 → (-(a + 1)).toNat < G.prods.length)) &&
  G.prods.all (fun pr => pr.lhs < G.nNT && pr.rhs.all (fun X => match X with
    | .t a => a < G.nTerm
    | .n B => B < G.nNT))

/-- V0': the start production is `S' → S`, `S'` occurs in no right-hand side, no other
    production has lhs `S'`, and `isStart` marks exactly the start production -/
def checkStart : Bool :=
  match G.prods[G.startProd]? with
  | some sp =>
    (match sp.rhs with
     | [Sym.n _] => true
     | _ => false) &&
    G.prods.all (fun pr => !pr.rhs.contains (Sym.n sp.lhs)) &&
    (List.range G.prods.length).all (fun p =>
      match G.prods[p]? with
      | some pr => (T.isStart.getD p false == (p == G.startProd)) && ((pr.lhs == sp.lhs) == (p == G.startProd))
      | none => false)
  | none => false

/-- V3a/b: cores justified along every transition, and table entries = automaton transitions -/
def checkCores : Bool :=
  subsetOf (A.coresOf 0) (closure0 G [(G.startProd, 0)]) &&
  (List.range A.states.length).all fun s =>
    match A.states[s]? with
    | none => false
    | some st =>
      st.shifts.all (fun (t, s') =>
        s' < A.states.length && t < G.nTerm &&
        T.actionAt s t == some ((s' : Int) + 1) &&
        subsetOf (A.coresOf s') (closure0 G (advance G st.cores (Sym.t t)))) &&
      st.gotos.all (fun (B, s') =>
        s' < A.states.length && B < G.nNT &&
        T.gotoAt s B == s' &&
        subsetOf (A.coresOf s') (closure0 G (advance G st.cores (Sym.n B)))) &&
      -- every shift entry of the table is an automaton shift
      (List.range G.nTerm).all (fun t =>
        match T.actionAt s t with
        | some a => if a > 0 then lookupAssoc st.shifts t == some (a - 1).toNat else true
        | none => false)

/-- V3c: every reduce entry has its complete item among the cores of the state -/
def checkReduces : Bool :=
  (List.range A.states.length).all fun s =>
    let cores := A.coresOf s
    let okEntry (a : Option Int) : Bool :=
      match a with
      | some a =>
        if a < 0 then
          let p := (-(a + 1)).toNat
          match G.prods[p]? with
          | some pr => cores.contains (p, pr.rhs.length)
          | none => false
        else true
      | none => false
    (List.range G.nTerm).all (fun t => okEntry (T.actionAt s t)) && okEntry (T.eofActionAt s)

/-- V3d: every initial item (other than the start item) sits in a state with a goto on its lhs -/
def checkGotos : Bool :=
  (List.range A.states.length).all fun s =>
    (A.coresOf s).all fun it =>
      if it.2 == 0 && it.1 != G.startProd then
        match G.prods[it.1]? with
        | some pr => (A.gotoOf s pr.lhs).isSome
        | none => false
      else true

/-- V1: nullable/first are closed under the defining rules -/
def checkFirst : Bool :=
  ann.nullable.length == G.nNT && ann.first.length == G.nNT &&
  G.prods.all fun pr =>
    -- nullable
    ((pr.rhs.all ann.nullableSym) → ann.nullableNT pr.lhs) &&
    -- first: for every prefix of nullable symbols, the first of the next symbol is included
    (let rec go : List Sym → Bool
      | [] => true
      | X :: β => subsetOf (ann.firstSym X) (ann.firstNT pr.lhs) && (if ann.nullableSym X then go β else true)
     go pr.rhs)

def itemsOf (s : Nat) : List Item1 := ann.items.getD s []

def actionFor (s : Nat) (la : LA) : Option Int :=
  match la with
  | some a => T.actionAt s a
  | none => T.eofActionAt s

/-- V2: the LR(1) annotation is closed and consistent with the tables -/
def checkItems : Bool :=
  ann.items.length == A.states.length &&
  (itemsOf ann 0).contains (G.startProd, 0, none) &&
  (List.range A.states.length).all fun s =>
    (itemsOf ann s).all fun (p, d, la) =>
      match G.prods[p]? with
      | none => false
      | some pr =>
        match pr.rhs[d]? with
        | some (Sym.t a) =>
          (match T.actionAt s a with
           | some act => act > 0 && (itemsOf ann (act - 1).toNat).contains (p, d + 1, la)
           | none => false)
        | some (Sym.n B) =>
          (itemsOf ann (T.gotoAt s B)).contains (p, d + 1, la) &&
          (A.gotoOf s B).isSome &&
          (List.range G.prods.length).all (fun q =>
            match G.prods[q]? with
            | some qr =>
              if qr.lhs == B then
                (ann.firstSeq (pr.rhs.drop (d + 1)) la).all (fun b => (itemsOf ann s).contains (q, 0, b))
              else true
            | none => false)
        | none =>
          -- complete item (d = |rhs| is enforced by requiring the reduce entry)
          d == pr.rhs.length && actionFor T s la == some (-((p : Int) + 1)) &&
          (p == G.startProd → la == none)

def validateSound : Bool :=
  checkShape G T A && checkStart G T && checkCores G T A && checkReduces G T A && checkGotos G A

def validateComplete : Bool :=
  checkShape G T A && checkStart G T && checkFirst G ann && checkItems G T A ann

def validate : Bool := validateSound G T A && validateComplete G T A ann

/-! ### V5/V6: extra checks for the valid-prefix properties (C04/C05)

NOT part of `validate`: lalrpop accepts grammars with reachable nonterminals that derive no
terminal string, and for those the valid-prefix property is simply false. `Lemmas/LRPrefix*.lean`
use these two clauses in addition to `validate`. -/

/-- one round of the productive-nonterminal computation: `B` is marked when some production of
    `B` has only terminals and marked nonterminals on its right-hand side -/
def productiveRound (P : List Bool) : List Bool :=
  (List.range G.nNT).map fun B =>
    P.getD B false || G.prods.any fun pr => pr.lhs == B && pr.rhs.all fun X =>
      match X with
      | .t _ => true
      | .n C => P.getD C false

def productiveIter : Nat → List Bool → List Bool
  | 0, P => P
  | k + 1, P => productiveIter k (productiveRound G P)

/-- nonterminals that derive some terminal string (`nNT + 1` rounds reach the least fixpoint) -/
def productiveSet : List Bool := productiveIter G (G.nNT + 1) (List.replicate G.nNT false)

/-- one round of the reachable-nonterminal computation -/
def reachRound (R : List Bool) : List Bool :=
  (List.range G.nNT).map fun B =>
    R.getD B false || G.prods.any fun pr => R.getD pr.lhs false && pr.rhs.contains (Sym.n B)

def reachIter : Nat → List Bool → List Bool
  | 0, R => R
  | k + 1, R => reachIter k (reachRound G R)

/-- nonterminals reachable from the lhs of the start production (unverified computation; the
    check below only needs the set to contain the start lhs and to be closed) -/
def reachSet : List Bool :=
  match G.prods[G.startProd]? with
  | some sp => reachIter G (G.nNT + 1) ((List.replicate G.nNT false).set sp.lhs true)
  | none => []

/-- V5: the reachable set contains the start lhs and is closed under "occurs in a rhs of a
    production of a reachable nonterminal", every nonterminal occurring in such a rhs is
    productive, and no state of the automaton has an empty item set -/
def checkProductive : Bool :=
  let R := reachSet G
  let P := productiveSet G
  (match G.prods[G.startProd]? with
   | some sp => R.getD sp.lhs false
   | none => false) &&
  G.prods.all (fun pr => !R.getD pr.lhs false || pr.rhs.all fun X =>
    match X with
    | .t _ => true
    | .n B => R.getD B false && P.getD B false) &&
  A.states.all (fun st => !st.cores.isEmpty)

/-- V6: no entry of the ACTION table (terminal lookahead) reduces the start production, so
    `__reduce` answers `Some(Ok(..))` at end of input only (no `ExtraToken`) -/
def checkStartEof : Bool :=
  T.action.all fun a => a != -((G.startProd : Int) + 1)

/-- V5 and V6 together -/
def validatePrefix : Bool := checkProductive G A && checkStartEof G T

end

/-! ### Computing the annotation (unverified helper; its result is what `validate` checks) -/

def computeNullable (G : Grammar) : List Bool :=
  let step (nl : List Bool) : List Bool :=
    (List.range G.nNT).map fun B =>
      nl.getD B false || G.prods.any fun pr => pr.lhs == B && pr.rhs.all fun X =>
        match X with
        | .t _ => false
        | .n C => nl.getD C false
  (List.range (G.nNT + 1)).foldl (fun nl _ => step nl) (List.replicate G.nNT false)

def computeFirst (G : Grammar) (nl : List Bool) : List (List Term) :=
  let firstSym (fs : List (List Term)) : Sym → List Term
    | .t a => [a]
    | .n B => fs.getD B []
  let rec seqFirst (fs : List (List Term)) : List Sym → List Term
    | [] => []
    | X :: β => firstSym fs X ++ (match X with
        | .t _ => []
        | .n B => if nl.getD B false then seqFirst fs β else [])
  let step (fs : List (List Term)) : List (List Term) :=
    (List.range G.nNT).map fun B =>
      (fs.getD B [] ++ (G.prods.filter (·.lhs == B)).flatMap (fun pr => seqFirst fs pr.rhs)).eraseDups
  (List.range (G.nNT + 1)).foldl (fun fs _ => step fs) (List.replicate G.nNT [])

/-- LR(1) items reachable over the tables' transitions, to a fixpoint (fuel-bounded) -/
def computeItems (G : Grammar) (T : Tables) (ann0 : Ann) (nStates : Nat) (fuel : Nat) : List (List Item1) :=
  let addAll (its : List (List Item1)) (s : Nat) (new : List Item1) : List (List Item1) × Bool :=
    let cur := its.getD s []
    let fresh := (new.filter (fun i => !cur.contains i)).eraseDups
    if fresh.isEmpty then (its, false) else (its.set s (cur ++ fresh), true)
  let round (its : List (List Item1)) : List (List Item1) × Bool :=
    (List.range nStates).foldl (fun (acc : List (List Item1) × Bool) s =>
      (acc.1.getD s []).foldl (fun (acc : List (List Item1) × Bool) (it : Item1) =>
        let (p, d, la) := it
        match G.prods[p]? with
        | none => acc
        | some pr =>
          match pr.rhs[d]? with
          | some (Sym.t a) =>
            (match T.actionAt s a with
             | some act => if act > 0 then
                 let (its', ch) := addAll acc.1 (act - 1).toNat [(p, d + 1, la)]
                 (its', acc.2 || ch) else acc
             | none => acc)
          | some (Sym.n B) =>
            let (its1, ch1) := addAll acc.1 (T.gotoAt s B) [(p, d + 1, la)]
            let las := ann0.firstSeq (pr.rhs.drop (d + 1)) la
            let news := (List.range G.prods.length).flatMap fun q =>
              match G.prods[q]? with
              | some qr => if qr.lhs == B then las.map (fun b => (q, 0, b)) else []
              | none => []
            let (its2, ch2) := addAll its1 s news
            (its2, acc.2 || ch1 || ch2)
          | none => acc) acc) (its, false)
  let rec loop : Nat → List (List Item1) → List (List Item1)
    | 0, its => its
    | k + 1, its =>
      let (its', ch) := round its
      if ch then loop k its' else its'
  loop fuel ((List.replicate nStates []).set 0 [(G.startProd, 0, none)])

def computeAnn (G : Grammar) (T : Tables) (nStates : Nat) : Ann :=
  let nl := computeNullable G
  let fs := computeFirst G nl
  let ann0 : Ann := { items := [], nullable := nl, first := fs }
  { ann0 with items := computeItems G T ann0 nStates 10000 }

/-! ### V7: the reduce loops of the driver terminate (C08)

NOT part of `validate`. A check of the emitted tables alone: for every lookahead `la` (end of input
or a terminal), the loop "look up the action of the top state under `la`; if it is a reduction, pop
and push the goto" is simulated, with fuel `F`,
* from the stack `[0]`, and
* from every two-state stack `[t, b]` where `t` is what the tables push on top of `b` (the goto of
  `b` on any nonterminal, or the target of a shift entry of `b`),
and must stop (no reduction, or a reduction that pops below the simulated part) within `F` steps.
Besides, the shape facts the proofs use (all part of V0 too): shift and goto targets are states,
left-hand sides have a goto row, no entry of `__EOF_ACTION` is a shift, and the error terminal
exists when the parser uses error recovery.
`Lemmas/LRTerm*.lean` prove that then every reduce loop of the driver (`parse`, `parse_eof`, the
reduce loop of `error_recovery`, and the `accepts` simulation) terminates on every stack the driver
can build, within a number of steps that is linear in the stack height. -/

/-- the reduction of a non-start production that the tables prescribe in state `top` under
    lookahead `la`: `(rhs length, lhs)` -/
def redInfo (T : Tables) (la : LA) (top : Nat) : Option (Nat × NT) :=
  match actionFor T top la with
  | some a =>
    match asReduce a with
    | some p =>
      match T.prodLen[p]?, T.prodLhs[p]?, T.isStart[p]? with
      | some n, some A, some false => some (n, A)
      | _, _, _ => none
    | none => none
  | none => none

inductive LocStep where
  /-- no reduction of a non-start production under this lookahead: the loop ends here -/
  | stop
  /-- a reduction that pops more states than the part of the stack at hand has -/
  | under
  /-- the part of the stack after the reduction -/
  | step (st : List Nat)

/-- one iteration of the reduce loop on a part `st` (top first) of the state stack -/
def locStep (T : Tables) (la : LA) (st : List Nat) : LocStep :=
  match st with
  | [] => .stop
  | top :: _ =>
    match redInfo T la top with
    | none => .stop
    | some (n, A) =>
      match st.drop n with
      | [] => .under
      | below :: more => .step (T.gotoAt below A :: below :: more)

/-- the loop stops on `st` within `F` iterations -/
def simOK (T : Tables) (la : LA) : Nat → List Nat → Bool
  | 0, _ => false
  | f + 1, st =>
    match locStep T la st with
    | .stop => true
    | .under => true
    | .step st' => simOK T la f st'

/-- the lookaheads: end of input and the terminals -/
def allLA (T : Tables) : List LA := none :: (List.range T.nTerm).map some

/-- V7 with fuel `F` -/
def checkTerm (T : Tables) (F : Nat) : Bool :=
  let nS := T.nStates
  decide (0 < nS) &&
  (!T.usesRecovery || decide (0 < T.nTerm)) &&
  T.eofAction.all (fun a => decide (a ≤ 0)) &&
  T.action.all (fun a => decide (a ≤ 0) || decide ((a - 1).toNat < nS)) &&
  T.goto.all (fun row => row.all (fun s => decide (s < nS))) &&
  (List.range T.prodLhs.length).all (fun p =>
    T.isStart.getD p false || decide (T.prodLhs.getD p 0 < T.goto.length)) &&
  (allLA T).all fun la =>
    simOK T la F [0] &&
    (List.range nS).all fun b =>
      (List.range T.goto.length).all (fun A => simOK T la F [T.gotoAt b A, b]) &&
      (List.range T.nTerm).all (fun x =>
        match T.actionAt b x with
        | some a =>
          match asShift a with
          | some t => simOK T la F [t, b]
          | none => true
        | none => true)

/-- the fuel `validate3` uses: more than any chain of reductions without a shift can need in a
    table built from a grammar without derivation cycles -/
def termFuel (T : Tables) : Nat := (T.nStates + 1) * (T.goto.length + 1) + 8

end LalrpopModel.LR
