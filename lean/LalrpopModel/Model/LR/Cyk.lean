import LalrpopModel.Model.LR.Basic
/-!
An independent membership oracle (chart recognizer over spans) used by the property-level search
of the LR checks: it knows nothing about LR tables. Not verified; it is compared with the real
parsers on all short strings, so an error here shows up as a (false) disagreement, never hides one.
-/
namespace LalrpopModel.LR

abbrev Chart := List (NT × Nat × Nat)

/-- does `β` derive `w[i..j)` given the spans known so far? -/
def seqMatch (tab : Chart) (w : Array Term) : List Sym → Nat → Nat → Bool
  | [], i, j => i == j
  | .t a :: β, i, j => i < j && w[i]? == some a && seqMatch tab w β (i + 1) j
  | .n B :: β, i, j =>
    (List.range (j - i + 1)).any fun d => tab.contains (B, i, i + d) && seqMatch tab w β (i + d) j

def cykRound (G : Grammar) (w : Array Term) (tab : Chart) : Chart :=
  let n := w.size
  G.prods.foldl (fun tab pr =>
    (List.range (n + 1)).foldl (fun tab i =>
      (List.range (n + 1 - i)).foldl (fun tab d =>
        let j := i + d
        if tab.contains (pr.lhs, i, j) then tab
        else if seqMatch tab w pr.rhs i j then (pr.lhs, i, j) :: tab else tab) tab) tab) tab

def cykLoop (G : Grammar) (w : Array Term) : Nat → Chart → Chart
  | 0, tab => tab
  | k + 1, tab =>
    let tab' := cykRound G w tab
    if tab'.length == tab.length then tab else cykLoop G w k tab'

/-- is `w` derivable from nonterminal `S`? -/
def member (G : Grammar) (S : NT) (w : List Term) : Bool :=
  let arr := w.toArray
  let n := arr.size
  (cykLoop G arr (G.nNT * (n + 1) * (n + 1) + 2) []).contains (S, 0, n)

end LalrpopModel.LR
