/-!
M-LR, part 1: grammars, tokens, parse errors, trees, tables.

Terminals and nonterminals are indices (`Nat`) in the order of `grammar.terminals.all` and
`grammar.nonterminals.keys()`; productions are numbered as `reduce_indices` in
`lr1/codegen/parse_table.rs` does (all productions of nonterminal 0, then of nonterminal 1, …).
-/
namespace LalrpopModel.LR

abbrev Term := Nat
abbrev NT := Nat

inductive Sym where
  | t (a : Term)
  | n (A : NT)
  deriving DecidableEq, Repr, Inhabited

structure Production where
  lhs : NT
  rhs : List Sym
  deriving DecidableEq, Repr, Inhabited

structure Grammar where
  prods : List Production
  nTerm : Nat
  nNT : Nat
  /-- index of the synthesized production `__S = S` for the start symbol of this parser -/
  startProd : Nat
  deriving Repr, Inhabited

/-- One item of the token stream as the driver sees it: `(l, token, r)`; `kind` is what
    `token_to_index` answers for the token (`none`: no pattern matches), `id` identifies the
    token (its position in the stream) so values can say which token they hold. -/
structure Tok where
  l : Int
  kind : Option Term
  id : Nat
  r : Int
  deriving DecidableEq, Repr, Inhabited

/-- a stream item: a token or an error (`Err(e)` of the iterator; `e` identified by a number) -/
inductive Item where
  | tok (t : Tok)
  | err (e : Nat)
  deriving DecidableEq, Repr, Inhabited

/-- `lalrpop_util::ParseError` as produced by the driver; `expected` holds terminal indices
    (the strings are `__TERMINAL[i]`). -/
inductive PErr where
  | unrecognizedEof (location : Int) (expected : List Term)
  | unrecognizedToken (tok : Tok) (expected : List Term)
  | extraToken (tok : Tok)
  | user (e : Nat)
  deriving DecidableEq, Repr, Inhabited

mutual
/-- Semantic values are free terms: a leaf holds its token, a node the production, the span
    `(start, end)` computed by `__reduce`, and its children; an error node holds what
    `ErrorRecovery { error, dropped_tokens }` holds. -/
inductive Tree where
  | leaf (tok : Tok)
  | node (p : Nat) (l r : Int) (kids : Forest)
  | err (error : PErr) (dropped : List Tok)
inductive Forest where
  | nil
  | cons (t : Tree) (ts : Forest)
end

instance : Inhabited Tree := ⟨.leaf default⟩

def Forest.toList : Forest → List Tree
  | .nil => []
  | .cons t ts => t :: ts.toList

def Forest.ofList : List Tree → Forest
  | [] => .nil
  | t :: ts => .cons t (Forest.ofList ts)

mutual
/-- the tokens under a tree, left to right (error nodes contribute nothing here) -/
def Tree.yield : Tree → List Tok
  | .leaf a => [a]
  | .node _ _ _ ks => ks.yield
  | .err _ _ => []
def Forest.yield : Forest → List Tok
  | .nil => []
  | .cons t ts => t.yield ++ ts.yield
end

/-- root symbol of a tree; an error node stands for the error terminal `errT` -/
def Tree.root (G : Grammar) (errT : Option Term) : Tree → Option Sym
  | .leaf a => a.kind.map Sym.t
  | .node p _ _ _ => (G.prods[p]?).map (fun pr => Sym.n pr.lhs)
  | .err _ _ => errT.map Sym.t

mutual
/-- well-formed derivation trees of `G` (leaf kinds are terminals; node children match the rhs) -/
inductive Tree.WF (G : Grammar) (errT : Option Term) : Tree → Prop
  | leaf (a : Tok) (k : Term) : a.kind = some k → Tree.WF G errT (.leaf a)
  | node (p : Nat) (l r : Int) (pr : Production) (ks : Forest) :
      G.prods[p]? = some pr → Forest.WF G errT ks pr.rhs → Tree.WF G errT (.node p l r ks)
  | err (e : PErr) (d : List Tok) (k : Term) : errT = some k → Tree.WF G errT (.err e d)
inductive Forest.WF (G : Grammar) (errT : Option Term) : Forest → List Sym → Prop
  | nil : Forest.WF G errT .nil []
  | cons (t : Tree) (ts : Forest) (X : Sym) (Xs : List Sym) :
      Tree.WF G errT t → t.root G errT = some X → Forest.WF G errT ts Xs →
      Forest.WF G errT (.cons t ts) (X :: Xs)
end

/-- the start nonterminal `S` of this parser (rhs of the start production is `[n S]`) -/
def Grammar.startSym (G : Grammar) : Option NT :=
  match G.prods[G.startProd]? with
  | some ⟨_, [Sym.n S]⟩ => some S
  | _ => none

/-- `w` (a sequence of terminal kinds) is derivable from nonterminal `A` -/
def Derives (G : Grammar) (A : NT) (w : List Term) : Prop :=
  ∃ t : Tree, Tree.WF G none t ∧ t.root G none = some (Sym.n A) ∧ t.yield.map (·.kind) = w.map some

/-! ### Tables, as emitted by `write_parse_table` -/

structure Tables where
  nTerm : Nat
  /-- `__ACTION`, row-major `state * nTerm + terminal`: `s+1` shift, `-(p+1)` reduce, `0` error -/
  action : List Int
  /-- `__EOF_ACTION` by state -/
  eofAction : List Int
  /-- `__goto(state, nt)` evaluated on every pair: `goto[nt][state]` (the generated match is a
      total function; entries the automaton does not define hold whatever the catch-all yields) -/
  goto : List (List Nat)
  /-- per production: number of rhs symbols, lhs nonterminal index (`__simulate_reduce`) -/
  prodLen : List Nat
  prodLhs : List Nat
  /-- productions whose nonterminal is the start symbol: `SimulatedReduce::Accept`, and
      `__reduce` returns `Some(Ok(..))` -/
  isStart : List Bool
  /-- productions with `=>?` actions -/
  fallible : List Bool
  usesRecovery : Bool
  deriving Repr, Inhabited

namespace Tables

def nStates (T : Tables) : Nat := T.eofAction.length

/-- `__action(state, integer)`; `none` models the index-out-of-bounds panic -/
def actionAt (T : Tables) (s : Nat) (i : Term) : Option Int := T.action[s * T.nTerm + i]?

def eofActionAt (T : Tables) (s : Nat) : Option Int := T.eofAction[s]?

/-- `error_action(state)` = `__action(state, nTerm - 1)` -/
def errorActionAt (T : Tables) (s : Nat) : Option Int := T.actionAt s (T.nTerm - 1)

/-- `__goto(state, nt)`: the outer match answers `0` for a nonterminal without a row -/
def gotoAt (T : Tables) (s : Nat) (A : NT) : Nat :=
  match T.goto[A]? with
  | some row => row.getD s 0
  | none => 0

/-- number of entries of `__TERMINAL` (the error terminal, last, is left out) -/
def nRepr (T : Tables) : Nat := if T.usesRecovery then T.nTerm - 1 else T.nTerm

end Tables

/-- `ParserAction::as_shift` -/
def asShift (a : Int) : Option Nat := if a > 0 then some (a - 1).toNat else none
/-- `ParserAction::as_reduce` -/
def asReduce (a : Int) : Option Nat := if a < 0 then some (-(a + 1)).toNat else none

end LalrpopModel.LR
