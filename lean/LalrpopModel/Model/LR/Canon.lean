import LalrpopModel.Model.LR.Validate
/-!
M-CANON: reference constructions (executable, core Lean only).

* `FirstSets` / `first0` / `first1`      ↔ `lalrpop/src/lr1/first/mod.rs`
* `transitiveClosure`, `buildStates`      ↔ `lalrpop/src/lr1/build/mod.rs` (`Lr::<TokenSet>::transitive_closure`,
                                            `Lr::build_states`; `kernel_set.rs` interning; one item per LR(0)
                                            core carrying a lookahead SET)
* `conflicts`                             ↔ `lalrpop/src/lr1/lookahead.rs` (`<TokenSet as Lookahead>::conflicts`)
* `collapse`                              ↔ `lalrpop/src/lr1/build_lalr/mod.rs` (`collapse_to_lalr_states`)
* `toAutomaton`, `toTables`               the encoding that puts a reference automaton through `validate`

`buildStates` is the formal DEFINITION of "the canonical LR(1) automaton of `G`" used by C03, and
`collapse` of it of "the LALR(1) automaton". The lane-table construction is not modelled.

Token sets are lists of bit indices as in `TokenSet` (`bit_with`): terminal `a` ↦ `a`, EOF ↦ `nTerm`
(the pseudo token `Token::Error`, bit `nTerm+1`, is never inserted by the construction code).
They are kept strictly ascending by `tsInsert`, so equal sets are equal lists (kernel interning
compares kernels with `==`, as `Map<Kernel, StateIndex>` does).

Differences to the Rust that cannot influence verdict, item sets or number of states:
maps are ordered by production INDEX (the Rust `BTreeMap`s are ordered by `Production`'s derived
`Ord`), transitions are processed nonterminals-by-index then terminals-by-index; so state NUMBERS and
the order of conflicts may differ. `permit_early_stop` (stop after `max_errors` conflicts) is not
modelled: it only shortens a construction that is already going to return `Err`.
Worklists are fuel-bounded and answer `none` on exhaustion (never defaulted to a verdict).
-/
namespace LalrpopModel.LR.Canon

open LalrpopModel.LR

/-! ### `TokenSet` -/

abbrev TokenSet := List Nat

/-- `BitSet::insert` on the ascending list -/
def tsInsert (x : Nat) : TokenSet → TokenSet
  | [] => [x]
  | y :: ys => if x < y then x :: y :: ys else if x = y then y :: ys else y :: tsInsert x ys

/-- `union_with` (the caller compares `len()` before/after to learn whether anything changed) -/
def tsUnion (a b : TokenSet) : TokenSet := b.foldl (fun acc x => tsInsert x acc) a

def tsContains (s : TokenSet) (x : Nat) : Bool := s.contains x

/-- `is_disjoint` -/
def tsDisjoint (a b : TokenSet) : Bool := a.all fun x => !tsContains b x

/-- `intersection` -/
def tsInter (a b : TokenSet) : TokenSet := a.filter fun x => tsContains b x

/-! ### FIRST sets (`lr1/first/mod.rs`) -/

/-- `FirstSets::first0`, with the `result` accumulator made explicit. `fs[B]` is the entry of the
    map for nonterminal `B` (`[]` = no entry or empty entry: both contribute nothing); `eofBit`
    in a set is the "may derive ε" flag. -/
def first0 (eofBit : Nat) (fs : List TokenSet) : List Sym → TokenSet → TokenSet
  | [], result => tsInsert eofBit result
  | .t a :: _, result => tsInsert a result
  | .n B :: rest, result =>
    let set := fs.getD B []
    let emptyProd := tsContains set eofBit
    let result := (set.filter (· != eofBit)).foldl (fun r x => tsInsert x r) result
    if emptyProd then first0 eofBit fs rest result else result

/-- `FirstSets::first1`: `take_eof`, then union with the lookahead when ε is derivable -/
def first1 (eofBit : Nat) (fs : List TokenSet) (symbols : List Sym) (lookahead : TokenSet) : TokenSet :=
  let set := first0 eofBit fs symbols []
  if tsContains set eofBit then tsUnion (set.filter (· != eofBit)) lookahead else set

/-- one `for production in …` sweep of `FirstSets::new`; the flag is `changed` -/
def firstPass (G : Grammar) (fs : List TokenSet) : List TokenSet × Bool :=
  G.prods.foldl (fun (acc : List TokenSet × Bool) pr =>
    let la := first0 G.nTerm acc.1 pr.rhs []
    let old := acc.1.getD pr.lhs []
    let new := tsUnion old la
    (acc.1.set pr.lhs new, acc.2 || new.length != old.length)) (fs, false)

/-- `while changed { … }` -/
def firstLoop (G : Grammar) : Nat → List TokenSet → Option (List TokenSet)
  | 0, _ => none
  | k + 1, fs =>
    let (fs', changed) := firstPass G fs
    if changed then firstLoop G k fs' else some fs'

/-- every sweep but the last adds a bit to some set: `nNT * (nTerm + 1)` sweeps can change something -/
def firstSets (G : Grammar) : Option (List TokenSet) :=
  firstLoop G (G.nNT * (G.nTerm + 1) + 2) (List.replicate G.nNT [])

/-! ### Items, states, conflicts -/

/-- `Item<'grammar, TokenSet>`: one per LR(0) core, with its lookahead set -/
structure Item where
  prod : Nat
  dot : Nat
  la : TokenSet
  deriving DecidableEq, Repr, Inhabited

def Item.core (i : Item) : Item0 := (i.prod, i.dot)

inductive Action where
  | shift (t : Term) (next : Nat)
  | reduce (p : Nat)
  deriving DecidableEq, Repr, Inhabited

structure Conflict where
  state : Nat
  lookahead : TokenSet
  production : Nat
  action : Action
  deriving DecidableEq, Repr, Inhabited

/-- `State<'grammar, TokenSet>` -/
structure State where
  index : Nat
  items : List Item
  shifts : List (Term × Nat)
  /-- `(lookahead, production)` in item order -/
  reductions : List (TokenSet × Nat)
  gotos : List (NT × Nat)
  deriving DecidableEq, Repr, Inhabited

/-- first loop of `TokenSet::conflicts`: every shift against every reduction whose lookahead
    contains the shifted terminal -/
def srConflicts (st : State) : List Conflict :=
  st.shifts.flatMap fun sh =>
    (st.reductions.filter fun r => tsContains r.1 sh.1).map fun r =>
      { state := st.index, lookahead := [sh.1], production := r.2, action := .shift sh.1 sh.2 }

/-- second loop: `for i in 0..len { for j in i+1..len { … } }` -/
def rrConflicts (index : Nat) : List (TokenSet × Nat) → List Conflict
  | [] => []
  | r :: rest =>
    (rest.filterMap fun r' =>
      if tsDisjoint r.1 r'.1 then none
      else some { state := index, lookahead := tsInter r.1 r'.1, production := r.2, action := .reduce r'.2 })
    ++ rrConflicts index rest

/-- `<TokenSet as Lookahead>::conflicts` -/
def conflicts (st : State) : List Conflict := srConflicts st ++ rrConflicts st.index st.reductions

/-! The specification side of `conflicts_iff`: the actions the state offers on a token. -/

/-- all the actions state `st` has for token bit `tok`: the shift (the `shifts` map has one entry
    per terminal: `lookupAssoc`) and every reduction whose lookahead set contains it -/
def actionsOn (st : State) (tok : Nat) : List Action :=
  (match lookupAssoc st.shifts tok with
   | some next => [Action.shift tok next]
   | none => []) ++
  (st.reductions.filter fun r => tsContains r.1 tok).map fun r => Action.reduce r.2

/-- the state induces a (partial) function token ↦ action -/
def Deterministic (st : State) : Prop := ∀ tok, (actionsOn st tok).length ≤ 1

/-! ### `Multimap<Lr0Item, TokenSet>` as an association list ordered by `(prod, dot)` -/

def coreLt (a b : Item0) : Bool := a.1 < b.1 || (a.1 == b.1 && a.2 < b.2)

/-- `Multimap::push`: union `la` into the entry of `c` (created when absent); the flag is
    `inserted || pushed` -/
def mmPush (c : Item0) (la : TokenSet) : List Item → List Item × Bool
  | [] => ([⟨c.1, c.2, tsUnion [] la⟩], true)
  | it :: rest =>
    if it.core = c then
      let new := tsUnion it.la la
      ({ it with la := new } :: rest, new.length != it.la.length)
    else if coreLt c it.core then (⟨c.1, c.2, tsUnion [] la⟩ :: it :: rest, true)
    else
      let r := mmPush c la rest
      (it :: r.1, r.2)

def mmGet (m : List Item) (c : Item0) : TokenSet :=
  match m.find? (fun it => it.core = c) with
  | some it => it.la
  | none => []

/-- `.collect::<Multimap<_, _>>()` of a sequence of items -/
def mmCollect (items : List Item) : List Item :=
  items.foldl (fun m it => (mmPush it.core it.la m).1) []

/-! ### `Lr::transitive_closure` -/

/-- indices of the productions of `B` (`grammar.productions_for`), in order -/
def prodsOf (G : Grammar) (B : NT) : List Nat :=
  (List.range G.prods.length).filter fun q =>
    match G.prods[q]? with
    | some pr => pr.lhs == B
    | none => false

/-- the `while let Some(item) = stack.pop()` loop; `stack` has its top at the head -/
def closureLoop (G : Grammar) (fs : List TokenSet) : Nat → List Item0 → List Item → Option (List Item)
  | 0, _, _ => none
  | _ + 1, [], m => some m
  | k + 1, c :: stack, m =>
    let lookahead := mmGet m c
    match symAt G c.1 c.2 with
    | some (Sym.n B) =>
      let remainder := ((G.prods[c.1]?).map (·.rhs)).getD [] |>.drop (c.2 + 1)
      -- `L::epsilon_moves` for `TokenSet`: `lr.items(nt, 0, &first1(remainder, lookahead))`
      let firstSet := first1 G.nTerm fs remainder lookahead
      let r := (prodsOf G B).foldl (fun (acc : List Item × List Item0) q =>
        let pushed := mmPush (q, 0) firstSet acc.1
        (pushed.1, if pushed.2 then (q, 0) :: acc.2 else acc.2)) (m, stack)
      closureLoop G fs k r.2 r.1
    | _ => closureLoop G fs k stack m

/-- `transitive_closure(seed_items)`; a pop is either one of the seeds or follows a push that
    changed the map, and the map can change `nProds * (nTerm + 2)` times -/
def transitiveClosure (G : Grammar) (fs : List TokenSet) (seed : List Item) : Option (List Item) :=
  closureLoop G fs (seed.length + G.prods.length * (G.nTerm + 2) + 1)
    (seed.map Item.core).reverse (mmCollect seed)

/-! ### `Lr::build_states` -/

/-- `KernelSet::add_state`: kernels are numbered in order of first insertion; `all` is the
    insertion-ordered list of every kernel seen (`map` + `counter`), the pending `VecDeque` is
    `all.drop (number of states built)` -/
def addState (all : List (List Item)) (kernel : List Item) : List (List Item) × Nat :=
  match all.findIdx? (· == kernel) with
  | some i => (all, i)
  | none => (all ++ [kernel], all.length)

/-- the symbols after a dot in `items`, nonterminals (by index) before terminals (by index) -/
def transitionSymbols (G : Grammar) (items : List Item) : List Sym :=
  let syms := (items.filterMap fun it => symAt G it.prod it.dot).eraseDups
  let nts := (List.range G.nNT).filterMap fun B => if syms.contains (Sym.n B) then some (Sym.n B) else none
  let ts := (List.range G.nTerm).filterMap fun a => if syms.contains (Sym.t a) then some (Sym.t a) else none
  nts ++ ts

/-- `items.filter_map(Item::shifted_item)` restricted to one symbol -/
def shiftedItems (G : Grammar) (items : List Item) (X : Sym) : List Item :=
  items.filterMap fun it => if symAt G it.prod it.dot = some X then some { it with dot := it.dot + 1 } else none

def isComplete (G : Grammar) (it : Item) : Bool :=
  match G.prods[it.prod]? with
  | some pr => it.dot == pr.rhs.length
  | none => false

structure Built where
  states : List State
  conflicts : List Conflict
  deriving Repr, Inhabited

/-- the `while let Some(kernel) = kernel_set.next()` loop: the kernel processed next is the one
    numbered `states.length` -/
def buildLoop (G : Grammar) (fs : List TokenSet) :
    Nat → List (List Item) → List State → List Conflict → Option Built
  | 0, _, _, _ => none
  | fuel + 1, all, states, confl =>
    match all[states.length]? with
    | none => some { states := states, conflicts := confl }
    | some seed =>
      match transitiveClosure G fs seed with
      | none => none
      | some items =>
        let index := states.length
        let r := (transitionSymbols G items).foldl
          (fun (acc : List (List Item) × List (Term × Nat) × List (NT × Nat)) X =>
            let added := addState acc.1 (shiftedItems G items X)
            match X with
            | .t a => (added.1, acc.2.1 ++ [(a, added.2)], acc.2.2)
            | .n B => (added.1, acc.2.1, acc.2.2 ++ [(B, added.2)])) (all, [], [])
        let thisState : State :=
          { index := index, items := items, shifts := r.2.1,
            reductions := (items.filter (isComplete G)).map fun it => (it.la, it.prod),
            gotos := r.2.2 }
        buildLoop G fs fuel r.1 (states ++ [thisState]) (confl ++ conflicts thisState)

/-- `Lr::new(grammar, start, TokenSet::eof()).build_states()`: the start kernel is
    `items(start_nt, 0, {EOF})`, i.e. the start production with lookahead EOF -/
def buildStates (G : Grammar) (fuel : Nat) : Option Built :=
  match firstSets G, G.prods[G.startProd]? with
  | some fs, some sp =>
    let startKernel := (prodsOf G sp.lhs).map fun q => (⟨q, 0, [G.nTerm]⟩ : Item)
    buildLoop G fs fuel [startKernel] [] []
  | _, _ => none

/-! ### `collapse_to_lalr_states` -/

/-- itertools `dedup`: drop consecutive repetitions -/
def dedupAdj : List Item0 → List Item0
  | [] => []
  | [x] => [x]
  | x :: y :: rest => if x = y then dedupAdj (y :: rest) else x :: dedupAdj (y :: rest)

/-- `lr0_kernel`: the LR(0) items of a state -/
def lr0Kernel (st : State) : List Item0 := dedupAdj (st.items.map Item.core)

def lookupIdx (k : List Item0) : List (List Item0) → Option Nat
  | [] => none
  | x :: xs => if x = k then some 0 else (lookupIdx k xs).map (· + 1)

/-- first loop: `lalr1_map.entry(lr0_kernel).or_insert_with(new index)`; `tbl` lists the distinct
    LR(0) kernels in order of first appearance (index = LALR state), the result is `remap` -/
def internAll : List (List Item0) → List (List Item0) → List Nat × List (List Item0)
  | [], tbl => ([], tbl)
  | k :: ks, tbl =>
    match lookupIdx k tbl with
    | some i =>
      let r := internAll ks tbl
      (i :: r.1, r.2)
    | none =>
      let r := internAll ks (tbl ++ [k])
      (tbl.length :: r.1, r.2)

/-- the LR(1) states remapped to LALR state `k`, in order -/
def members (states : List State) (remap : List Nat) (k : Nat) : List State :=
  (states.zip remap).filterMap fun p => if p.2 = k then some p.1 else none

/-- `Map::insert` + `assert!(prev.unwrap_or(target) == target)`: `none` = the assertion fails -/
def insertChecked (m : List (Nat × Nat)) (key target : Nat) : Option (List (Nat × Nat)) :=
  match lookupAssoc m key with
  | some prev => if prev = target then some m else none
  | none => some (m ++ [(key, target)])

def insertAllChecked (entries : List (Nat × Nat)) : Option (List (Nat × Nat)) :=
  entries.foldlM (fun m e => insertChecked m e.1 e.2) []

/-- `Multimap<&Production, TokenSet>::push` -/
def redPush (p : Nat) (la : TokenSet) : List (TokenSet × Nat) → List (TokenSet × Nat)
  | [] => [(tsUnion [] la, p)]
  | r :: rest =>
    if r.2 = p then (tsUnion r.1 la, p) :: rest
    else if p < r.2 then (tsUnion [] la, p) :: r :: rest
    else r :: redPush p la rest

def redCollect (rs : List (TokenSet × Nat)) : List (TokenSet × Nat) :=
  rs.foldl (fun m r => redPush r.2 r.1 m) []

/-- LALR state `k`: items of all members merged per LR(0) core with the lookaheads unioned,
    shifts/gotos remapped (checked to agree), reductions unioned per production -/
def lalrState (states : List State) (remap : List Nat) (k : Nat) : Option State :=
  let ms := members states remap k
  let re (e : Nat × Nat) : Nat × Nat := (e.1, remap.getD e.2 0)
  match insertAllChecked ((ms.flatMap (·.shifts)).map re), insertAllChecked ((ms.flatMap (·.gotos)).map re) with
  | some shifts, some gotos =>
    some { index := k, items := mmCollect (ms.flatMap (·.items)), shifts := shifts,
           reductions := redCollect (ms.flatMap (·.reductions)), gotos := gotos }
  | _, _ => none

inductive Collapsed where
  | ok (b : Built) (remap : List Nat)
  /-- one of the two `assert!`s on shift/goto targets fails: a Rust panic -/
  | assertFailed
  deriving Repr, Inhabited

def allSome {α : Type} : List (Option α) → Option (List α)
  | [] => some []
  | none :: _ => none
  | some x :: xs => (allSome xs).map (x :: ·)

/-- `collapse_to_lalr_states(&lr_states)` -/
def collapse (states : List State) : Collapsed :=
  let r := internAll (states.map lr0Kernel) []
  match allSome ((List.range r.2.length).map (lalrState states r.1)) with
  | some sts => .ok { states := sts, conflicts := sts.flatMap conflicts } r.1
  | none => .assertFailed

/-! ### Verdicts -/

inductive Verdict where
  | accept (states : List State)
  | conflict (b : Built)
  | fuel
  | panic
  deriving Repr, Inhabited

def Verdict.isAccept : Verdict → Bool
  | .accept _ => true
  | _ => false

def Verdict.isConflict : Verdict → Bool
  | .conflict _ => true
  | _ => false

/-- `build_lr1_states_legacy`: `Ok(states)` iff there is no conflict -/
def lr1Verdict (G : Grammar) (fuel : Nat) : Verdict :=
  match buildStates G fuel with
  | none => .fuel
  | some b => if b.conflicts.isEmpty then .accept b.states else .conflict b

/-- `build_lalr_states` with the lane table disabled: `build_lr1_states(..)?` then the collapse -/
def lalrVerdict (G : Grammar) (fuel : Nat) : Verdict :=
  match lr1Verdict G fuel with
  | .accept states =>
    (match collapse states with
     | .ok b _ => if b.conflicts.isEmpty then .accept b.states else .conflict b
     | .assertFailed => .panic)
  | v => v

/-! ### Encoding a reference automaton for `validate` -/

def laOfBit (nTerm : Nat) (b : Nat) : LA := if b < nTerm then some b else none

def toAutomaton (nTerm : Nat) (states : List State) : Automaton :=
  { states := states.map fun st =>
      { cores := st.items.map Item.core, shifts := st.shifts,
        reduces := st.reductions.map fun r => (r.2, r.1.map (laOfBit nTerm)),
        gotos := st.gotos } }

/-- the tables `write_parse_table` would emit for the automaton (model `encodeAction/encodeEof`
    of `Model/LR/Validate.lean`), goto as the total matrix with `0` where undefined -/
def toTables (G : Grammar) (A : Automaton) : Tables :=
  { nTerm := G.nTerm,
    action := encodeAction G.nTerm A,
    eofAction := encodeEof A,
    goto := (List.range G.nNT).map fun B => A.states.map fun st => (lookupAssoc st.gotos B).getD 0,
    prodLen := G.prods.map (·.rhs.length),
    prodLhs := G.prods.map (·.lhs),
    isStart := (List.range G.prods.length).map (· == G.startProd),
    fallible := G.prods.map fun _ => false,
    usesRecovery := false }

/-- the per-instance certificate: the reference automaton, encoded, passes both sides of the
    validator, so (`Props/LRSoundThms`, `Props/LRCompleteThms`) it is a correct parser for `G` -/
def selfCheck (G : Grammar) (states : List State) : Bool :=
  let A := toAutomaton G.nTerm states
  let T := toTables G A
  validateSound G T A && validateComplete G T A (computeAnn G T A.states.length)

end LalrpopModel.LR.Canon
