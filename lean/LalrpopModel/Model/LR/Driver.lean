import LalrpopModel.Model.LR.Basic
/-!
M-LR, part 2: the driver. Mirrors `lalrpop-util/src/state_machine.rs` (`Parser::drive`, `parse`,
`parse_eof`, `error_recovery`, `accepts`, `next_token`, `unrecognized_token_error`) and the
generated `__reduce` / `__accepts` / `__expected_tokens_from_states` / `__simulate_reduce`
(`lr1/codegen/parse_table.rs`). Every Rust panic site is an explicit `Outcome.panic`.

The Rust loops have no fuel. The model is a small-step machine over explicit phases that follow
the Rust control flow; `run n` iterates it. Theorems are stated on `Returns` (∃ n, run n = done r).
`accepts` is a pure loop and takes its own fuel (`af`); running out is `panic .outOfFuel`.
Stacks are kept top-first (`head` = Rust's `last()`); `getBot` does Rust's bottom-up indexing.
-/
namespace LalrpopModel.LR

inductive PanicTag where
  | actionIndex        -- `__ACTION[..]` / `__EOF_ACTION[..]` out of bounds
  | emptyStates        -- `states.last().unwrap()` on an empty vector
  | statesUnderflow    -- `states_len - pop_states` underflows
  | symbolMismatch     -- `__pop_VariantN` on a missing symbol / `assert!(symbols.len() >= n)`
  | invalidAction      -- `panic!("invalid action code")` / `invalid reduction index`
  | badStartProduction -- start production whose rhs is not a single symbol (cannot be emitted)
  | eofFoundToken      -- `panic!("cannot find token at EOF")`
  | recoveryIndex      -- an index/unwrap inside the span computation of `error_recovery`
  | errorShiftUnwrap   -- `error_action.as_shift().unwrap()`
  | outOfFuel          -- not a Rust panic: the `accepts` loop did not finish within its fuel
  deriving DecidableEq, Repr, Inhabited

inductive Outcome where
  | ok (v : Tree)
  | err (e : PErr)
  | panic (tag : PanicTag)
  deriving Inhabited

abbrev SymTriple := Int × Tree × Int

structure Cfg where
  /-- state stack, top first; never empty in a run that started from `init` -/
  states : List Nat
  /-- symbol stack `(l, value, r)`, top first -/
  symbols : List SymTriple
  /-- what is left of the token stream -/
  input : List Item
  lastLoc : Int
  /-- number of `tokens.next()` calls so far (ghost) -/
  pulled : Nat
  /-- number of action-function invocations so far (ghost) -/
  acts : Nat
  /-- productions reduced so far, most recent first (ghost) -/
  trace : List Nat
  deriving Inhabited

inductive NextToken where
  | found (t : Tok) (i : Term)
  | eof
  | done (r : Outcome)

/-- bottom-up indexing into a top-first stack (`v[i]` of the Rust `Vec`) -/
def getBot {α : Type} (l : List α) (i : Nat) : Option α :=
  if i < l.length then l[l.length - 1 - i]? else none

/-- `Vec::truncate(k)` on a top-first stack: keep the bottom `k` elements -/
def truncBot {α : Type} (l : List α) (k : Nat) : List α := l.drop (l.length - k)

/-- error code returned by the `n`-th action invocation when it is made to fail -/
def failCode (n : Nat) : Nat := 1000 + n

section
variable (T : Tables)

/-- `accepts` / `__accepts`: would the stack `states` (top first), after pushing `errorState` if
    given, eventually shift the lookahead (or accept at EOF)? -/
def accepts (af : Nat) (states : List Nat) (optIdx : Option Term) : Except PanicTag Bool :=
  match af with
  | 0 => .error .outOfFuel
  | af + 1 =>
    match states with
    | [] => .error .emptyStates
    | top :: _ =>
      let act := match optIdx with
        | none => T.eofActionAt top
        | some i => T.actionAt top i
      match act with
      | none => .error .actionIndex
      | some a =>
        if a = 0 then .ok false
        else match asReduce a with
          | some p =>
            match T.prodLen[p]?, T.prodLhs[p]?, T.isStart[p]? with
            | some n, some A, some st =>
              if st then .ok true
              else if states.length < n then .error .statesUnderflow
              else
                match states.drop n with
                | [] => .error .emptyStates
                | below :: rest => accepts af (T.gotoAt below A :: below :: rest) optIdx
            | _, _, _ => .error .invalidAction
          | none => .ok true

/-- `__expected_tokens_from_states`: the terminals of `__TERMINAL` that `__accepts(None, states, i)` -/
def expectedLoop (af : Nat) (states : List Nat) : Nat → Nat → Except PanicTag (List Term)
  | 0, _ => .ok []
  | k + 1, i =>
    match accepts T af states (some i) with
    | .error e => .error e
    | .ok b =>
      match expectedLoop af states k (i + 1) with
      | .error e => .error e
      | .ok rest => .ok (if b then i :: rest else rest)

def expected (af : Nat) (states : List Nat) : Except PanicTag (List Term) :=
  expectedLoop T af states T.nRepr 0

/-- `unrecognized_token_error` -/
def unrecognizedError (af : Nat) (c : Cfg) (tok : Option Tok) : Except PanicTag PErr :=
  match expected T af c.states with
  | .error e => .error e
  | .ok ex =>
    match tok with
    | some t => .ok (.unrecognizedToken t ex)
    | none => .ok (.unrecognizedEof c.lastLoc ex)

/-- `next_token` -/
def nextToken (af : Nat) (c : Cfg) : Cfg × NextToken :=
  match c.input with
  | [] => ({ c with pulled := c.pulled + 1 }, .eof)
  | .err e :: rest => ({ c with input := rest, pulled := c.pulled + 1 }, .done (.err (.user e)))
  | .tok t :: rest =>
    let c' := { c with input := rest, pulled := c.pulled + 1, lastLoc := t.r }
    match t.kind with
    | some i => (c', .found t i)
    | none =>
      match unrecognizedError T af c' (some t) with
      | .error e => (c', .done (.panic e))
      | .ok pe => (c', .done (.err pe))

inductive ReduceResult where
  | continue_ (c : Cfg)
  | finished (c : Cfg) (r : Outcome)

/-- the generated `__reduce(action, lookahead_start, states, symbols)`;
    `failAt = some n`: the `n`-th action invocation fails if its production is fallible -/
def reduce (failAt : Option Nat) (startLoc : Int) (c : Cfg) (p : Nat) (laStart : Option Int) : ReduceResult :=
  match T.prodLen[p]?, T.prodLhs[p]?, T.isStart[p]?, T.fallible[p]? with
  | some n, some A, some st, some fal =>
    if c.symbols.length < n then .finished c (.panic .symbolMismatch)
    else
      let popped := (c.symbols.take n).reverse          -- children in rhs order
      let rest := c.symbols.drop n
      let (start, end_) :=
        match popped.head?, popped.getLast? with
        | some f, some l => (f.1, l.2.2)
        | _, _ =>
          let s := match laStart with
            | some x => x
            | none => match rest.head? with
              | some top => top.2.2
              | none => startLoc
          (s, s)
      let c1 := { c with acts := c.acts + 1, trace := p :: c.trace, symbols := rest }
      if fal && failAt == some c.acts then .finished c1 (.err (.user (failCode c.acts)))
      else
        let kids := Forest.ofList (popped.map (·.2.1))
        if st then
          match popped with
          | [k] => .finished c1 (.ok k.2.1)
          | _ => .finished c1 (.panic .badStartProduction)
        else
          let c2 := { c1 with symbols := (start, Tree.node p start end_ kids, end_) :: rest }
          if c2.states.length < n then .finished c2 (.panic .statesUnderflow)
          else
            match c2.states.drop n with
            | [] => .finished c2 (.panic .emptyStates)
            | below :: more => .continue_ { c2 with states := T.gotoAt below A :: below :: more }
  | _, _, _, _ => .finished c (.panic .invalidAction)

inductive Phase where
  /-- top of the `'shift` loop: about to call `next_token` -/
  | pull
  /-- `'inner` loop of `parse` with lookahead `la` of index `idx` -/
  | act (la : Tok) (idx : Term)
  /-- loop of `parse_eof` -/
  | eof
  /-- `error_recovery`: the loop reducing under the error action -/
  | recReduce (la : Option (Tok × Term)) (error : PErr) (fromEof : Bool)
  /-- `error_recovery`: one iteration of `'find_state` (scan, then drop the lookahead) -/
  | recFind (la : Option (Tok × Term)) (error : PErr) (dropped : List Tok) (statesLen : Nat) (fromEof : Bool)
  | done (r : Outcome)

/-- scan `for top in (0..states_len).rev()`: `j` = how many states would be popped; returns the
    first `top` whose error action is a shift to a state that `accepts` the lookahead -/
def findState (af : Nat) (optIdx : Option Term) (statesLen : Nat) (states : List Nat) :
    Nat → Except PanicTag (Option Nat)
  | 0 => .ok none
  | k + 1 =>
    -- Rust index `top = k`; candidate stack = bottom `k+1` states
    let cand := truncBot states (k + 1)
    match cand with
    | [] => .error .recoveryIndex
    | st :: _ =>
      match T.errorActionAt st with
      | none => .error .actionIndex
      | some a =>
        match asShift a with
        | some es =>
          match accepts T af (es :: cand) optIdx with
          | .error e => .error e
          | .ok true => .ok (some k)
          | .ok false => findState af optIdx statesLen states k
        | none => findState af optIdx statesLen states k

/-- what the caller of `error_recovery` does with its answer -/
def afterRecovery (c : Cfg) (la : Option (Tok × Term)) (fromEof : Bool) : Cfg × Phase :=
  match la, fromEof with
  | some (t, i), false => (c, .act t i)
  | some _, true => (c, .done (.panic .eofFoundToken))
  | none, _ => (c, .eof)

/-- the tail of `error_recovery` once `top` is found: spans, truncation, push of the error symbol -/
def pushRecovery (startLoc : Int) (c : Cfg) (la : Option (Tok × Term)) (error : PErr) (dropped : List Tok)
    (statesLen top : Nat) (fromEof : Bool) : Cfg × Phase :=
  let start : Except PanicTag Int :=
    match getBot c.symbols top with
    | some s => .ok s.1
    | none =>
      match dropped.head? with
      | some d => .ok d.l
      | none =>
        if top > 0 then
          match getBot c.symbols (top - 1) with
          | some s => .ok s.2.2
          | none => .error .recoveryIndex
        else .ok startLoc
  match start with
  | .error e => (c, .done (.panic e))
  | .ok start =>
    let end_ : Except PanicTag Int :=
      match dropped.getLast? with
      | some d => .ok d.r
      | none =>
        if statesLen - 1 > top then
          match c.symbols.head? with
          | some s => .ok s.2.2
          | none => .error .recoveryIndex
        else match la with
          | some (t, _) => .ok t.l
          | none => .ok start
    match end_ with
    | .error e => (c, .done (.panic e))
    | .ok end_ =>
      let states' := truncBot c.states (top + 1)
      let symbols' := truncBot c.symbols top
      match states' with
      | [] => (c, .done (.panic .recoveryIndex))
      | rs :: _ =>
        match T.errorActionAt rs with
        | none => (c, .done (.panic .actionIndex))
        | some a =>
          match asShift a with
          | none => (c, .done (.panic .errorShiftUnwrap))
          | some es =>
            let c' := { c with states := es :: states',
                               symbols := (start, Tree.err error dropped, end_) :: symbols' }
            afterRecovery c' la fromEof

/-- entry of `error_recovery(opt_lookahead, opt_token_index)` -/
def enterRecovery (af : Nat) (c : Cfg) (la : Option (Tok × Term)) (fromEof : Bool) : Cfg × Phase :=
  match unrecognizedError T af c (la.map (·.1)) with
  | .error e => (c, .done (.panic e))
  | .ok pe =>
    if !T.usesRecovery then (c, .done (.err pe))
    else (c, .recReduce la pe fromEof)

/-- one step of the machine -/
def step (af : Nat) (failAt : Option Nat) (startLoc : Int) (c : Cfg) : Phase → Cfg × Phase
  | .done r => (c, .done r)
  | .pull =>
    match nextToken T af c with
    | (c', .found t i) => (c', .act t i)
    | (c', .eof) => (c', .eof)
    | (c', .done r) => (c', .done r)
  | .act la idx =>
    match c.states with
    | [] => (c, .done (.panic .emptyStates))
    | top :: _ =>
      match T.actionAt top idx with
      | none => (c, .done (.panic .actionIndex))
      | some a =>
        match asShift a with
        | some target =>
          ({ c with states := target :: c.states, symbols := (la.l, Tree.leaf la, la.r) :: c.symbols }, .pull)
        | none =>
          match asReduce a with
          | some p =>
            match reduce T failAt startLoc c p (some la.l) with
            | .continue_ c' => (c', .act la idx)
            | .finished c' (.ok _) => (c', .done (.err (.extraToken la)))
            | .finished c' r => (c', .done r)
          | none => enterRecovery T af c (some (la, idx)) false
  | .eof =>
    match c.states with
    | [] => (c, .done (.panic .emptyStates))
    | top :: _ =>
      match T.eofActionAt top with
      | none => (c, .done (.panic .actionIndex))
      | some a =>
        match asReduce a with
        | some p =>
          match reduce T failAt startLoc c p none with
          | .continue_ c' => (c', .eof)
          | .finished c' r => (c', .done r)
        | none => enterRecovery T af c none true
  | .recReduce la error fromEof =>
    match c.states with
    | [] => (c, .done (.panic .emptyStates))
    | top :: _ =>
      match T.errorActionAt top with
      | none => (c, .done (.panic .actionIndex))
      | some a =>
        match asReduce a with
        | some p =>
          match reduce T failAt startLoc c p (la.map (·.1.l)) with
          | .continue_ c' => (c', .recReduce la error fromEof)
          | .finished c' r => (c', .done r)
        | none => (c, .recFind la error [] c.states.length fromEof)
  | .recFind la error dropped statesLen fromEof =>
    match findState T af (la.map (·.2)) statesLen c.states statesLen with
    | .error e => (c, .done (.panic e))
    | .ok (some top) => pushRecovery T startLoc c la error dropped statesLen top fromEof
    | .ok none =>
      match la with
      | none => (c, .done (.err error))
      | some (t, _) =>
        let dropped' := dropped ++ [t]
        match nextToken T af c with
        | (c', .found t' i') => (c', .recFind (some (t', i')) error dropped' statesLen fromEof)
        | (c', .eof) => (c', .recFind none error dropped' statesLen fromEof)
        | (c', .done r) => (c', .done r)

def init (startLoc : Int) (input : List Item) : Cfg :=
  { states := [0], symbols := [], input := input, lastLoc := startLoc, pulled := 0, acts := 0, trace := [] }

/-- iterate `step` -/
def run (af : Nat) (failAt : Option Nat) (startLoc : Int) : Nat → Cfg → Phase → Cfg × Phase
  | 0, c, ph => (c, ph)
  | _ + 1, c, .done r => (c, .done r)
  | n + 1, c, ph =>
    let (c', ph') := step T af failAt startLoc c ph
    run af failAt startLoc n c' ph'

/-- `Parser::drive(definition, tokens)` returns `r` (for some amount of fuel) -/
def Returns (failAt : Option Nat) (startLoc : Int) (input : List Item) (c : Cfg) (r : Outcome) : Prop :=
  ∃ n af, run T af failAt startLoc n (init startLoc input) .pull = (c, .done r)

end

end LalrpopModel.LR
