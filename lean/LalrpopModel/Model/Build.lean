/-!
M-BUILD: model of the build layer of lalrpop (`lalrpop/src/build/mod.rs`):
`needs_rebuild`, `remove_old_file`, `process_file_into`, `process_dir` (C21, C22).

* File contents are byte lists.  A file carries a *stamp* (value of a global clock when it was
  created) so that "the file was rewritten" is observable.
* The generator, the hash function and the version header are parameters (`Params`).
* `process_file_into` is modelled as a decision (`plan`) that reads the state and returns an
  outcome together with the *sequence of file-system actions* the Rust code performs, in program
  order.  A complete run applies all of them; a crash (process killed, or a write failing at some
  byte) applies a `CrashPrefix` of them: any list prefix, optionally followed by a byte-prefix of
  the next write.
* `Variant` has one flag per repair made to the Rust code, so that the model of the original
  code (`Variant.old`, kept with its counterexample theorems) and of the repaired code
  (`Variant.fixed`) are the same definitions:
  `tmpRename` (output written to a temporary sibling, then renamed; `rename` is one atomic action),
  `removeFirst` (old output removed before the grammar text is loaded),
  `utf8Tolerant` (header lines that are not UTF-8 mean "rebuild" instead of an io error),
  `exactHeader` (header lines compared exactly instead of after `trim`).
  The check reads from the source which flags hold and runs the correspondence with them.
-/

namespace LalrpopModel.Build

abbrev Bytes := List UInt8

def NL : UInt8 := 10

/-! ### `BufRead::read_line`, UTF-8 validity, `str::trim` -/

/-- bytes up to and including the first `\n` (or everything), and the rest -/
def splitLine : Bytes → Bytes × Bytes
  | [] => ([], [])
  | b :: rest =>
    if b = NL then ([b], rest)
    else let (l, r) := splitLine rest; (b :: l, r)

def isCont (b : UInt8) : Bool := 0x80 ≤ b && b ≤ 0xBF

/-- strict UTF-8 validity, as `core::str::from_utf8` (no overlong forms, no surrogates, ≤ U+10FFFF) -/
def validUtf8 : Bytes → Bool
  | [] => true
  | b0 :: rest =>
    if b0 < 0x80 then validUtf8 rest
    else if 0xC2 ≤ b0 && b0 ≤ 0xDF then
      match rest with
      | b1 :: r => isCont b1 && validUtf8 r
      | _ => false
    else if 0xE0 ≤ b0 && b0 ≤ 0xEF then
      match rest with
      | b1 :: b2 :: r =>
        let ok1 := if b0 = 0xE0 then 0xA0 ≤ b1 && b1 ≤ 0xBF
                   else if b0 = 0xED then 0x80 ≤ b1 && b1 ≤ 0x9F
                   else isCont b1
        ok1 && isCont b2 && validUtf8 r
      | _ => false
    else if 0xF0 ≤ b0 && b0 ≤ 0xF4 then
      match rest with
      | b1 :: b2 :: b3 :: r =>
        let ok1 := if b0 = 0xF0 then 0x90 ≤ b1 && b1 ≤ 0xBF
                   else if b0 = 0xF4 then 0x80 ≤ b1 && b1 ≤ 0x8F
                   else isCont b1
        ok1 && isCont b2 && isCont b3 && validUtf8 r
      | _ => false
    else false

/-- UTF-8 encodings of the code points with the Unicode `White_Space` property
    (`char::is_whitespace`): U+0009–000D, 0020, 0085, 00A0, 1680, 2000–200A, 2028, 2029, 202F,
    205F, 3000 -/
def wsSeqs : List Bytes :=
  [[0x09], [0x0A], [0x0B], [0x0C], [0x0D], [0x20], [0xC2, 0x85], [0xC2, 0xA0], [0xE1, 0x9A, 0x80],
   [0xE2, 0x80, 0x80], [0xE2, 0x80, 0x81], [0xE2, 0x80, 0x82], [0xE2, 0x80, 0x83],
   [0xE2, 0x80, 0x84], [0xE2, 0x80, 0x85], [0xE2, 0x80, 0x86], [0xE2, 0x80, 0x87],
   [0xE2, 0x80, 0x88], [0xE2, 0x80, 0x89], [0xE2, 0x80, 0x8A], [0xE2, 0x80, 0xA8],
   [0xE2, 0x80, 0xA9], [0xE2, 0x80, 0xAF], [0xE2, 0x81, 0x9F], [0xE3, 0x80, 0x80]]

/-- strip one leading sequence out of `seqs`, if any -/
def stripOne (seqs : List Bytes) (bs : Bytes) : Option Bytes :=
  seqs.findSome? fun w => if w.isPrefixOf bs then some (bs.drop w.length) else none

def stripAll (seqs : List Bytes) : Nat → Bytes → Bytes
  | 0, bs => bs
  | n + 1, bs =>
    match stripOne seqs bs with
    | some bs' => stripAll seqs n bs'
    | none => bs

def trimStart (bs : Bytes) : Bytes := stripAll wsSeqs bs.length bs

/-- trailing white space: a valid UTF-8 string ends with a white-space character iff it ends with
    one of the encodings (UTF-8 is self-synchronising) -/
def trimEnd (bs : Bytes) : Bytes :=
  (stripAll (wsSeqs.map List.reverse) bs.length bs.reverse).reverse

/-- `str::trim` on (valid) UTF-8 bytes -/
def trim (bs : Bytes) : Bytes := trimEnd (trimStart bs)

/-! ### Parameters, files, state -/

/-- what the generator does for a grammar text -/
structure GenOut where
  /-- one report text per start nonterminal whose LR construction was reached
      (each is written with create/truncate + write when `emit_report` is set) -/
  reports : List Bytes
  /-- the generated body, or an error class -/
  result : Except Nat Bytes

structure Params where
  /-- `LALRPOP_VERSION_HEADER` (no newline) -/
  version : Bytes
  /-- `hash_file`: the `// sha3: …` line for the bytes of a grammar file (no newline) -/
  hash : Bytes → Bytes
  /-- parse, normalize, LR construction, code generation into a buffer -/
  gen : Bytes → GenOut

inductive Path where
  | rs (i : Nat)
  | rep (i : Nat)
  | tmp (i : Nat)
  deriving DecidableEq, Repr

structure File where
  data : Bytes
  stamp : Nat
  deriving DecidableEq, Repr

structure St where
  /-- grammar files -/
  gr : Nat → Option Bytes
  /-- generated files -/
  fs : Path → Option File
  clock : Nat
  /-- write position of the file most recently opened at a path (`create` and `openKeep` set it to
      0; `write` writes there and advances it) -/
  cur : Path → Nat := fun _ => 0

def setFs (fs : Path → Option File) (p : Path) (v : Option File) : Path → Option File :=
  fun q => if q = p then v else fs q

def St.init (gr : Nat → Option Bytes) : St := { gr := gr, fs := fun _ => none, clock := 0 }

/-! ### File-system actions -/

inductive FsAct where
  /-- `remove_old_file`: remove, a missing file is not an error -/
  | remove (p : Path)
  /-- `fs::File::create`: create or truncate -/
  | create (p : Path)
  /-- `OpenOptions::new().write(true).create(true).open(..)`: create if missing, but do NOT truncate
      an existing file: its old bytes stay until they are overwritten -/
  | openKeep (p : Path)
  /-- bytes written at the current position of an open file (overwriting what is there, extending
      the file at its end) -/
  | write (p : Path) (bs : Bytes)
  /-- `fs::rename` (atomic: it has no partial form in `CrashPrefix`) -/
  | rename (src dst : Path)
  deriving DecidableEq, Repr

def applyAct (st : St) : FsAct → St
  | .remove p => { st with fs := setFs st.fs p none }
  | .create p =>
    { st with fs := setFs st.fs p (some ⟨[], st.clock⟩), clock := st.clock + 1,
              cur := fun q => if q = p then 0 else st.cur q }
  | .openKeep p =>
    { st with fs := setFs st.fs p (some ⟨((st.fs p).map (·.data)).getD [], st.clock⟩), clock := st.clock + 1,
              cur := fun q => if q = p then 0 else st.cur q }
  | .write p bs =>
    match st.fs p with
    | some f =>
      { st with fs := setFs st.fs p (some { f with data := f.data.take (st.cur p) ++ bs ++
                                                       f.data.drop (st.cur p + bs.length) }),
                cur := fun q => if q = p then st.cur p + bs.length else st.cur q }
    | none => st
  | .rename s d => { st with fs := setFs (setFs st.fs d (st.fs s)) s none }

def applyActs (st : St) (acts : List FsAct) : St := acts.foldl applyAct st

/-- the states a crash can leave: a prefix of the actions, the last write possibly cut short -/
inductive CrashPrefix : List FsAct → List FsAct → Prop where
  | nil (acts : List FsAct) : CrashPrefix acts []
  | cons (a : FsAct) {acts cut : List FsAct} : CrashPrefix acts cut → CrashPrefix (a :: acts) (a :: cut)
  | partialWrite (p : Path) (bs : Bytes) (j : Nat) (acts : List FsAct) :
      CrashPrefix (.write p bs :: acts) [.write p (bs.take j)]

/-- executable enumeration of crash prefixes: `k` complete actions, then `j` bytes of the next
    action if it is a write -/
def crashCut : List FsAct → Nat → Nat → List FsAct
  | [], _, _ => []
  | .write p bs :: _, 0, j => [.write p (bs.take j)]
  | _ :: _, 0, _ => []
  | a :: acts, k + 1, j => a :: crashCut acts k j

/-! ### variants of the Rust code -/

structure Variant where
  /-- `process_file_into` writes `<name>.rs.tmp` and renames it to `<name>.rs` -/
  tmpRename : Bool
  /-- `remove_old_file` runs before `FileText::from_path` -/
  removeFirst : Bool
  /-- `needs_rebuild`: an `InvalidData` error of `read_line` means `Ok(true)` -/
  utf8Tolerant : Bool
  /-- `needs_rebuild`: lines compared with `version ++ "\n"` / `hash ++ "\n"` exactly (no `trim`) -/
  exactHeader : Bool
  /-- the temporary file is opened with truncation (`fs::File::create` / `.truncate(true)`); when
      `false` it is opened with `OpenOptions::new().write(true).create(true)` only, so bytes of an
      earlier, longer temporary file survive behind the new contents -/
  truncTmp : Bool := true
  deriving DecidableEq, Repr

/-- the code as found (lalrpop 0.23.1) -/
def Variant.old : Variant := ⟨false, false, false, false, true⟩
/-- the repaired code -/
def Variant.fixed : Variant := ⟨true, true, true, true, true⟩

/-! ### `needs_rebuild` -/

inductive IoErr where
  /-- `read_line` on the first two lines of the existing output: not valid UTF-8 -/
  | headerNotUtf8
  /-- `FileText::from_path`: the grammar is not valid UTF-8 -/
  | grammarNotUtf8
  /-- the grammar file does not exist -/
  | notFound
  deriving DecidableEq, Repr

/-- the part of an output after its first two lines -/
def rest2 (d : Bytes) : Bytes := (splitLine (splitLine d).2).2

/-- both header lines can be read by `read_line` -/
def headerUtf8 (d : Bytes) : Bool :=
  validUtf8 (splitLine d).1 && validUtf8 (splitLine (splitLine d).2).1

/-- what `needs_rebuild` answers when a header line cannot be read as UTF-8 -/
def unreadable (v : Variant) : Except IoErr Bool :=
  if v.utf8Tolerant then .ok true else .error .headerNotUtf8

/-- `needs_rebuild(lalrpop_file, rs_file)`; `out` is the content of the `.rs` file if it exists,
    `g` the content of the grammar file.  Only the first two lines are read. -/
def needsRebuild (v : Variant) (p : Params) (g : Bytes) : Option Bytes → Except IoErr Bool
  | none => .ok true
  | some d =>
    let (l1, r1) := splitLine d
    if !validUtf8 l1 then unreadable v else
    let (l2, _) := splitLine r1
    if !validUtf8 l2 then unreadable v else
    if v.exactHeader then .ok (l2 != p.hash g ++ [NL] || l1 != p.version ++ [NL])
    else .ok (trim l2 != p.hash g || trim l1 != p.version)

/-- `needs_rebuild` when the grammar file does not exist: `hash_file` fails after the two
    header lines were read -/
def needsRebuildMissing (v : Variant) : Option Bytes → Except IoErr Bool
  | none => .ok true
  | some d => if headerUtf8 d then .error .notFound else unreadable v

/-! ### `process_file_into` -/

structure Cfg where
  force : Bool := false
  emitReport : Bool := false

inductive Outcome where
  /-- `Ok(())`, nothing done -/
  | upToDate
  /-- `Ok(())`, output written -/
  | built
  /-- `Err`: parse / normalization / LR error (class `e`) -/
  | genErr (e : Nat)
  /-- `Err`: io error before anything was touched -/
  | ioErr (e : IoErr)
  deriving DecidableEq, Repr

/-- the three writes of the output: version line, hash line, body -/
def writeOut (dst : Path) (p : Params) (g body : Bytes) : List FsAct :=
  [.create dst, .write dst (p.version ++ [NL]), .write dst (p.hash g ++ [NL]), .write dst body]

/-- the same three writes into a file opened WITHOUT truncation -/
def writeOutKeep (dst : Path) (p : Params) (g body : Bytes) : List FsAct :=
  [.openKeep dst, .write dst (p.version ++ [NL]), .write dst (p.hash g ++ [NL]), .write dst body]

def reportActs (cfg : Cfg) (i : Nat) (reps : List Bytes) : List FsAct :=
  if cfg.emitReport then reps.flatMap fun r => [.create (.rep i), .write (.rep i) r] else []

/-- the complete output of a successful build -/
def canon (p : Params) (g body : Bytes) : Bytes :=
  p.version ++ [NL] ++ (p.hash g ++ [NL]) ++ body

/-- what is left to do when loading the grammar text fails (`FileText::from_path`) -/
def loadFailActs (v : Variant) (i : Nat) : List FsAct :=
  if v.removeFirst then [.remove (.rs i)] else []

/-- Decision part of `process_file_into` for grammar `i`: outcome and the actions, in order. -/
def plan (v : Variant) (p : Params) (cfg : Cfg) (st : St) (i : Nat) : Outcome × List FsAct :=
  let out := (st.fs (.rs i)).map (·.data)
  match st.gr i with
  | none =>
    match (if cfg.force then .ok true else needsRebuildMissing v out) with
    | .error e => (.ioErr e, [])
    | .ok false => (.upToDate, [])
    | .ok true => (.ioErr .notFound, loadFailActs v i)
  | some g =>
    match (if cfg.force then .ok true else needsRebuild v p g out) with
    | .error e => (.ioErr e, [])
    | .ok false => (.upToDate, [])
    | .ok true =>
      -- FileText::from_path (before or after remove_old_file)
      if !validUtf8 g then (.ioErr .grammarNotUtf8, loadFailActs v i) else
      let go := p.gen g
      -- remove_old_file, then parse/normalize/LR (reports are written as a side effect)
      let pre := FsAct.remove (.rs i) :: reportActs cfg i go.reports
      match go.result with
      | .error e => (.genErr e, pre)
      | .ok body =>
        if v.tmpRename then
          (.built, pre ++ ((if v.truncTmp then writeOut (.tmp i) p g body else writeOutKeep (.tmp i) p g body)
            ++ [.rename (.tmp i) (.rs i)]))
        else (.built, pre ++ writeOut (.rs i) p g body)

def build (v : Variant) (p : Params) (cfg : Cfg) (st : St) (i : Nat) : Outcome × St :=
  let r := plan v p cfg st i
  (r.1, applyActs st r.2)

def Outcome.isOk : Outcome → Bool
  | .upToDate => true
  | .built => true
  | _ => false

/-- `build::process_dir`: the files in walk order, stopping at the first error -/
def buildDir (v : Variant) (p : Params) (cfg : Cfg) : St → List Nat → List Outcome × St
  | st, [] => ([], st)
  | st, i :: is =>
    let r := build v p cfg st i
    if r.1.isOk then
      let rr := buildDir v p cfg r.2 is
      (r.1 :: rr.1, rr.2)
    else ([r.1], r.2)

/-! ### Histories (C21) -/

inductive Op where
  /-- edit a grammar: new text (also: revert to an earlier text, introduce / remove an error) -/
  | edit (i : Nat) (g : Bytes)
  /-- touch a grammar (mtime only) -/
  | touch (i : Nat)
  | build (i : Nat)
  | forcedBuild (i : Nat)
  | buildDir (ids : List Nat)
  | forcedBuildDir (ids : List Nat)
  /-- delete an output -/
  | deleteOut (i : Nat)
  /-- replace the first two lines of an output by `l1 ++ l2` (arbitrary bytes) -/
  | alterHeader (i : Nat) (l1 l2 : Bytes)
  /-- put an arbitrary (foreign) file in the place of an output -/
  | setOut (i : Nat) (d : Bytes)

/-- hand edit of a generated file (new stamp) -/
def handWrite (st : St) (q : Path) (d : Bytes) : St :=
  { st with fs := setFs st.fs q (some ⟨d, st.clock⟩), clock := st.clock + 1 }

def step (v : Variant) (p : Params) (st : St) : Op → St
  | .edit i g => { st with gr := fun j => if j = i then some g else st.gr j }
  | .touch _ => st
  | .build i => (build v p {} st i).2
  | .forcedBuild i => (build v p { force := true } st i).2
  | .buildDir ids => (buildDir v p {} st ids).2
  | .forcedBuildDir ids => (buildDir v p { force := true } st ids).2
  | .deleteOut i => { st with fs := setFs st.fs (.rs i) none }
  | .alterHeader i l1 l2 =>
    match st.fs (.rs i) with
    | some f => handWrite st (.rs i) (l1 ++ l2 ++ rest2 f.data)
    | none => st
  | .setOut i d => handWrite st (.rs i) d

def run (v : Variant) (p : Params) (st : St) (ops : List Op) : St := ops.foldl (step v p) st

end LalrpopModel.Build
