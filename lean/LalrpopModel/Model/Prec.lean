import LalrpopModel.Model.PrecSyntax
/-!
M-PREC: model of the precedence pass `lalrpop/src/normalize/precedence/mod.rs`
(`has_prec_attr`, `expand_nonterm`, `replace_symbols`, `replace_symbol`, `expand_precedence`)
and of `Validator::validate_precedence` in `lalrpop/src/normalize/prevalidate/mod.rs`.

Conventions: a Rust `panic!/unwrap/expect/assert!` is the explicit outcome `Except.error p`
(`Panic`), a `&mut` is a returned value, iterator chains are structural recursions that visit
the elements in the same order as the Rust code (so that *which* panic fires first is modelled
too).  Nothing is defaulted away.
-/
namespace LalrpopModel.Prec
open LalrpopModel.PT

/-! ### constants (`PREC_ATTR`, `LVL_ARG`, `ASSOC_ATTR`, `SIDE_ARG`) -/
def PREC_ATTR : Str := ['p','r','e','c','e','d','e','n','c','e']
def LVL_ARG : Str := ['l','e','v','e','l']
def ASSOC_ATTR : Str := ['a','s','s','o','c']
def SIDE_ARG : Str := ['s','i','d','e']

/-! ### `Assoc` and its `FromStr` -/
inductive Assoc where
  | left | right | nonAssoc | fullyAssoc
  deriving DecidableEq, Repr, Inhabited

/-- `impl FromStr for Assoc` -/
def Assoc.parse (s : Str) : Option Assoc :=
  if s = ['l','e','f','t'] then some .left
  else if s = ['r','i','g','h','t'] then some .right
  else if s = ['n','o','n','e'] then some .nonAssoc
  else if s = ['a','l','l'] then some .fullyAssoc
  else none

/-! ### `str::parse::<u32>` (core `from_str_radix(.., 10)` for an unsigned type) -/
def U32_MAX : Nat := 4294967295

def digitVal (c : Char) : Option Nat :=
  if '0' ≤ c ∧ c ≤ '9' then some (c.toNat - 48) else none

/-- digits left to right with overflow check (`checked_mul`/`checked_add`) -/
def parseDigits : List Char → Nat → Option Nat
  | [], acc => some acc
  | c :: cs, acc =>
    match digitVal c with
    | none => none
    | some d => if acc * 10 + d > U32_MAX then none else parseDigits cs (acc * 10 + d)

/-- empty ↦ error; a lone sign ↦ error; one leading `+` is skipped; `-` is an invalid digit -/
def parseU32 (s : Str) : Option Nat :=
  match s with
  | [] => none
  | [c] => if c = '+' ∨ c = '-' then none else parseDigits [c] 0
  | c :: rest => if c = '+' then parseDigits rest 0 else parseDigits (c :: rest) 0

/-- `Display for u32` -/
def showNat (n : Nat) : Str := Nat.toDigits 10 n

/-! ### panics -/
inductive Panic where
  /-- `attr.get_arg_equal().unwrap()` on `None` -/
  | argUnwrap
  /-- `val.parse::<u32>().unwrap()` -/
  | levelParse
  /-- `val.parse::<Assoc>().unwrap()` -/
  | assocParse
  /-- `lvls.last().unwrap()` on no alternatives -/
  | noLevels
  /-- `expect("unexpected associativity attribute on the first precedence level")` -/
  | firstLevelAssoc
  /-- `panic!("ambiguous id `{id}` encountered after name resolution")` -/
  | ambiguousId (id : Str)
  /-- `assert!(rest.next().is_none())` -/
  | restNotEmpty
  deriving DecidableEq, Repr, Inhabited

abbrev R := Except Panic

/-! ### `replace_symbols` / `replace_symbol` -/

/-- `Substitution` -/
inductive Subst where
  | oneThen (fst snd : Sym)
  | every (s : Sym)
  deriving Inhabited

inductive Dir where
  | forward | backward
  deriving DecidableEq, Repr, Inhabited

mutual
/-- `replace_symbol(symbol, target, subst, dir) -> Substitution` (the mutated symbol is returned too) -/
def replaceSym (dir : Dir) (target : Str) : Subst → Sym → R (Sym × Subst)
  | _, .ambiguous id => .error (.ambiguousId id)
  | subst, .nonterminal n =>
    if n = target then
      match subst with
      | .every k => .ok (k, subst)
      | .oneThen fst snd => .ok (fst, .every snd)
    else .ok (.nonterminal n, subst)
  | subst, .macro name args =>
    match dir with
    | .forward =>
      match replaceFwd dir target subst args with
      | .ok (args', s') => .ok (.macro name args', s')
      | .error p => .error p
    | .backward =>
      match replaceBwd dir target subst args with
      | .ok (args', s') => .ok (.macro name args', s')
      | .error p => .error p
  | subst, .expr syms =>
    -- `replace_symbols(&mut expr.symbols, target, subst, dir)`
    match dir with
    | .forward =>
      match replaceFwd dir target subst syms with
      | .ok (syms', s') => .ok (.expr syms', s')
      | .error p => .error p
    | .backward =>
      match replaceBwd dir target subst syms with
      | .ok (syms', s') => .ok (.expr syms', s')
      | .error p => .error p
  | subst, .repeat op s =>
    match replaceSym dir target subst s with
    | .ok (s', st) => .ok (.repeat op s', st)
    | .error p => .error p
  | subst, .choose s =>
    match replaceSym dir target subst s with
    | .ok (s', st) => .ok (.choose s', st)
    | .error p => .error p
  | subst, .name n s =>
    match replaceSym dir target subst s with
    | .ok (s', st) => .ok (.name n s', st)
    | .error p => .error p
  | subst, .tuple t s =>
    match replaceSym dir target subst s with
    | .ok (s', st) => .ok (.tuple t s', st)
    | .error p => .error p
  | subst, .terminal t => .ok (.terminal t, subst)
  | subst, .error => .ok (.error, subst)
  | subst, .lookahead => .ok (.lookahead, subst)
  | subst, .lookbehind => .ok (.lookbehind, subst)
/-- `symbols.iter_mut().fold(subst, ..)` -/
def replaceFwd (dir : Dir) (target : Str) : Subst → List Sym → R (List Sym × Subst)
  | subst, [] => .ok ([], subst)
  | subst, x :: xs =>
    match replaceSym dir target subst x with
    | .error p => .error p
    | .ok (x', s1) =>
      match replaceFwd dir target s1 xs with
      | .error p => .error p
      | .ok (xs', s2) => .ok (x' :: xs', s2)
/-- `symbols.iter_mut().rev().fold(subst, ..)`: the last element is visited first -/
def replaceBwd (dir : Dir) (target : Str) : Subst → List Sym → R (List Sym × Subst)
  | subst, [] => .ok ([], subst)
  | subst, x :: xs =>
    match replaceBwd dir target subst xs with
    | .error p => .error p
    | .ok (xs', s1) =>
      match replaceSym dir target s1 x with
      | .error p => .error p
      | .ok (x', s2) => .ok (x' :: xs', s2)
end

/-- `replace_symbols(symbols, target, subst, dir)` -/
def replaceSymbols (dir : Dir) (target : Str) (subst : Subst) (syms : List Sym) : R (List Sym × Subst) :=
  match dir with
  | .forward => replaceFwd dir target subst syms
  | .backward => replaceBwd dir target subst syms

/-- `replace_nonterm(alt, target, subst, dir)` -/
def replaceNonterm (alt : Alt) (target : Str) (subst : Subst) (dir : Dir) : R Alt :=
  match replaceSymbols dir target subst alt.expr with
  | .ok (syms, _) => .ok { alt with expr := syms }
  | .error p => .error p

/-! ### `has_prec_attr` -/
def isPrecOrAssoc (a : Attr) : Bool := a.id = PREC_ATTR ∨ a.id = ASSOC_ATTR

/-- only the first alternative is inspected -/
def hasPrecAttr (nt : Nonterm) : Bool :=
  match nt.alts with
  | [] => false
  | alt :: _ => alt.attrs.any isPrecOrAssoc

/-! ### `expand_nonterm`, first half: the level/associativity fold -/

/-- `attrs.iter().position(p).map(|i| attrs.remove(i))`: first match and the list without it -/
def removeFirst (p : Attr → Bool) : List Attr → Option (Attr × List Attr)
  | [] => none
  | a :: as =>
    if p a then some (a, as)
    else match removeFirst p as with
      | some (x, rest) => some (x, a :: rest)
      | none => none

/-- an alternative with its effective level and associativity (`alts_with_attr` entries) -/
structure Ann where
  lvl : Nat
  assoc : Assoc
  alt : Alt
  deriving Inhabited

/-- the `position(|attr| attr.id == PREC_ATTR).map(..).unwrap_or((last_lvl, last_assoc))` part:
    a precedence attribute gives a new level and resets the associativity to the default -/
def takeLevel (lastLvl : Nat) (lastAssoc : Assoc) (attrs : List Attr) : R (Nat × Assoc × List Attr) :=
  match removeFirst (fun a => a.id = PREC_ATTR) attrs with
  | some (attr, rest) =>
    match attr.getArgEqual with
    | none => .error .argUnwrap
    | some (_, val) =>
      match parseU32 val with
      | none => .error .levelParse
      | some l => .ok (l, .fullyAssoc, rest)
  | none => .ok (lastLvl, lastAssoc, attrs)

/-- the `position(|attr| attr.id == ASSOC_ATTR).map(..).unwrap_or(last_assoc)` part -/
def takeAssoc (lastAssoc : Assoc) (attrs : List Attr) : R (Assoc × List Attr) :=
  match removeFirst (fun a => a.id = ASSOC_ATTR) attrs with
  | some (attr, rest) =>
    match attr.getArgEqual with
    | none => .error .argUnwrap
    | some (_, val) =>
      match Assoc.parse val with
      | none => .error .assocParse
      | some a => .ok (a, rest)
  | none => .ok (lastAssoc, attrs)

/-- body of the fold closure: returns the annotated alternative; the new accumulator is `(lvl, assoc)` -/
def annotStep (lastLvl : Nat) (lastAssoc : Assoc) (alt : Alt) : R Ann :=
  match takeLevel lastLvl lastAssoc alt.attrs with
  | .error p => .error p
  | .ok (lvl, lastAssoc', attrs1) =>
    match takeAssoc lastAssoc' attrs1 with
    | .error p => .error p
    | .ok (assoc, attrs2) => .ok { lvl, assoc, alt := { alt with attrs := attrs2 } }

/-- `nonterm.alternatives.drain(..).fold((0, Assoc::default()), ..)` filling `alts_with_attr` -/
def annotate : Nat → Assoc → List Alt → R (List Ann)
  | _, _, [] => .ok []
  | lastLvl, lastAssoc, alt :: alts =>
    match annotStep lastLvl lastAssoc alt with
    | .error p => .error p
    | .ok a =>
      match annotate a.lvl a.assoc alts with
      | .error p => .error p
      | .ok rest => .ok (a :: rest)

/-! ### `lvls.sort_unstable(); lvls.dedup()` -/
def insertLvl (x : Nat) : List Nat → List Nat
  | [] => [x]
  | y :: ys => if x < y then x :: y :: ys else if x = y then y :: ys else y :: insertLvl x ys

def sortDedup : List Nat → List Nat
  | [] => []
  | x :: xs => insertLvl x (sortDedup xs)

/-! ### `expand_nonterm`, second half: one nonterminal per level -/

/-- name of the tier for `lvl`: the top level keeps the original name -/
def tierName (name : Str) (lvlMax lvl : Nat) : Str :=
  if lvl = lvlMax then name else name ++ showNat lvl

/-- `nonterm_prev` -/
def prevSym (name : Str) (prev : Option Nat) : Option Sym :=
  prev.map fun l => Sym.nonterminal (name ++ showNat l)

/-- the `match assoc { .. }` choosing substitution and direction; `expect(err_msg)` on `None` -/
def substFor (assoc : Assoc) (cur : Sym) (prev : Option Sym) : R (Subst × Dir) :=
  match assoc with
  | .left =>
    match prev with
    | some p => .ok (.oneThen cur p, .forward)
    | none => .error .firstLevelAssoc
  | .right =>
    match prev with
    | some p => .ok (.oneThen cur p, .backward)
    | none => .error .firstLevelAssoc
  | .nonAssoc =>
    match prev with
    | some p => .ok (.every p, .forward)
    | none => .error .firstLevelAssoc
  | .fullyAssoc => .ok (.every cur, .forward)

/-- the `for (assoc, alt) in &mut alts_with_assoc` loop -/
def substAlts (target : Str) (cur : Sym) (prev : Option Sym) : List Ann → R (List Alt)
  | [] => .ok []
  | a :: as =>
    match substFor a.assoc cur prev with
    | .error p => .error p
    | .ok (subst, dir) =>
      match replaceNonterm a.alt target subst dir with
      | .error p => .error p
      | .ok alt' =>
        match substAlts target cur prev as with
        | .error p => .error p
        | .ok rest => .ok (alt' :: rest)

/-- the alternative `→ previous level` -/
def fallthrough (prev : Option Sym) : List Alt :=
  match prev with
  | some k => [{ expr := [k], cond := none, action := none, attrs := [] }]
  | none => []

/-- one step of the `.map(|(lvl_prec_opt, lvl)| ..)` closure: builds the tier for `lvl` from the
    alternatives of `rest` at that level (`partition`), returns the tier and the new `rest` -/
def expandTier (nt : Nonterm) (lvlMax : Nat) (prev : Option Nat) (lvl : Nat) (rest : List Ann) :
    R (Nonterm × List Ann) :=
  let name := tierName nt.name lvlMax lvl
  let ntPrev := prevSym nt.name prev
  let withPrec := rest.filter (fun a => a.lvl = lvl)
  let newRest := rest.filter (fun a => ¬ a.lvl = lvl)
  match substAlts nt.name (.nonterminal name) ntPrev withPrec with
  | .error p => .error p
  | .ok alts => .ok ({ nt with name := name, alts := alts ++ fallthrough ntPrev }, newRest)

/-- iteration over the pairs `(lvls[i-1], lvls[i])` threading `rest` -/
def expandTiers (nt : Nonterm) (lvlMax : Nat) : Option Nat → List Nat → List Ann → R (List Nonterm × List Ann)
  | _, [], rest => .ok ([], rest)
  | prev, lvl :: lvls, rest =>
    match expandTier nt lvlMax prev lvl rest with
    | .error p => .error p
    | .ok (tier, rest') =>
      match expandTiers nt lvlMax (some lvl) lvls rest' with
      | .error p => .error p
      | .ok (tiers, rest'') => .ok (tier :: tiers, rest'')

/-- `expand_nonterm` -/
def expandNonterm (nt : Nonterm) : R (List Nonterm) :=
  match annotate 0 .fullyAssoc nt.alts with
  | .error p => .error p
  | .ok anns =>
    let lvls := sortDedup (anns.map (·.lvl))
    match lvls.getLast? with
    | none => .error .noLevels
    | some lvlMax =>
      match expandTiers nt lvlMax none lvls anns with
      | .error p => .error p
      | .ok (tiers, rest) => if rest.isEmpty then .ok tiers else .error .restNotEmpty

/-- `expand_precedence` after its initial `resolve` -/
def expandItems : List Item → R (List Item)
  | [] => .ok []
  | .nonterm nt :: items =>
    if hasPrecAttr nt then
      match expandNonterm nt with
      | .error p => .error p
      | .ok tiers =>
        match expandItems items with
        | .error p => .error p
        | .ok rest => .ok (tiers.map .nonterm ++ rest)
    else
      match expandItems items with
      | .error p => .error p
      | .ok rest => .ok (.nonterm nt :: rest)
  | item :: items =>
    match expandItems items with
    | .error p => .error p
    | .ok rest => .ok (item :: rest)

def expandPrecedence (g : Grammar) : R Grammar :=
  match expandItems g.items with
  | .error p => .error p
  | .ok items => .ok { g with items := items }

/-! ### `Validator::validate_precedence` -/

/-- the diagnostics of `validate_precedence`, in source order -/
inductive VErr where
  /-- "missing precedence attribute on the first alternative" -/
  | missingFirst
  /-- "could not parse the precedence level `{}`, expected integer" -/
  | levelParse (val : Str)
  /-- "invalid argument `{}` for precedence attribute, expected `level`" -/
  | precArgName (name : Str)
  /-- "missing argument for precedence attribute, expected `level`" -/
  | precNoArg
  /-- "could not parse the associativity `{}`, expected `left`, `right`, `none` or `all`" -/
  | assocParse (val : Str)
  /-- "invalid argument `{}` for associativity attribute, expected `side`" -/
  | assocArgName (name : Str)
  /-- "missing argument for associativity attribute, expected `side`" -/
  | assocNoArg
  /-- "cannot set associativity on the first precedence level {}" -/
  | assocOnFirstLevel (lvl : Nat)
  deriving DecidableEq, Repr, Inhabited

/-- loop state of the `try_for_each`: `min_lvl`, `min_prec_ann.is_some()` and (repaired validator
    only) the level the next alternative would inherit -/
structure VState where
  minLvl : Nat
  minAnn : Bool
  lastLvl : Nat
  deriving DecidableEq, Repr, Inhabited

/-- the check of the `assoc` attribute's argument -/
def validateAssocArg (attrAssoc : Option Attr) : Except VErr Unit :=
  match attrAssoc with
  | none => .ok ()
  | some a =>
    match a.getArgEqual with
    | some (name, value) =>
      if name = SIDE_ARG then
        if (Assoc.parse value).isNone then .error (.assocParse value) else .ok ()
      else .error (.assocArgName name)
    | none => .error .assocNoArg

/-- the check of the `precedence` attribute's argument and the update of `min_lvl`/`min_prec_ann`.
    `fixed = false` is the validator before the repair; `fixed = true` is the repaired one, which
    also looks at alternatives that *inherit* their level. -/
def validateLevelArg (fixed : Bool) (st : VState) (attrPrec attrAssoc : Option Attr) : Except VErr VState :=
  match attrPrec with
  | some p =>
    match p.getArgEqual with
    | some (name, value) =>
      if name = LVL_ARG then
        match parseU32 value with
        | some lvl =>
          if lvl < st.minLvl then .ok { minLvl := lvl, minAnn := attrAssoc.isSome, lastLvl := lvl }
          else if lvl = st.minLvl ∧ st.minAnn = false ∧ attrAssoc.isSome then
            .ok { st with minAnn := true, lastLvl := lvl }
          else .ok { st with lastLvl := lvl }
        | none => .error (.levelParse value)
      else .error (.precArgName name)
    | none => .error .precNoArg
  | none =>
    if fixed ∧ st.lastLvl = st.minLvl ∧ st.minAnn = false then
      .ok { st with minAnn := attrAssoc.isSome }
    else .ok st

/-- body of the `try_for_each` closure -/
def validateStep (fixed : Bool) (st : VState) (alt : Alt) : Except VErr VState :=
  let attrPrec := alt.attrs.find? (fun a => a.id = PREC_ATTR)
  let attrAssoc := alt.attrs.find? (fun a => a.id = ASSOC_ATTR)
  match validateLevelArg fixed st attrPrec attrAssoc with
  | .error e => .error e
  | .ok st' =>
    match validateAssocArg attrAssoc with
    | .error e => .error e
    | .ok () => .ok st'

def validateLoop (fixed : Bool) : VState → List Alt → Except VErr VState
  | st, [] => .ok st
  | st, alt :: alts =>
    match validateStep fixed st alt with
    | .error e => .error e
    | .ok st' => validateLoop fixed st' alts

/-- `validate_precedence(alternatives)` -/
def validatePrecedence (fixed : Bool) (alts : List Alt) : Except VErr Unit :=
  let withPrecedence := alts.any (fun alt => alt.attrs.any isPrecOrAssoc)
  if alts.isEmpty ∨ ¬ withPrecedence then .ok ()
  else
    match alts with
    | [] => .ok ()
    | first :: _ =>
      if (first.attrs.find? (fun a => a.id = PREC_ATTR)).isNone then .error .missingFirst
      else
        match validateLoop fixed { minLvl := U32_MAX, minAnn := false, lastLvl := 0 } alts with
        | .error e => .error e
        | .ok st => if st.minAnn then .error (.assocOnFirstLevel st.minLvl) else .ok ()

/-- first `validate_precedence` error over the nonterminals of a grammar, in item order -/
def validateItems (fixed : Bool) : List Item → Except VErr Unit
  | [] => .ok ()
  | .nonterm nt :: items =>
    match validatePrecedence fixed nt.alts with
    | .error e => .error e
    | .ok () => validateItems fixed items
  | _ :: items => validateItems fixed items

/-! ### the segment of `lower_helper` behind conditional compilation -/

/-- outcome that is not a grammar: a panic, or the `NormError` of the re-validation -/
inductive PassErr where
  | panic (p : Panic)
  | norm (e : VErr)
  deriving DecidableEq, Repr, Inhabited

/-- `prevalidate::validate_precedence_after_cond_comp(&grammar)?` followed by
    `precedence::expand_precedence(grammar)?` (the `resolve` in between does not touch attributes
    or the list of alternatives; the model is applied to the resolved grammar) -/
def revalidateThenExpand (g : Grammar) : Except PassErr Grammar :=
  match validateItems true g.items with
  | .error e => .error (.norm e)
  | .ok () =>
    match expandPrecedence g with
    | .error p => .error (.panic p)
    | .ok g' => .ok g'

end LalrpopModel.Prec
