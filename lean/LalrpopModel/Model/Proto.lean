/-!
Line-protocol helpers shared by the `lpm_*` drivers (not part of any theorem).
Strings travel as `x` followed by the hex of their UTF-8 bytes, so a field never contains
spaces, colons or commas.
-/
namespace LalrpopModel.Proto

def hexDigit (n : Nat) : Char :=
  if n < 10 then Char.ofNat (48 + n) else Char.ofNat (87 + n)

def hexOfBytes (bs : List UInt8) : String :=
  String.ofList (bs.flatMap fun b => [hexDigit (b.toNat / 16), hexDigit (b.toNat % 16)])

def encStr (s : String) : String := "x" ++ hexOfBytes s.toUTF8.toList

def hexVal (c : Char) : Option Nat :=
  if '0' ≤ c ∧ c ≤ '9' then some (c.toNat - 48)
  else if 'a' ≤ c ∧ c ≤ 'f' then some (c.toNat - 87)
  else none

def bytesOfHex : List Char → Option (List UInt8)
  | [] => some []
  | a :: b :: rest => do
    let x ← hexVal a
    let y ← hexVal b
    let r ← bytesOfHex rest
    pure (UInt8.ofNat (x * 16 + y) :: r)
  | _ => none

def decBytes (s : String) : Option (List UInt8) :=
  match s.toList with
  | 'x' :: rest => bytesOfHex rest
  | _ => none

def decStr (s : String) : Option String := do
  let bs ← decBytes s
  String.fromUTF8? (ByteArray.mk bs.toArray)

def words (line : String) : List String :=
  (line.trimAscii.toString.splitOn " ").filter (· ≠ "")

def fields (s : String) (sep : String := ":") : List String := s.splitOn sep

/-- read stdin line by line, print `f line` for each -/
partial def lineLoop (f : String → String) : IO Unit := do
  let stdin ← IO.getStdin
  let stdout ← IO.getStdout
  let rec go : IO Unit := do
    let line ← stdin.getLine
    if line.isEmpty then return ()
    stdout.putStrLn (f line)
    go
  go
  stdout.flush

/-- stateful variant -/
partial def lineLoopS {σ : Type} (init : σ) (f : σ → String → σ × String) : IO Unit := do
  let stdin ← IO.getStdin
  let stdout ← IO.getStdout
  let rec go (st : σ) : IO Unit := do
    let line ← stdin.getLine
    if line.isEmpty then return ()
    let (st', out) := f st line
    stdout.putStrLn out
    go st'
  go init
  stdout.flush

end LalrpopModel.Proto
