import LalrpopModel.Model.Re
/-!
M-NFA: model of the build-time NFA of lalrpop's lexer generator
(`lalrpop/src/lexer/nfa/mod.rs`: `Nfa::new`, `new_state`, `push_edge`, `expr`, `optional_expr`,
`star_expr`, `plus_expr`, `from_re`).

Representation: the Rust stores three global edge vectors plus, per state, the index of its first
edge of each kind, and enumerates "the edges of state `s`" as the contiguous run starting there
(`push_edge` asserts contiguity).  The model stores, per state, the list of its outgoing edges of
each kind in push order — which is what `edges::<L>(s)` yields; state numbering and the order of
pushes mirror the Rust exactly (the `nfa` correspondence compares per-state edge lists and the
contiguity flag of the real NFA).
-/
namespace LalrpopModel.Nfa
open LalrpopModel.Re

inductive Kind where
  | accept
  | reject
  | neither
  deriving Repr, DecidableEq

structure NState where
  kind : Kind
  noop : List Nat := []
  /-- test edges `(lo, hi, to)`: inclusive range of symbols -/
  test : List (Nat × Nat × Nat) := []
  other : List Nat := []
  deriving Repr, DecidableEq

abbrev Nfa := List NState

inductive Err where
  | namedCaptures
  | nonGreedy
  | lookAround
  | byteRegex
  deriving Repr, DecidableEq

abbrev ACCEPT : Nat := 0
abbrev REJECT : Nat := 1
abbrev START : Nat := 2

def newState (n : Nfa) : Nat × Nfa := (n.length, n ++ [{ kind := .neither }])
def pushNoop (n : Nfa) (s t : Nat) : Nfa := n.modify s fun st => { st with noop := st.noop ++ [t] }
def pushTest (n : Nfa) (s lo hi t : Nat) : Nfa :=
  n.modify s fun st => { st with test := st.test ++ [(lo, hi, t)] }
def pushOther (n : Nfa) (s t : Nat) : Nfa := n.modify s fun st => { st with other := st.other ++ [t] }

/-- `Nfa::new`: ACCEPT --other--> REJECT, REJECT --other--> REJECT, START -/
def initNfa : Nfa :=
  [{ kind := .accept, other := [REJECT] }, { kind := .reject, other := [REJECT] }, { kind := .neither }]

abbrev Build := Except Err (Nat × Nfa)

/-- one link of a literal: `s0 --c--> accept`, `s0 --other--> reject` -/
def litStep (c acc rej : Nat) (n : Nfa) : Nat × Nfa :=
  let (s0, n) := newState n
  (s0, pushOther (pushTest n s0 c c acc) s0 rej)

/-- `l.iter().rev().fold(accept, …)`: `cs` is the literal in *reverse* order -/
def litChain : List Nat → Nat → Nat → Nfa → Nat × Nfa
  | [], acc, _, n => (acc, n)
  | c :: cs, acc, rej, n =>
    let (s, n) := litStep c acc rej n
    litChain cs s rej n

/-- `optional_expr` with the sub-expression builder `f = |acc, nfa| self.expr(sub, acc, reject)` -/
def optionalWith (f : Nat → Nfa → Build) (acc : Nat) (n : Nfa) : Build := do
  let (s1, n) ← f acc n
  let (s0, n) := newState n
  pure (s0, pushNoop (pushNoop n s0 acc) s0 s1)

/-- `star_expr` -/
def starWith (f : Nat → Nfa → Build) (acc : Nat) (n : Nfa) : Build := do
  let (s0, n) := newState n
  let (s1, n) ← f s0 n
  pure (s0, pushNoop (pushNoop n s0 acc) s0 s1)

/-- `plus_expr` -/
def plusWith (f : Nat → Nfa → Build) (acc : Nat) (n : Nfa) : Build := do
  let (s1, n) := newState n
  let (s0, n) ← f s1 n
  pure (s0, pushNoop (pushNoop n s1 acc) s1 s0)

/-- `(0..k).try_fold(accept, |s, _| f(s))` -/
def repeatWith (f : Nat → Nfa → Build) : Nat → Nat → Nfa → Build
  | 0, acc, n => pure (acc, n)
  | k + 1, acc, n => do
    let (s, n) ← f acc n
    repeatWith f k s n

/-- the `Repetition` arm of `Nfa::expr`, given the builder of the sub-expression -/
def repWith (f : Nat → Nfa → Build) (min : Nat) (max : Option Nat) (acc : Nat) (n : Nfa) : Build :=
  match min, max with
  | 0, some 1 => optionalWith f acc n
  | 0, none => starWith f acc n
  | 1, none => plusWith f acc n
  | min, some max =>
    if min = max then repeatWith f max acc n
    else do
      let (s, n) ← repeatWith (optionalWith f) (max - min) acc n
      repeatWith f min s n
  | min, none => do
    let (s, n) ← starWith f acc n
    repeatWith f min s n

/-- the class arm: one state, one test edge per range (in order), then the `Other` edge -/
def clsBuild (rs : List (Nat × Nat)) (acc rej : Nat) (n : Nfa) : Nat × Nfa :=
  let (s0, n) := newState n
  let n := rs.foldl (fun n r => pushTest n s0 r.1 r.2 acc) n
  (s0, pushOther n s0 rej)

mutual
/-- `Nfa::expr(expr, accept, reject)` -/
def expr (m : LitMode) : Hir → Nat → Nat → Nfa → Build
  | .empty, acc, _, n => pure (acc, n)
  | .lit bs, acc, rej, n =>
    match litSymbols m bs with
    | none => throw .byteRegex
    | some cs => pure (litChain cs.reverse acc rej n)
  | .cls rs, acc, rej, n => pure (clsBuild rs acc rej n)
  | .look, _, _, _ => throw .lookAround
  | .cap named sub, acc, rej, n => if named then throw .namedCaptures else expr m sub acc rej n
  | .rep min max greedy sub, acc, rej, n =>
    if !greedy then throw .nonGreedy
    else repWith (fun a n => expr m sub a rej n) min max acc n
  | .cat es, acc, rej, n => exprCat m es acc rej n
  | .alt es, acc, rej, n => do
    let (s0, n) := newState n
    let (targets, n) ← exprAlts m es acc rej n
    pure (s0, targets.foldl (fun n t => pushNoop n s0 t) n)
/-- `for expr in exprs.iter().rev() { s = self.expr(expr, s, reject)? }` -/
def exprCat (m : LitMode) : List Hir → Nat → Nat → Nfa → Build
  | [], acc, _, n => pure (acc, n)
  | e :: es, acc, rej, n => do
    let (s, n) ← exprCat m es acc rej n
    expr m e s rej n
/-- `exprs.iter().map(|e| self.expr(e, accept, reject)).collect::<Result<Vec<_>, _>>()` -/
def exprAlts (m : LitMode) : List Hir → Nat → Nat → Nfa → Except Err (List Nat × Nfa)
  | [], _, _, n => pure ([], n)
  | e :: es, acc, rej, n => do
    let (t, n) ← expr m e acc rej n
    let (ts, n) ← exprAlts m es acc rej n
    pure (t :: ts, n)
end

/-- `Nfa::from_re` -/
def fromReWith (m : LitMode) (e : Hir) : Except Err Nfa := do
  let (s0, n) ← expr m e ACCEPT REJECT initNfa
  pure (pushNoop n START s0)

/-- the tree as it is now (literals decoded to scalar values) -/
def fromRe (e : Hir) : Except Err Nfa := fromReWith .chars e
/-- the code as found (literal bytes used as code points) -/
def fromReOrig (e : Hir) : Except Err Nfa := fromReWith .bytes e

/-! ### Semantics (as the DFA builder reads an NFA) -/

def kindOf (n : Nfa) (s : Nat) : Kind := (n[s]?.map (·.kind)).getD .neither
def noopOf (n : Nfa) (s : Nat) : List Nat := (n[s]?.map (·.noop)).getD []
def testOf (n : Nfa) (s : Nat) : List (Nat × Nat × Nat) := (n[s]?.map (·.test)).getD []
def otherOf (n : Nfa) (s : Nat) : List Nat := (n[s]?.map (·.other)).getD []

/-- successor of state `s` on symbol `c`: the first test edge whose range contains `c`, else the
first `Other` edge (`accept_test` at the granularity of one symbol) -/
def stepChar (n : Nfa) (s c : Nat) : Option Nat :=
  match (testOf n s).find? (fun e => e.1 ≤ c && c ≤ e.2.1) with
  | some e => some e.2.2
  | none => (otherOf n s).head?

/-- an accepting state is reachable from `s` reading `w` within `k` edge traversals -/
inductive ReachN (n : Nfa) : Nat → Nat → List Nat → Prop where
  | acc (k s) : kindOf n s = .accept → ReachN n k s []
  | eps (k s u w) : u ∈ noopOf n s → ReachN n k u w → ReachN n (k + 1) s w
  | chr (k s u c w) : stepChar n s c = some u → ReachN n k u w → ReachN n (k + 1) s (c :: w)

def Acc (n : Nfa) (s : Nat) (w : List Nat) : Prop := ∃ k, ReachN n k s w

/-- the NFA accepts `w` -/
def accepts (n : Nfa) (w : List Nat) : Prop := Acc n START w

/-! ### Executable simulation (used by the drivers) -/

/-- ε-closure of a list of states (worklist, bounded by fuel = number of states + 1 rounds) -/
def closeStates (n : Nfa) : Nat → List Nat → List Nat
  | 0, ss => ss
  | f + 1, ss =>
    let new := (ss.flatMap (noopOf n)).eraseDups.filter (fun u => !ss.contains u)
    if new.isEmpty then ss else closeStates n f (ss ++ new)

def runStates (n : Nfa) (ss : List Nat) : List Nat → List Nat
  | [] => ss
  | c :: w => runStates n (closeStates n (n.length + 1) ((ss.filterMap (stepChar n · c)).eraseDups)) w

/-- does the NFA accept `w` (set simulation)? -/
def acceptsB (n : Nfa) (w : List Nat) : Bool :=
  (runStates n (closeStates n (n.length + 1) [START]) w).any (fun s => kindOf n s == .accept)

end LalrpopModel.Nfa
