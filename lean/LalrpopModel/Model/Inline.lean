/-!
M-INLINE: model of the inlining pass of lalrpop
(`lalrpop/src/normalize/inline/mod.rs`, `inline/graph/mod.rs`) over the lowered grammar
(`grammar/repr.rs`), and of the position arithmetic of `build/action.rs:emit_inline_action_code`.

The model is generic in the type `N` of nonterminal names, `T` of terminals and `X` of opaque
payloads (types, user code, visibility); the driver instantiates them with strings/S-expressions.

Rust ↦ model:
* `Map<NonterminalString, NonterminalData>` (a BTreeMap) ↦ the list of entries in iteration order;
* `&mut` accumulators (`new_productions`, `new_action_fn_defns`, `new_symbols`,
  `inline_fallible`) ↦ arguments / returned values;
* indexing `action_fn_defns[i]` (panics when out of range) ↦ `Option` (`none` = panic);
* petgraph's `Graph::neighbors` ↦ outgoing edges in reverse order of insertion;
* the recursive `walk` ↦ a fuel loop (fuel = number of nodes + 1; `inlineOrder_no_outOfFuel`
  in Props/C14 shows that the fuel never runs out).
-/

namespace LalrpopModel.Inline

/-! ### grammar/repr.rs -/

inductive Symbol (N T : Type) where
  | nt (n : N)
  | term (t : T)
  deriving DecidableEq, Repr

structure Production (N T : Type) where
  nonterminal : N
  symbols : List (Symbol N T)
  action : Nat
  deriving DecidableEq, Repr

inductive InlinedSymbol (N T : Type) where
  | original (s : Symbol N T)
  | inlined (action : Nat) (syms : List (Symbol N T))
  deriving DecidableEq, Repr

/-- `ActionFnDefnKind`; `User` and `Lookaround` carry an opaque payload -/
inductive Kind (N T X : Type) where
  | user (payload : X)
  | inline (action : Nat) (symbols : List (InlinedSymbol N T))

structure Defn (N T X : Type) where
  fallible : Bool
  retType : X
  kind : Kind N T X

/-- one entry of `grammar.nonterminals` -/
structure NtData (N T X : Type) where
  name : N
  extra : X                -- visibility, type: untouched by the pass
  isInline : Bool          -- `attributes.iter().any(|a| a.id == "inline")`
  productions : List (Production N T)

structure Grammar (N T X : Type) where
  nonterminals : List (NtData N T X)     -- in map (= sorted) order
  actions : List (Defn N T X)

variable {N T X : Type} [DecidableEq N] [DecidableEq T]

/-- `Grammar::productions_for` (missing key ↦ empty slice) -/
def Grammar.productionsFor (g : Grammar N T X) (n : N) : List (Production N T) :=
  match g.nonterminals.find? (fun d => d.name = n) with
  | some d => d.productions
  | none => []

/-- `nonterminals.values().flat_map(|d| &d.productions)` -/
def Grammar.allProductions (g : Grammar N T X) : List (Production N T) :=
  g.nonterminals.flatMap (·.productions)

/-! ### inline/graph/mod.rs -/

inductive WalkState where
  | notVisited | visiting | visited
  deriving DecidableEq, Repr

inductive OrderErr (N : Type) where
  | cycle (nt : N)      -- "cyclic inline directive: `nt` would have to be inlined into itself"
  | outOfFuel           -- artefact of the fuel loop; never returned (`inlineOrder_no_outOfFuel`)
  deriving DecidableEq, Repr

/-- `create_nodes`: the nonterminals carrying `#[inline]`, in map order (node index = position) -/
def Grammar.inlineNames (g : Grammar N T X) : List N :=
  (g.nonterminals.filter (·.isInline)).map (·.name)

/-- the targets of the edges `add_edges` adds for one production: its nonterminal symbols that
    are nodes, in order -/
def edgeTargets (nodes : List N) (p : Production N T) : List N :=
  p.symbols.filterMap fun
    | .nt n => if n ∈ nodes then some n else none
    | .term _ => none

/-- `graph.neighbors(source)`: petgraph yields the outgoing edges of a node newest first; the
    edges of `source` were added production by production (`production.nonterminal == source`),
    symbol by symbol. Sources that are not nodes get no edges. -/
def neighbors (g : Grammar N T X) (nodes : List N) (source : N) : List N :=
  if source ∈ nodes then
    ((g.allProductions.filter (fun p => p.nonterminal = source)).flatMap (edgeTargets nodes)).reverse
  else []

structure DfsState (N : Type) where
  states : N → WalkState
  result : List N

def setState (f : N → WalkState) (n : N) (s : WalkState) : N → WalkState :=
  fun m => if m = n then s else f m

/-- `NonterminalGraph::walk` -/
def walk (adj : N → List N) : Nat → N → DfsState N → Except (OrderErr N) (DfsState N)
  | 0, _, _ => .error .outOfFuel
  | fuel + 1, source, st =>
    match st.states source with
    | .notVisited =>
      let st1 : DfsState N := { st with states := setState st.states source .visiting }
      match (adj source).foldlM (fun st target => walk adj fuel target st) st1 with
      | .error e => .error e
      | .ok st2 =>
        .ok { states := setState st2.states source .visited, result := st2.result ++ [source] }
    | .visited => .ok st
    | .visiting => .error (.cycle source)

/-- `NonterminalGraph::inline_order` (after `create_nodes`, `add_edges`) -/
def inlineOrder (g : Grammar N T X) : Except (OrderErr N) (List N) :=
  let nodes := g.inlineNames
  let adj := neighbors g nodes
  match nodes.foldlM (fun st node => walk adj (nodes.length + 1) node st)
      ({ states := fun _ => .notVisited, result := [] } : DfsState N) with
  | .error e => .error e
  | .ok st => .ok st.result

/-! ### inline/mod.rs -/

/-- the symbols an `InlinedSymbol` contributes to the new production -/
def InlinedSymbol.flat : InlinedSymbol N T → List (Symbol N T)
  | .original s => [s]
  | .inlined _ ss => ss

/-- `new_productions` and `new_action_fn_defns` -/
structure Out (N T X : Type) where
  prods : List (Production N T)
  defns : List (Defn N T X)

/-- the `for inline_production in self.inline_productions` loop; `body` gets the production and
    `fallible as u32` -/
def forProds (defs : List (Defn N T X))
    (body : Production N T → Nat → Out N T X → Option (Out N T X)) :
    List (Production N T) → Out N T X → Option (Out N T X)
  | [], out => some out
  | ip :: ips, out =>
    match defs[ip.action]? with
    | none => none                                   -- index out of bounds
    | some d =>
      match body ip (if d.fallible then 1 else 0) out with
      | none => none
      | some out' => forProds defs body ips out'

/-- `Inliner::inline(into_symbols)` with `new_symbols`, `inline_fallible` as arguments. -/
def inlineSyms (defs : List (Defn N T X)) (inl : N) (inlProds : List (Production N T))
    (into : Production N T) :
    List (Symbol N T) → List (InlinedSymbol N T) → Nat → Out N T X → Option (Out N T X)
  | [], newSyms, fall, out =>
    match defs[into.action]? with
    | none => none                                   -- index out of bounds
    | some intoDef =>
      let index := defs.length + out.defns.length
      let defn : Defn N T X :=
        { fallible := intoDef.fallible || (fall != 0)
          retType := intoDef.retType
          kind := .inline into.action newSyms }
      let prodSymbols := newSyms.flatMap InlinedSymbol.flat
      some { prods := out.prods ++ [{ nonterminal := into.nonterminal, symbols := prodSymbols, action := index }]
             defns := out.defns ++ [defn] }
  | s :: rest, newSyms, fall, out =>
    if s = .nt inl then
      forProds defs
        (fun ip f out =>
          -- push, recurse, pop; `inline_fallible += f … -= f`
          inlineSyms defs inl inlProds into rest (newSyms ++ [.inlined ip.action ip.symbols]) (fall + f) out)
        inlProds out
    else
      inlineSyms defs inl inlProds into rest (newSyms ++ [.original s]) fall out

/-- the loop over `data.productions` in `inline_nt` -/
def inlineProds (defs : List (Defn N T X)) (inl : N) (inlProds : List (Production N T)) :
    List (Production N T) → Out N T X → Option (Out N T X)
  | [], out => some out
  | p :: ps, out =>
    if ¬ (Symbol.nt inl ∈ p.symbols) then
      inlineProds defs inl inlProds ps { out with prods := out.prods ++ [p] }
    else
      match inlineSyms defs inl inlProds p p.symbols [] 0 out with
      | none => none
      | some out' => inlineProds defs inl inlProds ps out'

/-- the loop over `grammar.nonterminals.values_mut()` in `inline_nt`; `defs` grows after every
    nonterminal (`grammar.action_fn_defns.extend(new_action_fn_defns)`) -/
def inlineNts (inl : N) (inlProds : List (Production N T)) :
    List (NtData N T X) → List (Defn N T X) → Option (List (NtData N T X) × List (Defn N T X))
  | [], defs => some ([], defs)
  | d :: ds, defs =>
    match inlineProds defs inl inlProds d.productions { prods := [], defns := [] } with
    | none => none
    | some out =>
      match inlineNts inl inlProds ds (defs ++ out.defns) with
      | none => none
      | some (ds', defs') => some ({ d with productions := out.prods } :: ds', defs')

/-- `inline_nt` -/
def inlineNt (g : Grammar N T X) (inl : N) : Option (Grammar N T X) :=
  match inlineNts inl (g.productionsFor inl) g.nonterminals g.actions with
  | none => none
  | some (nts, defs) => some { nonterminals := nts, actions := defs }

inductive InlineResult (N T X : Type) where
  | ok (g : Grammar N T X)
  | error (e : OrderErr N)
  | panic

def inlineAll (g : Grammar N T X) : List N → Option (Grammar N T X)
  | [] => some g
  | n :: ns =>
    match inlineNt g n with
    | none => none
    | some g' => inlineAll g' ns

/-- `normalize::inline::inline` -/
def inlineGrammar (g : Grammar N T X) : InlineResult N T X :=
  match inlineOrder g with
  | .error e => .error e
  | .ok order =>
    match inlineAll g order with
    | none => .panic
    | some g' => .ok g'

/-! ### build/action.rs: `emit_inline_action_code`

The generated function receives the flat list of arguments `__0 … __{k-1}` (one per symbol of the
new production) and
1. for every inlined symbol computes `__start_j/__end_j` (first loop),
2. for every inlined symbol, left to right, calls the inlined action on its slice of the
   arguments (`?` after a fallible one) and wraps the result with its span (second loop),
3. calls the host action on originals/temporaries (wrapped in `Ok(..)` if needed).

`plan` is the position arithmetic shared by the three loops. -/

inductive Step where
  | orig (arg : Nat)                                   -- argument `__arg` passed through
  | inl (temp : Nat) (action : Nat) (argStart len : Nat) -- `__temp{temp} = __action{action}(__argStart … )`
  deriving DecidableEq, Repr

/-- `arg_counter` / `temp_counter` bookkeeping of the loops over `data.symbols` -/
def planFrom : Nat → Nat → List (InlinedSymbol N T) → List Step
  | _, _, [] => []
  | arg, temp, .original _ :: rest => .orig arg :: planFrom (arg + 1) temp rest
  | arg, temp, .inlined a syms :: rest =>
    .inl temp a arg syms.length :: planFrom (arg + syms.length) (temp + 1) rest

def plan (symbols : List (InlinedSymbol N T)) : List Step := planFrom 0 0 symbols

/-- `num_flat_args` -/
def numFlatArgs (symbols : List (InlinedSymbol N T)) : Nat :=
  (symbols.flatMap InlinedSymbol.flat).length

/-- where the start / end location of a temporary comes from -/
inductive LocSrc where
  | argStart (i : Nat)     -- `__i.0.clone()`
  | argEnd (i : Nat)       -- `__i.2.clone()`
  | lookbehind
  | lookahead
  deriving DecidableEq, Repr

/-- first loop: source of `__start{temp}` -/
def startSrc (numFlat argStart len : Nat) : LocSrc :=
  if len ≠ 0 then .argStart argStart
  else if argStart > 0 then .argEnd (argStart - 1)
  else if numFlat > 0 then .argStart argStart
  else .lookbehind

/-- first loop: source of `__end{temp}` -/
def endSrc (numFlat argStart len : Nat) : LocSrc :=
  if len ≠ 0 then .argEnd (argStart + len - 1)
  else if argStart < numFlat then .argStart argStart
  else if numFlat > 0 then .argEnd (numFlat - 1)
  else .lookahead

end LalrpopModel.Inline
