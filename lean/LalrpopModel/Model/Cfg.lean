import LalrpopModel.Model.PrecSyntax
/-!
M-CFG: model of conditional compilation —
`lalrpop/src/normalize/cond_comp/mod.rs` (`cfg_active`, `test_feat_attr`, `remove_disabled_decls`),
`Validator::validate_cfg_attr` in `lalrpop/src/normalize/prevalidate/mod.rs`,
the second filtering of conversions in `lower/mod.rs` (ExternToken arm), and the feature names
taken from `CARGO_FEATURE_*` in `api/mod.rs` (`Configuration::process_dir`).
-/
namespace LalrpopModel.Cfg
open LalrpopModel.PT

def CFG : Str := ['c','f','g']
def FEATURE : Str := ['f','e','a','t','u','r','e']
def NOT : Str := ['n','o','t']
def ALL : Str := ['a','l','l']
def ANY : Str := ['a','n','y']

/-- `session.features`: `None` (unset) or a set of names -/
abbrev Features := Option (List Str)

mutual
/-- `test_feat_attr(attr, session)`; the match arms are tried in source order -/
def testFeat (fs : Features) : Attr → Bool
  | .paren id attrs =>
    if id = NOT then
      -- `attrs.first().is_some_and(|attr| !test_feat_attr(attr, session))`
      testNotFirst fs attrs
    else if id = ALL then testAll fs attrs
    else if id = ANY then testAny fs attrs
    else false
  | .equal id feature =>
    if id = FEATURE then
      match fs with
      | none => false
      | some features => features.contains feature
    else false
  | .empty _ => false
def testNotFirst (fs : Features) : List Attr → Bool
  | [] => false
  | a :: _ => !testFeat fs a
/-- `attrs.iter().all(..)` -/
def testAll (fs : Features) : List Attr → Bool
  | [] => true
  | a :: as => testFeat fs a && testAll fs as
/-- `attrs.iter().any(..)` -/
def testAny (fs : Features) : List Attr → Bool
  | [] => false
  | a :: as => testFeat fs a || testAny fs as
end

/-- the closure applied to every attribute named `cfg` -/
def cfgAttrHolds (fs : Features) : Attr → Bool
  | .paren _ (a :: _) => testFeat fs a
  | _ => false

/-- `cfg_active(session, attrs)`: all attributes named `cfg` hold -/
def cfgActive (fs : Features) (attrs : List Attr) : Bool :=
  (attrs.filter (fun a => a.id = CFG)).all (cfgAttrHolds fs)

/-- `Vec::retain_mut` with a pure predicate and an update of the retained elements -/
def retainMap {α : Type} (keep : α → Bool) (upd : α → α) : List α → List α
  | [] => []
  | x :: xs => if keep x then upd x :: retainMap keep upd xs else retainMap keep upd xs

/-- the closure of `grammar.items.retain_mut(..)` -/
def itemActive (fs : Features) : Item → Bool
  | .nonterm nt => cfgActive fs nt.attrs
  | _ => true

def itemUpdate (fs : Features) : Item → Item
  | .nonterm nt => .nonterm { nt with alts := retainMap (fun alt => cfgActive fs alt.attrs) id nt.alts }
  | .externTok assoc (some (ty, convs)) =>
      .externTok assoc (some (ty, retainMap (fun c => cfgActive fs c.attrs) id convs))
  | it => it

/-- `remove_disabled_decls(session, grammar)` -/
def removeDisabled (fs : Features) (g : Grammar) : Grammar :=
  { g with items := retainMap (itemActive fs) (itemUpdate fs) g.items }

/-- the conversions `lower` keeps: `.filter(|c| cfg_active(session, &c.attributes))` -/
def lowerConversions (fs : Features) (convs : List Conv) : List Conv :=
  convs.filter (fun c => cfgActive fs c.attrs)

/-! ### `validate_cfg_attr` -/

inductive CfgErr where
  /-- "`cfg` attributes take one argument" -/
  | cfgArity
  /-- "`not` takes one argument" -/
  | notArity
  /-- "`any` takes at least one argument" -/
  | anyArity
  /-- "`all` takes at least one argument" -/
  | allArity
  /-- "expected a `not()`, `any()`, `all()` or `feature = \"my_feature\" argument" -/
  | featureShape
  /-- "unexpected `cfg` argument `{}`" -/
  | unexpected (id : Str)
  deriving DecidableEq, Repr, Inhabited

mutual
/-- `validate_cfg_arg(attr)` -/
def validateCfgArg : Attr → Except CfgErr Unit
  | .equal id _ =>
    if id = FEATURE then .ok ()
    else if id = NOT then .error .notArity
    else if id = ANY then .error .anyArity
    else if id = ALL then .error .allArity
    else .error (.unexpected id)
  | .empty id =>
    if id = FEATURE then .error .featureShape
    else if id = NOT then .error .notArity
    else if id = ANY then .error .anyArity
    else if id = ALL then .error .allArity
    else .error (.unexpected id)
  | .paren id attrs =>
    if id = FEATURE then .error .featureShape
    else if id = NOT then
      match attrs with
      | a :: _ => validateCfgArg a
      | [] => .error .notArity
    else if id = ANY then
      match attrs with
      | [] => .error .anyArity
      | a :: as => validateCfgArgs (a :: as)
    else if id = ALL then
      match attrs with
      | [] => .error .allArity
      | a :: as => validateCfgArgs (a :: as)
    else .error (.unexpected id)
/-- `for attr in attrs.iter() { validate_cfg_arg(attr)?; }` -/
def validateCfgArgs : List Attr → Except CfgErr Unit
  | [] => .ok ()
  | a :: as =>
    match validateCfgArg a with
    | .error e => .error e
    | .ok () => validateCfgArgs as
end

/-- `validate_cfg_attr(attr)` (only the first argument of `cfg(..)` is looked at) -/
def validateCfgAttr : Attr → Except CfgErr Unit
  | .paren _ (a :: _) => validateCfgArg a
  | _ => .error .cfgArity

/-! ### feature names from the environment -/

def CARGO_FEATURE_ : Str := ['C','A','R','G','O','_','F','E','A','T','U','R','E','_']

def asciiLower (c : Char) : Char :=
  if 'A' ≤ c ∧ c ≤ 'Z' then Char.ofNat (c.toNat + 32) else c

def asciiUpper (c : Char) : Char :=
  if 'a' ≤ c ∧ c ≤ 'z' then Char.ofNat (c.toNat - 32) else c

/-- `str::strip_prefix` -/
def stripPrefix : Str → Str → Option Str
  | [], s => some s
  | _ :: _, [] => none
  | p :: ps, c :: cs => if p = c then stripPrefix ps cs else none

/-- `feature_var.strip_prefix("CARGO_FEATURE_").map(|f| f.replace('_', "-").to_ascii_lowercase())` -/
def envFeature (var : Str) : Option Str :=
  (stripPrefix CARGO_FEATURE_ var).map fun f => (f.map fun c => if c = '_' then '-' else c).map asciiLower

/-- how Cargo names the variable of a feature: upper case, `-` replaced by `_` -/
def cargoVar (feature : Str) : Str :=
  CARGO_FEATURE_ ++ feature.map fun c => asciiUpper (if c = '-' then '_' else c)

end LalrpopModel.Cfg
