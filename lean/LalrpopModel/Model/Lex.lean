/-!
M-LEX: model of the built-in lexer's `Matcher::next` (`lalrpop-util/src/lexer.rs`).

The lazy DFA of `regex-automata` is abstracted by an *oracle*:
* `matchSet p` — the indices of the patterns that match the byte string `p` *exactly*
  (what `match_pattern` of the match state reports: `MatchKind::All`);
* `dead p`     — the DFA state after feeding `p` is the dead state.

The lazy DFA reports a match with a delay of one byte: the state entered by byte `i` is a match
state iff `text[..i]` is matched; a match of the whole text shows at `next_eoi_state`.  `scan`
mirrors the `'search` block with exactly that indexing.

Two versions of `next` are kept:
* `nextOrig` — the code as found in the pinned tree (only the *skip* branch checks for a
  zero-length longest match);
* `next`     — the code after the minimal fix (every zero-length longest match is an
  `InvalidToken`).  This is the version the tree now contains and the correspondence run checks.
-/
namespace LalrpopModel.Lex

structure Oracle (α : Type) where
  matchSet : List α → List Nat
  dead : List α → Bool

variable {α : Type}

/-- `is_match()` of the state whose (delayed) match is the prefix `p` -/
def Oracle.isMatch (o : Oracle α) (p : List α) : Bool := !(o.matchSet p).isEmpty

/-- The `'search` block.  `i` = loop index, `best` = `match_` so far (only the offset: the match
state's pattern set is `matchSet (text.take offset)`).
```
for (i, byte) in text.bytes().enumerate() {
    state = next_state(state, byte);
    if state.is_match() { match_ = Some((state, i)); } else if state.is_dead() { break 'search; }
}
state = next_eoi_state(state);
if state.is_match() { match_ = Some((state, text.len())); }
``` -/
def scan (o : Oracle α) (text : List α) (i : Nat) (best : Option Nat) : Option Nat :=
  if i < text.length then
    if o.isMatch (text.take i) then scan o text (i + 1) (some i)
    else if o.dead (text.take (i + 1)) then best
    else scan o text (i + 1) best
  else
    if o.isMatch (text.take i) then some i else best
termination_by text.length - i

/-- `.max()` over the pattern indices of the match state -/
def maxIdx (l : List Nat) : Nat := l.foldl max 0

/-- matcher state: remaining text and `consumed` -/
structure St (α : Type) where
  text : List α
  consumed : Nat

/-- what one call of `Iterator::next` returns -/
inductive Item (α : Type) where
  | tok (start : Nat) (index : Nat) (text : List α) (stop : Nat)   -- `Some(Ok((start, Token(index, text), stop)))`
  | invalid (location : Nat)                                       -- `Some(Err(InvalidToken { location }))`
  | eof                                                            -- `None`
  | panic                                                          -- `skip_vec[index]` out of bounds
  deriving Repr, DecidableEq

/-- state after `self.text = remaining; self.consumed = end_offset` -/
def St.advance (st : St α) (n : Nat) : St α := ⟨st.text.drop n, st.consumed + n⟩

/-- `Matcher::next` **after the fix**: any zero-length longest match is an `InvalidToken`
(checked before the skip test), so every loop iteration that continues, and every token
returned, consumes at least one byte. -/
def next (o : Oracle α) (skip : List Bool) (st : St α) : Item α × St α :=
  if st.text.isEmpty then (.eof, st)
  else
    match scan o st.text 0 none with
    | none => (.invalid st.consumed, st)
    | some len =>
      let index := maxIdx (o.matchSet (st.text.take len))
      let st' := st.advance len
      if len = 0 then (.invalid st.consumed, st')
      else
        match skip[index]? with
        | none => (.panic, st')
        | some true =>
          next o skip st'
        | some false => (.tok st.consumed index (st.text.take len) (st.consumed + len), st')
termination_by st.text.length
decreasing_by
  simp only [St.advance, List.length_drop]
  have : st.text.length ≠ 0 := by
    intro h; simp_all [List.isEmpty_iff]
  omega

/-- `Matcher::next` **as found** (unfixed): the zero-length check sits inside the skip branch. -/
def nextOrig (o : Oracle α) (skip : List Bool) (st : St α) : Item α × St α :=
  if st.text.isEmpty then (.eof, st)
  else
    match scan o st.text 0 none with
    | none => (.invalid st.consumed, st)
    | some len =>
      let index := maxIdx (o.matchSet (st.text.take len))
      let st' := st.advance len
      match skip[index]? with
      | none => (.panic, st')
      | some true =>
        if len = 0 then (.invalid st.consumed, st')
        else nextOrig o skip st'
      | some false => (.tok st.consumed index (st.text.take len) (st.consumed + len), st')
termination_by st.text.length
decreasing_by
  simp only [St.advance, List.length_drop]
  have : st.text.length ≠ 0 := by
    intro h; simp_all [List.isEmpty_iff]
  omega

/-- a returned token has consumed at least one byte (what makes `tokens` total) -/
theorem next_tok_shorter (o : Oracle α) (skip : List Bool) (st : St α) {s i : Nat} {t : List α}
    {e : Nat} {st' : St α} (h : next o skip st = (.tok s i t e, st')) :
    st'.text.length < st.text.length := by
  fun_induction next o skip st with
  | case1 => simp at h
  | case2 => simp_all
  | case3 => simp_all
  | case4 => simp_all
  | case5 st hne len hscan index st1 hlen hskip ih =>
    have := ih h
    simp only [St.advance, List.length_drop, st1] at this ⊢
    omega
  | case6 st hne len hscan index st1 hlen hskip =>
    simp only [Prod.mk.injEq] at h
    obtain ⟨_, rfl⟩ := h
    have : st.text.length ≠ 0 := by
      intro h0; simp_all [List.isEmpty_iff]
    simp only [St.advance, List.length_drop, st1]
    omega

/-- The token stream a parser sees: call `next` until `None` or the first error (the parser
stops at the first `Err`).  Total because every token consumes at least one byte. -/
def tokens (o : Oracle α) (skip : List Bool) (st : St α) : List (Item α) :=
  match _h : next o skip st with
  | (.tok s i t e, st') => .tok s i t e :: tokens o skip st'
  | (.eof, _) => []
  | (it, _) => [it]
termination_by st.text.length
decreasing_by exact next_tok_shorter o skip st _h

/-- `n` successive calls of an arbitrary `next` function (used for the unfixed code, whose
stream need not be finite) -/
def iterate (f : St α → Item α × St α) : Nat → St α → List (Item α)
  | 0, _ => []
  | n + 1, st => (f st).1 :: iterate f n (f st).2

def init (text : List α) : St α := ⟨text, 0⟩

def Item.isTok : Item α → Bool
  | .tok .. => true
  | _ => false

/-- number of loop iterations (`scan`s) performed by one call of the fixed `next` -/
def nextIters (o : Oracle α) (skip : List Bool) (st : St α) : Nat :=
  if st.text.isEmpty then 1
  else
    match scan o st.text 0 none with
    | none => 1
    | some len =>
      if len = 0 then 1
      else
        match skip[maxIdx (o.matchSet (st.text.take len))]? with
        | some true => 1 + nextIters o skip (st.advance len)
        | _ => 1
termination_by st.text.length
decreasing_by
  simp only [St.advance, List.length_drop]
  have : st.text.length ≠ 0 := by
    intro h; simp_all [List.isEmpty_iff]
  omega


end LalrpopModel.Lex
