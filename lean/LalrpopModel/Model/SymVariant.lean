/-!
M-SYMVARIANT (C19): the `__Symbol` enum of the table-driven code generator
(`lr1/codegen/parse_table.rs`: `write_value_type_defn`, `variant_name_for_symbol`, the
`__pop_VariantN` functions of `emit_downcast_fns`, and the `push` in `emit_reduce_action`).

`write_value_type_defn` walks the terminals, then the nonterminals; `custom.variants` maps a type
to its variant name; a type not seen before gets `Variant{len}` (`len` = number of variants so
far) and one enum arm `VariantN(type)`; `custom.variant_names` records the name per symbol.
Variants are identified by their number `N`.
-/
namespace LalrpopModel.SymVariant

variable {Ty : Type} [DecidableEq Ty]

/-- position of a type among the variants emitted so far (`variants.entry(ty)`: occupied?) -/
def pos (t : Ty) : List Ty → Option Nat
  | [] => none
  | v :: vs => if v = t then some 0 else (pos t vs).map (· + 1)

/-- the two loops of `write_value_type_defn` over the symbol types (terminals, then
    nonterminals), starting from the variants `vs`: the variant number per symbol and the final
    list of variants (`variants[N]` = payload type of `VariantN`) -/
def assign : List Ty → List Ty → List Nat × List Ty
  | [], vs => ([], vs)
  | t :: ts, vs =>
    match pos t vs with
    | some i => let r := assign ts vs; (i :: r.1, r.2)
    | none => let r := assign ts (vs ++ [t]); (vs.length :: r.1, r.2)

/-- `variant_name_for_symbol` for all symbols -/
def variantNames (symTys : List Ty) : List Nat := (assign symTys []).1
/-- the arms of `enum __Symbol` -/
def variants (symTys : List Ty) : List Ty := (assign symTys []).2

/-- a semantic value with its (static) type -/
structure Val (Ty : Type) where
  ty : Ty
  payload : Nat
  deriving DecidableEq

/-- `__Symbol::VariantN(v)` -/
structure Symbol (Ty : Type) where
  variant : Nat
  val : Val Ty

/-- `__symbols.push((start, __Symbol::Variant{name of symbol i}(nt), end))` -/
def push (names : List Nat) (i : Nat) (v : Val Ty) : Option (Symbol Ty) :=
  (names[i]?).map (fun n => ⟨n, v⟩)

/-- `__pop_VariantN`: `Some((l, __Symbol::VariantN(v), r)) => v`, anything else
    `__symbol_type_mismatch()` (a panic; `none`) -/
def popVariant (n : Nat) (s : Symbol Ty) : Option (Val Ty) :=
  if s.variant = n then some s.val else none

end LalrpopModel.SymVariant
