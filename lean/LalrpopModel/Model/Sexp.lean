import LalrpopModel.Model.Proto
/-!
S-expressions as printed by the `verif_hooks::sexp` module of /repo (stage dumps): atoms are bare
keywords/numbers or `x<hex>` strings, lists are parenthesised. Shared by the pass models'
drivers; parsing is driver glue, not part of any theorem.
-/
namespace LalrpopModel

inductive Sexp where
  | atom (s : String)
  | list (xs : List Sexp)
  deriving Repr, BEq, Inhabited

namespace Sexp

partial def toStr : Sexp → String
  | .atom s => s
  | .list xs => "(" ++ " ".intercalate (xs.map toStr) ++ ")"

/-- tokens: "(", ")", atoms -/
def tokenize (s : String) : List String :=
  let rec go (cs : List Char) (cur : List Char) (acc : List String) : List String :=
    match cs with
    | [] => (if cur.isEmpty then acc else String.ofList cur.reverse :: acc).reverse
    | c :: rest =>
      let flush := if cur.isEmpty then acc else String.ofList cur.reverse :: acc
      if c = '(' then go rest [] ("(" :: flush)
      else if c = ')' then go rest [] (")" :: flush)
      else if c = ' ' ∨ c = '\n' ∨ c = '\t' ∨ c = '\r' then go rest [] flush
      else go rest (c :: cur) acc
  go s.toList [] []

/-- parse one expression from a token list (stack-based, total) -/
def parseToks (toks : List String) : Option Sexp :=
  let rec go (toks : List String) (stack : List (List Sexp)) : Option Sexp :=
    match toks with
    | [] =>
      match stack with
      | [[e]] => some e
      | _ => none
    | "(" :: rest => go rest ([] :: stack)
    | ")" :: rest =>
      match stack with
      | top :: next :: more => go rest ((Sexp.list top.reverse :: next) :: more)
      | _ => none
    | a :: rest =>
      match stack with
      | top :: more => go rest ((Sexp.atom a :: top) :: more)
      | [] => none
  go toks [[]]

def parse (s : String) : Option Sexp := parseToks (tokenize s)

/-- `(tag a b c)` ↦ `some [a, b, c]` when the head atom is `tag` -/
def tagged (tag : String) : Sexp → Option (List Sexp)
  | .list (.atom t :: rest) => if t = tag then some rest else none
  | _ => none

def head? : Sexp → Option String
  | .list (.atom t :: _) => some t
  | _ => none

def str? : Sexp → Option String
  | .atom a => Proto.decStr a
  | _ => none

def mkStr (s : String) : Sexp := .atom (Proto.encStr s)
def mk (tag : String) (xs : List Sexp) : Sexp := .list (.atom tag :: xs)

end Sexp
end LalrpopModel
