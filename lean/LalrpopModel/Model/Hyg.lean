/-!
M-HYG — how LALRPOP chooses names that must not clash with the user's.

* `parse_grammar` (parser/mod.rs): the prefix starts as `__` and grows by one `_` while it still
  occurs anywhere in the grammar text (`while input.contains(&grammar.prefix) { prefix.push('_') }`).
* `LowerState::fresh_name` (normalize/lower/mod.rs): anonymous bindings are `{prefix}{i}`.
* `expand_nonterm` (normalize/precedence/mod.rs): the tier of level `lvl` of nonterminal `N` is called
  `N` for the highest level and `{N}{lvl}` otherwise — NOT prefixed.
-/
namespace LalrpopModel.Hyg

/-- `p` is a prefix of `s` -/
def isPrefix : List Char → List Char → Bool
  | [], _ => true
  | _ :: _, [] => false
  | a :: as, b :: bs => a == b && isPrefix as bs

/-- `str::contains`: `p` occurs somewhere in `s` -/
def contains : List Char → List Char → Bool
  | [], p => isPrefix p []
  | c :: cs, p => isPrefix p (c :: cs) || contains cs p

/-- the `while` loop of `parse_grammar`; fuel = an upper bound on the iterations -/
def growPrefix : Nat → List Char → List Char → List Char
  | 0, _, prefix_ => prefix_
  | fuel + 1, input, prefix_ =>
    if contains input prefix_ then growPrefix fuel input (prefix_ ++ ['_']) else prefix_

/-- `grammar.prefix` after `parse_grammar(input)` -/
def choosePrefix (input : List Char) : List Char := growPrefix (input.length + 1) input ['_', '_']

/-- decimal digits, most significant first -/
def natDigitsAux : Nat → Nat → List Char → List Char
  | 0, _, acc => acc
  | fuel + 1, n, acc =>
    let d := Char.ofNat (48 + n % 10)
    if n / 10 = 0 then d :: acc else natDigitsAux fuel (n / 10) (d :: acc)

def natDigits (n : Nat) : List Char := natDigitsAux (n + 1) n []

/-- `fresh_name(i)` = `format!("{}{}", self.prefix, i)` -/
def freshName (prefix_ : List Char) (i : Nat) : List Char := prefix_ ++ natDigits i

/-- name of the rule generated for level `lvl` of `name` when `lvlMax` is its highest level -/
def tierName (name : List Char) (lvl lvlMax : Nat) : List Char :=
  if lvl = lvlMax then name else name ++ natDigits lvl

/-- insertion into a sorted duplicate-free list (`sort_unstable` + `dedup`) -/
def insertSorted (x : Nat) : List Nat → List Nat
  | [] => [x]
  | y :: ys => if x < y then x :: y :: ys else if x = y then y :: ys else y :: insertSorted x ys

def sortDedup (l : List Nat) : List Nat := l.foldr insertSorted []

/-- the nonterminals that exist after precedence expansion: a nonterminal without precedence
    annotations keeps its name; one with levels `lvls` (one entry per alternative, in source order)
    becomes one rule per distinct level, lowest first -/
def expandNames (nts : List (List Char × List Nat)) : List (List Char) :=
  nts.flatMap fun (name, lvls) =>
    match sortDedup lvls with
    | [] => [name]
    | ls => ls.map fun l => tierName name l (ls.getLast?.getD 0)

def hasDup : List (List Char) → Bool
  | [] => false
  | x :: xs => xs.contains x || hasDup xs

end LalrpopModel.Hyg
