import LalrpopModel.Model.Build
/-!
M-PATH: model of the output path mapping of lalrpop (C23):
`build::gen_resolve_file`, `build::lalrpop_files` (walkdir, follow links, sorted by file name,
dangling links skipped), `build::process_dir/process_file`, `api::Configuration::process_dir /
process_file / verify_no_in_dir_conflict`, `Session::emit_rerun_directive`.

Paths are lists of components as produced by Rust's `Path::components()` (the harness sends the
components of the real `Path`s, so string-level normalisation is Rust's own).  File names are
byte lists (`OsStr` on unix).
-/

namespace LalrpopModel.PathM

open LalrpopModel.Build (Bytes validUtf8 wsSeqs)

abbrev Name := List UInt8

inductive Comp where
  | root
  | cur
  | parent
  | normal (n : Name)
  deriving DecidableEq, Repr

abbrev PathC := List Comp

/-! ### `std::path` operations on component lists -/

/-- `Path::parent`: everything but the last component, `None` for the empty path and for a path
    that ends in the root -/
def parent (p : PathC) : Option PathC :=
  match p.getLast? with
  | none => none
  | some .root => none
  | some _ => some p.dropLast

/-- `Path::file_name`: the last component if it is a normal one -/
def fileName (p : PathC) : Option Name :=
  match p.getLast? with
  | some (.normal n) => some n
  | _ => none

/-- `Path::strip_prefix` (component-wise) -/
def stripPrefix : PathC → PathC → Option PathC
  | p, [] => some p
  | [], _ :: _ => none
  | c :: p, b :: base => if c = b then stripPrefix p base else none

/-- `Path::join`: an absolute argument replaces the receiver -/
def join (d p : PathC) : PathC :=
  match p with
  | .root :: _ => p
  | _ => d ++ p

def DOT : UInt8 := 0x2E

/-- index of the last `.` in a name -/
def lastDot (n : Name) : Option Nat :=
  let rec go (xs : Name) (i : Nat) (best : Option Nat) : Option Nat :=
    match xs with
    | [] => best
    | x :: rest => go rest (i + 1) (if x = DOT then some i else best)
  go n 0 none

/-- `rsplit_file_at_dot`: (before, after) the last dot; a name that is `..`, has no dot, or has
    its only dot at the start has no extension -/
def rsplitDot (n : Name) : Option Name × Option Name :=
  if n = [DOT, DOT] then (some n, none)
  else match lastDot n with
    | none => (none, some n)           -- `after = Some(file)`, `before = None`
    | some 0 => (some n, none)         -- `before == Some(b"")`
    | some k => (some (n.take k), some (n.drop (k + 1)))

/-- `Path::file_stem` of a name: `before.or(after)` -/
def fileStem (n : Name) : Name :=
  match rsplitDot n with
  | (some b, _) => b
  | (none, some a) => a
  | (none, none) => n

/-- `Path::extension` of a name: `before.and(after)` -/
def extension (n : Name) : Option Name :=
  match rsplitDot n with
  | (some _, some a) => some a
  | _ => none

/-- `Path::with_extension` on a file name, as implemented by `std` (`_with_extension`): copy the
    name without its extension (the dot stays), then `set_extension`: truncate to the stem and
    append `.ext` when `ext` is not empty.  `none`: the copied prefix is `..`, which is not a file
    name any more (`set_extension` does nothing and the component now means "parent directory") —
    this happens exactly for names of the form `..<ext>`. -/
def withExtensionName (n : Name) (ext : Name) : Option Name :=
  let base := match extension n with
    | some prev => n.take (n.length - prev.length)
    | none => n
  if base = [DOT, DOT] then none
  else
    let stem := fileStem base
    some (if ext = [] then stem else stem ++ DOT :: ext)

/-- `Path::with_extension` on the last component; no effect without a file name -/
def withExtension (p : PathC) (ext : Name) : PathC :=
  match fileName p with
  | none => p
  | some n =>
    match withExtensionName n ext with
    | some n' => p.dropLast ++ [.normal n']
    | none => p.dropLast ++ [.parent]

/-- `str::contains(char::is_whitespace)` on a valid UTF-8 name -/
def containsWs (n : Name) : Bool :=
  wsSeqs.any fun w => (List.range (n.length + 1)).any fun k => w.isPrefixOf (n.drop k)

/-! ### `gen_resolve_file` -/

/-- variants of the Rust code: `stripFallback` = `gen_resolve_file` uses
    `strip_prefix(in_dir).unwrap_or("")` instead of `.ok().unwrap()` (repair of the panic of
    `process_dir` on a path that is a file) -/
structure Variant where
  stripFallback : Bool
  deriving DecidableEq, Repr

def Variant.old : Variant := ⟨false⟩
def Variant.fixed : Variant := ⟨true⟩

inductive ResolveErr where
  /-- `strip_prefix(in_dir).ok().unwrap()` panics: the file is not under `in_dir` -/
  | panicNotUnderInDir
  /-- "LALRPOP could not extract a valid file name" -/
  | noFileName
  /-- "LALRPOP file names must be valid UTF-8" -/
  | notUtf8
  /-- "LALRPOP file names cannot contain whitespace" -/
  | whitespace
  deriving DecidableEq, Repr

def SRC : Name := [0x73, 0x72, 0x63]

/-- the directory part: `rel dir minus ONE leading "src"` appended to the out dir -/
def outDirFor (v : Variant) (outDir inDir : Option PathC) (file : PathC) : Except ResolveErr PathC :=
  match outDir with
  | some d =>
    match parent file with
    | none => .ok d
    | some p =>
      match inDir with
      | none => .ok d
      | some ind =>
        match (match stripPrefix p ind with
               | some rel => some rel
               | none => if v.stripFallback then some [] else none) with
        | none => .error .panicNotUnderInDir
        | some rel =>
          let rel' := (stripPrefix rel [.normal SRC]).getD rel
          if rel' = [] then .ok d else .ok (join d rel')
  | none => .ok ((parent file).getD [.cur])

def genResolve (v : Variant) (outDir inDir : Option PathC) (file : PathC) (ext : Name) :
    Except ResolveErr PathC :=
  match outDirFor v outDir inDir file with
  | .error e => .error e
  | .ok dir =>
    match fileName file with
    | none => .error .noFileName
    | some n =>
      if !validUtf8 n then .error .notUtf8
      else if containsWs n then .error .whitespace
      else .ok (withExtension (join dir [.normal n]) ext)

def RS : Name := [0x72, 0x73]
def REPORT : Name := [0x72, 0x65, 0x70, 0x6F, 0x72, 0x74]
def LALRPOP : Name := [0x6C, 0x61, 0x6C, 0x72, 0x70, 0x6F, 0x70]

/-! ### directory walk (`lalrpop_files`) -/

/-- what the walk finds at a path, links already followed -/
inductive Node where
  /-- a regular file, or a symlink to one -/
  | file
  /-- a dangling symlink: warning, skipped -/
  | dangling
  /-- something that is neither file nor directory (fifo, socket) -/
  | other
  /-- an entry walkdir reports an error for that is not a dangling link (symlink loop, missing
      root): `lalrpop_files` returns the error -/
  | fatal
  /-- a directory, or a symlink to one -/
  | dir (entries : List (Name × Node))

/-- byte-wise lexicographic order of names (`sort_by_file_name` compares `OsStr`s) -/
def nameLt : Name → Name → Bool
  | [], [] => false
  | [], _ :: _ => true
  | _ :: _, [] => false
  | a :: as, b :: bs => a < b || (a == b && nameLt as bs)

def insertEntry (e : Name × Node) : List (Name × Node) → List (Name × Node)
  | [] => [e]
  | x :: xs => if nameLt x.1 e.1 then x :: insertEntry e xs else e :: x :: xs

mutual
/-- the tree with the entries of every directory sorted by name -/
def sortTree : Node → Node
  | .dir es => .dir (sortEntries es)
  | n => n
def sortEntries : List (Name × Node) → List (Name × Node)
  | [] => []
  | (n, c) :: es => insertEntry (n, sortTree c) (sortEntries es)
end

inductive Item where
  | file (p : PathC)
  | fatal (p : PathC)
  deriving DecidableEq, Repr

mutual
/-- depth-first walk in the given entry order; yields the regular files and the fatal errors -/
def walk : PathC → Node → List Item
  | p, .file => [.file p]
  | _, .dangling => []
  | _, .other => []
  | p, .fatal => [.fatal p]
  | p, .dir es => walkEntries p es
def walkEntries : PathC → List (Name × Node) → List Item
  | _, [] => []
  | p, (n, c) :: es => walk (p ++ [.normal n]) c ++ walkEntries p es
end

def Item.isFatal : Item → Bool
  | .fatal _ => true
  | _ => false

def hasLalrpopExt (p : PathC) : Bool :=
  match fileName p with
  | some n => extension n == some LALRPOP
  | none => false

/-- the filter of `lalrpop_files`: regular files whose extension is `lalrpop` -/
def selectLalrpop : Item → Option PathC
  | .file p => if hasLalrpopExt p then some p else none
  | .fatal _ => none

/-- `lalrpop_files(root)`: `none` when the walk reports a fatal error, else the regular files with
    extension `lalrpop` in walk order -/
def lalrpopFiles (root : PathC) (t : Node) : Option (List PathC) :=
  let items := walk root (sortTree t)
  if items.any Item.isFatal then none
  else some (items.filterMap selectLalrpop)

/-! ### processing -/

structure Session where
  inDir : Option PathC := none
  outDir : Option PathC := none
  emitRerun : Bool := false
  /-- sources that cannot even be read (missing, dangling link, a directory): `needs_rebuild` /
      `FileText::from_path` fail on them and an existing file at the output path is left alone -/
  unreadable : List PathC := []

inductive Event where
  /-- `cargo:rerun-if-changed=<path>` printed -/
  | rerun (p : PathC)
  /-- the generator ran for `src` and wrote `rs` -/
  | generate (src rs : PathC)
  /-- the build of a file failed after `remove_old_file`: whatever was at `rs` (possibly the output
      of another input that maps to the same path) is gone -/
  | removed (rs : PathC)
  deriving DecidableEq, Repr

inductive Outcome where
  | ok
  | resolveErr (e : ResolveErr)
  /-- the generator failed for this file -/
  | buildErr (p : PathC)
  /-- `"process_*()" contradicts previously set in_dir` -/
  | inDirConflict
  | missingOutDir
  | walkErr
  deriving DecidableEq, Repr

/-- `build::process_file`: resolve the `.rs` and the `.report` path, rerun directive, generate.
    `good p` tells whether generation succeeds for the grammar at `p`. -/
def processFile (v : Variant) (s : Session) (good : PathC → Bool) (file : PathC) : List Event × Outcome :=
  match genResolve v s.outDir s.inDir file RS with
  | .error e => ([], .resolveErr e)
  | .ok rs =>
    match genResolve v s.outDir s.inDir file REPORT with
    | .error e => ([], .resolveErr e)
    | .ok _ =>
      let rr := if s.emitRerun then [Event.rerun file] else []
      -- an output path that is not a file name (`..<ext>` inputs end in `..`): opening, removing or
      -- creating it fails with "Is a directory"
      if (fileName rs).isNone then (rr, .buildErr file)
      else if good file then (rr ++ [Event.generate file rs], .ok)
      else if s.unreadable.contains file then (rr, .buildErr file)
      else (rr ++ [Event.removed rs], .buildErr file)

/-- `build::process_dir`: the files in walk order, stop at the first error -/
def processFiles (v : Variant) (s : Session) (good : PathC → Bool) : List PathC → List Event × Outcome
  | [] => ([], .ok)
  | f :: fs =>
    match processFile v s good f with
    | (ev, .ok) => let r := processFiles v s good fs; (ev ++ r.1, r.2)
    | (ev, o) => (ev, o)

/-- `verify_no_in_dir_conflict` -/
def inDirConflict (s : Session) (dirPath : Option PathC) : Bool :=
  s.inDir.isSome && s.inDir != dirPath

/-- `Configuration::process_dir(path)`; `envOut` is `$OUT_DIR` -/
def apiProcessDir (v : Variant) (s : Session) (envOut : Option PathC) (good : PathC → Bool) (path : PathC) (t : Node) :
    List Event × Outcome :=
  if inDirConflict s (some path) then ([], .inDirConflict) else
  match (match s.outDir with | some d => some d | none => envOut) with
  | none => ([], .missingOutDir)
  | some out =>
    let s' := { s with inDir := some path, outDir := some out }
    match lalrpopFiles path t with
    | none => ([], .walkErr)
    | some files => processFiles v s' good files

/-- `Configuration::process()`: `process_dir(in_dir or ".")` -/
def apiProcess (v : Variant) (s : Session) (envOut : Option PathC) (good : PathC → Bool) (treeAt : PathC → Node) :
    List Event × Outcome :=
  let root := s.inDir.getD [.cur]
  apiProcessDir v s envOut good root (treeAt root)

/-- `Configuration::process_file(path)` (also what the CLI calls for every input) -/
def apiProcessFile (v : Variant) (s : Session) (good : PathC → Bool) (file : PathC) : List Event × Outcome :=
  if inDirConflict s none then ([], .inDirConflict) else processFile v s good file

end LalrpopModel.PathM
