/-!
M-TYINFER (C19): model of `lalrpop/src/normalize/tyinfer/mod.rs`
(`TypeInferencer::{infer_types, nonterminal_type, push, type_ref, alternative_type, symbol_type}`,
`maybe_tuple`, `validate_tuple`) and of `norm_util::analyze_expr`.

Types are abstract (`Ty`); the operations the pass needs are the fields of `Env`
(`tuple` = `TypeRepr::Tuple`, `subst tpl args` = an annotation with its `OfSymbol` holes filled in,
e.g. `Vec<‵X‵>` / `Option<‵X‵>` of the macro byproducts `X*`, `X+`, `X?`).  The driver
instantiates `Ty` with the printed type.

The inferencer's state survives errors (an alternative whose inference fails leaves the types it
memoised behind), so every function returns `(result, state)`.  `suppressed` is a ghost field: it
logs `(nonterminal, alternative index)` whenever the error of an alternative *without user action
code* is swallowed by `nonterminal_type` ("Don't report these errors (yet)" — they never are).

`ntType` is recursive through the grammar; it takes fuel (`outOfFuel` is an explicit error) and the
helper functions take the recursive call as a parameter `rec`.

`recheck = true` models the candidate fix (fixes/tyinfer-recheck-suppressed-alternatives.patch):
after all nonterminals are typed, every alternative of an un-annotated nonterminal whose type can
be computed is compared with the nonterminal's type.
-/
namespace LalrpopModel.TyInfer

inductive Pat where
  | name
  | tuple (ps : List Pat)
  deriving Repr, Inhabited

inductive Sym where
  | term (t : String)
  | nt (n : String)
  | choose (s : Sym)
  | named (s : Sym)
  | tupled (p : Pat) (s : Sym)
  | error
  deriving Repr, Inhabited

inductive Act where
  | default
  | user          -- `=> code` and `=>? code`
  | lookahead     -- `@L`
  | lookbehind    -- `@R`
  deriving DecidableEq, Repr, Inhabited

structure Alt where
  act : Act
  syms : List Sym
  deriving Repr, Inhabited

/-- a type annotation: a template and the symbols of its `OfSymbol` holes, left to right -/
structure TyRef (Tpl : Type) where
  tpl : Tpl
  holes : List Sym

structure Nt (Tpl : Type) where
  name : String
  decl : Option (TyRef Tpl)
  alts : List Alt

structure Grammar (Tpl : Type) where
  nts : List (Nt Tpl)

def Grammar.find {Tpl : Type} (G : Grammar Tpl) (id : String) : Option (Nt Tpl) :=
  G.nts.find? (fun n => n.name == id)

inductive Err where
  | cycle (n : String)                 -- "cannot infer type of `..` because it references itself"
  | customAction                       -- "cannot infer types if there is custom action code"
  | namedSymbols                       -- "cannot infer types in the presence of named symbols"
  | noAlternatives (n : String)
  | mismatch (n : String)              -- "type of alternative #k is .., but type of first alternative is .."
  | tupleNotNonterminal
  | tupleLength
  | tupleNotTuple
  | recheck (n : String) (alt : Nat)   -- the candidate fix's error
  | unknownNonterminal (n : String)    -- panic: `self.nonterminals[id]`
  | noLocationType                     -- panic: `opt_terminal_loc_type().unwrap()`
  | duplicateType (n : String)         -- panic: `assert!(insert(..).is_none())` in `add_type`
  | stackMismatch                      -- panic: `assert_eq!(self.stack.pop().unwrap(), *id)`
  | outOfFuel                          -- not a Rust outcome
  deriving DecidableEq, Repr, Inhabited

structure Env (Ty Tpl : Type) where
  tuple : List Ty → Ty
  /-- the components when the type is a `TypeRepr::Tuple` -/
  untuple : Ty → Option (List Ty)
  subst : Tpl → List Ty → Ty
  /-- `types.terminal_type(id)` -/
  termTy : String → Ty
  /-- `types.opt_terminal_loc_type()` -/
  locTy : Option Ty
  /-- `types.error_recovery_type()` -/
  errorTy : Ty

structure St (Ty : Type) where
  memo : List (String × Ty)
  stack : List String
  suppressed : List (String × Nat)

abbrev Res (Ty α : Type) := Except Err α × St Ty

/-- projections used to state examples with decidable equalities -/
def okOf {α : Type} : Except Err α → Option α
  | .ok a => some a
  | .error _ => none
def errOf {α : Type} : Except Err α → Option Err
  | .ok _ => none
  | .error e => some e

section
variable {Ty Tpl : Type} [DecidableEq Ty] (env : Env Ty Tpl)

def Sym.isNamed : Sym → Bool
  | .named _ => true
  | .tupled _ _ => true
  | _ => false

def Sym.chosen? : Sym → Option Sym
  | .choose s => some s
  | _ => none

inductive Chosen where
  | named
  | anon (syms : List Sym)

/-- `norm_util::analyze_expr` -/
def analyzeExpr (syms : List Sym) : Chosen :=
  if syms.any Sym.isNamed then .named
  else
    let chosen := syms.filterMap Sym.chosen?
    if !chosen.isEmpty then .anon chosen else .anon syms

/-- `maybe_tuple` -/
def maybeTuple : List Ty → Ty
  | [t] => t
  | ts => env.tuple ts

/-- `symbol_type` -/
def symType (rec : String → St Ty → Res Ty Ty) : Sym → St Ty → Res Ty Ty
  | .term t, s => (.ok (env.termTy t), s)
  | .nt n, s => rec n s
  | .choose x, s => symType rec x s
  | .named x, s => symType rec x s
  | .tupled _ x, s => symType rec x s
  | .error, s => (.ok env.errorTy, s)

/-- `.map(symbol_type).collect::<Result<_, _>>()`: stops at the first error -/
def symTypes (rec : String → St Ty → Res Ty Ty) : List Sym → St Ty → Res Ty (List Ty)
  | [], s => (.ok [], s)
  | x :: xs, s =>
    match symType env rec x s with
    | (.error e, s1) => (.error e, s1)
    | (.ok t, s1) =>
      match symTypes rec xs s1 with
      | (.error e, s2) => (.error e, s2)
      | (.ok ts, s2) => (.ok (t :: ts), s2)

/-- `alternative_type` -/
def altType (rec : String → St Ty → Res Ty Ty) (alt : Alt) (s : St Ty) : Res Ty Ty :=
  match alt.act with
  | .user => (.error .customAction, s)
  | .lookahead | .lookbehind =>
    match env.locTy with
    | some t => (.ok t, s)
    | none => (.error .noLocationType, s)
  | .default =>
    match analyzeExpr alt.syms with
    | .named => (.error .namedSymbols, s)
    | .anon syms =>
      match symTypes env rec syms s with
      | (.error e, s1) => (.error e, s1)
      | (.ok ts, s1) => (.ok (maybeTuple env ts), s1)

/-- `type_ref` (the holes are visited left to right) -/
def typeRef (rec : String → St Ty → Res Ty Ty) (r : TyRef Tpl) (s : St Ty) : Res Ty Ty :=
  match symTypes env rec r.holes s with
  | (.error e, s1) => (.error e, s1)
  | (.ok ts, s1) => (.ok (env.subst r.tpl ts), s1)

/-- the loop over the alternatives: types of those that succeed, errors of those that fail -/
def altsLoop (rec : String → St Ty → Res Ty Ty) (name : String) :
    Nat → List Alt → St Ty → (List Ty × List Err) × St Ty
  | _, [], s => (([], []), s)
  | i, a :: as, s =>
    match altType env rec a s with
    | (.ok t, s1) =>
      let r := altsLoop rec name (i + 1) as s1
      ((t :: r.1.1, r.1.2), r.2)
    | (.error e, s1) =>
      let s1' : St Ty := if a.act = .user then s1 else { s1 with suppressed := (name, i) :: s1.suppressed }
      let r := altsLoop rec name (i + 1) as s1'
      ((r.1.1, e :: r.1.2), r.2)

/-- the closure passed to `push` -/
def ntBody (rec : String → St Ty → Res Ty Ty) (nt : Nt Tpl) (s : St Ty) : Res Ty Ty :=
  match nt.decl with
  | some r => typeRef env rec r s
  | none =>
    match altsLoop env rec nt.name 0 nt.alts s with
    | (([], e :: _), s1) => (.error e, s1)
    | (([], []), s1) => (.error (.noAlternatives nt.name), s1)
    | ((t0 :: rest, _), s1) =>
      if rest.all (fun t => decide (t = t0)) then (.ok ((t0 :: rest).getLast (by simp)), s1)
      else (.error (.mismatch nt.name), s1)

mutual
/-- `validate_tuple` -/
def validatePat : Pat → Ty → Except Err Unit
  | .name, _ => .ok ()
  | .tuple ps, ty =>
    match env.untuple ty with
    | none => .error .tupleNotTuple
    | some items => if items.length ≠ ps.length then .error .tupleLength else validatePats ps items
def validatePats : List Pat → List Ty → Except Err Unit
  | p :: ps, t :: ts =>
    match validatePat p t with
    | .error e => .error e
    | .ok () => validatePats ps ts
  | _, _ => .ok ()
end

/-- the top-level `SymbolKind::Tuple` symbols of the alternatives -/
def tupleSyms (alts : List Alt) : List (Pat × Sym) :=
  alts.flatMap (fun a => a.syms.filterMap (fun | .tupled p s => some (p, s) | _ => none))

/-- the loop after `add_type` -/
def validateTuples (rec : String → St Ty → Res Ty Ty) : List (Pat × Sym) → St Ty → Res Ty Unit
  | [], s => (.ok (), s)
  | (p, .nt n) :: rest, s =>
    match rec n s with
    | (.error e, s1) => (.error e, s1)
    | (.ok ty, s1) =>
      match validatePat env p ty with
      | .error e => (.error e, s1)
      | .ok () => validateTuples rec rest s1
  | (_, _) :: _, s => (.error .tupleNotNonterminal, s)

variable (G : Grammar Tpl)

/-- `nonterminal_type` -/
def ntType : Nat → String → St Ty → Res Ty Ty
  | 0, _, s => (.error .outOfFuel, s)
  | f + 1, id, s =>
    match s.memo.lookup id with
    | some t => (.ok t, s)
    | none =>
      match G.find id with
      | none => (.error (.unknownNonterminal id), s)
      | some nt =>
        if s.stack.contains id then (.error (.cycle id), s)
        else
          let r := ntBody env (ntType f) nt { s with stack := id :: s.stack }
          match r.2.stack with
          | [] => (.error .stackMismatch, r.2)
          | top :: below =>
            if top ≠ id then (.error .stackMismatch, r.2)
            else
              let s2 : St Ty := { r.2 with stack := below }
              match r.1 with
              | .error e => (.error e, s2)
              | .ok ty =>
                match s2.memo.lookup id with
                | some _ => (.error (.duplicateType id), s2)
                | none =>
                  let s3 : St Ty := { s2 with memo := (id, ty) :: s2.memo }
                  match validateTuples env (ntType f) (tupleSyms nt.alts) s3 with
                  | (.error e, s4) => (.error e, s4)
                  | (.ok (), s4) => (.ok ty, s4)

/-- the loop of `infer_types` over `nonterminals.keys()` (`order`: the HashMap's iteration order) -/
def inferLoop (fuel : Nat) : List String → St Ty → Res Ty Unit
  | [], s => (.ok (), s)
  | id :: rest, s =>
    match ntType env G fuel id s with
    | (.error e, s1) => (.error e, s1)
    | (.ok _, s1) => inferLoop fuel rest s1

/-- candidate fix: compare every typeable alternative of an un-annotated nonterminal with its type -/
def recheckAlts (fuel : Nat) (name : String) (annotated : Bool) (ty : Ty) : Nat → List Alt → St Ty → Res Ty Unit
  | _, [], s => (.ok (), s)
  | i, a :: as, s =>
    match altType env (ntType env G fuel) a s with
    | (.ok t, s1) =>
      if !annotated && t ≠ ty then (.error (.recheck name i), s1)
      else recheckAlts fuel name annotated ty (i + 1) as s1
    | (.error _, s1) => recheckAlts fuel name annotated ty (i + 1) as s1

def recheckLoop (fuel : Nat) : List String → St Ty → Res Ty Unit
  | [], s => (.ok (), s)
  | id :: rest, s =>
    match G.find id, s.memo.lookup id with
    | some nt, some ty =>
      match recheckAlts env G fuel nt.name nt.decl.isSome ty 0 nt.alts s with
      | (.error e, s1) => (.error e, s1)
      | (.ok (), s1) => recheckLoop fuel rest s1
    | _, _ => (.error (.unknownNonterminal id), s)

def St.init : St Ty := { memo := [], stack := [], suppressed := [] }

/-- `infer_types` -/
def infer (recheck : Bool) (fuel : Nat) (order : List String) : Res Ty (List (String × Ty)) :=
  match inferLoop env G fuel order St.init with
  | (.error e, s) => (.error e, s)
  | (.ok (), s) =>
    if recheck then
      match recheckLoop env G fuel order s with
      | (.error e, s1) => (.error e, s1)
      | (.ok (), s1) => (.ok s1.memo, s1)
    else (.ok s.memo, s)

/-! ### the specification side: types of symbols and alternatives read off a finished type table -/

def symTyP (memo : List (String × Ty)) : Sym → Except Err Ty
  | .term t => .ok (env.termTy t)
  | .nt n =>
    match memo.lookup n with
    | some t => .ok t
    | none => .error (.unknownNonterminal n)
  | .choose x => symTyP memo x
  | .named x => symTyP memo x
  | .tupled _ x => symTyP memo x
  | .error => .ok env.errorTy

def symTysP (memo : List (String × Ty)) : List Sym → Except Err (List Ty)
  | [] => .ok []
  | x :: xs =>
    match symTyP env memo x with
    | .error e => .error e
    | .ok t =>
      match symTysP memo xs with
      | .error e => .error e
      | .ok ts => .ok (t :: ts)

/-- the type of the value an alternative's *default action* produces, given the nonterminal types
    `memo`: unit for no symbols, the single selected symbol's type, or the tuple of the selected
    symbols' types (`@L`/`@R`: the location type) -/
def altTyP (memo : List (String × Ty)) (alt : Alt) : Except Err Ty :=
  match alt.act with
  | .user => .error .customAction
  | .lookahead | .lookbehind =>
    match env.locTy with
    | some t => .ok t
    | none => .error .noLocationType
  | .default =>
    match analyzeExpr alt.syms with
    | .named => .error .namedSymbols
    | .anon syms =>
      match symTysP env memo syms with
      | .error e => .error e
      | .ok ts => .ok (maybeTuple env ts)

end

end LalrpopModel.TyInfer
