import LalrpopModel.Model.PrecSyntax
/-!
Driver glue (no theorem mentions this file): conversion between the S-expressions printed by
`verif_hooks::sexp::pt_grammar` and the `PT` syntax of `Model/PrecSyntax.lean`.
`encGrammar (decGrammar s)` reproduces `s` token for token on everything the hook prints.
-/
namespace LalrpopModel.PT
open LalrpopModel

def decS (s : Sexp) : Option Str := (Sexp.str? s).map String.toList
def encS (s : Str) : Sexp := Sexp.mkStr (String.ofList s)

partial def decAttr : Sexp → Option Attr
  | .list [.atom "attr", id, .list [.atom "empty"]] => do pure (.empty (← decS id))
  | .list [.atom "attr", id, .list [.atom "equal", v]] => do pure (.equal (← decS id) (← decS v))
  | .list [.atom "attr", id, .list (.atom "paren" :: as)] => do
      pure (.paren (← decS id) (← as.mapM decAttr))
  | _ => none

partial def encAttr : Attr → Sexp
  | .empty id => Sexp.mk "attr" [encS id, Sexp.mk "empty" []]
  | .equal id v => Sexp.mk "attr" [encS id, Sexp.mk "equal" [encS v]]
  | .paren id as => Sexp.mk "attr" [encS id, Sexp.mk "paren" (as.map encAttr)]

def decAttrs (s : Sexp) : Option (List Attr) := do
  let xs ← Sexp.tagged "attrs" s
  xs.mapM decAttr

def encAttrs (as : List Attr) : Sexp := Sexp.mk "attrs" (as.map encAttr)

def decOp : Sexp → Option RepeatOp
  | .atom "star" => some .star
  | .atom "plus" => some .plus
  | .atom "question" => some .question
  | _ => none

def encOp : RepeatOp → Sexp
  | .star => .atom "star"
  | .plus => .atom "plus"
  | .question => .atom "question"

partial def decSym : Sexp → Option Sym
  | .list (.atom "expr" :: ss) => do pure (.expr (← ss.mapM decSym))
  | .list [.atom "ambiguous", a] => do pure (.ambiguous (← decS a))
  | .list [.atom "terminal", t] => some (.terminal t)
  | .list [.atom "nonterminal", n] => do pure (.nonterminal (← decS n))
  | .list [.atom "macro", n, .list (.atom "args" :: as)] => do
      pure (.macro (← decS n) (← as.mapM decSym))
  | .list [.atom "repeat", op, s] => do pure (.repeat (← decOp op) (← decSym s))
  | .list [.atom "choose", s] => do pure (.choose (← decSym s))
  | .list [.atom "named", n, s] => do pure (.name n (← decSym s))
  | .list [.atom "tupled", t, s] => do pure (.tuple t (← decSym s))
  | .list [.atom "lookahead"] => some .lookahead
  | .list [.atom "lookbehind"] => some .lookbehind
  | .list [.atom "error"] => some .error
  | _ => none

partial def encSym : Sym → Sexp
  | .expr ss => Sexp.mk "expr" (ss.map encSym)
  | .ambiguous a => Sexp.mk "ambiguous" [encS a]
  | .terminal t => Sexp.mk "terminal" [t]
  | .nonterminal n => Sexp.mk "nonterminal" [encS n]
  | .macro n as => Sexp.mk "macro" [encS n, Sexp.mk "args" (as.map encSym)]
  | .repeat op s => Sexp.mk "repeat" [encOp op, encSym s]
  | .choose s => Sexp.mk "choose" [encSym s]
  | .name n s => Sexp.mk "named" [n, encSym s]
  | .tuple t s => Sexp.mk "tupled" [t, encSym s]
  | .lookahead => Sexp.mk "lookahead" []
  | .lookbehind => Sexp.mk "lookbehind" []
  | .error => Sexp.mk "error" []

def decAlt : Sexp → Option Alt
  | .list [.atom "alt", .list (.atom "expr" :: ss), c, a, attrs] => do
      let cond := match c with
        | .list [.atom "nocond"] => none
        | c => some c
      let action := match a with
        | .list [.atom "noaction"] => none
        | a => some a
      pure { expr := ← ss.mapM decSym, cond, action, attrs := ← decAttrs attrs }
  | _ => none

def encAlt (a : Alt) : Sexp :=
  Sexp.mk "alt" [Sexp.mk "expr" (a.expr.map encSym), a.cond.getD (Sexp.mk "nocond" []),
    a.action.getD (Sexp.mk "noaction" []), encAttrs a.attrs]

def decNonterm : Sexp → Option Nonterm
  | .list [.atom "nt", name, vis, attrs, .list (.atom "args" :: args), ty, .list (.atom "alts" :: alts)] => do
      pure { name := ← decS name, vis, attrs := ← decAttrs attrs, args := ← args.mapM decS,
             typeDecl := ty, alts := ← alts.mapM decAlt }
  | _ => none

def encNonterm (n : Nonterm) : Sexp :=
  Sexp.mk "nt" [encS n.name, n.vis, encAttrs n.attrs, Sexp.mk "args" (n.args.map encS), n.typeDecl,
    Sexp.mk "alts" (n.alts.map encAlt)]

def decConv : Sexp → Option Conv
  | .list [.atom "conv", src, dst, attrs] => do pure { src, dst, attrs := ← decAttrs attrs }
  | _ => none

def encConv (c : Conv) : Sexp := Sexp.mk "conv" [c.src, c.dst, encAttrs c.attrs]

def decItem (s : Sexp) : Option Item :=
  match s with
  | .list (.atom "nt" :: _) => (decNonterm s).map .nonterm
  | .list [.atom "extern", assoc, .list [.atom "noenum"]] => some (.externTok assoc none)
  | .list [.atom "extern", assoc, .list [.atom "enum", ty, .list (.atom "conversions" :: cs)]] => do
      pure (.externTok assoc (some (ty, ← cs.mapM decConv)))
  | .list (.atom "extern" :: _) => none
  | s => some (.other s)

def encItem : Item → Sexp
  | .nonterm n => encNonterm n
  | .externTok assoc none => Sexp.mk "extern" [assoc, Sexp.mk "noenum" []]
  | .externTok assoc (some (ty, cs)) =>
      Sexp.mk "extern" [assoc, Sexp.mk "enum" [ty, Sexp.mk "conversions" (cs.map encConv)]]
  | .other s => s

def decGrammar : Sexp → Option Grammar
  | .list [.atom "grammar", pre, attrs, .list (.atom "items" :: items)] => do
      pure { header := [pre, attrs], items := ← items.mapM decItem }
  | _ => none

def encGrammar (g : Grammar) : Sexp :=
  .list (.atom "grammar" :: g.header ++ [Sexp.mk "items" (g.items.map encItem)])

end LalrpopModel.PT
