/-!
M-ERR: model of `lalrpop_util::ParseError` and its helpers (`lalrpop-util/src/lib.rs`).

`map_intern` takes an `FnMut` for locations; a stateful closure can observe the order in which
the two ends of a token span are visited (start first, then end).  The model therefore threads a
state `σ` through the location function (`σ → L → LL × σ`); the pure case is `σ = Unit`.
-/

namespace LalrpopModel.Err

inductive ParseError (L T E : Type) where
  | invalidToken (location : L)
  | unrecognizedEof (location : L) (expected : List String)
  | unrecognizedToken (s : L) (t : T) (e : L) (expected : List String)
  | extraToken (s : L) (t : T) (e : L)
  | user (error : E)
  deriving Repr, DecidableEq

variable {L T E LL TT EE σ : Type}

/-- `maptok` of `map_intern`: `(loc_op(s), tok_op(t), loc_op(e))`, evaluated left to right. -/
def mapTok (locOp : σ → L → LL × σ) (tokOp : T → TT) (st : σ) (s : L) (t : T) (e : L) :
    (LL × TT × LL) × σ :=
  let (s', st1) := locOp st s
  let t' := tokOp t
  let (e', st2) := locOp st1 e
  ((s', t', e'), st2)

/-- `ParseError::map_intern` with a stateful location closure. -/
def mapIntern (locOp : σ → L → LL × σ) (tokOp : T → TT) (errOp : E → EE) (st : σ) :
    ParseError L T E → ParseError LL TT EE × σ
  | .invalidToken l => let (l', st') := locOp st l; (.invalidToken l', st')
  | .unrecognizedEof l ex => let (l', st') := locOp st l; (.unrecognizedEof l' ex, st')
  | .unrecognizedToken s t e ex =>
      let ((s', t', e'), st') := mapTok locOp tokOp st s t e
      (.unrecognizedToken s' t' e' ex, st')
  | .extraToken s t e =>
      let ((s', t', e'), st') := mapTok locOp tokOp st s t e
      (.extraToken s' t' e', st')
  | .user err => (.user (errOp err), st)

/-- `map_location` with an `FnMut` closure (state-passing). -/
def mapLocationM (op : σ → L → LL × σ) (st : σ) (e : ParseError L T E) : ParseError LL T E × σ :=
  mapIntern op id id st e

/-- `map_location` with a pure function. -/
def mapLocation (op : L → LL) (e : ParseError L T E) : ParseError LL T E :=
  (mapIntern (σ := Unit) (fun _ l => (op l, ())) id id () e).1

def mapToken (op : T → TT) (e : ParseError L T E) : ParseError L TT E :=
  (mapIntern (σ := Unit) (fun _ l => (l, ())) op id () e).1

def mapError (op : E → EE) (e : ParseError L T E) : ParseError L T EE :=
  (mapIntern (σ := Unit) (fun _ l => (l, ())) id op () e).1

def fromError (e : E) : ParseError L T E := .user e

/-! Formatting.  Output is modelled as a list of string *pieces* (the successive `write!`
arguments); the driver concatenates them.  Keeping pieces apart lets the theorems be about lists
(string literals do not reduce in the kernel). -/

/-- the loop body of `fmt_expected`: separator chosen from the index and the length -/
def sepFor (i n : Nat) : String :=
  if i = 0 then "Expected one of"
  else if i < n - 1 then ","
  else " or"

/-- `fmt_expected` as the Rust loop: `enumerate` and `write!(f, "{sep} {e}")`. -/
def fmtExpectedLoop (n : Nat) : Nat → List String → List String
  | _, [] => []
  | i, e :: es => sepFor i n :: " " :: e :: fmtExpectedLoop n (i + 1) es

def fmtExpected (expected : List String) : List String :=
  if expected.isEmpty then [] else "\n" :: fmtExpectedLoop expected.length 0 expected

/-- `Display for ParseError`, given the `Display` of the three parameters (pieces). -/
def display (showL : L → String) (showT : T → String) (showE : E → String) :
    ParseError L T E → List String
  | .user err => [showE err]
  | .invalidToken l => ["Invalid token at ", showL l]
  | .unrecognizedEof l ex => ["Unrecognized EOF found at ", showL l] ++ fmtExpected ex
  | .unrecognizedToken s t e ex =>
      ["Unrecognized token `", showT t, "` found at ", showL s, ":", showL e] ++ fmtExpected ex
  | .extraToken s t e => ["Extra token ", showT t, " found at ", showL s, ":", showL e]

def render (pieces : List String) : String := String.join pieces

end LalrpopModel.Err
