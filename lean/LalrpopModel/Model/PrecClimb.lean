/-!
Operator-precedence oracle for C12's behavioural runs (driver glue, no theorem): what the book's
tiered grammar parses for nonterminals whose levels each hold ONE kind of operator alternative
(binary left/right/none, prefix, postfix), written as the classical descent by levels —
independently of the model of `expand_nonterm`.

Level `i` (ascending looseness) with predecessor `i-1` (the atoms for the first level):
* binary `left`:  `Eᵢ → Eᵢ op Eᵢ₋₁ | Eᵢ₋₁`        * binary `right`: `Eᵢ → Eᵢ₋₁ op Eᵢ | Eᵢ₋₁`
* binary `none`:  `Eᵢ → Eᵢ₋₁ op Eᵢ₋₁ | Eᵢ₋₁`
* prefix  (`all`/`left`/`right`): `Eᵢ → op Eᵢ | Eᵢ₋₁`;   prefix `none`:  `Eᵢ → op Eᵢ₋₁ | Eᵢ₋₁`
* postfix (`all`/`left`/`right`): `Eᵢ → Eᵢ op | Eᵢ₋₁`;   postfix `none`: `Eᵢ → Eᵢ₋₁ op | Eᵢ₋₁`
Atoms: atom tokens, `( E_top )` (through a separate nonterminal) and `[ E₀ ]` (an alternative of the
lowest level itself, so its recursive occurrence stays on the lowest level).
-/
namespace LalrpopModel.Climb

inductive Kind where
  | binLeft | binRight | binNone | prefixRec | prefixNone | postfixRec | postfixNone
  deriving DecidableEq, Repr, Inhabited

structure Level where
  kind : Kind
  ops : List String
  deriving Repr, Inhabited

def isAtom (t : String) : Bool := t.startsWith "n"

/-- `lvls`: the levels from the current one down to the tightest; `top`: all levels (for parentheses).
    Returns the rendered tree and the remaining tokens. -/
def parseAt (fuel : Nat) (top : List Level) (lvls : List Level) (toks : List String) :
    Option (String × List String) :=
  match fuel with
  | 0 => none
  | fuel + 1 =>
    match lvls with
    | [] =>
      match toks with
      | [] => none
      | t :: rest =>
        if isAtom t then some (t, rest)
        else if t = "(" then
          -- `Term = "(" E ")"`: a reference from another nonterminal denotes the loosest level
          match parseAt fuel top top rest with
          | some (e, ")" :: rest') => some (e, rest')
          | _ => none
        else if t = "[" then
          -- `"[" E "]"` written as an alternative of the lowest level itself (`all`): the
          -- recursive occurrence stays on that level
          match parseAt fuel top [] rest with
          | some (e, "]" :: rest') => some (s!"[{e}]", rest')
          | _ => none
        else none
    | l :: lower =>
      match l.kind with
      | .binLeft =>
        match parseAt fuel top lower toks with
        | none => none
        | some (x, rest) => loopLeft fuel top lower l x rest
      | .binRight =>
        match parseAt fuel top lower toks with
        | none => none
        | some (x, rest) =>
          match rest with
          | op :: rest' =>
            if l.ops.contains op then
              match parseAt fuel top (l :: lower) rest' with
              | some (y, rest'') => some (s!"({x} {op} {y})", rest'')
              | none => none
            else some (x, rest)
          | [] => some (x, rest)
      | .binNone =>
        match parseAt fuel top lower toks with
        | none => none
        | some (x, rest) =>
          match rest with
          | op :: rest' =>
            if l.ops.contains op then
              match parseAt fuel top lower rest' with
              | some (y, rest'') => some (s!"({x} {op} {y})", rest'')
              | none => none
            else some (x, rest)
          | [] => some (x, rest)
      | .prefixRec =>
        match toks with
        | op :: rest =>
          if l.ops.contains op then
            match parseAt fuel top (l :: lower) rest with
            | some (e, rest') => some (s!"({op} {e})", rest')
            | none => none
          else parseAt fuel top lower toks
        | [] => none
      | .prefixNone =>
        match toks with
        | op :: rest =>
          if l.ops.contains op then
            match parseAt fuel top lower rest with
            | some (e, rest') => some (s!"({op} {e})", rest')
            | none => none
          else parseAt fuel top lower toks
        | [] => none
      | .postfixRec =>
        match parseAt fuel top lower toks with
        | none => none
        | some (x, rest) => loopPost fuel l x rest
      | .postfixNone =>
        match parseAt fuel top lower toks with
        | none => none
        | some (x, rest) =>
          match rest with
          | op :: rest' => if l.ops.contains op then some (s!"({x} {op})", rest') else some (x, rest)
          | [] => some (x, rest)
where
  loopLeft (fuel : Nat) (top lower : List Level) (l : Level) (x : String) (rest : List String) :
      Option (String × List String) :=
    match fuel with
    | 0 => none
    | fuel + 1 =>
      match rest with
      | op :: rest' =>
        if l.ops.contains op then
          match parseAt fuel top lower rest' with
          | some (y, rest'') => loopLeft fuel top lower l s!"({x} {op} {y})" rest''
          | none => none
        else some (x, rest)
      | [] => some (x, rest)
  loopPost (fuel : Nat) (l : Level) (x : String) (rest : List String) : Option (String × List String) :=
    match fuel with
    | 0 => none
    | fuel + 1 =>
      match rest with
      | op :: rest' => if l.ops.contains op then loopPost fuel l s!"({x} {op})" rest' else some (x, rest)
      | [] => some (x, rest)

/-- whole input: levels given loosest first -/
def parseAll (levelsLoosestFirst : List Level) (toks : List String) : String :=
  let fuel := 8 * (toks.length + 2) * (levelsLoosestFirst.length + 2)
  match parseAt fuel levelsLoosestFirst levelsLoosestFirst toks with
  | some (e, []) => e
  | _ => "error"

def decKind : String → Option Kind
  | "BL" => some .binLeft | "BR" => some .binRight | "BN" => some .binNone
  | "PR" => some .prefixRec | "PN" => some .prefixNone
  | "SR" => some .postfixRec | "SN" => some .postfixNone
  | _ => none

/-- `BL:+,-;PR:~` levels tightest first, ops comma separated -/
def decLevels (s : String) : Option (List Level) :=
  (s.splitOn ";").mapM fun part =>
    match part.splitOn ":" with
    | [k, ops] => (decKind k).map fun kind => { kind, ops := ops.splitOn "," }
    | _ => none

end LalrpopModel.Climb
