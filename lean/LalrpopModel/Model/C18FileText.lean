/-!
M-FILETEXT: arithmetic of `lalrpop/src/file_text.rs` (`FileText::new`, `line_col`, `line_text`,
`highlight`).  `usize` subtraction panics on underflow (debug builds) and slicing panics out of
range; both are modelled as `none` (`csub`, `get?`).  Rendering is not modelled, only the numbers
the rendering is computed from.
-/
namespace LalrpopModel.FileText

/-- `a - b` on `usize`: panics when `b > a` -/
def csub (a b : Nat) : Option Nat := if b ≤ a then some (a - b) else none

/-- offsets of the first byte of every line but the first: `i + 1` for every `\n` at index `i` -/
def nlFrom : List UInt8 → Nat → List Nat
  | [], _ => []
  | b :: bs, i => if b = 10 then (i + 1) :: nlFrom bs (i + 1) else nlFrom bs (i + 1)

/-- `FileText::new`: `Some(0).into_iter().chain(input_indices).collect()` -/
def newlines (bs : List UInt8) : List Nat := 0 :: nlFrom bs 0

/-- `(0..num_lines).filter(|&i| newlines[i] > pos).next()` -/
def firstGreater : List Nat → Nat → Nat → Option Nat
  | [], _, _ => none
  | x :: xs, pos, i => if x > pos then some i else firstGreater xs pos (i + 1)

/-- `line_col(pos)` -/
def lineCol (nl : List Nat) (pos : Nat) : Option (Nat × Nat) :=
  match (match firstGreater nl pos 0 with
         | some i => csub i 1               -- `.map(|i| i - 1)`
         | none => csub nl.length 1) with   -- `.unwrap_or(num_lines - 1)`
  | none => none
  | some line =>
    match nl[line]? with                     -- `self.newlines[line]`
    | none => none
    | some off =>
      match csub pos off with                -- `pos - line_offset`
      | none => none
      | some col => some (line, col)

/-- byte length of `line_text(n)`: the slices `[start..]` resp. `[start..end - 1]` must be in range -/
def lineLen (nl : List Nat) (len : Nat) (n : Nat) : Option Nat :=
  match nl[n]? with
  | none => none
  | some start =>
    match csub nl.length 1 with
    | none => none
    | some last =>
      if n = last then csub len start
      else
        match nl[n + 1]? with
        | none => none
        | some e =>
          match csub e 1 with
          | none => none
          | some e1 => csub e1 start

def lineLens (nl : List Nat) (len : Nat) : Nat → Nat → Option (List Nat)
  | _, 0 => some []
  | from_, k + 1 =>
    match lineLen nl len from_ with
    | none => none
    | some l =>
      match lineLens nl len (from_ + 1) k with
      | none => none
      | some ls => some (l :: ls)

/-- `iter().max()` -/
def maxOf : List Nat → Option Nat
  | [] => none
  | x :: xs => some (xs.foldl max x)

/-- every subtraction / index / `unwrap` of `highlight(span)` -/
def highlightArith (nl : List Nat) (len : Nat) (lo hi : Nat) : Option Unit :=
  match lineCol nl lo, lineCol nl hi with
  | some (sl, sc), some (el, ec) =>
    if sl = el then
      match lineLen nl len sl with
      | none => none
      | some _ =>
        match csub ec sc with                -- `end_col - start_col`
        | none => none
        | some _ => some ()
    else
      -- `(start_line..=end_line).map(|i| self.line_text(i)).collect()`, `.max().unwrap()`
      match lineLens nl len sl (el + 1 - sl) with
      | none => none
      | some lens =>
        match maxOf lens with
        | none => none
        | some maxLen =>
          match csub maxLen sc with          -- `max_len - start_col`
          | none => none
          | some _ =>
            match csub lens.length 1 with    -- `line_strs.len() - 1`
            | none => none
            | some _ => some ()
  | _, _ => none

end LalrpopModel.FileText
