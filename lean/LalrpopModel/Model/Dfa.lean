import LalrpopModel.Model.Nfa
/-!
M-DFA: model of lalrpop's build-time DFA construction
(`lalrpop/src/lexer/dfa/overlap.rs`: `remove_overlap`, `add_range`;
 `lalrpop/src/lexer/dfa/mod.rs`: `build_dfa`, `DfaBuilder::build`, `start_state`, `accept_test`,
 `accept_other`, `transitive_closure`; `kernel_set.rs`: `KernelSet::add_state/next`).

Recursion that the Rust leaves to the call stack / `while` loops is driven by explicit fuel; running
out of fuel, and the Rust `assert!`s, are explicit outcomes (`Verdict.fuel`, `Verdict.panic`).
-/
namespace LalrpopModel.Dfa
open LalrpopModel.Re LalrpopModel.Nfa

abbrev Range := Nat × Nat

/-- insertion sort (`sort()` of the Rust; the orders used are linear, so stability is immaterial).
Structural recursion, so that concrete instances reduce in the kernel. -/
def insertBy {α : Type} (le : α → α → Bool) (a : α) : List α → List α
  | [] => [a]
  | b :: l => if le a b then a :: b :: l else b :: insertBy le a l

def isort {α : Type} (le : α → α → Bool) : List α → List α
  | [] => []
  | a :: l => insertBy le a (isort le l)

/-- `RangeInclusive::is_empty` -/
def isEmpty (r : Range) : Bool := r.2 < r.1
def contains (r : Range) (c : Nat) : Bool := r.1 ≤ c && c ≤ r.2
/-- `Test::intersects` -/
def intersects (a b : Range) : Bool :=
  !isEmpty a && !isEmpty b && (contains a b.1 || contains b a.1)

/-- `Ord for Test`: by start, then end -/
def rangeLe (a b : Range) : Bool := a.1 < b.1 || (a.1 == b.1 && a.2 ≤ b.2)

inductive OErr where
  | fuel
  | assertFailed
  deriving Repr, DecidableEq

def findFromAux (p : Range → Bool) : List Range → Nat → Nat → Option Nat
  | [], _, _ => none
  | r :: rs, start, i => if start ≤ i && p r then some i else findFromAux p rs start (i + 1)

/-- index of the first element at position ≥ `start` satisfying `p`
(`v[start..].iter().position(p)` + start) -/
def findFrom (p : Range → Bool) (v : List Range) (start : Nat) : Option Nat := findFromAux p v start 0

/-- the three pieces `add_range` cuts two overlapping ranges into -/
def pieces (range o : Range) : Range × Range × Range :=
  let minMin := min range.1 o.1
  let midMin := max range.1 o.1
  let midMax := min range.2 o.2
  let maxMax := max range.2 o.2
  let low : Range := if midMin = 0 then (1, 0) else (minMin, midMin - 1)
  (low, (midMin, midMax), (midMax + 1, maxMax))

/-- `add_range` **after the fix**: the slot of the overlapping range keeps the intersection
(`mid_range`), the parts below and above are inserted recursively behind it. -/
def addRange : Nat → Range → Nat → List Range → Except OErr (List Range)
  | 0, _, _, _ => .error .fuel
  | f + 1, range, start, v =>
    if isEmpty range then .ok v
    else
      match findFrom (fun r => intersects r range) v start with
      | none => .ok (v ++ [range])
      | some index =>
        let o := v[index]?.getD (1, 0)
        if o = range then .ok v
        else
          let (low, mid, mx) := pieces range o
          if intersects low mid || intersects low mx || intersects mid mx then .error .assertFailed
          else do
            let v ← addRange f low (index + 1) (v.set index mid)
            addRange f mx (index + 1) v

/-- `add_range` **as found**: the slot of the overlapping range receives `low_range`, which can be
a piece of the *new* range and is never compared with the ranges behind it. -/
def addRangeOrig : Nat → Range → Nat → List Range → Except OErr (List Range)
  | 0, _, _, _ => .error .fuel
  | f + 1, range, start, v =>
    if isEmpty range then .ok v
    else
      match findFrom (fun r => intersects r range) v start with
      | none => .ok (v ++ [range])
      | some index =>
        let o := v[index]?.getD (1, 0)
        if o = range then .ok v
        else
          let (low, mid, mx) := pieces range o
          if intersects low mid || intersects low mx || intersects mid mx then .error .assertFailed
          else do
            let v ← addRangeOrig f mid (index + 1) (v.set index low)
            addRangeOrig f mx (index + 1) v

def addAll (add : Range → Nat → List Range → Except OErr (List Range)) :
    List Range → List Range → Except OErr (List Range)
  | [], v => .ok v
  | r :: rs, v => do
    let v ← add r 0 v
    addAll add rs v

/-- the `Set<Test>` handed to `remove_overlap`: sorted by (start, end), no duplicates -/
def asSet (rs : List Range) : List Range := (isort rangeLe rs).eraseDups

/-- `remove_overlap` (fixed `add_range`): insert every range of the set, drop empty ranges, sort -/
def removeOverlap (fuel : Nat) (ranges : List Range) : Except OErr (List Range) := do
  let v ← addAll (addRange fuel) (asSet ranges) []
  pure (isort rangeLe (v.filter (fun r => !isEmpty r)))

def removeOverlapOrig (fuel : Nat) (ranges : List Range) : Except OErr (List Range) := do
  let v ← addAll (addRangeOrig fuel) (asSet ranges) []
  pure (isort rangeLe (v.filter (fun r => !isEmpty r)))

/-! ### Subset construction -/

/-- `(nfa_index, nfa_state)` -/
abbrev Item := Nat × Nat

def itemLe (a b : Item) : Bool := a.1 < b.1 || (a.1 == b.1 && a.2 ≤ b.2)

inductive DKind where
  | accepts (nfa : Nat)
  | reject
  | neither
  deriving Repr, DecidableEq

structure DState where
  items : List Item
  kind : DKind
  tests : List (Range × Nat)
  other : Nat
  deriving Repr, DecidableEq

inductive Verdict where
  | ok (states : List DState)
  | ambiguity (match0 match1 : Nat)
  | nfaError (index : Nat) (e : Err)
  | fuel
  | panic
  deriving Repr, DecidableEq

def nfaAt (nfas : List Nfa) (i : Nat) : Nfa := nfas[i]?.getD []

/-- one round of the `while counter < items.len()` loop of `transitive_closure`: the Noop
successors of `items[counter]` not yet observed are appended -/
def closeLoop (nfas : List Nfa) : Nat → List Item → Nat → Option (List Item)
  | 0, _, _ => none
  | f + 1, items, counter =>
    match items[counter]? with
    | none => some items
    | some item =>
      let derived := (noopOf (nfaAt nfas item.1) item.2).map (fun t => (item.1, t))
      let items := derived.foldl (fun acc d => if acc.contains d then acc else acc ++ [d]) items
      closeLoop nfas f items (counter + 1)

/-- `items.sort(); items.dedup()` -/
def normItems (items : List Item) : List Item := (isort itemLe items).eraseDups

def closure (nfas : List Nfa) (fuel : Nat) (items : List Item) : Option (List Item) :=
  (closeLoop nfas fuel items 0).map normItems

/-- `accept_test`: first test edge of the item's state whose label intersects `test`, else its
first `Other` edge -/
def acceptTest (nfas : List Nfa) (item : Item) (test : Range) : Option Item :=
  let n := nfaAt nfas item.1
  match (testOf n item.2).find? (fun e => intersects (e.1, e.2.1) test) with
  | some e => some (item.1, e.2.2)
  | none => ((otherOf n item.2).head?).map (fun t => (item.1, t))

def acceptOther (nfas : List Nfa) (item : Item) : Option Item :=
  ((otherOf (nfaAt nfas item.1) item.2).head?).map (fun t => (item.1, t))

/-- `KernelSet::add_state` -/
def addState (ks : List (List Item)) (s : List Item) : Nat × List (List Item) :=
  match ks.idxOf? s with
  | some i => (i, ks)
  | none => (ks.length, ks ++ [s])

def precLe (a b : Nat × Nat) : Bool := a.1 < b.1 || (a.1 == b.1 && a.2 ≤ b.2)

/-- the `kind` computation, `Err` = the equal-precedence ambiguity -/
def stateKind (nfas : List Nfa) (precs : List Nat) (items : List Item) : Except (Nat × Nat) DKind :=
  let allAccepts := (items.filter (fun it => kindOf (nfaAt nfas it.1) it.2 == .accept)).map
    (fun it => (precs[it.1]?.getD 0, it.1))
  let allRejects := items.all (fun it => kindOf (nfaAt nfas it.1) it.2 == .reject)
  if allRejects || items.isEmpty then .ok .reject
  else
    match (isort precLe allAccepts).reverse with
    | [] => .ok .neither
    | [a] => .ok (.accepts a.2)
    | best :: next :: _ => if best.1 = next.1 then .error (best.2, next.2) else .ok (.accepts best.2)

def testEdgeLe (a b : Range × Nat) : Bool :=
  (a.1.1 < b.1.1) || (a.1.1 == b.1.1 && (a.1.2 < b.1.2 || (a.1.2 == b.1.2 && a.2 ≤ b.2)))

/-- the test edges of one state: for each test, the closure of the items accepting it -/
def testEdges (nfas : List Nfa) (fuel : Nat) (items : List Item) :
    List Range → List (List Item) → Except Verdict (List (Range × Nat) × List (List Item))
  | [], ks => .ok ([], ks)
  | t :: ts, ks =>
    let succ := items.filterMap (fun it => acceptTest nfas it t)
    if succ.isEmpty then .error .panic
    else
      match closure nfas fuel succ with
      | none => .error .fuel
      | some cl =>
        let (idx, ks) := addState ks cl
        match testEdges nfas fuel items ts ks with
        | .error e => .error e
        | .ok (edges, ks) => .ok ((t, idx) :: edges, ks)

/-- the body of the `while let Some(item_set) = kernel_set.next()` loop for one item set:
tests (`remove_overlap`), kind (may be the `Ambiguity` error), test edges, other edge -/
def processKernel (ro : List Range → Except OErr (List Range)) (nfas : List Nfa) (precs : List Nat)
    (cfuel : Nat) (items : List Item) (ks : List (List Item)) : Except Verdict (DState × List (List Item)) :=
  let labels := items.flatMap (fun it => (testOf (nfaAt nfas it.1) it.2).map (fun e => (e.1, e.2.1)))
  match ro labels with
  | .error .fuel => .error .fuel
  | .error .assertFailed => .error .panic
  | .ok tests =>
    match stateKind nfas precs items with
    | .error (m0, m1) => .error (.ambiguity m0 m1)
    | .ok kind =>
      match testEdges nfas cfuel items tests ks with
      | .error v => .error v
      | .ok (edges, ks) =>
        let others := items.filterMap (acceptOther nfas)
        if !items.isEmpty && others.isEmpty then .error .panic
        else
          match closure nfas cfuel others with
          | none => .error .fuel
          | some cl =>
            let (oidx, ks) := addState ks cl
            .ok ({ items := items, kind := kind, tests := isort testEdgeLe edges, other := oidx }, ks)

/-- the `while let Some(item_set) = kernel_set.next()` loop: `i` = number of kernels processed -/
def buildLoop (ro : List Range → Except OErr (List Range)) (nfas : List Nfa) (precs : List Nat)
    (cfuel : Nat) : Nat → List (List Item) → Nat → List DState → Verdict
  | 0, _, _, _ => .fuel
  | f + 1, ks, i, out =>
    match ks[i]? with
    | none => .ok out
    | some items =>
      match processKernel ro nfas precs cfuel items ks with
      | .error v => v
      | .ok (st, ks) => buildLoop ro nfas precs cfuel f ks (i + 1) (out ++ [st])

/-- `DfaBuilder::build` on already-built NFAs (`ro` = the `remove_overlap` in use) -/
def buildWith (ro : List Range → Except OErr (List Range)) (nfas : List Nfa) (precs : List Nat)
    (fuel : Nat) : Verdict :=
  let start := (List.range nfas.length).map (fun i => (i, START))
  match closure nfas fuel start with
  | none => .fuel
  | some s0 => buildLoop ro nfas precs fuel fuel [s0] 0 []

def build (nfas : List Nfa) (precs : List Nat) (fuel : Nat) : Verdict :=
  buildWith (removeOverlap fuel) nfas precs fuel

def buildNfas (m : LitMode) : List Hir → Nat → Except (Nat × Err) (List Nfa)
  | [], _ => .ok []
  | e :: es, i =>
    match fromReWith m e with
    | .error err => .error (i, err)
    | .ok n =>
      match buildNfas m es (i + 1) with
      | .error x => .error x
      | .ok ns => .ok (n :: ns)

/-- `build_dfa(regexs, precedences)` -/
def buildDfaWith (m : LitMode) (res : List Hir) (precs : List Nat) (fuel : Nat) : Verdict :=
  match buildNfas m res 0 with
  | .error (i, e) => .nfaError i e
  | .ok nfas => build nfas precs fuel

/-- the tree as it is now: literals decoded, fixed `add_range` -/
def buildDfa (res : List Hir) (precs : List Nat) (fuel : Nat) : Verdict := buildDfaWith .chars res precs fuel

/-- the code as found: literal bytes as code points, unfixed `add_range` -/
def buildDfaOrig (res : List Hir) (precs : List Nat) (fuel : Nat) : Verdict :=
  match buildNfas .bytes res 0 with
  | .error (i, e) => .nfaError i e
  | .ok nfas => buildWith (removeOverlapOrig fuel) nfas precs fuel

end LalrpopModel.Dfa
