import LalrpopModel.Model.Inline
/-!
M-LOWER: model of the action-function part of the lowering pass of lalrpop
(`lalrpop/src/normalize/lower/mod.rs`: `LowerState::action_fn`, `action_kind`, `symbol`,
`patterns`, `fresh_name`, the order in which action functions are created), of
`lalrpop/src/normalize/norm_util.rs` (`analyze_expr`, `check_between_braces`), and — second
half of the file — of the `@L`/`@R` machinery: `macro_expand::expand_lookaround_symbol`, the
lookaround action functions of `lower`, and the start/end selection of
`build/action.rs:emit_inline_action_code` (built on `Inline.plan/startSrc/endSrc`).

Rust ↦ model
* `String`/`Atom` ↦ `List Char` (`Str`); `str::matches("<>").count()`, `str::replace("<>", s)`,
  `str::replacen("<>", s, 1)`, `str::find("<>")`, `str::trim` ↦ recursive functions on `List Char`
  (`"<>"` has no self-overlap, so "leftmost, non-overlapping" is a left-to-right scan);
* `pt::Symbol` after macro expansion ↦ `Sym B` (`B` = opaque payload of a terminal/nonterminal);
  kinds that `LowerState::symbol` declares unreachable ↦ `Sym.unexpanded` (outcome `panic`);
* the iterator state of `patterns` (`next_chosen` + rest of `chosen`) ↦ a list whose head is
  `next_chosen`; the trailing `debug_assert!(next_chosen.is_none())` ↦ outcome `assertFailed`;
* `anon_symbols.first().unwrap()` on the "multiple `<>`" error path ↦ outcome `panic`
  (reachable: an empty alternative whose action has two `<>`);
* `&mut self.action_fn_defns` ↦ the returned list (creation order = index order).
-/

namespace LalrpopModel.Lower

abbrev Str := List Char

/-! ### parse_tree.rs: `Name`, `Tuple`, `ArgPattern` and their `Display` -/

structure Name where
  mutable : Bool
  name : Str
  deriving DecidableEq, Repr

/-- `Name::immut` -/
def Name.immut (s : Str) : Name := { mutable := false, name := s }

inductive ArgPattern where
  | name (n : Name)
  | tuple (ps : List ArgPattern)
  deriving Repr, Inhabited

/-- `impl Display for Name` -/
def Name.display (n : Name) : Str :=
  if n.mutable then ['m', 'u', 't', ' '] ++ n.name else n.name

/-- `Sep(", ", items)` over already rendered items -/
def joinComma : List Str → Str
  | [] => []
  | [s] => s
  | s :: t :: rest => s ++ [',', ' '] ++ joinComma (t :: rest)

mutual
/-- `impl Display for ArgPattern` / `impl Display for Tuple` -/
def ArgPattern.display : ArgPattern → Str
  | .name n => n.display
  | .tuple ps => ['('] ++ joinComma (ArgPattern.displays ps) ++ [')']
def ArgPattern.displays : List ArgPattern → List Str
  | [] => []
  | p :: ps => p.display :: ArgPattern.displays ps
end

/-- `ArgPattern::name()` (as found on the pinned tree): the bare identifier of a name, the
    *displayed* tuple — `mut` included — otherwise -/
def ArgPattern.nameStr : ArgPattern → Str
  | .name n => n.name
  | .tuple ps => (ArgPattern.tuple ps).display

mutual
/-- `ArgPattern::name()` after the repair (`fixes/lower-tuple-pattern-names.patch`): the tuple
    of the bound names, never a `mut` -/
def ArgPattern.exprStr : ArgPattern → Str
  | .name n => n.name
  | .tuple ps => ['('] ++ joinComma (ArgPattern.exprStrs ps) ++ [')']
def ArgPattern.exprStrs : List ArgPattern → List Str
  | [] => []
  | p :: ps => p.exprStr :: ArgPattern.exprStrs ps
end

mutual
/-- `ArgPattern::names()` (added by the repair): the names a pattern binds, left to right -/
def ArgPattern.leafNames : ArgPattern → List Str
  | .name n => [n.name]
  | .tuple ps => ArgPattern.leafNamesList ps
def ArgPattern.leafNamesList : List ArgPattern → List Str
  | [] => []
  | p :: ps => p.leafNames ++ ArgPattern.leafNamesList ps
end

/-- which of the two source variants of the anchored functions the model follows; detected from
    /repo's source by `checks/lowerpart.py` on every run -/
structure Variant where
  /-- `anon_symbols.first().unwrap()` still present on the "multiple `<>`" error path -/
  emptyAnonUnwrap : Bool
  /-- `ArgPattern::name()` renders tuple patterns without `mut` and `{<>}` lists leaf names -/
  tupleNamesFixed : Bool
  deriving DecidableEq, Repr

/-- the pinned tree before the two repairs -/
def Variant.pinned : Variant := { emptyAnonUnwrap := true, tupleNamesFixed := false }

/-- what `<>` stands for, per named symbol -/
def Variant.nameOf (v : Variant) (p : ArgPattern) : Str :=
  if v.tupleNamesFixed then p.exprStr else p.nameStr

/-- what `<>` stands for inside `{ }`, per named symbol -/
def Variant.curlyNamesOf (v : Variant) (p : ArgPattern) : List Str :=
  if v.tupleNamesFixed then p.leafNames else [p.nameStr]

/-! ### symbols of an alternative after macro expansion -/

inductive Sym (B : Type) where
  | base (b : B)                              -- `Terminal` / `Nonterminal`
  | error                                     -- `!`
  | choose (s : Sym B)                        -- `<X>`
  | named (n : Name) (s : Sym B)              -- `<x:X>`, `<mut x:X>`
  | tupled (ps : List ArgPattern) (s : Sym B) -- `<(a, b):X>`
  | unexpanded (b : B)                        -- Macro, Repeat, Expr, AmbiguousId, `@L`, `@R`
  deriving Repr, Inhabited

/-- `r::Symbol` as far as lowering is concerned -/
inductive RSym (B : Type) where
  | base (b : B)
  | errorTerminal
  deriving DecidableEq, Repr

/-- `LowerState::symbol` (`none` = `unreachable!`) -/
def Sym.lower {B : Type} : Sym B → Option (RSym B)
  | .base b => some (.base b)
  | .error => some .errorTerminal
  | .choose s => s.lower
  | .named _ s => s.lower
  | .tupled _ s => s.lower
  | .unexpanded _ => none

/-- `LowerState::symbols` -/
def lowerSymbols {B : Type} : List (Sym B) → Option (List (RSym B))
  | [] => some []
  | s :: rest =>
    match s.lower, lowerSymbols rest with
    | some r, some rs => some (r :: rs)
    | _, _ => none

/-- does lowering this symbol set `uses_error_recovery`? -/
def Sym.usesError {B : Type} : Sym B → Bool
  | .error => true
  | .choose s => s.usesError
  | .named _ s => s.usesError
  | .tupled _ s => s.usesError
  | _ => false

/-! ### norm_util.rs: `analyze_expr` -/

inductive Symbols (B : Type) where
  | named (l : List (Nat × ArgPattern × Sym B))
  | anon (l : List (Nat × Sym B))

/-- first `filter_map` over `enumerate()`: `Name` and `Tuple` symbols with their index -/
def namedFrom {B : Type} : Nat → List (Sym B) → List (Nat × ArgPattern × Sym B)
  | _, [] => []
  | i, .named n s :: rest => (i, .name n, s) :: namedFrom (i + 1) rest
  | i, .tupled ps s :: rest => (i, .tuple ps, s) :: namedFrom (i + 1) rest
  | i, _ :: rest => namedFrom (i + 1) rest

/-- second `filter_map`: `Choose` symbols with their index -/
def chosenFrom {B : Type} : Nat → List (Sym B) → List (Nat × Sym B)
  | _, [] => []
  | i, .choose s :: rest => (i, s) :: chosenFrom (i + 1) rest
  | i, _ :: rest => chosenFrom (i + 1) rest

/-- `expr.symbols.iter().enumerate().collect()` -/
def enumFrom {B : Type} : Nat → List (Sym B) → List (Nat × Sym B)
  | _, [] => []
  | i, s :: rest => (i, s) :: enumFrom (i + 1) rest

/-- `analyze_expr` -/
def analyzeExpr {B : Type} (syms : List (Sym B)) : Symbols B :=
  let named := namedFrom 0 syms
  if !named.isEmpty then .named named
  else
    let chosen := chosenFrom 0 syms
    if !chosen.isEmpty then .anon chosen
    else .anon (enumFrom 0 syms)

/-! ### string primitives used by `action_fn` and `check_between_braces` -/

/-- `s.matches("<>").count()` -/
def countAngle : Str → Nat
  | [] => 0
  | [_] => 0
  | c :: d :: rest =>
    if c = '<' ∧ d = '>' then countAngle rest + 1 else countAngle (d :: rest)

/-- `s.replace("<>", r)`: only the original text is scanned, never the replacement -/
def replaceAngle (r : Str) : Str → Str
  | [] => []
  | [c] => [c]
  | c :: d :: rest =>
    if c = '<' ∧ d = '>' then r ++ replaceAngle r rest else c :: replaceAngle r (d :: rest)

/-- `s.replacen("<>", r, 1)` -/
def replaceFirstAngle (r : Str) : Str → Str
  | [] => []
  | [c] => [c]
  | c :: d :: rest =>
    if c = '<' ∧ d = '>' then r ++ rest else c :: replaceFirstAngle r (d :: rest)

/-- `names.iter().fold(action, |acc, name| acc.replacen("<>", name, 1))`: every step rescans the
    accumulated string from its beginning -/
def replaceEach : List Str → Str → Str
  | [], acc => acc
  | n :: ns, acc => replaceEach ns (replaceFirstAngle n acc)

/-- `action.find("<>")` followed by `split_at` and `after[2..]`: text before / after the first `<>` -/
def findAngle : Str → Option (Str × Str)
  | [] => none
  | [_] => none
  | c :: d :: rest =>
    if c = '<' ∧ d = '>' then some ([], rest)
    else match findAngle (d :: rest) with
      | none => none
      | some (b, a) => some (c :: b, a)

/-- `char::is_whitespace` (Unicode `White_Space`) -/
def isWhitespace (c : Char) : Bool :=
  let n := c.toNat
  (9 ≤ n ∧ n ≤ 13) ∨ n = 32 ∨ n = 0x85 ∨ n = 0xA0 ∨ n = 0x1680 ∨ (0x2000 ≤ n ∧ n ≤ 0x200A) ∨
    n = 0x2028 ∨ n = 0x2029 ∨ n = 0x202F ∨ n = 0x205F ∨ n = 0x3000

/-- `str::trim` -/
def trim (s : Str) : Str :=
  ((s.dropWhile isWhitespace).reverse.dropWhile isWhitespace).reverse

inductive Presence where
  | none | inCurlyBrackets | normal
  deriving DecidableEq, Repr

/-- `check_between_braces` -/
def checkBetweenBraces (action : Str) : Presence :=
  match findAngle action with
  | none => .none
  | some (b, a) =>
    let before := trim b
    let after := trim a
    let beforeQuotes := before.count '"'
    let afterQuotes := after.count '"'
    if beforeQuotes % 2 = 1 ∧ afterQuotes % 2 = 1 then .normal
    else
      match before.getLast?, after.head? with
      | some '{', some '}' => .inCurlyBrackets
      | _, _ => .normal

/-! ### lower/mod.rs: `patterns`, `fresh_name`, `action_fn` -/

/-- `ArgPattern::Name(Name::immut("_"))` -/
def blank : ArgPattern := .name (Name.immut ['_'])

/-- the `(0..num_args).map(..)` closure of `patterns`; `chosen` = `next_chosen` followed by the
    not yet consumed part of the iterator. Returns the result and what is left of `chosen`. -/
def patternsGo : List (Nat × ArgPattern) → Nat → Nat → List ArgPattern × List (Nat × ArgPattern)
  | chosen, _, 0 => ([], chosen)
  | [], index, n + 1 =>
    let (r, l) := patternsGo [] (index + 1) n
    (blank :: r, l)
  | (ci, p) :: rest, index, n + 1 =>
    if ci = index then
      let (r, l) := patternsGo rest (index + 1) n
      (p :: r, l)
    else
      let (r, l) := patternsGo ((ci, p) :: rest) (index + 1) n
      (blank :: r, l)

/-- `patterns(chosen, num_args)`; `none` = the `debug_assert!(next_chosen.is_none())` fails -/
def patterns (chosen : List (Nat × ArgPattern)) (numArgs : Nat) : Option (List ArgPattern) :=
  match patternsGo chosen 0 numArgs with
  | (r, []) => some r
  | (_, _ :: _) => none

/-- `fresh_name(i)` = `format!("{}{}", prefix, i)` -/
def freshName (pfx : Str) (i : Nat) : Str := pfx ++ Nat.toDigits 10 i

/-- `UserActionFnDefn` with the `fallible` flag of its `ActionFnDefn`; `argTypes` are the
    symbols whose types are taken (`symbols.iter().map(|s| s.ty(&self.types))`) -/
structure UserDefn (B : Type) where
  fallible : Bool
  argPatterns : List ArgPattern
  argTypes : List (RSym B)
  code : Str

inductive Outcome (α : Type) where
  | ok (a : α)
  /-- `return_err!`: "… Found {angles} `<`>`s and {sources} anonymous sources." -/
  | error (angles sources : Nat)
  | assertFailed           -- `debug_assert!` in `patterns`
  | panic                  -- `unwrap()` on `None` / `unreachable!`

/-- the action string a missing action stands for -/
def defaultAction {B : Type} (isUnit : Bool) (normalized : Symbols B) : Str :=
  if isUnit then ['(', ')']
  else
    let len := match normalized with
      | .named names => names.length
      | .anon indices => indices.length
    if len = 1 then ['<', '>'] else ['(', '<', '>', ')']

/-- `LowerState::action_fn` after `let action = match action { … }`: the part that depends on
    the action string only -/
def actionFnOn {B : Type} (v : Variant) (pfx : Str) (fallible : Bool) (normalized : Symbols B)
    (symbols : List (RSym B)) (action : Str) : Outcome (UserDefn B) :=
  match normalized with
  | .named names =>
    match patterns (names.map fun x => (x.1, x.2.1)) symbols.length with
    | none => .assertFailed
    | some argPatterns =>
      let nameStr := joinComma (names.map fun x => v.nameOf x.2.1)
      let curlyStr := joinComma (names.flatMap fun x => v.curlyNamesOf x.2.1)
      let code := match checkBetweenBraces action with
        | .none => action
        | .normal => replaceAngle nameStr action
        | .inCurlyBrackets => replaceAngle curlyStr action
      .ok { fallible := fallible, argPatterns := argPatterns, argTypes := symbols, code := code }
  | .anon anon =>
    let names := (List.range anon.length).map (freshName pfx)
    match patterns ((anon.map (·.1)).zip (names.map fun n => ArgPattern.name (Name.immut n)))
        symbols.length with
    | none => .assertFailed
    | some argPatterns =>
      let nameStr := joinComma names
      if countAngle action > 1 then
        if countAngle action ≠ names.length then
          match anon with
          | [] =>
            if v.emptyAnonUnwrap then .panic        -- `anon_symbols.first().unwrap()`
            else .error (countAngle action) names.length
          | _ :: _ => .error (countAngle action) names.length
        else
          .ok { fallible := fallible, argPatterns := argPatterns, argTypes := symbols
                code := replaceEach names action }
      else
        .ok { fallible := fallible, argPatterns := argPatterns, argTypes := symbols
              code := replaceAngle nameStr action }

/-- `LowerState::action_fn`; `isUnit` = `nt_type.is_unit()` -/
def actionFn {B : Type} (v : Variant) (pfx : Str) (isUnit fallible : Bool) (expr : List (Sym B))
    (symbols : List (RSym B)) (action : Option Str) : Outcome (UserDefn B) :=
  let normalized := analyzeExpr expr
  let action := match action with
    | some s => s
    | none => defaultAction isUnit normalized
  actionFnOn v pfx fallible normalized symbols action

/-! ### lower/mod.rs: `action_kind`, creation order of the action functions -/

inductive ActionKind where
  | user (code : Str)
  | fallible (code : Str)
  | lookahead
  | lookbehind
  deriving DecidableEq, Repr

structure Alt (B : Type) where
  expr : List (Sym B)
  action : Option ActionKind

structure Nt (B : Type) where
  name : B
  isPub : Bool
  isUnit : Bool            -- `types.nonterminal_type(name).is_unit()`
  alts : List (Alt B)

/-- `ActionFnDefnKind` as produced by `lower` -/
inductive DefnKind (B : Type) where
  | user (d : UserDefn B)
  | lookahead               -- `Lookaround(Lookahead)`, infallible, returns the location type
  | lookbehind

/-- one lowered production: its symbols and the index of its action function -/
structure Prod (B : Type) where
  symbols : List (RSym B)
  action : Nat

def Outcome.map {α β : Type} (f : α → β) : Outcome α → Outcome β
  | .ok a => .ok (f a)
  | .error a s => .error a s
  | .assertFailed => .assertFailed
  | .panic => .panic

/-- `LowerState::action_kind` -/
def actionKind {B : Type} (v : Variant) (pfx : Str) (isUnit : Bool) (expr : List (Sym B))
    (symbols : List (RSym B)) : Option ActionKind → Outcome (DefnKind B)
  | some .lookahead => .ok .lookahead
  | some .lookbehind => .ok .lookbehind
  | some (.user s) => (actionFn v pfx isUnit false expr symbols (some s)).map .user
  | some (.fallible s) => (actionFn v pfx isUnit true expr symbols (some s)).map .user
  | none => (actionFn v pfx isUnit false expr symbols none).map .user

/-- the alternatives of one nonterminal, in order; `defs` = `action_fn_defns` so far -/
def lowerAlts {B : Type} (v : Variant) (pfx : Str) (isUnit : Bool) :
    List (Alt B) → List (DefnKind B) → Outcome (List (Prod B) × List (DefnKind B))
  | [], defs => .ok ([], defs)
  | alt :: rest, defs =>
    match lowerSymbols alt.expr with
    | none => .panic                                   -- `unreachable!` in `symbol`
    | some symbols =>
      match actionKind v pfx isUnit alt.expr symbols alt.action with
      | .ok d =>
        match lowerAlts v pfx isUnit rest (defs ++ [d]) with
        | .ok (ps, defs') => .ok ({ symbols := symbols, action := defs.length } :: ps, defs')
        | .error a s => .error a s
        | .assertFailed => .assertFailed
        | .panic => .panic
      | .error a s => .error a s
      | .assertFailed => .assertFailed
      | .panic => .panic

/-- the `GrammarItem::Nonterminal` arm of the loop over `grammar.items` -/
def lowerNts {B : Type} (v : Variant) (pfx : Str) :
    List (Nt B) → List (DefnKind B) → Outcome (List (B × List (Prod B)) × List (DefnKind B))
  | [], defs => .ok ([], defs)
  | nt :: rest, defs =>
    match lowerAlts v pfx nt.isUnit nt.alts defs with
    | .ok (ps, defs1) =>
      match lowerNts v pfx rest defs1 with
      | .ok (out, defs2) => .ok ((nt.name, ps) :: out, defs2)
      | .error a s => .error a s
      | .assertFailed => .assertFailed
      | .panic => .panic
    | .error a s => .error a s
    | .assertFailed => .assertFailed
    | .panic => .panic

/-- `synthesize_start_symbols`: one production `__Foo = Foo` per `pub` nonterminal, in item
    order; `fake` builds the name `{prefix}{name}`. The expression handed to `action_fn` is the
    single symbol `Nonterminal(fake_name)`. -/
def lowerStarts {B : Type} (v : Variant) (pfx : Str) (fake : B → B) :
    List (Nt B) → List (DefnKind B) → Outcome (List (B × List (Prod B)) × List (DefnKind B))
  | [], defs => .ok ([], defs)
  | nt :: rest, defs =>
    if nt.isPub then
      match actionFn v pfx nt.isUnit false [Sym.base (fake nt.name)] [RSym.base nt.name] none with
      | .ok d =>
        match lowerStarts v pfx fake rest (defs ++ [.user d]) with
        | .ok (out, defs') =>
          .ok ((fake nt.name, [{ symbols := [RSym.base nt.name], action := defs.length }]) :: out, defs')
        | .error a s => .error a s
        | .assertFailed => .assertFailed
        | .panic => .panic
      | .error a s => .error a s
      | .assertFailed => .assertFailed
      | .panic => .panic
    else lowerStarts v pfx fake rest defs

structure Lowered (B : Type) where
  starts : List (B × List (Prod B))
  nts : List (B × List (Prod B))
  defs : List (DefnKind B)

/-- the part of `LowerState::lower` that creates productions and action functions -/
def lowerGrammar {B : Type} (v : Variant) (pfx : Str) (fake : B → B) (nts : List (Nt B)) : Outcome (Lowered B) :=
  match lowerStarts v pfx fake nts [] with
  | .ok (starts, defs0) =>
    match lowerNts v pfx nts defs0 with
    | .ok (out, defs) => .ok { starts := starts, nts := out, defs := defs }
    | .error a s => .error a s
    | .assertFailed => .assertFailed
    | .panic => .panic
  | .error a s => .error a s
  | .assertFailed => .assertFailed
  | .panic => .panic

/-! ### `<>`-free pieces of an action (specification vocabulary of `angle_subst_spec`) -/

/-- put `c` in front of the first piece -/
def consHead (c : Char) : List Str → List Str
  | [] => [[c]]
  | p :: ps => (c :: p) :: ps

/-- the maximal `<>`-free pieces of `s`, left to right: `s = p₀ <> p₁ <> … <> pₖ` -/
def splitAngle : Str → List Str
  | [] => [[]]
  | [c] => [[c]]
  | c :: d :: rest =>
    if c = '<' ∧ d = '>' then [] :: splitAngle rest
    else consHead c (splitAngle (d :: rest))

/-- `p₀ ++ sep ++ p₁ ++ sep ++ …` -/
def joinWith (sep : Str) : List Str → Str
  | [] => []
  | [p] => p
  | p :: q :: rest => p ++ sep ++ joinWith sep (q :: rest)

/-- `p₀ ++ n₀ ++ p₁ ++ n₁ ++ …`: the i-th gap is filled with the i-th name; gaps without a name
    keep their `<>` -/
def interleave : List Str → List Str → Str
  | [], _ => []
  | [p], _ => p
  | p :: q :: rest, [] => p ++ ['<', '>'] ++ interleave (q :: rest) []
  | p :: q :: rest, n :: ns => p ++ n ++ interleave (q :: rest) ns

/-! ## `@L` / `@R`

`macro_expand` replaces every `@L` (`@R`) by a reference to the nonterminal `@L` (`@R`), which
`expand_lookaround_symbol` defines as an `#[inline]` nonterminal with one empty alternative whose
action is `ActionKind::Lookahead` (`Lookbehind`); `lower` turns that action into a lookaround
action function (above: `actionKind`), the inliner replaces the reference by
`InlinedSymbol::Inlined(action, [])`, and `emit_inline_action_code` computes for every inlined
symbol a start and an end location and hands `(&start, &end)` to actions without arguments as
`(__lookbehind, __lookahead)`. `emit_lookaround_action_code` returns `*__lookahead` for `@L`
and `*__lookbehind` for `@R`. -/

inductive Look where
  | ahead      -- `@L`
  | behind     -- `@R`
  deriving DecidableEq, Repr

/-- `expand_lookaround_symbol(span, name, action)`: name, attributes, alternatives -/
structure LookNt where
  name : Str
  isInline : Bool
  alts : List (Alt Str)

def expandLookaroundSymbol : Look → LookNt
  | .ahead => { name := ['@', 'L'], isInline := true, alts := [{ expr := [], action := some .lookahead }] }
  | .behind => { name := ['@', 'R'], isInline := true, alts := [{ expr := [], action := some .lookbehind }] }

open LalrpopModel.Inline (InlinedSymbol LocSrc startSrc endSrc Step planFrom plan numFlatArgs)

/-- what the generated code has at hand: the spans of the flat arguments `__0 …` and, when
    there are none, the two location parameters -/
structure Env (L : Type) where
  args : List (L × L)         -- `(__i.0, __i.2)`
  lookbehind : L
  lookahead : L

/-- value of a `let __startK = …` / `let __endK = …` right-hand side; `none` = the line names an
    argument that does not exist (would not compile) -/
def evalSrc {L : Type} (env : Env L) : LocSrc → Option L
  | .argStart i => (env.args[i]?).map (·.1)
  | .argEnd i => (env.args[i]?).map (·.2)
  | .lookbehind => some env.lookbehind
  | .lookahead => some env.lookahead

/-- `(__startK, __endK)` of the inlined symbol that starts at flat argument `argStart` and
    spans `len` of them, in a function with `numFlat` flat arguments -/
def tempSpan {L : Type} (env : Env L) (numFlat argStart len : Nat) : Option (L × L) :=
  match evalSrc env (startSrc numFlat argStart len), evalSrc env (endSrc numFlat argStart len) with
  | some s, some e => some (s, e)
  | _, _ => none

/-- body of a lookaround action called as `__actionN(&__startK, &__endK)`:
    parameters `(__lookbehind, __lookahead)`; `@L` returns `*__lookahead`, `@R` `*__lookbehind` -/
def lookaroundAction {L : Type} (k : Look) (lookbehind lookahead : L) : L :=
  match k with
  | .ahead => lookahead
  | .behind => lookbehind

/-- what the first loop of `emit_inline_action_code` does for one step -/
def stepSpan {L : Type} (env : Env L) (numFlat : Nat) : Step → Option (Option (L × L))
  | .orig _ => none
  | .inl _ _ a len => some (tempSpan env numFlat a len)

/-- spans computed by the first loop of `emit_inline_action_code` for all inlined symbols of
    `symbols`, in order (one entry per `Step.inl`) -/
def tempSpans {L N T : Type} (env : Env L) (symbols : List (InlinedSymbol N T)) : List (Option (L × L)) :=
  (plan symbols).filterMap (stepSpan env (numFlatArgs symbols))

/-- the span handed to the inlined symbol at position `pre.length` of `pre ++ sym :: post` -/
def spanAt {L N T : Type} (env : Env L) (pre : List (InlinedSymbol N T)) (sym : InlinedSymbol N T)
    (post : List (InlinedSymbol N T)) : Option (L × L) :=
  let all := pre ++ sym :: post
  let a := numFlatArgs pre
  tempSpan env (numFlatArgs all) a (sym.flat.length)

/-! ### the declarative rule of property C06 -/

/-- `@L`: start of the following symbol, else end of the preceding one, else the enclosing
    empty position -/
def declL {L : Type} (before after : List (L × L)) (enclosing : L) : L :=
  match after with
  | s :: _ => s.1
  | [] =>
    match before.getLast? with
    | some s => s.2
    | none => enclosing

/-- `@R`: end of the preceding symbol, else start of the following one, else the enclosing
    empty position -/
def declR {L : Type} (before after : List (L × L)) (enclosing : L) : L :=
  match before.getLast? with
  | some s => s.2
  | none =>
    match after with
    | s :: _ => s.1
    | [] => enclosing

def declLook {L : Type} (k : Look) (before after : List (L × L)) (lookbehind lookahead : L) : L :=
  match k with
  | .ahead => declL before after lookahead
  | .behind => declR before after lookbehind

end LalrpopModel.Lower
