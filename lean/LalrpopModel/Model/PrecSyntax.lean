import LalrpopModel.Model.Sexp
/-!
Parse-tree fragment shared by the pass models M-PREC (`Model/Prec.lean`) and M-CFG
(`Model/Cfg.lean`): attributes, symbols, alternatives, nonterminals, grammar items
(`lalrpop/src/grammar/parse_tree.rs`).

Strings the passes inspect (attribute ids/values, nonterminal names) are `List Char`, so that
everything reduces in the kernel.  Parts no modelled pass looks at (terminals, binding names,
tuple patterns, conditions, action code, visibility, type declarations, macro parameters) are
carried as opaque payloads (`Opaque`, the S-expression printed by the stage-dump hook).
Spans are not modelled (the hook omits them).
-/
namespace LalrpopModel.PT

abbrev Str := List Char
abbrev Opaque := Sexp

/-- `Attribute { id, arg }` with `AttributeArg::{Empty, Paren(Vec<Attribute>), Equal(String)}` -/
inductive Attr where
  | empty (id : Str)
  | paren (id : Str) (args : List Attr)
  | equal (id : Str) (val : Str)
  deriving Inhabited

def Attr.id : Attr → Str
  | .empty i => i
  | .paren i _ => i
  | .equal i _ => i

/-- `Attribute::get_arg_equal`: `#[id(key = "value", ..)]` ↦ `(key, value)` (first argument only) -/
def Attr.getArgEqual : Attr → Option (Str × Str)
  | .paren _ (.equal k v :: _) => some (k, v)
  | _ => none

inductive RepeatOp where
  | star | plus | question
  deriving DecidableEq, Repr, Inhabited

/-- `SymbolKind` (spans dropped) -/
inductive Sym where
  | expr (syms : List Sym)
  | ambiguous (id : Str)
  | terminal (t : Opaque)
  | nonterminal (n : Str)
  | macro (name : Str) (args : List Sym)
  | repeat (op : RepeatOp) (s : Sym)
  | choose (s : Sym)
  | name (n : Opaque) (s : Sym)
  | tuple (t : Opaque) (s : Sym)
  | lookahead
  | lookbehind
  | error
  deriving Inhabited

/-- `Alternative` -/
structure Alt where
  expr : List Sym
  cond : Option Opaque
  action : Option Opaque
  attrs : List Attr
  deriving Inhabited

/-- `NonterminalData` -/
structure Nonterm where
  name : Str
  vis : Opaque
  attrs : List Attr
  args : List Str
  typeDecl : Opaque
  alts : List Alt
  deriving Inhabited

/-- `Conversion` of an `extern { enum .. { .. } }` block -/
structure Conv where
  src : Opaque
  dst : Opaque
  attrs : List Attr
  deriving Inhabited

/-- `GrammarItem`; `externTok` keeps the associated types opaque; `enumTok = none` is `enum_token: None` -/
inductive Item where
  | nonterm (nt : Nonterm)
  | externTok (assoc : Opaque) (enumTok : Option (Opaque × List Conv))
  | other (raw : Opaque)
  deriving Inhabited

structure Grammar where
  header : List Opaque   -- `(prefix ..)` and `(attrs ..)`
  items : List Item
  deriving Inhabited

end LalrpopModel.PT
