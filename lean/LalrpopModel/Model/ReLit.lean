import LalrpopModel.Model.Re
/-!
M-RE (escaping layers, C10): what a quoted terminal `"s"` goes through on its way into the
generated lexer.

1. `regex_syntax::escape(s)` (`lexer/re/mod.rs: parse_literal`): a backslash before every meta
   character — `escape`.
2. the regex parser on that escaped text; only the *literal fragment* of the syntax is modelled
   (`parseLit`): plain non-meta characters and `\m` for a meta character `m`; the result is
   `Hir::literal` of the UTF-8 encoding (or the empty HIR).
3. `format!("{regex_str:?}")` — Rust's `Debug` quoting of `str` — writes the string into the
   generated source (`escDebug`), and rustc's string-literal lexer reads it back (`readStrLit`).

Strings are lists of scalar values (`Nat`); which characters `Debug` renders as `\u{…}`
(grapheme-extending or non-printable ones — Unicode tables of the standard library) is a
parameter `uni`.
-/
namespace LalrpopModel.ReLit
open LalrpopModel.Re

/-- `regex_syntax::is_meta_character`: `\ . + * ? ( ) | [ ] { } ^ $ # & - ~` -/
def isMeta (c : Nat) : Bool :=
  [92, 46, 43, 42, 63, 40, 41, 124, 91, 93, 123, 125, 94, 36, 35, 38, 45, 126].contains c

/-- `regex_syntax::escape` -/
def escape : List Nat → List Nat
  | [] => []
  | c :: cs => if isMeta c then 92 :: c :: escape cs else c :: escape cs

/-- a Unicode scalar value -/
def isScalar (c : Nat) : Bool := c < 0xD800 || (0xE000 ≤ c && c < 0x110000)

/-- UTF-8 encoding of one scalar value -/
def encodeChar (c : Nat) : List Nat :=
  if c < 0x80 then [c]
  else if c < 0x800 then [0xC0 + c / 64, 0x80 + c % 64]
  else if c < 0x10000 then [0xE0 + c / 4096, 0x80 + (c / 64) % 64, 0x80 + c % 64]
  else [0xF0 + c / 262144, 0x80 + (c / 4096) % 64, 0x80 + (c / 64) % 64, 0x80 + c % 64]

def encodeUtf8 (cs : List Nat) : List Nat := cs.flatMap encodeChar

/-- the literal fragment of the regex syntax (default flags): non-meta characters stand for
themselves, `\m` stands for the meta character `m`; anything else is outside the fragment -/
def parseLitChars : List Nat → Option (List Nat)
  | [] => some []
  | [c] => if isMeta c then none else some [c]
  | c :: d :: cs =>
    if c = 92 then
      if isMeta d then (parseLitChars cs).map (d :: ·) else none
    else if isMeta c then none
    else (parseLitChars (d :: cs)).map (c :: ·)

/-- the HIR of a literal-fragment regex: `Hir::literal(bytes)` (which is `Hir::empty()` for no bytes) -/
def parseLit (s : List Nat) : Option Hir :=
  (parseLitChars s).map fun cs => if cs.isEmpty then Hir.empty else Hir.lit (encodeUtf8 cs)

/-- `parse_literal(s)` restricted to what the model covers -/
def parseLiteral (s : List Nat) : Option Hir := parseLit (escape s)

/-! ### `{:?}` quoting and the Rust string-literal lexer -/

def hexDigit (d : Nat) : Nat := if d < 10 then 48 + d else 87 + d

/-- lower-case hexadecimal digits of `n`, most significant first, at least one digit;
`fuel` bounds the number of digits -/
def toHexAux : Nat → Nat → List Nat → List Nat
  | 0, _, acc => acc
  | f + 1, n, acc => if n < 16 then hexDigit n :: acc else toHexAux f (n / 16) (hexDigit (n % 16) :: acc)

def toHex (n : Nat) : List Nat := toHexAux 8 n []

/-- `char::escape_debug_ext` with the arguments `Debug for str` uses (grapheme-extended escaped,
double quote escaped, single quote not); `uni c` = the standard library renders `c` as `\u{…}` -/
def escDebugChar (uni : Nat → Bool) (c : Nat) : List Nat :=
  if c = 0 then [92, 48]            -- \0
  else if c = 9 then [92, 116]      -- \t
  else if c = 13 then [92, 114]     -- \r
  else if c = 10 then [92, 110]     -- \n
  else if c = 92 then [92, 92]      -- \\
  else if c = 34 then [92, 34]      -- \"
  else if uni c then [92, 117, 123] ++ toHex c ++ [125]   -- \u{…}
  else [c]

/-- the text between the quotes of `format!("{s:?}")` -/
def escDebug (uni : Nat → Bool) (s : List Nat) : List Nat := s.flatMap (escDebugChar uni)

def hexVal (c : Nat) : Option Nat :=
  if 48 ≤ c ∧ c ≤ 57 then some (c - 48)
  else if 97 ≤ c ∧ c ≤ 102 then some (c - 87)
  else if 65 ≤ c ∧ c ≤ 70 then some (c - 55)
  else none

/-- the digits of a `\u{…}` escape up to the closing brace: value and rest (at most `fuel` digits) -/
def readHex : Nat → List Nat → Nat → Option (Nat × List Nat)
  | 0, _, _ => none
  | _ + 1, [], _ => none
  | f + 1, c :: cs, acc =>
    if c = 125 then some (acc, cs)
    else match hexVal c with
      | some d => readHex f cs (acc * 16 + d)
      | none => none

/-- rustc's lexing of the body of a (non-raw) string literal, after the opening quote: the
denoted string and what follows the closing quote. Escapes: `\n \r \t \\ \0 \" \'`, `\xHH`
(≤ 7F), `\u{…}`; a bare `"` ends the literal. (Line continuations and bare CR are outside what
`{:?}` produces and are rejected.) -/
def readStrLit : Nat → List Nat → Option (List Nat × List Nat)
  | 0, _ => none
  | _ + 1, [] => none
  | f + 1, c :: cs =>
    if c = 34 then some ([], cs)
    else if c = 13 then none
    else if c = 92 then
      match cs with
      | [] => none
      | e :: rest =>
        let simple (v : Nat) := (readStrLit f rest).map fun r => (v :: r.1, r.2)
        if e = 110 then simple 10
        else if e = 114 then simple 13
        else if e = 116 then simple 9
        else if e = 92 then simple 92
        else if e = 48 then simple 0
        else if e = 34 then simple 34
        else if e = 39 then simple 39
        else if e = 117 then
          match rest with
          | 123 :: rest' =>
            match readHex 7 rest' 0 with
            | some (v, rest'') =>
              if isScalar v then (readStrLit f rest'').map fun r => (v :: r.1, r.2) else none
            | none => none
          | _ => none
        else if e = 120 then
          match rest with
          | h1 :: h2 :: rest' =>
            match hexVal h1, hexVal h2 with
            | some a, some b =>
              if a * 16 + b < 128 then (readStrLit f rest').map fun r => ((a * 16 + b) :: r.1, r.2) else none
            | _, _ => none
          | _ => none
        else none
    else (readStrLit f cs).map fun r => (c :: r.1, r.2)

end LalrpopModel.ReLit
