import LalrpopModel.Model.Inline
/-!
Specification of `Inliner::inline` as a cross product, and the proof that the model function
computes it (used by Props/C14 `cross_product_complete`).
-/
set_option linter.unusedSectionVars false

namespace LalrpopModel.Inline

variable {N T X : Type} [DecidableEq N] [DecidableEq T]

/-- All ways of choosing, for every occurrence of `inl` in `syms`, one of its productions — in the
    order in which `Inliner::inline` emits them (leftmost occurrence varies slowest). -/
def choices (inl : N) (inlProds : List (Production N T)) :
    List (Symbol N T) → List (List (InlinedSymbol N T))
  | [] => [[]]
  | s :: rest =>
    if s = .nt inl then
      inlProds.flatMap fun ip => (choices inl inlProds rest).map (.inlined ip.action ip.symbols :: ·)
    else (choices inl inlProds rest).map (.original s :: ·)

/-- `action_is_fallible` with the out-of-range panic replaced by `false` (specification only) -/
def isFallible (defs : List (Defn N T X)) (a : Nat) : Bool :=
  match defs[a]? with
  | some d => d.fallible
  | none => false

/-- number of fallible inlined actions in a choice -/
def fallibleCount (defs : List (Defn N T X)) : List (InlinedSymbol N T) → Nat
  | [] => 0
  | .original _ :: rest => fallibleCount defs rest
  | .inlined a _ :: rest => (if isFallible defs a then 1 else 0) + fallibleCount defs rest

/-- the `InlineActionFnDefn` built for host production `into` and choice `syms`, when `fall`
    fallible actions were inlined -/
def mkDefn (intoDef : Defn N T X) (into : Production N T) (fall : Nat)
    (syms : List (InlinedSymbol N T)) : Defn N T X :=
  { fallible := intoDef.fallible || (fall != 0)
    retType := intoDef.retType
    kind := .inline into.action syms }

/-- the new productions for a list of choices, numbered consecutively from `base` -/
def numbered (into : Production N T) (pre : List (InlinedSymbol N T)) :
    Nat → List (List (InlinedSymbol N T)) → List (Production N T)
  | _, [] => []
  | base, c :: cs =>
    { nonterminal := into.nonterminal, symbols := (pre ++ c).flatMap InlinedSymbol.flat, action := base }
      :: numbered into pre (base + 1) cs

theorem numbered_append (into : Production N T) (pre : List (InlinedSymbol N T)) (base : Nat)
    (xs ys : List (List (InlinedSymbol N T))) :
    numbered into pre base (xs ++ ys) = numbered into pre base xs ++ numbered into pre (base + xs.length) ys := by
  induction xs generalizing base with
  | nil => simp [numbered]
  | cons x xs ih =>
    simp only [List.cons_append, numbered, ih, List.length_cons]
    congr 3
    omega

theorem numbered_length (into : Production N T) (pre : List (InlinedSymbol N T)) (base : Nat)
    (xs : List (List (InlinedSymbol N T))) : (numbered into pre base xs).length = xs.length := by
  induction xs generalizing base with
  | nil => rfl
  | cons x xs ih => simp [numbered, ih]

/-- shifting the prefix into the choices -/
theorem numbered_map_cons (into : Production N T) (pre : List (InlinedSymbol N T))
    (x : InlinedSymbol N T) (base : Nat) (cs : List (List (InlinedSymbol N T))) :
    numbered into pre base (cs.map (x :: ·)) = numbered into (pre ++ [x]) base cs := by
  induction cs generalizing base with
  | nil => rfl
  | cons c cs ih => simp [numbered, ih]

theorem fallibleCount_append (defs : List (Defn N T X)) (xs ys : List (InlinedSymbol N T)) :
    fallibleCount defs (xs ++ ys) = fallibleCount defs xs + fallibleCount defs ys := by
  induction xs with
  | nil => simp [fallibleCount]
  | cons x xs ih =>
    cases x with
    | original s => simpa [fallibleCount] using ih
    | inlined a ss => simp [fallibleCount, ih]; omega

/-- the main loop invariant: from state (`newSyms`, `fall`, `out`) the inliner appends one
    production and one action per choice, in order. -/
theorem inlineSyms_spec (defs : List (Defn N T X)) (inl : N) (inlProds : List (Production N T))
    (into : Production N T) (intoDef : Defn N T X)
    (hInto : defs[into.action]? = some intoDef)
    (hInl : ∀ ip ∈ inlProds, ∃ d, defs[ip.action]? = some d)
    (syms : List (Symbol N T)) (newSyms : List (InlinedSymbol N T)) (fall : Nat) (out : Out N T X) :
    inlineSyms defs inl inlProds into syms newSyms fall out =
      some { prods := out.prods ++
               numbered into newSyms (defs.length + out.defns.length) (choices inl inlProds syms)
             defns := out.defns ++
               (choices inl inlProds syms).map fun c =>
                 mkDefn intoDef into (fall + fallibleCount defs c) (newSyms ++ c) } := by
  induction syms generalizing newSyms fall out with
  | nil =>
    simp [inlineSyms, hInto, choices, numbered, mkDefn, fallibleCount]
  | cons s rest ih =>
    by_cases hs : s = .nt inl
    · -- the loop over the productions of `inl`
      subst hs
      simp only [inlineSyms, if_true, choices]
      -- generalise the loop: any suffix of inlProds, any accumulated output
      suffices h : ∀ (ips : List (Production N T)) (out : Out N T X),
          (∀ ip ∈ ips, ∃ d, defs[ip.action]? = some d) →
          forProds defs (fun ip f out =>
              inlineSyms defs inl inlProds into rest (newSyms ++ [.inlined ip.action ip.symbols]) (fall + f) out)
            ips out =
          some { prods := out.prods ++
                   numbered into newSyms (defs.length + out.defns.length)
                     (ips.flatMap fun ip => (choices inl inlProds rest).map (.inlined ip.action ip.symbols :: ·))
                 defns := out.defns ++
                   (ips.flatMap fun ip => (choices inl inlProds rest).map (.inlined ip.action ip.symbols :: ·)).map
                     fun c => mkDefn intoDef into (fall + fallibleCount defs c) (newSyms ++ c) } from
        h inlProds out hInl
      intro ips
      induction ips with
      | nil => intro out _; simp [forProds, numbered]
      | cons ip ips ihp =>
        intro out hI
        obtain ⟨d, hd⟩ := hI ip (List.mem_cons_self ..)
        have hI' : ∀ ip' ∈ ips, ∃ d, defs[ip'.action]? = some d :=
          fun ip' h => hI ip' (List.mem_cons_of_mem _ h)
        simp only [forProds, hd]
        rw [ih]
        simp only []
        rw [ihp _ hI']
        simp only [List.flatMap_cons, numbered_append, List.map_append, List.length_append,
          List.length_map, numbered_length, numbered_map_cons, List.append_assoc, List.map_map]
        congr 2
        · congr 2
          congr 1
          omega
        · congr 2
          apply List.map_congr_left
          intro c _
          simp [fallibleCount, isFallible, hd, Function.comp]
          congr 1
          omega
    · simp only [inlineSyms, hs, if_false, choices]
      rw [ih]
      simp [numbered_map_cons, List.map_map, Function.comp, fallibleCount]

end LalrpopModel.Inline
