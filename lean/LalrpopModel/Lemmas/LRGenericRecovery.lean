import LalrpopModel.Lemmas.LRGenericIO
/-!
C16 for arbitrary tables: token accounting of the driver with error recovery. No ghost state is
added to the model; everything is read off the trees on the symbol stack.
-/
namespace LalrpopModel.LR.Generic
open LalrpopModel.LR
variable {T : Tables} {af : Nat} {failAt : Option Nat} {startLoc : Int}

/-! ### folds over trees -/

section collect
variable {α : Type} (fl : Tok → List α) (fe : PErr → List Tok → List α)

mutual
/-- left-to-right fold over the leaves and error nodes of a tree -/
def Tree.collect : Tree → List α
  | .leaf a => fl a
  | .node _ _ _ ks => Forest.collect ks
  | .err e d => fe e d
def Forest.collect : Forest → List α
  | .nil => []
  | .cons t ts => Tree.collect t ++ Forest.collect ts
end

/-- the same fold over a symbol stack (top first), bottom symbol first -/
def stackCollect : List SymTriple → List α
  | [] => []
  | s :: rest => stackCollect rest ++ Tree.collect fl fe s.2.1

theorem Forest.collect_ofList (l : List Tree) :
    Forest.collect fl fe (Forest.ofList l) = (l.map (Tree.collect fl fe)).flatten := by
  induction l with
  | nil => simp [Forest.ofList, Forest.collect]
  | cons t l ih => simp [Forest.ofList, Forest.collect, ih]

theorem stackCollect_append (a b : List SymTriple) :
    stackCollect fl fe (a ++ b) = stackCollect fl fe b ++ stackCollect fl fe a := by
  induction a with
  | nil => simp [stackCollect]
  | cons s a ih => simp [stackCollect, ih]

theorem stackCollect_eq (l : List SymTriple) :
    stackCollect fl fe l = (l.reverse.map (fun s => Tree.collect fl fe s.2.1)).flatten := by
  induction l with
  | nil => simp [stackCollect]
  | cons s l ih => simp [stackCollect, ih]

theorem stackCollect_take_drop (n : Nat) (l : List SymTriple) :
    stackCollect fl fe l = stackCollect fl fe (l.drop n) ++ stackCollect fl fe (l.take n) := by
  conv => lhs; rw [← List.take_append_drop n l]
  rw [stackCollect_append]

/-- `__reduce` keeps the fold of the stack: the new node covers exactly the popped symbols -/
theorem stackCollect_reduce (c : Cfg) (p n : Nat) (ls : Option Int) :
    stackCollect fl fe (reduceSym startLoc c p n ls :: c.symbols.drop n) = stackCollect fl fe c.symbols := by
  rw [stackCollect_take_drop fl fe n c.symbols]
  simp only [stackCollect, reduceSym, Tree.collect]
  rw [Forest.collect_ofList, stackCollect_eq fl fe (c.symbols.take n)]
  simp [List.map_map, Function.comp_def]

theorem stackCollect_mem {s : SymTriple} {l : List SymTriple} (h : s ∈ l) (x : α)
    (hx : x ∈ Tree.collect fl fe s.2.1) : x ∈ stackCollect fl fe l := by
  induction l with
  | nil => cases h
  | cons s' l ih =>
    simp only [stackCollect, List.mem_append]
    rcases List.mem_cons.mp h with rfl | h
    · exact .inr hx
    · exact .inl (ih h)

theorem stackCollect_drop_prefix (k : Nat) (l : List SymTriple) :
    stackCollect fl fe (l.drop k) <+: stackCollect fl fe l := by
  rw [stackCollect_take_drop fl fe k l]
  exact List.prefix_append _ _

end collect

/-- tokens accounted for by a tree: its leaves, and for an error node its `dropped_tokens` -/
def Tree.covered : Tree → List Tok := Tree.collect (fun a => [a]) (fun _ d => d)
def Forest.covered : Forest → List Tok := Forest.collect (fun a => [a]) (fun _ d => d)
/-- the error nodes of a tree, left to right -/
def Tree.errs : Tree → List (PErr × List Tok) := Tree.collect (fun _ => []) (fun e d => [(e, d)])
def Forest.errs : Forest → List (PErr × List Tok) := Forest.collect (fun _ => []) (fun e d => [(e, d)])

def stackCovered : List SymTriple → List Tok := stackCollect (fun a => [a]) (fun _ d => d)
def stackErrs : List SymTriple → List (PErr × List Tok) := stackCollect (fun _ => []) (fun e d => [(e, d)])

@[simp] theorem Tree.covered_leaf (a : Tok) : Tree.covered (.leaf a) = [a] := by simp [Tree.covered, Tree.collect]
@[simp] theorem Tree.covered_node (p : Nat) (l r : Int) (ks : Forest) :
    Tree.covered (.node p l r ks) = Forest.covered ks := by simp [Tree.covered, Forest.covered, Tree.collect]
@[simp] theorem Tree.covered_err (e : PErr) (d : List Tok) : Tree.covered (.err e d) = d := by
  simp [Tree.covered, Tree.collect]
@[simp] theorem Forest.covered_nil : Forest.covered .nil = [] := by simp [Forest.covered, Forest.collect]
@[simp] theorem Forest.covered_cons (t : Tree) (ts : Forest) :
    Forest.covered (.cons t ts) = Tree.covered t ++ Forest.covered ts := by
  simp [Forest.covered, Tree.covered, Forest.collect]

@[simp] theorem Tree.errs_leaf (a : Tok) : Tree.errs (.leaf a) = [] := by simp [Tree.errs, Tree.collect]
@[simp] theorem Tree.errs_node (p : Nat) (l r : Int) (ks : Forest) :
    Tree.errs (.node p l r ks) = Forest.errs ks := by simp [Tree.errs, Forest.errs, Tree.collect]
@[simp] theorem Tree.errs_err (e : PErr) (d : List Tok) : Tree.errs (.err e d) = [(e, d)] := by
  simp [Tree.errs, Tree.collect]
@[simp] theorem Forest.errs_nil : Forest.errs .nil = [] := by simp [Forest.errs, Forest.collect]
@[simp] theorem Forest.errs_cons (t : Tree) (ts : Forest) :
    Forest.errs (.cons t ts) = Tree.errs t ++ Forest.errs ts := by
  simp [Forest.errs, Tree.errs, Forest.collect]

mutual
/-- the leaves are among the covered tokens, in order -/
theorem Tree.yield_sublist_covered : (t : Tree) → List.Sublist t.yield (Tree.covered t)
  | .leaf a => by simp [Tree.yield]
  | .node _ _ _ ks => by simpa [Tree.yield] using Forest.yield_sublist_covered ks
  | .err _ d => by simp [Tree.yield]
theorem Forest.yield_sublist_covered : (f : Forest) → List.Sublist f.yield (Forest.covered f)
  | .nil => by simp [Forest.yield]
  | .cons t ts => by
    simpa [Forest.yield] using List.Sublist.append (Tree.yield_sublist_covered t) (Forest.yield_sublist_covered ts)
end

mutual
/-- a tree without error nodes covers exactly its leaves -/
theorem Tree.covered_eq_yield : (t : Tree) → Tree.errs t = [] → Tree.covered t = t.yield
  | .leaf a, _ => by simp [Tree.yield]
  | .node _ _ _ ks, h => by simpa [Tree.yield] using Forest.covered_eq_yield ks (by simpa using h)
  | .err _ d, h => by simp at h
theorem Forest.covered_eq_yield : (f : Forest) → Forest.errs f = [] → Forest.covered f = f.yield
  | .nil, _ => by simp [Forest.yield]
  | .cons t ts, h => by
    simp at h
    simp [Forest.yield, Tree.covered_eq_yield t h.1, Forest.covered_eq_yield ts h.2]
end


/-! ### sub-step facts about the symbol stack -/

theorem ReduceSpec.cont_syms {c : Cfg} {p : Nat} {ls : Option Int} {c' : Cfg}
    (h : ReduceSpec T failAt startLoc c p ls (.continue_ c')) :
    ∃ n, c'.symbols = reduceSym startLoc c p n ls :: c.symbols.drop n := by
  cases h with
  | cont n A hn hlen hnf hlhs hst below more hs => exact ⟨n, rfl⟩

theorem ReduceSpec.fin_ok {c : Cfg} {p : Nat} {ls : Option Int} {c' : Cfg} {v : Tree}
    (h : ReduceSpec T failAt startLoc c p ls (.finished c' (.ok v))) :
    ∃ k rest, c.symbols = k :: rest ∧ v = k.2.1 := by
  cases h with
  | accept n hn hlen hnf hst k hk =>
    refine ⟨k, c.symbols.drop n, ?_, rfl⟩
    conv => lhs; rw [← List.take_append_drop n c.symbols, hk]
    rfl

theorem finOutcome_ok {ph : Phase} {r : Outcome} {v : Tree} (h : finOutcome ph r = .ok v) : r = .ok v := by
  cases ph <;> cases r <;> simp_all [finOutcome]

theorem toksOf_sublist {a b : List Item} (h : a.Sublist b) : (toksOf a).Sublist (toksOf b) := by
  induction h with
  | slnil => simp
  | cons x h ih => cases x <;> simp <;> first | exact ih | exact ih.cons _
  | cons_cons x h ih => cases x <;> simp <;> exact ih

theorem toksOf_take_sublist (n : Nat) (input : List Item) :
    (toksOf (input.take n)).Sublist (toksOf input) := toksOf_sublist (List.take_sublist n input)

theorem take_succ_of_get {α : Type} {l : List α} {n : Nat} {x : α} (h : l[n]? = some x) :
    l.take (n + 1) = l.take n ++ [x] := by
  rw [List.take_add_one, h]; rfl

/-- what one `next_token` does to `input.take pulled` -/
theorem next_take {input : List Item} {c c' : Cfg} {nt : NextToken} (hn : NextSpec T af c c' nt)
    (hinp : c.input = input.drop c.pulled) :
    c'.symbols = c.symbols ∧ c'.pulled = c.pulled + 1 ∧
    match nt with
    | .found t _ => input.take c'.pulled = input.take c.pulled ++ [.tok t]
    | .eof => input.take c'.pulled = input.take c.pulled
    | .done r => ∀ v, r ≠ .ok v := by
  cases hn with
  | eof h =>
    rw [hinp] at h
    have hl := drop_nil_facts h
    refine ⟨rfl, rfl, ?_⟩
    simp only
    rw [List.take_of_length_le (by omega), List.take_of_length_le hl]
  | err e rest h => exact ⟨rfl, rfl, by simp⟩
  | found t i rest h hk =>
    rw [hinp] at h
    exact ⟨rfl, rfl, (drop_cons_facts h).2.1⟩
  | unrec t rest h hk ex hex => exact ⟨rfl, rfl, by simp⟩
  | panic t rest h hk tag => exact ⟨rfl, rfl, by simp⟩

/-! ### the accounting invariant -/

def laToks : Option (Tok × Term) → List Tok
  | some (t, _) => [t]
  | none => []

/-- tokens pulled but not (yet) on the symbol stack -/
def held : Phase → List Tok
  | .act la _ => [la]
  | .recReduce la _ _ => laToks la
  | .recFind la _ dropped _ _ => dropped ++ laToks la
  | _ => []

/-- `d` is a contiguous run of tokens of the stream, in stream order -/
def Contig (input : List Item) (d : List Tok) : Prop :=
  ∃ pre post, input = pre ++ d.map Item.tok ++ post

structure RecInv (input : List Item) (c : Cfg) (ph : Phase) : Prop where
  cov : phDone ph = false →
    (stackCovered c.symbols ++ held ph).Sublist (toksOf (input.take c.pulled))
  errs : phDone ph = false → ∀ e ∈ stackErrs c.symbols, Contig input e.2
  seg : ∀ la e d sl fe, ph = .recFind la e d sl fe →
    ∃ pre, input.take c.pulled = pre ++ (d ++ laToks la).map Item.tok
  fin : ∀ v, ph = .done (.ok v) →
    (Tree.covered v).Sublist (toksOf input) ∧ ∀ e ∈ Tree.errs v, Contig input e.2

theorem RecInv.of_not_ok {input : List Item} {c : Cfg} {r : Outcome} (h : ∀ v, r ≠ .ok v) :
    RecInv input c (.done r) where
  cov := by simp [phDone]
  errs := by simp [phDone]
  seg := by intro la e d sl fe h; cases h
  fin := by intro v hv; injection hv with hv; exact (h v hv).elim

theorem RecInv.init (input : List Item) : RecInv input (init startLoc input) .pull where
  cov := by simp [LR.init, stackCovered, stackCollect, held]
  errs := by simp [LR.init, stackErrs, stackCollect]
  seg := by intro la e d sl fe h; cases h
  fin := by intro v hv; cases hv


theorem stackCovered_cons (s : SymTriple) (l : List SymTriple) :
    stackCovered (s :: l) = stackCovered l ++ Tree.covered s.2.1 := rfl

theorem stackErrs_cons (s : SymTriple) (l : List SymTriple) :
    stackErrs (s :: l) = stackErrs l ++ Tree.errs s.2.1 := rfl

theorem contig_of_seg {input : List Item} {n : Nat} {pre : List Item} {d rest : List Tok}
    (h : input.take n = pre ++ (d ++ rest).map Item.tok) : Contig input d := by
  refine ⟨pre, rest.map Item.tok ++ input.drop n, ?_⟩
  conv => lhs; rw [← List.take_append_drop n input, h]
  simp

theorem RecInv.step {input : List Item} {c c' : Cfg} {ph ph' : Phase}
    (hio : IOInv T startLoc input c ph) (h : RecInv input c ph)
    (hs : Step T af failAt startLoc c ph c' ph') : RecInv input c' ph' := by
  cases hs with
  | done r => exact h
  | panic _ tag hd => exact .of_not_ok (by simp)
  | pull _ nt hn =>
    obtain ⟨h1, h2, h3⟩ := next_take hn hio.inp
    have hcov := h.cov rfl
    cases nt with
    | eof =>
      refine ⟨fun _ => ?_, fun _ => ?_, (by intro la e d sl fe hh; cases hh), (by intro v hv; cases hv)⟩
      · rw [h1, h3]; exact hcov
      · rw [h1]; exact h.errs rfl
    | found t i =>
      refine ⟨fun _ => ?_, fun _ => ?_, (by intro la e d sl fe hh; cases hh), (by intro v hv; cases hv)⟩
      · rw [h1, h3]
        simp only [pullK, held, toksOf_append, toksOf_tok, toksOf_nil] at hcov ⊢
        simp only [List.append_nil] at hcov
        exact hcov.append (List.Sublist.refl _)
      · rw [h1]; exact h.errs rfl
    | done r => exact .of_not_ok h3
  | shift la idx top rest a target hst ha hsh =>
    refine ⟨fun _ => ?_, fun _ => ?_, (by intro la e d sl fe hh; cases hh), (by intro v hv; cases hv)⟩
    · have := h.cov rfl
      simpa [stackCovered_cons, held] using this
    · have := h.errs rfl
      simpa [stackErrs_cons] using this
  | redCont _ p ls _ hctx hr =>
    obtain ⟨n, hsym⟩ := hr.cont_syms
    have hp := hr.cont_io.2.1
    refine ⟨fun hd => ?_, fun hd => ?_, ?_, ?_⟩
    · rw [hsym, hp, stackCovered, stackCollect_reduce]; exact h.cov hd
    · rw [hsym, stackErrs, stackCollect_reduce]; exact h.errs hd
    · intro la e d sl fe hh; subst hh; exact hctx.elim
    · intro v hv; subst hv; exact hctx.elim
  | redFin _ p ls _ r hctx hr =>
    cases r with
    | ok v =>
      have hnd : phDone ph = false := by cases ph <;> first | rfl | exact hctx.elim
      obtain ⟨k, rest, hk, hv⟩ := hr.fin_ok
      refine ⟨by simp [phDone], by simp [phDone], (by intro la e d sl fe hh; cases hh), ?_⟩
      intro v' hv'
      injection hv' with hv'
      have := finOutcome_ok hv'
      injection this with this
      subst this
      subst hv
      constructor
      · have hcov := h.cov hnd
        rw [hk, stackCovered_cons] at hcov
        exact (((List.sublist_append_right _ _).trans (List.sublist_append_left _ _)).trans hcov).trans
          (toksOf_take_sublist _ _)
      · intro e he
        apply h.errs hnd e
        rw [hk, stackErrs_cons]
        exact List.mem_append_right _ he
    | err e => exact .of_not_ok (by intro v hv; have := finOutcome_ok hv; cases this)
    | panic t => exact .of_not_ok (by intro v hv; have := finOutcome_ok hv; cases this)
  | enterNoRec _ la fe ex hctx hex hrec => exact .of_not_ok (by simp)
  | enterRec _ la fe ex hctx hex hrec =>
    cases ph with
    | act t idx =>
      obtain ⟨rfl, -, -⟩ := hctx
      exact ⟨fun _ => h.cov rfl, fun _ => h.errs rfl, (by intro la e d sl fe hh; cases hh),
        (by intro v hv; cases hv)⟩
    | eof =>
      obtain ⟨rfl, -, -⟩ := hctx
      exact ⟨fun _ => h.cov rfl, fun _ => h.errs rfl, (by intro la e d sl fe hh; cases hh),
        (by intro v hv; cases hv)⟩
    | _ => exact hctx.elim
  | toFind la e fe top rest a hst ha hnr =>
    refine ⟨fun _ => by simpa [held] using h.cov rfl, fun _ => h.errs rfl, ?_, (by intro v hv; cases hv)⟩
    intro la' e' d sl' fe' hh
    injection hh with h1 h2 h3 h4 h5
    subst h1 h3
    rcases la with _ | ⟨t, i⟩
    · exact ⟨input.take c.pulled, by simp [laToks]⟩
    · obtain ⟨hp1, hp2⟩ := hio.la t rfl
      refine ⟨input.take (c.pulled - 1), ?_⟩
      have := take_succ_of_get hp2
      rw [Nat.sub_add_cancel hp1] at this
      simpa [laToks] using this
  | push la e dropped sl fe top hf _ _ hp =>
    cases hp with
    | panic tag => exact .of_not_ok (by simp)
    | ok l r hl hr rs rest hrs a ha es hes =>
      obtain ⟨pre, hseg⟩ := h.seg _ _ _ _ _ rfl
      have hcov := h.cov rfl
      have hcov' : (stackCovered (truncBot c.symbols top) ++ dropped ++ laToks la).Sublist
          (toksOf (input.take c.pulled)) := by
        refine List.Sublist.trans ?_ hcov
        simp only [held, List.append_assoc]
        exact List.Sublist.append (stackCollect_drop_prefix _ _ _ _).sublist (List.Sublist.refl _)
      have herrs : ∀ e' ∈ stackErrs (recCfg c es top (l, Tree.err e dropped, r)).symbols, Contig input e'.2 := by
        intro e' he'
        simp only [recCfg, stackErrs_cons, Tree.errs_err, List.mem_append, List.mem_singleton] at he'
        rcases he' with he' | rfl
        · exact h.errs rfl e' ((stackCollect_drop_prefix _ _ _ _).subset he')
        · exact contig_of_seg hseg
      rcases la with _ | ⟨t, i⟩
      · refine ⟨fun _ => ?_, fun _ => herrs, (by intro la e d sl fe hh; cases fe <;> cases hh),
          (by intro v hv; cases fe <;> cases hv)⟩
        simpa [recCfg, stackCovered_cons, afterPh, held, laToks] using hcov'
      · cases fe with
        | true => exact .of_not_ok (by simp)
        | false =>
          refine ⟨fun _ => ?_, fun _ => herrs, (by intro la e d sl fe hh; cases hh), (by intro v hv; cases hv)⟩
          simpa [recCfg, stackCovered_cons, afterPh, held, laToks] using hcov'
  | giveUp e dropped sl fe hf => exact .of_not_ok (by simp)
  | drop t i e dropped sl fe hf _ nt hn =>
    obtain ⟨h1, h2, h3⟩ := next_take hn hio.inp
    have hcov := h.cov rfl
    obtain ⟨pre, hseg⟩ := h.seg _ _ _ _ _ rfl
    cases nt with
    | eof =>
      refine ⟨fun _ => ?_, fun _ => ?_, ?_, (by intro v hv; cases hv)⟩
      · rw [h1, h3]; simpa [dropK, held, laToks] using hcov
      · rw [h1]; exact h.errs rfl
      · intro la' e' d sl' fe' hh
        injection hh with e1 e2 e3 e4 e5
        subst e1 e3
        exact ⟨pre, by rw [h3, hseg]; simp [laToks]⟩
    | found t' i' =>
      refine ⟨fun _ => ?_, fun _ => ?_, ?_, (by intro v hv; cases hv)⟩
      · rw [h1, h3]
        simp only [dropK, held, laToks, toksOf_append, toksOf_tok, toksOf_nil] at hcov ⊢
        rw [← List.append_assoc]
        exact hcov.append (List.Sublist.refl _)
      · rw [h1]; exact h.errs rfl
      · intro la' e' d sl' fe' hh
        injection hh with e1 e2 e3 e4 e5
        subst e1 e3
        exact ⟨pre, by rw [h3, hseg]; simp [laToks]⟩
    | done r => exact .of_not_ok h3


/-! ### runs without error recovery: nothing is lost, no error node appears -/

structure PlainInv (input : List Item) (c : Cfg) (ph : Phase) : Prop where
  norec : phErr ph = none
  noerr : phDone ph = false → stackErrs c.symbols = []
  acc : phDone ph = false → stackCovered c.symbols ++ held ph = toksOf (input.take c.pulled)
  fin : ∀ v, ph = .done (.ok v) → Tree.errs v = []
  finTok : ∀ t ex, ph = .done (.err (.unrecognizedToken t ex)) →
    stackErrs c.symbols = [] ∧ stackCovered c.symbols ++ [t] = toksOf (input.take c.pulled)
  finEof : ∀ loc ex, ph = .done (.err (.unrecognizedEof loc ex)) →
    stackErrs c.symbols = [] ∧ stackCovered c.symbols = toksOf input

theorem PlainInv.init (input : List Item) : PlainInv input (init startLoc input) .pull where
  norec := rfl
  noerr := by simp [LR.init, stackErrs, stackCollect]
  acc := by simp [LR.init, stackCovered, stackCollect, held]
  fin := by intro v hv; cases hv
  finTok := by intro t ex hv; cases hv
  finEof := by intro t ex hv; cases hv

/-- a final phase about which `PlainInv` says nothing -/
theorem PlainInv.of_other {input : List Item} {c : Cfg} {r : Outcome} (h1 : ∀ v, r ≠ .ok v)
    (h2 : ∀ t ex, r ≠ .err (.unrecognizedToken t ex)) (h3 : ∀ l ex, r ≠ .err (.unrecognizedEof l ex)) :
    PlainInv input c (.done r) where
  norec := rfl
  noerr := by simp [phDone]
  acc := by simp [phDone]
  fin := by intro v hv; injection hv with hv; exact (h1 v hv).elim
  finTok := by intro t ex hv; injection hv with hv; exact (h2 t ex hv).elim
  finEof := by intro t ex hv; injection hv with hv; exact (h3 t ex hv).elim

theorem finOutcome_eq_cases (ph : Phase) (r : Outcome) :
    finOutcome ph r = r ∨ ∃ la v, finOutcome ph r = .err (.extraToken la) ∧ r = .ok v := by
  cases ph <;> cases r <;> simp [finOutcome]

theorem PlainInv.step {input : List Item} {c c' : Cfg} {ph ph' : Phase}
    (hio : IOInv T startLoc input c ph) (h : PlainInv input c ph)
    (hs : Step T af failAt startLoc c ph c' ph')
    (hnr : ∀ la fe, EnterCtx T c ph la fe → T.usesRecovery = false) : PlainInv input c' ph' := by
  cases hs with
  | done r => exact h
  | panic _ tag hd => exact .of_other (by simp) (by simp) (by simp)
  | pull _ nt hn =>
    have hacc := h.acc rfl
    have hne := h.noerr rfl
    simp only [held, List.append_nil] at hacc
    have hinp := hio.inp
    cases hn with
    | eof hh =>
      rw [hinp] at hh
      have hl := drop_nil_facts hh
      refine ⟨rfl, fun _ => hne, fun _ => ?_, (by intro v hv; cases hv), (by intro t ex hv; cases hv),
        (by intro t ex hv; cases hv)⟩
      simp only [pullK, held, List.append_nil]
      rw [hacc, List.take_of_length_le hl, List.take_of_length_le (by omega)]
    | err e rest hh => exact .of_other (by simp) (by simp) (by simp)
    | found t i rest hh hk =>
      rw [hinp] at hh
      refine ⟨rfl, fun _ => hne, fun _ => ?_, (by intro v hv; cases hv), (by intro t ex hv; cases hv),
        (by intro t ex hv; cases hv)⟩
      simp only [pullK, held, pullTokCfg]
      rw [(drop_cons_facts hh).2.1, hacc]; simp
    | unrec t rest hh hk ex hex =>
      rw [hinp] at hh
      refine ⟨rfl, by simp [pullK, phDone], by simp [pullK, phDone], (by intro v hv; cases hv), ?_,
        (by intro t ex hv; cases hv)⟩
      intro t' ex' hv
      injection hv with hv; injection hv with hv; injection hv with hv1 hv2
      subst hv1
      refine ⟨hne, ?_⟩
      simp only [pullTokCfg]
      rw [(drop_cons_facts hh).2.1, hacc]; simp
    | panic t rest hh hk tag => exact .of_other (by simp) (by simp) (by simp)
  | shift la idx top rest a target hst ha hsh =>
    refine ⟨rfl, fun _ => ?_, fun _ => ?_, (by intro v hv; cases hv), (by intro t ex hv; cases hv),
      (by intro t ex hv; cases hv)⟩
    · have := h.noerr rfl
      simpa [stackErrs_cons] using this
    · have := h.acc rfl
      simpa [stackCovered_cons, held] using this
  | redCont _ p ls _ hctx hr =>
    obtain ⟨n, hsym⟩ := hr.cont_syms
    have hp := hr.cont_io.2.1
    refine ⟨h.norec, fun hd => ?_, fun hd => ?_, ?_, ?_, ?_⟩
    · rw [hsym, stackErrs, stackCollect_reduce]; exact h.noerr hd
    · rw [hsym, hp, stackCovered, stackCollect_reduce]; exact h.acc hd
    · intro v hv; subst hv; exact hctx.elim
    · intro t ex hv; subst hv; exact hctx.elim
    · intro t ex hv; subst hv; exact hctx.elim
  | redFin _ p ls _ r hctx hr =>
    have hnd : phDone ph = false := by cases ph <;> first | rfl | exact hctx.elim
    rcases finOutcome_eq_cases ph r with heq | ⟨la, v, heq, -⟩
    · rw [heq]
      rcases hr.fin_outcome with ⟨tag, rfl⟩ | ⟨e, rfl⟩ | ⟨v, rfl⟩
      · exact .of_other (by simp) (by simp) (by simp)
      · exact .of_other (by simp) (by simp) (by simp)
      · obtain ⟨k, rest, hk, hv⟩ := hr.fin_ok
        refine ⟨rfl, by simp [phDone], by simp [phDone], ?_, (by intro t ex hv; cases hv),
          (by intro t ex hv; cases hv)⟩
        intro v' hv'
        injection hv' with hv'; injection hv' with hv'
        subst hv' hv
        have := h.noerr hnd
        rw [hk, stackErrs_cons] at this
        exact (List.append_eq_nil_iff.mp this).2
    · rw [heq]; exact .of_other (by simp) (by simp) (by simp)
  | enterNoRec _ la fe ex hctx hex hrec =>
    cases ph with
    | act t idx =>
      obtain ⟨rfl, -, -⟩ := hctx
      refine ⟨rfl, by simp [phDone], by simp [phDone], (by intro v hv; cases hv), ?_,
        (by intro t ex hv; cases hv)⟩
      intro t' ex' hv
      injection hv with hv; injection hv with hv
      simp only [mkErr] at hv
      injection hv with hv1 hv2
      subst hv1
      exact ⟨h.noerr rfl, h.acc rfl⟩
    | eof =>
      obtain ⟨rfl, -, -⟩ := hctx
      refine ⟨rfl, by simp [phDone], by simp [phDone], (by intro v hv; cases hv),
        (by intro t ex hv; cases hv), ?_⟩
      intro l ex' hv
      have := h.acc rfl
      simp only [held, List.append_nil] at this
      rw [hio.eof rfl, List.take_of_length_le (by omega)] at this
      exact ⟨h.noerr rfl, this⟩
    | _ => exact hctx.elim
  | enterRec _ la fe ex hctx hex hrec => rw [hnr la fe hctx] at hrec; cases hrec
  | toFind la e fe top rest a hst ha hnr => cases h.norec
  | push la e dropped sl fe top hf _ _ hp => cases h.norec
  | giveUp e dropped sl fe hf => cases h.norec
  | drop t i e dropped sl fe hf _ nt hn => cases h.norec


/-! ### lifting to runs -/

theorem recinv_run (T : Tables) (af : Nat) (failAt : Option Nat) (startLoc : Int) (input : List Item) (n : Nat) :
    RecInv input (run T af failAt startLoc n (init startLoc input) .pull).1
      (run T af failAt startLoc n (init startLoc input) .pull).2 := by
  have := run_inv T af failAt startLoc
    (fun c ph => IOInv T startLoc input c ph ∧ RecInv input c ph)
    (fun c ph h => ⟨h.1.step (step_spec T af failAt startLoc c ph),
      h.2.step h.1 (step_spec T af failAt startLoc c ph)⟩)
    (c0 := init startLoc input) (ph0 := .pull) ⟨IOInv.init T startLoc _, RecInv.init _⟩ n
  exact this.2

theorem plain_run (T : Tables) (af : Nat) (failAt : Option Nat) (startLoc : Int) (input : List Item) (n : Nat)
    (hno : ∀ k, k < n → ∀ la fe,
      EnterCtx T (run T af failAt startLoc k (init startLoc input) .pull).1
        (run T af failAt startLoc k (init startLoc input) .pull).2 la fe → T.usesRecovery = false) :
    PlainInv input (run T af failAt startLoc n (init startLoc input) .pull).1
      (run T af failAt startLoc n (init startLoc input) .pull).2 := by
  induction n with
  | zero => simpa using PlainInv.init (startLoc := startLoc) input
  | succ n ih =>
    rw [run_succ']
    exact (ih (fun k hk => hno k (Nat.lt_succ_of_lt hk))).step (ioinv_run af failAt input n)
      (step_spec T af failAt startLoc _ _) (hno n (Nat.lt_succ_self n))

theorem recinv_of_run {input : List Item} {n : Nat} {c : Cfg} {ph : Phase}
    (h : run T af failAt startLoc n (init startLoc input) .pull = (c, ph)) : RecInv input c ph := by
  have := recinv_run T af failAt startLoc input n
  rwa [h] at this

theorem plain_of_run {input : List Item} {n : Nat} {c : Cfg} {ph : Phase}
    (h : run T af failAt startLoc n (init startLoc input) .pull = (c, ph))
    (hno : ∀ k, k < n → ∀ la fe,
      EnterCtx T (run T af failAt startLoc k (init startLoc input) .pull).1
        (run T af failAt startLoc k (init startLoc input) .pull).2 la fe → T.usesRecovery = false) :
    PlainInv input c ph := by
  have := plain_run T af failAt startLoc input n hno
  rwa [h] at this

/-- without error nodes, what the stack covers is the concatenation of the yields of its trees -/
theorem stackCovered_eq_yields {syms : List SymTriple} (h : stackErrs syms = []) :
    stackCovered syms = (syms.reverse.map (fun s => s.2.1.yield)).flatten := by
  induction syms with
  | nil => simp [stackCovered, stackCollect]
  | cons s l ih =>
    rw [stackErrs_cons] at h
    obtain ⟨h1, h2⟩ := List.append_eq_nil_iff.mp h
    rw [stackCovered_cons, ih h1, Tree.covered_eq_yield _ h2]
    simp

end LalrpopModel.LR.Generic
