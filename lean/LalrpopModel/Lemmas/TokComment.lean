import LalrpopModel.Lemmas.TokBasic
/-! `block_comment`'s four-state machine computes rustc's nested block comment scan. -/
namespace LalrpopModel.Tok

/-- rustc's scan of a block comment body (`rustc_lexer::Cursor::block_comment`): `d` = number of
    enclosing comments still open besides the current one; the text starts after the opening `/*`;
    result = the text after the matching `*/`, `none` if unterminated. -/
def refComment : Nat → List Char → Option (List Char)
  | _, [] => none
  | _, [_] => none
  | d, c :: c2 :: r =>
    if c = '/' ∧ c2 = '*' then refComment (d + 1) r
    else if c = '*' ∧ c2 = '/' then (if d = 0 then some r else refComment (d - 1) r)
    else refComment d (c2 :: r)

/-- what `block_comment`'s `take_until(end_of_comment)` + `bump` leaves, from closure state `(d, s)` -/
def machine (d : Nat) (s : CState) (pos : Nat) (xs : List Char) : Option (List Char) :=
  let t := takeUntilS commentStep (d, s) pos xs
  if t.1 then some t.2.2.bump.rest else none

theorem machine_nil (d : Nat) (s : CState) (pos : Nat) : machine d s pos [] = none := by
  simp [machine, takeUntilS]

theorem machine_cons (d : Nat) (s : CState) (pos : Nat) (x : Char) (xs : List Char) :
    machine d s pos (x :: xs) =
      if (commentStep (d, s) x).2 then some xs
      else machine (commentStep (d, s) x).1.1 (commentStep (d, s) x).1.2 (pos + x.utf8Size) xs := by
  simp only [machine, takeUntilS]
  split <;> simp [St.bump]

theorem refComment_other (d : Nat) (c : Char) (r : List Char) (h1 : c ≠ '/') (h2 : c ≠ '*') :
    refComment d (c :: r) = refComment d r := by
  cases r with
  | nil => simp [refComment]
  | cons c2 r => simp [refComment, h1, h2]

theorem refComment_slash_cons (d : Nat) (c : Char) (r : List Char) (h : c ≠ '*') :
    refComment d ('/' :: c :: r) = refComment d (c :: r) := by
  simp [refComment, h]

theorem refComment_star_cons (d : Nat) (c : Char) (r : List Char) (h : c ≠ '/') :
    refComment d ('*' :: c :: r) = refComment d (c :: r) := by
  simp [refComment, h]

theorem machine_spec (xs : List Char) : ∀ (d pos : Nat), 1 ≤ d →
    machine d .initial pos xs = refComment (d - 1) xs ∧
    machine d .slash pos xs = refComment (d - 1) ('/' :: xs) ∧
    machine d .star pos xs = refComment (d - 1) ('*' :: xs) := by
  induction xs with
  | nil =>
    intro d pos _
    simp [machine_nil, refComment]
  | cons x xs ih =>
    intro d pos hd
    by_cases hs : x = '*'
    · subst hs
      obtain ⟨i1, i2, i3⟩ := ih d (pos + '*'.utf8Size) hd
      obtain ⟨j1, _, _⟩ := ih (d + 1) (pos + '*'.utf8Size) (by omega)
      refine ⟨?_, ?_, ?_⟩
      · simpa [machine_cons, commentStep] using i3
      · have : refComment (d - 1) ('/' :: '*' :: xs) = refComment (d - 1 + 1) xs := by simp [refComment]
        rw [this]
        have hd' : d - 1 + 1 = d + 1 - 1 := by omega
        rw [hd', ← j1]
        simp [machine_cons, commentStep]
      · rw [refComment_star_cons _ _ _ (by decide)]
        simpa [machine_cons, commentStep] using i3
    · by_cases hl : x = '/'
      · subst hl
        obtain ⟨i1, i2, i3⟩ := ih d (pos + '/'.utf8Size) hd
        refine ⟨?_, ?_, ?_⟩
        · simpa [machine_cons, commentStep] using i2
        · rw [refComment_slash_cons _ _ _ (by decide)]
          simpa [machine_cons, commentStep] using i2
        · have : refComment (d - 1) ('*' :: '/' :: xs) = if d - 1 = 0 then some xs else refComment (d - 1 - 1) xs := by
            simp [refComment]
          rw [this]
          by_cases h1 : d - 1 = 0
          · simp [machine_cons, commentStep, h1]
          · have hd2 : 1 ≤ d - 1 := by omega
            obtain ⟨k1, _, _⟩ := ih (d - 1) (pos + '/'.utf8Size) hd2
            simp only [h1, if_false]
            rw [← k1]
            simp [machine_cons, commentStep, h1]
      · obtain ⟨i1, i2, i3⟩ := ih d (pos + x.utf8Size) hd
        refine ⟨?_, ?_, ?_⟩
        · rw [refComment_other _ _ _ hl hs]
          simpa [machine_cons, commentStep, hs, hl] using i1
        · rw [refComment_slash_cons _ _ _ hs, refComment_other _ _ _ hl hs]
          simpa [machine_cons, commentStep, hs, hl] using i1
        · rw [refComment_star_cons _ _ _ hl, refComment_other _ _ _ hl hs]
          simpa [machine_cons, commentStep, hs, hl] using i1

/-- bookkeeping of `take_until`: consumed ++ remaining = input, the position advanced by the consumed bytes -/
theorem takeUntilS_inv {σ : Type} (f : σ → Char → σ × Bool) (s : σ) (pos : Nat) (xs : List Char) :
    (takeUntilS f s pos xs).2.1 ++ (takeUntilS f s pos xs).2.2.rest = xs ∧
    (takeUntilS f s pos xs).2.2.pos = pos + utf8Len (takeUntilS f s pos xs).2.1 ∧
    ((takeUntilS f s pos xs).1 = true → (takeUntilS f s pos xs).2.2.rest ≠ []) := by
  induction xs generalizing s pos with
  | nil => simp [takeUntilS]
  | cons x xs ih =>
    simp only [takeUntilS]
    split
    · simp
    · obtain ⟨h1, h2, h3⟩ := ih (f s x).1 (pos + x.utf8Size)
      refine ⟨by simp [h1], by simp [h2, Nat.add_assoc], h3⟩

/-- **`block_comment` = rustc's nested comment scan.**  Entered after `/*`, the four-state machine of
    `Tokenizer::block_comment` succeeds exactly when rustc's depth-counting scan finds the matching
    `*/`, leaves exactly the text after it, and advances the position by the bytes consumed. -/
theorem block_comment_matches_rustc (idx0 pos : Nat) (xs : List Char) :
    blockComment idx0 ⟨pos, xs⟩ =
      match refComment 0 xs with
      | some r => .ok ⟨pos + utf8Len xs - utf8Len r, r⟩
      | none => err .unterminatedBlockComment idx0 := by
  have hm := (machine_spec xs 1 pos (Nat.le_refl 1)).1
  obtain ⟨h1, h2, h3⟩ := takeUntilS_inv commentStep (1, CState.initial) pos xs
  simp only [machine] at hm
  simp only [blockComment]
  rcases ht : takeUntilS commentStep (1, CState.initial) pos xs with ⟨b, cons, st1⟩
  rw [ht] at hm h1 h2 h3
  cases b with
  | false => simp at hm; simp [← hm]
  | true =>
    simp at hm h3 h1 h2
    rw [← hm]
    obtain ⟨p1, r1⟩ := st1
    cases r1 with
    | nil => simp at h3
    | cons y ys =>
      simp [St.bump] at h1 h2 ⊢
      subst h2
      rw [← h1, utf8Len_append]
      simp
      omega

end LalrpopModel.Tok
