import LalrpopModel.Model.SymVariant
/-! Lemmas about the variant assignment (C19). -/
namespace LalrpopModel.SymVariant

variable {Ty : Type} [DecidableEq Ty]

theorem pos_some (t : Ty) (vs : List Ty) (i : Nat) (h : pos t vs = some i) : vs[i]? = some t := by
  induction vs generalizing i with
  | nil => simp [pos] at h
  | cons v vs ih =>
    simp only [pos] at h
    by_cases e : v = t
    · rw [if_pos e] at h; cases h; simp [e]
    · rw [if_neg e] at h
      cases hp : pos t vs with
      | none => rw [hp] at h; simp at h
      | some j =>
        rw [hp] at h
        simp only [Option.map_some, Option.some.injEq] at h
        subst h
        simpa using ih j hp

theorem pos_none (t : Ty) (vs : List Ty) (h : pos t vs = none) : t ∉ vs := by
  induction vs with
  | nil => simp
  | cons v vs ih =>
    simp only [pos] at h
    by_cases e : v = t
    · rw [if_pos e] at h; cases h
    · rw [if_neg e] at h
      have : pos t vs = none := by
        cases hp : pos t vs with
        | none => rfl
        | some j => rw [hp] at h; simp at h
      intro hm
      rcases List.mem_cons.mp hm with rfl | hm'
      · exact e rfl
      · exact ih this hm'

/-- the invariant of the loop: variants stay duplicate-free, earlier variants keep their number,
    and the variant recorded for each symbol holds that symbol's type -/
theorem assign_spec (ts vs : List Ty) (hnd : vs.Nodup) :
    (assign ts vs).2.Nodup ∧ (∃ ext, (assign ts vs).2 = vs ++ ext) ∧
    (assign ts vs).1.length = ts.length ∧
    ∀ k (hk : k < ts.length), ∃ n, (assign ts vs).1[k]? = some n ∧ (assign ts vs).2[n]? = some ts[k] := by
  induction ts generalizing vs with
  | nil => exact ⟨hnd, ⟨[], by simp [assign]⟩, rfl, fun k hk => absurd hk (Nat.not_lt_zero k)⟩
  | cons t ts ih =>
    simp only [assign]
    cases hp : pos t vs with
    | some i =>
      obtain ⟨h1, ⟨ext, h2⟩, h3, h4⟩ := ih vs hnd
      refine ⟨h1, ⟨ext, h2⟩, by simp [h3], ?_⟩
      intro k hk
      cases k with
      | zero =>
        refine ⟨i, by simp, ?_⟩
        simp only [h2, List.getElem_cons_zero]
        have := pos_some t vs i hp
        have hi : i < vs.length := by
          rcases List.getElem?_eq_some_iff.mp this with ⟨hi, _⟩; exact hi
        rw [List.getElem?_append_left hi]; exact this
      | succ k =>
        obtain ⟨n, hn1, hn2⟩ := h4 k (by simpa using hk)
        exact ⟨n, by simpa using hn1, by simpa using hn2⟩
    | none =>
      have hnd' : (vs ++ [t]).Nodup := by
        rw [List.nodup_append]
        refine ⟨hnd, by simp, ?_⟩
        intro a ha b hb
        simp only [List.mem_singleton] at hb
        subst hb
        intro e; subst e
        exact pos_none _ vs hp ha
      obtain ⟨h1, ⟨ext, h2⟩, h3, h4⟩ := ih (vs ++ [t]) hnd'
      refine ⟨h1, ⟨t :: ext, by simp [h2]⟩, by simp [h3], ?_⟩
      intro k hk
      cases k with
      | zero =>
        refine ⟨vs.length, by simp, ?_⟩
        simp [h2]
      | succ k =>
        obtain ⟨n, hn1, hn2⟩ := h4 k (by simpa using hk)
        exact ⟨n, by simpa using hn1, by simpa using hn2⟩

theorem nodup_index_inj (vs : List Ty) (hnd : vs.Nodup) (i j : Nat) (t : Ty)
    (hi : vs[i]? = some t) (hj : vs[j]? = some t) : i = j := by
  induction vs generalizing i j with
  | nil => simp at hi
  | cons v vs ih =>
    have hnd' := List.nodup_cons.mp hnd
    cases i with
    | zero =>
      cases j with
      | zero => rfl
      | succ j =>
        simp only [List.getElem?_cons_zero, Option.some.injEq] at hi
        simp only [List.getElem?_cons_succ] at hj
        subst hi
        exact absurd (List.mem_of_getElem? hj) hnd'.1
    | succ i =>
      cases j with
      | zero =>
        simp only [List.getElem?_cons_zero, Option.some.injEq] at hj
        simp only [List.getElem?_cons_succ] at hi
        subst hj
        exact absurd (List.mem_of_getElem? hi) hnd'.1
      | succ j =>
        simp only [List.getElem?_cons_succ] at hi hj
        rw [ih hnd'.2 i j hi hj]

end LalrpopModel.SymVariant
