import LalrpopModel.Lemmas.TyInferMain
/-! `inferLoop`, the re-check of the candidate fix, and the specification's monotonicity (C19). -/
namespace LalrpopModel.TyInfer

variable {Ty Tpl : Type} [DecidableEq Ty] (env : Env Ty Tpl) (G : Grammar Tpl)

theorem inferLoop_grows (fuel : Nat) (order : List String) (s : St Ty) :
    Grows s (inferLoop env G fuel order s).2 := by
  induction order generalizing s with
  | nil => exact Grows.refl s
  | cons id rest ih =>
    simp only [inferLoop]
    have g1 := (ntType_recOK env G fuel).grows id s
    cases h1 : ntType env G fuel id s with
    | mk r1 s1 =>
      rw [h1] at g1
      cases r1 with
      | error e => exact g1
      | ok t => exact g1.trans (ih s1)

theorem inferLoop_inv (fuel : Nat) (order : List String) (s : St Ty) (hi : Inv env G s) :
    Inv env G (inferLoop env G fuel order s).2 := by
  induction order generalizing s with
  | nil => exact hi
  | cons id rest ih =>
    simp only [inferLoop]
    have g1 := (ntType_recOK env G fuel).inv id s hi
    cases h1 : ntType env G fuel id s with
    | mk r1 s1 =>
      rw [h1] at g1
      cases r1 with
      | error e => exact g1
      | ok t => exact ih s1 g1

theorem inferLoop_keys (fuel : Nat) (order : List String) (s : St Ty) (hi : KeysOK G s) :
    KeysOK G (inferLoop env G fuel order s).2 := by
  induction order generalizing s with
  | nil => exact hi
  | cons id rest ih =>
    simp only [inferLoop]
    have g1 := (ntType_recOK env G fuel).keys id s hi
    cases h1 : ntType env G fuel id s with
    | mk r1 s1 =>
      rw [h1] at g1
      cases r1 with
      | error e => exact g1
      | ok t => exact ih s1 g1

/-- after a successful loop every nonterminal of `order` has a type -/
theorem inferLoop_ok (fuel : Nat) (order : List String) (s : St Ty)
    (hr : (inferLoop env G fuel order s).1 = .ok ()) :
    ∀ id ∈ order, ∃ t, (inferLoop env G fuel order s).2.memo.lookup id = some t := by
  induction order generalizing s with
  | nil => intro id hm; cases hm
  | cons id rest ih =>
    intro id' hm
    simp only [inferLoop] at hr ⊢
    have o1 := (ntType_recOK env G fuel).ok id s
    cases h1 : ntType env G fuel id s with
    | mk r1 s1 =>
      rw [h1] at hr o1
      cases r1 with
      | error e => simp at hr
      | ok t =>
        simp only at hr ⊢
        rcases List.mem_cons.mp hm with rfl | hm'
        · exact ⟨t, (inferLoop_grows env G fuel rest s1).ext _ t (o1 t rfl)⟩
        · exact ih s1 hr id' hm'

/-- a successful loop needs fuel (when there is anything to type) -/
theorem inferLoop_fuel_pos (fuel : Nat) (id : String) (rest : List String) (s : St Ty)
    (hr : (inferLoop env G fuel (id :: rest) s).1 = .ok ()) : 0 < fuel := by
  cases fuel with
  | zero => simp [inferLoop, ntType] at hr
  | succ f => exact Nat.succ_pos f

/-! ### the specification is monotone in the table -/

theorem symTyP_mono (m m' : List (String × Ty)) (he : Ext m m') (x : Sym) (t : Ty)
    (hx : symTyP env m x = .ok t) : symTyP env m' x = .ok t := by
  induction x with
  | term u => exact hx
  | nt n =>
    simp only [symTyP] at hx ⊢
    cases hl : m.lookup n with
    | none => rw [hl] at hx; simp at hx
    | some v => rw [hl] at hx; rw [he n v hl]; exact hx
  | choose x ih => exact ih hx
  | named x ih => exact ih hx
  | tupled p x ih => exact ih hx
  | error => exact hx

theorem symTysP_mono (m m' : List (String × Ty)) (he : Ext m m') (xs : List Sym) (ts : List Ty)
    (hx : symTysP env m xs = .ok ts) : symTysP env m' xs = .ok ts := by
  induction xs generalizing ts with
  | nil => exact hx
  | cons x xs ih =>
    simp only [symTysP] at hx ⊢
    cases h1 : symTyP env m x with
    | error e => rw [h1] at hx; simp at hx
    | ok t =>
      rw [h1] at hx
      rw [symTyP_mono env m m' he x t h1]
      simp only at hx ⊢
      cases h2 : symTysP env m xs with
      | error e => rw [h2] at hx; simp at hx
      | ok ts2 =>
        rw [h2] at hx
        rw [ih ts2 h2]
        exact hx

theorem altTyP_mono (m m' : List (String × Ty)) (he : Ext m m') (alt : Alt) (t : Ty)
    (hx : altTyP env m alt = .ok t) : altTyP env m' alt = .ok t := by
  unfold altTyP at hx ⊢
  cases hact : alt.act with
  | user => rw [hact] at hx; simp at hx
  | lookahead => rw [hact] at hx; exact hx
  | lookbehind => rw [hact] at hx; exact hx
  | default =>
    rw [hact] at hx
    simp only at hx ⊢
    cases hs : analyzeExpr alt.syms with
    | named => rw [hs] at hx; simp at hx
    | anon syms =>
      rw [hs] at hx
      simp only at hx ⊢
      cases h1 : symTysP env m syms with
      | error e => rw [h1] at hx; simp at hx
      | ok ts =>
        rw [h1] at hx
        rw [symTysP_mono env m m' he syms ts h1]
        exact hx

/-! ### when the table already answers, the inferencer returns that answer and changes nothing -/

theorem symType_hit (f : Nat) (x : Sym) (s : St Ty) (t : Ty) (hx : symTyP env s.memo x = .ok t) :
    symType env (ntType env G (f + 1)) x s = (.ok t, s) := by
  induction x with
  | term u => simp only [symTyP] at hx; simp only [symType]; cases hx; rfl
  | nt n =>
    simp only [symTyP] at hx
    simp only [symType]
    rw [ntType]
    cases hl : s.memo.lookup n with
    | none => rw [hl] at hx; simp at hx
    | some v => rw [hl] at hx; cases hx; rfl
  | choose x ih => exact ih hx
  | named x ih => exact ih hx
  | tupled p x ih => exact ih hx
  | error => simp only [symTyP] at hx; simp only [symType]; cases hx; rfl

theorem symTypes_hit (f : Nat) (xs : List Sym) (s : St Ty) (ts : List Ty)
    (hx : symTysP env s.memo xs = .ok ts) :
    symTypes env (ntType env G (f + 1)) xs s = (.ok ts, s) := by
  induction xs generalizing ts with
  | nil => simp only [symTysP] at hx; cases hx; rfl
  | cons x xs ih =>
    simp only [symTysP] at hx
    simp only [symTypes]
    cases h1 : symTyP env s.memo x with
    | error e => rw [h1] at hx; simp at hx
    | ok t =>
      rw [h1] at hx
      rw [symType_hit env G f x s t h1]
      simp only at hx ⊢
      cases h2 : symTysP env s.memo xs with
      | error e => rw [h2] at hx; simp at hx
      | ok ts2 =>
        rw [h2] at hx
        rw [ih ts2 h2]
        cases hx
        rfl

theorem altType_hit (f : Nat) (alt : Alt) (s : St Ty) (t : Ty) (hx : altTyP env s.memo alt = .ok t) :
    altType env (ntType env G (f + 1)) alt s = (.ok t, s) := by
  unfold altTyP at hx
  unfold altType
  cases hact : alt.act with
  | user => rw [hact] at hx; simp at hx
  | lookahead =>
    rw [hact] at hx; simp only at hx ⊢
    cases hl : env.locTy with
    | none => rw [hl] at hx; simp at hx
    | some t' => rw [hl] at hx; cases hx; rfl
  | lookbehind =>
    rw [hact] at hx; simp only at hx ⊢
    cases hl : env.locTy with
    | none => rw [hl] at hx; simp at hx
    | some t' => rw [hl] at hx; cases hx; rfl
  | default =>
    rw [hact] at hx; simp only at hx ⊢
    cases hs : analyzeExpr alt.syms with
    | named => rw [hs] at hx; simp at hx
    | anon syms =>
      rw [hs] at hx; simp only at hx ⊢
      cases h1 : symTysP env s.memo syms with
      | error e => rw [h1] at hx; simp at hx
      | ok ts =>
        rw [h1] at hx
        rw [symTypes_hit env G f syms s ts h1]
        cases hx
        rfl

/-! ### the re-check -/

theorem recheckAlts_grows (fuel : Nat) (name : String) (ann : Bool) (ty : Ty) (alts : List Alt) (i : Nat)
    (s : St Ty) : Grows s (recheckAlts env G fuel name ann ty i alts s).2 := by
  induction alts generalizing i s with
  | nil => exact Grows.refl s
  | cons a as ih =>
    simp only [recheckAlts]
    have g1 := altType_grows env G (ntType_recOK env G fuel) a s
    cases h1 : altType env (ntType env G fuel) a s with
    | mk r1 s1 =>
      rw [h1] at g1
      cases r1 with
      | error e => exact g1.trans (ih (i + 1) s1)
      | ok t =>
        simp only
        split
        · exact g1
        · exact g1.trans (ih (i + 1) s1)

theorem recheckAlts_keys (fuel : Nat) (name : String) (ann : Bool) (ty : Ty) (alts : List Alt) (i : Nat)
    (s : St Ty) (hi : KeysOK G s) : KeysOK G (recheckAlts env G fuel name ann ty i alts s).2 := by
  induction alts generalizing i s with
  | nil => exact hi
  | cons a as ih =>
    simp only [recheckAlts]
    have g1 := altType_keys env G (ntType_recOK env G fuel) a s hi
    cases h1 : altType env (ntType env G fuel) a s with
    | mk r1 s1 =>
      rw [h1] at g1
      cases r1 with
      | error e => exact ih (i + 1) s1 g1
      | ok t =>
        simp only
        split
        · exact g1
        · exact ih (i + 1) s1 g1

/-- a successful re-check of an un-annotated nonterminal: every alternative the specification can
    type (from a table `M` the current one already contains) has the nonterminal's type -/
theorem recheckAlts_spec (f : Nat) (name : String) (ty : Ty) (alts : List Alt) (i : Nat) (s : St Ty)
    (M : List (String × Ty)) (hM : Ext M s.memo)
    (hr : (recheckAlts env G (f + 1) name false ty i alts s).1 = .ok ()) :
    ∀ alt ∈ alts, ∀ t, altTyP env M alt = .ok t → t = ty := by
  induction alts generalizing i s with
  | nil => intro alt hm; cases hm
  | cons a as ih =>
    intro alt hm t ht
    simp only [recheckAlts] at hr
    have g1 := altType_grows env G (ntType_recOK env G (f + 1)) a s
    cases h1 : altType env (ntType env G (f + 1)) a s with
    | mk r1 s1 =>
      rw [h1] at hr g1
      rcases List.mem_cons.mp hm with rfl | hm'
      · have hit := altType_hit env G f alt s t (altTyP_mono env M s.memo hM alt t ht)
        rw [hit] at h1
        cases h1
        simp only at hr
        by_cases hne : t = ty
        · exact hne
        · simp [hne] at hr
      · cases r1 with
        | error e => exact ih (i + 1) s1 (hM.trans g1.ext) hr alt hm' t ht
        | ok t1 =>
          simp only at hr
          split at hr
          · simp at hr
          · exact ih (i + 1) s1 (hM.trans g1.ext) hr alt hm' t ht

theorem recheckLoop_grows (fuel : Nat) (order : List String) (s : St Ty) :
    Grows s (recheckLoop env G fuel order s).2 := by
  induction order generalizing s with
  | nil => exact Grows.refl s
  | cons id rest ih =>
    simp only [recheckLoop]
    split
    · rename_i nt ty _ _
      have g1 := recheckAlts_grows env G fuel nt.name nt.decl.isSome ty nt.alts 0 s
      cases h1 : recheckAlts env G fuel nt.name nt.decl.isSome ty 0 nt.alts s with
      | mk r1 s1 =>
        rw [h1] at g1
        cases r1 with
        | error e => exact g1
        | ok u => exact g1.trans (ih s1)
    · exact Grows.refl s

theorem recheckLoop_keys (fuel : Nat) (order : List String) (s : St Ty) (hi : KeysOK G s) :
    KeysOK G (recheckLoop env G fuel order s).2 := by
  induction order generalizing s with
  | nil => exact hi
  | cons id rest ih =>
    simp only [recheckLoop]
    split
    · rename_i nt ty _ _
      have g1 := recheckAlts_keys env G fuel nt.name nt.decl.isSome ty nt.alts 0 s hi
      cases h1 : recheckAlts env G fuel nt.name nt.decl.isSome ty 0 nt.alts s with
      | mk r1 s1 =>
        rw [h1] at g1
        cases r1 with
        | error e => exact g1
        | ok u => exact ih s1 g1
    · exact hi

theorem recheckLoop_spec (f : Nat) (order : List String) (s : St Ty) (M : List (String × Ty))
    (hM : Ext M s.memo) (hr : (recheckLoop env G (f + 1) order s).1 = .ok ()) :
    ∀ id ∈ order, ∀ nt, G.find id = some nt → nt.decl = none → ∀ ty, M.lookup id = some ty →
      ∀ alt ∈ nt.alts, ∀ t, altTyP env M alt = .ok t → t = ty := by
  induction order generalizing s with
  | nil => intro id hm; cases hm
  | cons id rest ih =>
    intro id' hm nt hf hd ty hl alt hma t ht
    simp only [recheckLoop] at hr
    split at hr
    · rename_i nt0 ty0 hf0 hl0
      have g1 := recheckAlts_grows env G (f + 1) nt0.name nt0.decl.isSome ty0 nt0.alts 0 s
      cases h1 : recheckAlts env G (f + 1) nt0.name nt0.decl.isSome ty0 0 nt0.alts s with
      | mk r1 s1 =>
        rw [h1] at hr g1
        cases r1 with
        | error e => simp at hr
        | ok u =>
          simp only at hr
          rcases List.mem_cons.mp hm with rfl | hm'
          · rw [hf0] at hf
            cases hf
            have hty : ty0 = ty := by
              have := hM id' ty hl
              rw [hl0] at this
              cases this; rfl
            subst hty
            have hrr : (recheckAlts env G (f + 1) nt.name false ty0 0 nt.alts s).1 = .ok () := by
              have : nt.decl.isSome = false := by rw [hd]; rfl
              rw [← this, h1]
            exact recheckAlts_spec env G f nt.name ty0 nt.alts 0 s M hM hrr alt hma t ht
          · exact ih s1 (hM.trans g1.ext) hr id' hm' nt hf hd ty hl alt hma t ht
    · simp at hr

end LalrpopModel.TyInfer
