import LalrpopModel.Model.Path
/-! Helper lemmas about M-PATH: `lastDot`, component-list operations, the directory walk. -/

namespace LalrpopModel.PathM

/-! ### `lastDot`, `rsplitDot` -/

theorem lastDot_go_noDot (xs : Name) (i : Nat) (best : Option Nat) (h : DOT ∉ xs) :
    lastDot.go xs i best = best := by
  induction xs generalizing i best with
  | nil => rfl
  | cons x xs ih =>
    have hx : x ≠ DOT := by intro e; apply h; simp [e]
    have hxs : DOT ∉ xs := by intro e; apply h; simp [e]
    simp [lastDot.go, hx, ih _ _ hxs]

theorem lastDot_go_append (s e : Name) (i : Nat) (best : Option Nat) (h : DOT ∉ e) :
    lastDot.go (s ++ DOT :: e) i best = some (i + s.length) := by
  induction s generalizing i best with
  | nil => simp [lastDot.go, lastDot_go_noDot _ _ _ h]
  | cons x s ih =>
    simp only [List.cons_append, lastDot.go, ih, List.length_cons]
    congr 1; omega

theorem lastDot_noDot (n : Name) (h : DOT ∉ n) : lastDot n = none := lastDot_go_noDot n 0 none h

theorem lastDot_append (s e : Name) (h : DOT ∉ e) : lastDot (s ++ DOT :: e) = some s.length := by
  simp [lastDot, lastDot_go_append s e 0 none h]

/-- a name whose last dot is followed by `e`: stem and extension -/
theorem rsplitDot_append (s e : Name) (h : DOT ∉ e) (hs : s ≠ []) (hdd : s ++ DOT :: e ≠ [DOT, DOT]) :
    rsplitDot (s ++ DOT :: e) = (some s, some e) := by
  unfold rsplitDot
  rw [if_neg hdd, lastDot_append s e h]
  cases hl : s.length with
  | zero => exact absurd (List.length_eq_zero_iff.mp hl) hs
  | succ k =>
    simp only
    rw [← hl]
    simp

theorem rsplitDot_noDot (n : Name) (h : DOT ∉ n) : rsplitDot n = (none, some n) := by
  unfold rsplitDot
  have : n ≠ [DOT, DOT] := by intro e; apply h; simp [e]
  rw [if_neg this, lastDot_noDot n h]

theorem rsplitDot_hidden (m : Name) (h : DOT ∉ m) : rsplitDot (DOT :: m) = (some (DOT :: m), none) := by
  unfold rsplitDot
  have : DOT :: m ≠ [DOT, DOT] := by
    intro e; apply h; simp at e; simp [e]
  rw [if_neg this]
  have := lastDot_append [] m h
  simp at this
  rw [this]
  rfl

/-! ### component lists -/

def AllNormal (p : PathC) : Prop := ∀ c ∈ p, ∃ n, c = Comp.normal n

theorem allNormal_nil : AllNormal [] := by intro c hc; cases hc

theorem stripPrefix_append (base rel : PathC) : stripPrefix (base ++ rel) base = some rel := by
  induction base with
  | nil => cases rel <;> simp [stripPrefix]
  | cons b base ih => simp [stripPrefix, ih]

theorem stripPrefix_length {p base r : PathC} (h : stripPrefix p base = some r) :
    base.length ≤ p.length := by
  induction base generalizing p with
  | nil => simp
  | cons b base ih =>
    cases p with
    | nil => simp [stripPrefix] at h
    | cons c p =>
      simp only [stripPrefix] at h
      split at h
      · have := ih h; simp; omega
      · cases h

theorem getLast?_snoc (d : PathC) (c : Comp) : (d ++ [c]).getLast? = some c := by simp

theorem parent_snoc_normal (d : PathC) (n : Name) : parent (d ++ [.normal n]) = some d := by
  simp [parent]

theorem fileName_snoc_normal (d : PathC) (n : Name) : fileName (d ++ [.normal n]) = some n := by
  simp [fileName]

theorem join_of_allNormal (d p : PathC) (h : AllNormal p) : join d p = d ++ p := by
  cases p with
  | nil => rfl
  | cons c p =>
    obtain ⟨n, rfl⟩ := h c List.mem_cons_self
    rfl

theorem withExtension_snoc (d : PathC) (n n' ext : Name) (h : withExtensionName n ext = some n') :
    withExtension (d ++ [.normal n]) ext = d ++ [.normal n'] := by
  simp [withExtension, fileName_snoc_normal, h]

theorem withExtension_snoc_none (d : PathC) (n ext : Name) (h : withExtensionName n ext = none) :
    withExtension (d ++ [.normal n]) ext = d ++ [.parent] := by
  simp [withExtension, fileName_snoc_normal, h]

/-! ### the walk -/

def Item.path : Item → PathC
  | .file p => p
  | .fatal p => p

mutual
/-- every item of a walk lies under the walked path, through normal components only -/
theorem walk_under (p : PathC) (t : Node) :
    ∀ it ∈ walk p t, ∃ rel, it.path = p ++ rel ∧ AllNormal rel ∧ (∀ es, t = .dir es → rel ≠ []) := by
  cases t with
  | file =>
    intro it h; simp [walk] at h; subst h
    exact ⟨[], by simp [Item.path], allNormal_nil, by intro es e; cases e⟩
  | dangling => intro it h; simp [walk] at h
  | other => intro it h; simp [walk] at h
  | fatal =>
    intro it h; simp [walk] at h; subst h
    exact ⟨[], by simp [Item.path], allNormal_nil, by intro es e; cases e⟩
  | dir es =>
    intro it h
    simp only [walk] at h
    obtain ⟨rel, h1, h2, h3⟩ := walkEntries_under p es it h
    exact ⟨rel, h1, h2, fun _ _ => h3⟩
theorem walkEntries_under (p : PathC) (es : List (Name × Node)) :
    ∀ it ∈ walkEntries p es, ∃ rel, it.path = p ++ rel ∧ AllNormal rel ∧ rel ≠ [] := by
  cases es with
  | nil => intro it h; simp [walkEntries] at h
  | cons e es =>
    obtain ⟨n, c⟩ := e
    intro it h
    simp only [walkEntries, List.mem_append] at h
    rcases h with h | h
    · obtain ⟨rel, h1, h2, _⟩ := walk_under (p ++ [.normal n]) c it h
      refine ⟨.normal n :: rel, by simp [h1], ?_, by simp⟩
      intro x hx
      rcases List.mem_cons.mp hx with rfl | hx
      · exact ⟨n, rfl⟩
      · exact h2 x hx
    · exact walkEntries_under p es it h
end

theorem mem_insertEntry (e x : Name × Node) (es : List (Name × Node)) :
    x ∈ insertEntry e es ↔ x = e ∨ x ∈ es := by
  induction es with
  | nil => simp [insertEntry]
  | cons y ys ih =>
    simp only [insertEntry]
    split
    · simp [ih]; constructor
      · rintro (h | h | h) <;> simp [h]
      · rintro (h | h | h) <;> simp [h]
    · simp

/-- membership in a walk over entries, entry by entry -/
theorem mem_walkEntries (p : PathC) (es : List (Name × Node)) (it : Item) :
    it ∈ walkEntries p es ↔ ∃ e ∈ es, it ∈ walk (p ++ [.normal e.1]) e.2 := by
  induction es with
  | nil => simp [walkEntries]
  | cons e es ih =>
    obtain ⟨n, c⟩ := e
    simp [walkEntries, ih]

mutual
/-- sorting the entries of every directory does not change which items the walk yields -/
theorem mem_walk_sortTree (p : PathC) (t : Node) (it : Item) :
    it ∈ walk p (sortTree t) ↔ it ∈ walk p t := by
  cases t with
  | file => simp [sortTree]
  | dangling => simp [sortTree]
  | other => simp [sortTree]
  | fatal => simp [sortTree]
  | dir es =>
    simp only [sortTree, walk]
    exact mem_walkEntries_sort p es it
theorem mem_walkEntries_sort (p : PathC) (es : List (Name × Node)) (it : Item) :
    it ∈ walkEntries p (sortEntries es) ↔ it ∈ walkEntries p es := by
  cases es with
  | nil => simp [sortEntries]
  | cons e es =>
    obtain ⟨n, c⟩ := e
    simp only [sortEntries]
    rw [mem_walkEntries]
    constructor
    · rintro ⟨x, hx, hit⟩
      rcases (mem_insertEntry _ _ _).mp hx with rfl | hx
      · simp only at hit
        simp only [walkEntries, List.mem_append]
        exact Or.inl ((mem_walk_sortTree _ c it).mp hit)
      · simp only [walkEntries, List.mem_append]
        refine Or.inr ((mem_walkEntries_sort p es it).mp ?_)
        exact (mem_walkEntries p _ it).mpr ⟨x, hx, hit⟩
    · intro h
      simp only [walkEntries, List.mem_append] at h
      rcases h with h | h
      · exact ⟨(n, sortTree c), (mem_insertEntry _ _ _).mpr (Or.inl rfl), (mem_walk_sortTree _ c it).mpr h⟩
      · obtain ⟨x, hx, hit⟩ := (mem_walkEntries p _ it).mp ((mem_walkEntries_sort p es it).mpr h)
        exact ⟨x, (mem_insertEntry _ _ _).mpr (Or.inr hx), hit⟩
end

end LalrpopModel.PathM
