import LalrpopModel.Model.Macro
/-!
Unique readability of the token-level printer (`Sym.toks`, the pieces `Display` writes) on
parser-shaped symbols — used by Props/C13 `canonical_form_injective`.

Shape (what the LALRPOP grammar of grammars produces, after `resolve`):
  S ::= A | `<`A`>` | name`:`A | `mut `name`:`A            (top level of an alternative / group / macro argument)
  A ::= core | A`*` | A`+` | A`?`
  core ::= `(`S … S`)` | "lit" | r"re" | Terminal | Nonterminal | Macro`<`S, …, S`>` | `@L` | `@R` | `!`
(tuple bindings `<(a, b):A>` are not covered).  Identifiers are classified by `cls`
(0 nonterminal, 1 terminal, 2 macro — `resolve` rejects a name declared twice) and a nonterminal or
terminal is not called `error` (which is how `!` prints).
-/
set_option linter.unusedSectionVars false
set_option linter.unusedSimpArgs false
set_option linter.unnecessarySimpa false
set_option linter.unusedVariables false

namespace LalrpopModel.Macro

mutual
def Sym.size : Sym → Nat
  | .expr ss => 1 + sizeList ss
  | .macro _ args => 1 + sizeList args
  | .repeat _ s => 1 + s.size
  | .choose s => 1 + s.size
  | .name _ _ s => 1 + s.size
  | .tuple _ s => 1 + s.size
  | .ambiguous _ => 1
  | .terminal _ => 1
  | .nonterminal _ => 1
  | .lookahead => 1
  | .lookbehind => 1
  | .error => 1
def sizeList : List Sym → Nat
  | [] => 0
  | s :: ss => s.size + sizeList ss
end

variable (cls : String → Nat)

mutual
/-- `shaped true s`: `s` is an S-level symbol; `shaped false s`: an A-level symbol -/
def shaped : Bool → Sym → Prop
  | top, .choose a => top = true ∧ shaped false a
  | top, .name _ _ a => top = true ∧ shaped false a
  | _, .repeat _ a => shaped false a
  | _, .expr ss => shapedList ss
  | _, .macro n args => cls n = 2 ∧ shapedList args
  | _, .terminal (.quoted _) => True
  | _, .terminal (.regex _) => True
  | _, .terminal (.bare n) => cls n = 1 ∧ n ≠ "error"
  | _, .terminal .error => False
  | _, .nonterminal n => cls n = 0 ∧ n ≠ "error"
  | _, .lookahead => True
  | _, .lookbehind => True
  | _, .error => True
  | _, .tuple _ _ => False
  | _, .ambiguous _ => False
def shapedList : List Sym → Prop
  | [] => True
  | s :: ss => shaped true s ∧ shapedList ss
end

theorem shaped_weaken {s : Sym} (h : shaped cls false s) : shaped cls true s := by
  cases s with
  | choose a => simp [shaped] at h
  | name m n a => simp [shaped] at h
  | terminal t => cases t <;> simpa [shaped] using h
  | «repeat» op a => simpa [shaped] using h
  | expr ss => simpa [shaped] using h
  | «macro» n args => simpa [shaped] using h
  | nonterminal n => simpa [shaped] using h
  | lookahead => trivial
  | lookbehind => trivial
  | error => trivial
  | tuple ps a => simp [shaped] at h
  | ambiguous a => simp [shaped] at h

/-- tokens that may follow a complete S-level symbol -/
def FollowA : List Tok → Prop
  | [] => True
  | .sp :: _ => True
  | .comma :: _ => True
  | .rparen :: _ => True
  | .rangle :: _ => True
  | _ => False

/-- …or a core (repetition operators may follow as well) -/
def FollowOp : List Tok → Prop
  | .op _ :: _ => True
  | r => FollowA r

theorem FollowA.toOp {r : List Tok} (h : FollowA r) : FollowOp r := by
  cases r with
  | nil => exact h
  | cons t r => cases t <;> simp_all [FollowOp, FollowA]

/-! ### cores and operators -/

def isRepeat : Sym → Bool
  | .repeat _ _ => true
  | _ => false

def coreOf : Sym → Sym
  | .repeat _ a => coreOf a
  | s => s

def opsOf : Sym → List RepeatOp
  | .repeat op a => opsOf a ++ [op]
  | _ => []

def rebuild (c : Sym) (ops : List RepeatOp) : Sym := ops.foldl (fun acc op => .repeat op acc) c

theorem rebuild_core_ops : ∀ (s : Sym), rebuild (coreOf s) (opsOf s) = s
  | .repeat op a => by
    simp only [coreOf, opsOf, rebuild, List.foldl_append, List.foldl_cons, List.foldl_nil]
    have := rebuild_core_ops a
    simp only [rebuild] at this
    rw [this]
  | .expr _ | .ambiguous _ | .terminal _ | .nonterminal _ | .macro _ _ | .choose _ | .name _ _ _
  | .tuple _ _ | .lookahead | .lookbehind | .error => by simp [coreOf, opsOf, rebuild]

theorem toks_core_ops : ∀ (s : Sym), s.toks = (coreOf s).toks ++ (opsOf s).map Tok.op
  | .repeat op a => by
    simp only [Sym.toks, coreOf, opsOf, List.map_append, List.map_cons, List.map_nil]
    rw [toks_core_ops a, List.append_assoc]
  | .expr _ | .ambiguous _ | .terminal _ | .nonterminal _ | .macro _ _ | .choose _ | .name _ _ _
  | .tuple _ _ | .lookahead | .lookbehind | .error => by simp [coreOf, opsOf]

theorem coreOf_not_repeat : ∀ (s : Sym), isRepeat (coreOf s) = false
  | .repeat _ a => by simp only [coreOf]; exact coreOf_not_repeat a
  | .expr _ | .ambiguous _ | .terminal _ | .nonterminal _ | .macro _ _ | .choose _ | .name _ _ _
  | .tuple _ _ | .lookahead | .lookbehind | .error => by simp [coreOf, isRepeat]

theorem coreOf_size_le : ∀ (s : Sym), (coreOf s).size ≤ s.size
  | .repeat _ a => by
    simp only [coreOf, Sym.size]
    have := coreOf_size_le a; omega
  | .expr _ | .ambiguous _ | .terminal _ | .nonterminal _ | .macro _ _ | .choose _ | .name _ _ _
  | .tuple _ _ | .lookahead | .lookbehind | .error => by simp [coreOf]

theorem shaped_coreOf : ∀ (s : Sym) (top : Bool), shaped cls top s → isRepeat s = true →
    shaped cls false (coreOf s)
  | .repeat _ a, _, h, _ => by
    simp only [shaped] at h
    simp only [coreOf]
    by_cases hr : isRepeat a = true
    · exact shaped_coreOf a false h hr
    · have : coreOf a = a := by cases a <;> simp_all [coreOf, isRepeat]
      rw [this]; exact h
  | .expr _, _, _, h | .ambiguous _, _, _, h | .terminal _, _, _, h | .nonterminal _, _, _, h
  | .macro _ _, _, _, h | .choose _, _, _, h | .name _ _ _, _, _, h | .tuple _ _, _, _, h
  | .lookahead, _, _, h | .lookbehind, _, _, h | .error, _, _, h => by simp [isRepeat] at h

/-- splitting `ops ++ rest` when the rests do not start with an operator -/
theorem ops_split (ops ops' : List RepeatOp) (r r' : List Tok) (hr : FollowA r) (hr' : FollowA r')
    (h : ops.map Tok.op ++ r = ops'.map Tok.op ++ r') : ops = ops' ∧ r = r' := by
  induction ops generalizing ops' with
  | nil =>
    cases ops' with
    | nil => exact ⟨rfl, by simpa using h⟩
    | cons o os =>
      simp only [List.map_nil, List.nil_append, List.map_cons, List.cons_append] at h
      subst h; simp [FollowA] at hr
  | cons o os ih =>
    cases ops' with
    | nil =>
      simp only [List.map_nil, List.nil_append, List.map_cons, List.cons_append] at h
      subst h; simp [FollowA] at hr'
    | cons o' os' =>
      simp only [List.map_cons, List.cons_append, List.cons.injEq, Tok.op.injEq] at h
      obtain ⟨rfl, h⟩ := h
      obtain ⟨rfl, rfl⟩ := ih os' h
      exact ⟨rfl, rfl⟩

/-! ### separated lists -/

/-- `Sep(sep, symbols)` -/
def joinSep (sep : Tok) : List Sym → List Tok
  | [] => []
  | [s] => s.toks
  | s :: t :: rest => s.toks ++ sep :: joinSep sep (t :: rest)

theorem toksSp_eq : ∀ ss, Sym.toksSp ss = joinSep .sp ss
  | [] => by simp [Sym.toksSp, joinSep]
  | [s] => by simp [Sym.toksSp, joinSep]
  | s :: t :: rest => by simp only [Sym.toksSp, joinSep]; rw [toksSp_eq (t :: rest)]

theorem toksComma_eq : ∀ ss, Sym.toksComma ss = joinSep .comma ss
  | [] => by simp [Sym.toksComma, joinSep]
  | [s] => by simp [Sym.toksComma, joinSep]
  | s :: t :: rest => by simp only [Sym.toksComma, joinSep]; rw [toksComma_eq (t :: rest)]

/-- what follows the first element -/
def sepTail (sep : Tok) : List Sym → List Tok
  | [] => []
  | t :: rest => sep :: joinSep sep (t :: rest)

theorem joinSep_cons (sep : Tok) (s : Sym) (rest : List Sym) :
    joinSep sep (s :: rest) = s.toks ++ sepTail sep rest := by
  cases rest <;> simp [joinSep, sepTail]

/-! ### first tokens -/

def isStart : Tok → Bool
  | .lparen | .langle | .mutKw | .ident _ | .strLit _ | .regexLit _ | .lookahead | .lookbehind => true
  | _ => false

theorem toks_head : ∀ (s : Sym) (top : Bool), shaped cls top s →
    ∃ t rest, s.toks = t :: rest ∧ isStart t = true
  | .repeat op a, _, h => by
    simp only [shaped] at h
    obtain ⟨t, rest, e, ht⟩ := toks_head a false h
    exact ⟨t, rest ++ [.op op], by simp [Sym.toks, e], ht⟩
  | .expr ss, _, _ => ⟨.lparen, Sym.toksSp ss ++ [.rparen], by simp [Sym.toks], rfl⟩
  | .macro n args, _, _ => ⟨.ident n, .langle :: Sym.toksComma args ++ [.rangle], by simp [Sym.toks], rfl⟩
  | .choose a, _, _ => ⟨.langle, a.toks ++ [.rangle], by simp [Sym.toks], rfl⟩
  | .name false n a, _, _ => ⟨.ident n, .colon :: a.toks, by simp [Sym.toks], rfl⟩
  | .name true n a, _, _ => ⟨.mutKw, .ident n :: .colon :: a.toks, by simp [Sym.toks], rfl⟩
  | .terminal (.quoted q), _, _ => ⟨.strLit q, [], by simp [Sym.toks, Terminal.toks], rfl⟩
  | .terminal (.regex q), _, _ => ⟨.regexLit q, [], by simp [Sym.toks, Terminal.toks], rfl⟩
  | .terminal (.bare q), _, _ => ⟨.ident q, [], by simp [Sym.toks, Terminal.toks], rfl⟩
  | .terminal .error, _, h => by simp [shaped] at h
  | .nonterminal n, _, _ => ⟨.ident n, [], by simp [Sym.toks], rfl⟩
  | .lookahead, _, _ => ⟨.lookahead, [], by simp [Sym.toks], rfl⟩
  | .lookbehind, _, _ => ⟨.lookbehind, [], by simp [Sym.toks], rfl⟩
  | .error, _, _ => ⟨.ident "error", [], by simp [Sym.toks], rfl⟩
  | .tuple _ _, _, h => by simp [shaped] at h
  | .ambiguous _, _, h => by simp [shaped] at h

/-! ### the induction -/

/-- unique readability of S-level symbols of size ≤ `n` -/
def US (n : Nat) : Prop :=
  ∀ s s' r r', s.size ≤ n → shaped cls true s → shaped cls true s' → FollowA r → FollowA r' →
    s.toks ++ r = s'.toks ++ r' → s = s' ∧ r = r'

theorem followA_sepTail (sep : Tok) (hsep : sep = .sp ∨ sep = .comma) (term : Tok)
    (hterm : term = .rparen ∨ term = .rangle) (rest : List Sym) (R : List Tok) :
    FollowA (sepTail sep rest ++ term :: R) := by
  cases rest with
  | nil => rcases hterm with rfl | rfl <;> simp [sepTail, FollowA]
  | cons t r => rcases hsep with rfl | rfl <;> simp [sepTail, FollowA]

/-- lists of S-level symbols, separated by `sep` and closed by `term` -/
theorem list_unique (n : Nat) (hUS : US cls n) (sep : Tok) (hsep : sep = .sp ∨ sep = .comma)
    (term : Tok) (hterm : term = .rparen ∨ term = .rangle) :
    ∀ (ss ss' : List Sym) (R R' : List Tok), sizeList ss ≤ n → shapedList cls ss → shapedList cls ss' →
      joinSep sep ss ++ term :: R = joinSep sep ss' ++ term :: R' → ss = ss' ∧ R = R' := by
  have term_not_start : isStart term = false := by rcases hterm with rfl | rfl <;> rfl
  have sep_ne_term : sep ≠ term := by
    rcases hsep with rfl | rfl <;> rcases hterm with rfl | rfl <;> simp
  intro ss
  induction ss with
  | nil =>
    intro ss' R R' _ _ hs' h
    cases ss' with
    | nil => exact ⟨rfl, by simpa [joinSep] using h⟩
    | cons s' rest' =>
      obtain ⟨t, tl, e, ht⟩ := toks_head cls s' true hs'.1
      rw [joinSep_cons, e] at h
      simp only [joinSep, List.nil_append, List.cons_append, List.cons.injEq] at h
      rw [← h.1, term_not_start] at ht; cases ht
  | cons s rest ih =>
    intro ss' R R' hsz hs hs' h
    simp only [sizeList] at hsz
    cases ss' with
    | nil =>
      obtain ⟨t, tl, e, ht⟩ := toks_head cls s true hs.1
      rw [joinSep_cons, e] at h
      simp only [joinSep, List.nil_append, List.cons_append, List.cons.injEq] at h
      rw [h.1, term_not_start] at ht; cases ht
    | cons s' rest' =>
      rw [joinSep_cons, joinSep_cons, List.append_assoc, List.append_assoc] at h
      obtain ⟨rfl, h2⟩ := hUS s s' _ _ (by omega) hs.1 hs'.1
        (followA_sepTail sep hsep term hterm rest R) (followA_sepTail sep hsep term hterm rest' R') h
      cases rest with
      | nil =>
        cases rest' with
        | nil => exact ⟨rfl, by simpa [sepTail] using h2⟩
        | cons t' r' =>
          simp only [sepTail, List.nil_append, List.cons_append, List.cons.injEq] at h2
          exact absurd h2.1.symm sep_ne_term
      | cons t r =>
        cases rest' with
        | nil =>
          simp only [sepTail, List.nil_append, List.cons_append, List.cons.injEq] at h2
          exact absurd h2.1 sep_ne_term
        | cons t' r' =>
          simp only [sepTail, List.cons_append, List.cons.injEq, true_and] at h2
          obtain ⟨e, rfl⟩ := ih (t' :: r') R R' (by omega) hs.2 hs'.2 h2
          exact ⟨by rw [e], rfl⟩

/-- a rest that may follow a core does not start with `<` or `:` -/
theorem followOp_head {r : List Tok} (h : FollowOp r) :
    ∀ t tl, r = t :: tl → t ≠ .langle ∧ t ≠ .colon ∧ isStart t = false := by
  intro t tl e; subst e
  cases t <;> simp_all [FollowOp, FollowA, isStart]

/-- cores (symbols that are not repetitions), possibly followed by operators -/
def UCore (n : Nat) : Prop :=
  ∀ c c' r r', c.size ≤ n → isRepeat c = false → isRepeat c' = false →
    shaped cls false c → shaped cls false c' → FollowOp r → FollowOp r' →
    c.toks ++ r = c'.toks ++ r' → c = c' ∧ r = r'

theorem ucore_step (n : Nat) (hUS : US cls n) : UCore cls (n + 1) := by
  intro c c' r r' hsz hc hc' hs hs' hr hr' h
  cases c with
  | «repeat» op a => simp [isRepeat] at hc
  | choose a => simp [shaped] at hs
  | name m x a => simp [shaped] at hs
  | tuple ps a => simp [shaped] at hs
  | ambiguous a => simp [shaped] at hs
  | expr ss =>
    cases c' with
    | expr ss' =>
      simp only [Sym.toks, toksSp_eq, List.cons_append, List.append_assoc, List.cons.injEq, true_and,
        List.singleton_append] at h
      simp only [shaped] at hs hs'
      simp only [Sym.size] at hsz
      obtain ⟨rfl, rfl⟩ := list_unique cls n hUS .sp (.inl rfl) .rparen (.inl rfl) ss ss' r r'
        (by omega) hs hs' h
      exact ⟨rfl, rfl⟩
    | terminal t => cases t <;> simp [Sym.toks, Terminal.toks, shaped] at h hs'
    | «repeat» op a => simp [isRepeat] at hc'
    | _ => simp [Sym.toks, shaped] at h hs' <;> try exact absurd h.1 (by simp)
  | terminal t =>
    cases t with
    | error => simp [shaped] at hs
    | quoted q =>
      cases c' with
      | terminal t' => cases t' <;> simp_all [Sym.toks, Terminal.toks, shaped]
      | «repeat» op a => simp [isRepeat] at hc'
      | _ => simp_all [Sym.toks, Terminal.toks, shaped]
    | regex q =>
      cases c' with
      | terminal t' => cases t' <;> simp_all [Sym.toks, Terminal.toks, shaped]
      | «repeat» op a => simp [isRepeat] at hc'
      | _ => simp_all [Sym.toks, Terminal.toks, shaped]
    | bare q =>
      simp only [shaped] at hs
      cases c' with
      | terminal t' => cases t' <;> simp_all [Sym.toks, Terminal.toks, shaped]
      | «repeat» op a => simp [isRepeat] at hc'
      | nonterminal n' =>
        simp only [Sym.toks, Terminal.toks, List.cons_append, List.nil_append, List.cons.injEq,
          Tok.ident.injEq, shaped] at h hs'
        obtain ⟨rfl, _⟩ := h; omega
      | error =>
        simp only [Sym.toks, Terminal.toks, List.cons_append, List.nil_append, List.cons.injEq,
          Tok.ident.injEq] at h
        exact absurd h.1 hs.2
      | «macro» n' args =>
        simp only [Sym.toks, Terminal.toks, List.cons_append, List.nil_append, List.cons.injEq] at h
        exact absurd rfl (followOp_head hr _ _ h.2).1
      | _ => simp_all [Sym.toks, Terminal.toks, shaped]
  | nonterminal q =>
    simp only [shaped] at hs
    cases c' with
    | terminal t' =>
      cases t' with
      | bare q' =>
        simp only [Sym.toks, Terminal.toks, List.cons_append, List.nil_append, List.cons.injEq,
          Tok.ident.injEq, shaped] at h hs'
        obtain ⟨rfl, _⟩ := h; omega
      | _ => simp_all [Sym.toks, Terminal.toks, shaped]
    | «repeat» op a => simp [isRepeat] at hc'
    | nonterminal n' => simp_all [Sym.toks]
    | error =>
      simp only [Sym.toks, List.cons_append, List.nil_append, List.cons.injEq, Tok.ident.injEq] at h
      exact absurd h.1 hs.2
    | «macro» n' args =>
      simp only [Sym.toks, List.cons_append, List.nil_append, List.cons.injEq] at h
      exact absurd rfl (followOp_head hr _ _ h.2).1
    | _ => simp_all [Sym.toks, shaped]
  | error =>
    cases c' with
    | terminal t' =>
      cases t' with
      | bare q' =>
        simp only [Sym.toks, Terminal.toks, List.cons_append, List.nil_append, List.cons.injEq,
          Tok.ident.injEq, shaped] at h hs'
        exact absurd h.1.symm hs'.2
      | _ => simp_all [Sym.toks, Terminal.toks, shaped]
    | «repeat» op a => simp [isRepeat] at hc'
    | nonterminal n' =>
      simp only [Sym.toks, List.cons_append, List.nil_append, List.cons.injEq, Tok.ident.injEq,
        shaped] at h hs'
      exact absurd h.1.symm hs'.2
    | error => simp_all [Sym.toks]
    | «macro» n' args =>
      simp only [Sym.toks, List.cons_append, List.nil_append, List.cons.injEq] at h
      exact absurd rfl (followOp_head hr _ _ h.2).1
    | _ => simp_all [Sym.toks, shaped]
  | lookahead =>
    cases c' with
    | terminal t' => cases t' <;> simp_all [Sym.toks, Terminal.toks, shaped]
    | «repeat» op a => simp [isRepeat] at hc'
    | _ => simp_all [Sym.toks, shaped]
  | lookbehind =>
    cases c' with
    | terminal t' => cases t' <;> simp_all [Sym.toks, Terminal.toks, shaped]
    | «repeat» op a => simp [isRepeat] at hc'
    | _ => simp_all [Sym.toks, shaped]
  | «macro» m args =>
    simp only [shaped] at hs
    cases c' with
    | terminal t' =>
      cases t' with
      | bare q' =>
        simp only [Sym.toks, Terminal.toks, List.cons_append, List.nil_append, List.cons.injEq] at h
        exact absurd rfl (followOp_head hr' _ _ h.2.symm).1
      | _ => simp_all [Sym.toks, Terminal.toks, shaped]
    | «repeat» op a => simp [isRepeat] at hc'
    | nonterminal n' =>
      simp only [Sym.toks, List.cons_append, List.nil_append, List.cons.injEq] at h
      exact absurd rfl (followOp_head hr' _ _ h.2.symm).1
    | error =>
      simp only [Sym.toks, List.cons_append, List.nil_append, List.cons.injEq] at h
      exact absurd rfl (followOp_head hr' _ _ h.2.symm).1
    | «macro» m' args' =>
      simp only [Sym.toks, toksComma_eq, List.cons_append, List.append_assoc, List.cons.injEq,
        Tok.ident.injEq, true_and, List.singleton_append] at h
      simp only [shaped] at hs'
      simp only [Sym.size] at hsz
      obtain ⟨rfl, h2⟩ := h
      obtain ⟨rfl, rfl⟩ := list_unique cls n hUS .comma (.inr rfl) .rangle (.inr rfl) args args' r r'
        (by omega) hs.2 hs'.2 h2
      exact ⟨rfl, rfl⟩
    | _ => simp_all [Sym.toks, shaped]

/-- A-level symbols: a core with operators -/
def UA (n : Nat) : Prop :=
  ∀ a a' r r', a.size ≤ n → shaped cls false a → shaped cls false a' → FollowA r → FollowA r' →
    a.toks ++ r = a'.toks ++ r' → a = a' ∧ r = r'

theorem shaped_core_false {a : Sym} (h : shaped cls false a) : shaped cls false (coreOf a) := by
  by_cases hr : isRepeat a = true
  · exact shaped_coreOf cls a false h hr
  · have : coreOf a = a := by cases a <;> simp_all [coreOf, isRepeat]
    rw [this]; exact h

theorem followOp_ops (ops : List RepeatOp) {r : List Tok} (h : FollowA r) :
    FollowOp (ops.map Tok.op ++ r) := by
  cases ops with
  | nil => simpa using h.toOp
  | cons o os => simp [FollowOp]

theorem ua_of_ucore (n : Nat) (hC : UCore cls n) : UA cls n := by
  intro a a' r r' hsz hs hs' hr hr' h
  rw [toks_core_ops a, toks_core_ops a', List.append_assoc, List.append_assoc] at h
  obtain ⟨hc, h2⟩ := hC (coreOf a) (coreOf a') _ _ (Nat.le_trans (coreOf_size_le a) hsz)
    (coreOf_not_repeat a) (coreOf_not_repeat a') (shaped_core_false cls hs) (shaped_core_false cls hs')
    (followOp_ops _ hr) (followOp_ops _ hr') h
  obtain ⟨ho, hrr⟩ := ops_split _ _ _ _ hr hr' h2
  refine ⟨?_, hrr⟩
  rw [← rebuild_core_ops a, ← rebuild_core_ops a', hc, ho]

/-- a complete A-level symbol followed by a legal rest: the token after its core's identifier is
    not `:` -/
theorem a_level_second {a : Sym} (hs : shaped cls false a) {r : List Tok} (hr : FollowA r)
    {n : String} {tl : List Tok} (h : a.toks ++ r = .ident n :: .colon :: tl) : False := by
  rw [toks_core_ops a, List.append_assoc] at h
  have hc := shaped_core_false cls hs
  have hnr := coreOf_not_repeat a
  have hf := followOp_ops (opsOf a) hr
  generalize coreOf a = c at h hc hnr
  generalize (opsOf a).map Tok.op ++ r = rest at h hf
  cases c with
  | «repeat» op b => simp [isRepeat] at hnr
  | terminal t =>
    cases t <;> simp [Sym.toks, Terminal.toks, shaped] at h hc
    all_goals exact absurd rfl (followOp_head hf _ _ h.2).2.1
  | nonterminal q =>
    simp only [Sym.toks, List.cons_append, List.nil_append, List.cons.injEq] at h
    exact absurd rfl (followOp_head hf _ _ h.2).2.1
  | error =>
    simp only [Sym.toks, List.cons_append, List.nil_append, List.cons.injEq] at h
    exact absurd rfl (followOp_head hf _ _ h.2).2.1
  | «macro» m args => simp [Sym.toks] at h
  | _ => simp_all [Sym.toks, shaped]

/-- the first token of an A-level symbol is neither `<` nor `mut ` -/
theorem a_level_head : ∀ (a : Sym), shaped cls false a →
    ∃ t tl, a.toks = t :: tl ∧ t ≠ .langle ∧ t ≠ .mutKw
  | .repeat op a, h => by
    simp only [shaped] at h
    obtain ⟨t, tl, e, h1, h2⟩ := a_level_head a h
    exact ⟨t, tl ++ [.op op], by simp [Sym.toks, e], h1, h2⟩
  | .expr ss, _ => ⟨.lparen, Sym.toksSp ss ++ [.rparen], by simp [Sym.toks], by simp, by simp⟩
  | .macro n args, _ =>
    ⟨.ident n, .langle :: Sym.toksComma args ++ [.rangle], by simp [Sym.toks], by simp, by simp⟩
  | .choose a, h => by simp [shaped] at h
  | .name _ _ _, h => by simp [shaped] at h
  | .terminal (.quoted q), _ => ⟨.strLit q, [], by simp [Sym.toks, Terminal.toks], by simp, by simp⟩
  | .terminal (.regex q), _ => ⟨.regexLit q, [], by simp [Sym.toks, Terminal.toks], by simp, by simp⟩
  | .terminal (.bare q), _ => ⟨.ident q, [], by simp [Sym.toks, Terminal.toks], by simp, by simp⟩
  | .terminal .error, h => by simp [shaped] at h
  | .nonterminal n, _ => ⟨.ident n, [], by simp [Sym.toks], by simp, by simp⟩
  | .lookahead, _ => ⟨.lookahead, [], by simp [Sym.toks], by simp, by simp⟩
  | .lookbehind, _ => ⟨.lookbehind, [], by simp [Sym.toks], by simp, by simp⟩
  | .error, _ => ⟨.ident "error", [], by simp [Sym.toks], by simp, by simp⟩
  | .tuple _ _, h => by simp [shaped] at h
  | .ambiguous _, h => by simp [shaped] at h

/-- an S-level symbol that is not a binding or `<…>` is A-level -/
theorem shaped_strengthen {s : Sym} (h : shaped cls true s) (h1 : ∀ a, s ≠ .choose a)
    (h2 : ∀ m n a, s ≠ .name m n a) : shaped cls false s := by
  cases s with
  | choose a => exact absurd rfl (h1 a)
  | name m n a => exact absurd rfl (h2 m n a)
  | terminal t => cases t <;> simpa [shaped] using h
  | «repeat» op a => simpa [shaped] using h
  | expr ss => simpa [shaped] using h
  | «macro» n args => simpa [shaped] using h
  | nonterminal n => simpa [shaped] using h
  | lookahead => trivial
  | lookbehind => trivial
  | error => trivial
  | tuple ps a => simp [shaped] at h
  | ambiguous a => simp [shaped] at h

/-- `<a>` against anything -/
theorem us_choose (n : Nat) (hA : UA cls n) (a s' : Sym) (r r' : List Tok) (hsz : a.size ≤ n)
    (hs : shaped cls false a) (hs' : shaped cls true s') (hr : FollowA r) (hr' : FollowA r')
    (h : (Sym.choose a).toks ++ r = s'.toks ++ r') : Sym.choose a = s' ∧ r = r' := by
  by_cases hc : ∃ a', s' = .choose a'
  · obtain ⟨a', rfl⟩ := hc
    simp only [shaped, true_and] at hs'
    simp only [Sym.toks, List.cons_append, List.append_assoc, List.cons.injEq, true_and] at h
    obtain ⟨rfl, h2⟩ := hA a a' _ _ hsz hs hs' (by simp [FollowA]) (by simp [FollowA]) h
    simp only [List.singleton_append, List.cons.injEq, true_and] at h2
    exact ⟨rfl, h2⟩
  · exfalso
    by_cases hn : ∃ m x a', s' = .name m x a'
    · obtain ⟨m, x, a', rfl⟩ := hn
      cases m <;> simp [Sym.toks] at h
    · have hsf := shaped_strengthen cls hs' (fun a' e => hc ⟨a', e⟩) (fun m x a' e => hn ⟨m, x, a', e⟩)
      obtain ⟨t, tl, e, h1, _⟩ := a_level_head cls s' hsf
      rw [e] at h
      simp only [Sym.toks, List.cons_append, List.cons.injEq] at h
      exact h1 h.1.symm

/-- a binding against anything -/
theorem us_name (n : Nat) (hA : UA cls n) (m : Bool) (x : String) (a s' : Sym) (r r' : List Tok)
    (hsz : a.size ≤ n) (hs : shaped cls false a) (hs' : shaped cls true s') (hr : FollowA r)
    (hr' : FollowA r') (h : (Sym.name m x a).toks ++ r = s'.toks ++ r') :
    Sym.name m x a = s' ∧ r = r' := by
  by_cases hn : ∃ m' x' a', s' = .name m' x' a'
  · obtain ⟨m', x', a', rfl⟩ := hn
    simp only [shaped, true_and] at hs'
    cases m <;> cases m' <;>
      simp only [Sym.toks, List.cons_append, List.cons.injEq, Tok.ident.injEq, true_and, reduceCtorEq,
        false_and] at h
    · obtain ⟨rfl, h2⟩ := h
      obtain ⟨rfl, rfl⟩ := hA a a' _ _ hsz hs hs' hr hr' h2
      exact ⟨rfl, rfl⟩
    · obtain ⟨rfl, h2⟩ := h
      obtain ⟨rfl, rfl⟩ := hA a a' _ _ hsz hs hs' hr hr' h2
      exact ⟨rfl, rfl⟩
  · exfalso
    by_cases hc : ∃ a', s' = .choose a'
    · obtain ⟨a', rfl⟩ := hc
      cases m <;> simp [Sym.toks] at h
    · have hsf := shaped_strengthen cls hs' (fun a' e => hc ⟨a', e⟩) (fun m x a' e => hn ⟨m, x, a', e⟩)
      cases m with
      | true =>
        obtain ⟨t, tl, e, _, h2⟩ := a_level_head cls s' hsf
        rw [e] at h
        simp only [Sym.toks, List.cons_append, List.cons.injEq] at h
        exact h2 h.1.symm
      | false =>
        simp only [Sym.toks, List.cons_append] at h
        exact a_level_second cls hsf hr' h.symm

theorem us_step (n : Nat) (hA : UA cls n) (hA1 : UA cls (n + 1)) : US cls (n + 1) := by
  intro s s' r r' hsz hs hs' hr hr' h
  by_cases hc : ∃ a, s = .choose a
  · obtain ⟨a, rfl⟩ := hc
    simp only [shaped, true_and] at hs
    simp only [Sym.size] at hsz
    exact us_choose cls n hA a s' r r' (by omega) hs hs' hr hr' h
  by_cases hn : ∃ m x a, s = .name m x a
  · obtain ⟨m, x, a, rfl⟩ := hn
    simp only [shaped, true_and] at hs
    simp only [Sym.size] at hsz
    exact us_name cls n hA m x a s' r r' (by omega) hs hs' hr hr' h
  have hsf := shaped_strengthen cls hs (fun a e => hc ⟨a, e⟩) (fun m x a e => hn ⟨m, x, a, e⟩)
  by_cases hc' : ∃ a, s' = .choose a
  · obtain ⟨a', rfl⟩ := hc'
    -- symmetric: `<a'>` against the A-level symbol `s`
    exfalso
    obtain ⟨t, tl, e, h1, _⟩ := a_level_head cls s hsf
    rw [e] at h
    simp only [Sym.toks, List.cons_append, List.cons.injEq] at h
    exact h1 h.1
  by_cases hn' : ∃ m x a, s' = .name m x a
  · obtain ⟨m, x, a', rfl⟩ := hn'
    exfalso
    cases m with
    | true =>
      obtain ⟨t, tl, e, _, h2⟩ := a_level_head cls s hsf
      rw [e] at h
      simp only [Sym.toks, List.cons_append, List.cons.injEq] at h
      exact h2 h.1
    | false =>
      simp only [Sym.toks, List.cons_append] at h
      exact a_level_second cls hsf hr h
  have hsf' := shaped_strengthen cls hs' (fun a e => hc' ⟨a, e⟩) (fun m x a e => hn' ⟨m, x, a, e⟩)
  exact hA1 s s' r r' hsz hsf hsf' hr hr' h

/-- **unique readability**, all sizes -/
theorem unique_all : ∀ n, UCore cls n ∧ UA cls n ∧ US cls n := by
  intro n
  induction n with
  | zero =>
    have sz : ∀ s : Sym, 0 < s.size := by
      intro s; cases s <;> simp [Sym.size] <;> omega
    refine ⟨?_, ?_, ?_⟩
    · intro c c' r r' h; have := sz c; omega
    · intro c c' r r' h; have := sz c; omega
    · intro c c' r r' h; have := sz c; omega
  | succ n ih =>
    obtain ⟨_, hA, hS⟩ := ih
    have hC1 := ucore_step cls n hS
    have hA1 := ua_of_ucore cls (n + 1) hC1
    exact ⟨hC1, hA1, us_step cls n hA hA1⟩

end LalrpopModel.Macro
