import LalrpopModel.Model.Lower
/-!
Lemmas about the `<>` string primitives of M-LOWER (`countAngle`, `replaceAngle`,
`replaceFirstAngle`, `replaceEach`, `findAngle`) in terms of the `<>`-free pieces of the action
(`splitAngle`): reconstruction, piece freedom, `replace` = join, and the fold of `replacen(.., 1)`
= interleaving when the inserted names are clean.
-/
namespace LalrpopModel.Lower

theorem splitAngle_ne_nil (s : Str) : splitAngle s ≠ [] := by
  induction s using countAngle.induct with
  | case1 => simp [splitAngle]
  | case2 c => simp [splitAngle]
  | case3 c d rest h ih => simp [splitAngle, h]
  | case4 c d rest h ih =>
    simp only [splitAngle, h, if_false]
    cases hsp : splitAngle (d :: rest) <;> simp [consHead]

theorem joinWith_cons_of_ne_nil (sep p : Str) (ps : List Str) (h : ps ≠ []) :
    joinWith sep (p :: ps) = p ++ sep ++ joinWith sep ps := by
  cases ps with
  | nil => exact absurd rfl h
  | cons q rest => rfl

theorem joinWith_consHead (sep : Str) (c : Char) (l : List Str) (h : l ≠ []) :
    joinWith sep (consHead c l) = c :: joinWith sep l := by
  match l, h with
  | [p], _ => simp [consHead, joinWith]
  | p :: q :: rest, _ => simp [consHead, joinWith]

/-- reconstruction: the pieces joined by `<>` give the string back -/
theorem joinWith_splitAngle (s : Str) : joinWith ['<', '>'] (splitAngle s) = s := by
  induction s using countAngle.induct with
  | case1 => simp [splitAngle, joinWith]
  | case2 c => simp [splitAngle, joinWith]
  | case3 c d rest h ih =>
    obtain ⟨rfl, rfl⟩ := h
    simp only [splitAngle, and_self, if_true]
    rw [joinWith_cons_of_ne_nil _ _ _ (splitAngle_ne_nil rest), ih]
    simp
  | case4 c d rest h ih =>
    simp only [splitAngle, h, if_false]
    rw [joinWith_consHead _ _ _ (splitAngle_ne_nil _), ih]

/-- the head piece of the split of a string that does not start with `>` … -/
theorem splitAngle_head_cons (d : Char) (rest : Str) :
    ∃ p ps, splitAngle (d :: rest) = p :: ps ∧ (p = [] → d = '<') := by
  cases rest with
  | nil => exact ⟨[d], [], by simp [splitAngle], by simp⟩
  | cons e r =>
    by_cases h : d = '<' ∧ e = '>'
    · exact ⟨[], splitAngle r, by simp [splitAngle, h], fun _ => h.1⟩
    · cases hsp : splitAngle (e :: r) with
      | nil => exact absurd hsp (splitAngle_ne_nil _)
      | cons q qs => exact ⟨d :: q, qs, by simp [splitAngle, h, hsp, consHead], by simp⟩

/-- no piece contains `<>` -/
theorem countAngle_piece (s : Str) : ∀ p ∈ splitAngle s, countAngle p = 0 := by
  induction s using countAngle.induct with
  | case1 => simp [splitAngle, countAngle]
  | case2 c => simp [splitAngle, countAngle]
  | case3 c d rest h ih =>
    simp only [splitAngle, h, and_self, if_true]
    intro p hp
    rcases List.mem_cons.1 hp with rfl | hp
    · simp [countAngle]
    · exact ih p hp
  | case4 c d rest h ih =>
    simp only [splitAngle, h, if_false]
    intro p hp
    obtain ⟨q, qs, hsp, hq⟩ := splitAngle_head_cons d rest
    rw [hsp] at hp ih
    simp only [consHead, List.mem_cons] at hp
    rcases hp with rfl | hp
    · have hq0 : countAngle q = 0 := ih q (by simp)
      cases q with
      | nil => simp [countAngle]
      | cons e q' =>
        have hj := joinWith_splitAngle (d :: rest)
        rw [hsp] at hj
        have he : e = d := by
          cases qs <;> simp [joinWith] at hj <;> exact hj.1
        subst he
        simp only [countAngle, h, if_false]
        exact hq0
    · exact ih p (by simp [hp])

theorem length_consHead (c : Char) (l : List Str) (h : l ≠ []) : (consHead c l).length = l.length := by
  cases l with
  | nil => exact absurd rfl h
  | cons q qs => simp [consHead]

/-- the number of matches is the number of gaps between the pieces -/
theorem countAngle_eq (s : Str) : countAngle s + 1 = (splitAngle s).length := by
  induction s using countAngle.induct with
  | case1 => simp [splitAngle, countAngle]
  | case2 c => simp [splitAngle, countAngle]
  | case3 c d rest h ih => simp [splitAngle, countAngle, h, ih]
  | case4 c d rest h ih =>
    simp only [splitAngle, countAngle, h, if_false]
    rw [length_consHead _ _ (splitAngle_ne_nil _), ih]

theorem joinWith_nil_cons (sep : Str) (ps : List Str) (h : ps ≠ []) :
    joinWith sep ([] :: ps) = sep ++ joinWith sep ps := by
  rw [joinWith_cons_of_ne_nil _ _ _ h]; simp

/-- `replace` puts the replacement into every gap -/
theorem replaceAngle_eq (r s : Str) : replaceAngle r s = joinWith r (splitAngle s) := by
  induction s using countAngle.induct with
  | case1 => simp [splitAngle, replaceAngle, joinWith]
  | case2 c => simp [splitAngle, replaceAngle, joinWith]
  | case3 c d rest h ih =>
    simp only [splitAngle, replaceAngle, h, and_self, if_true]
    rw [joinWith_nil_cons _ _ (splitAngle_ne_nil _), ih]
  | case4 c d rest h ih =>
    simp only [splitAngle, replaceAngle, h, if_false]
    rw [joinWith_consHead _ _ _ (splitAngle_ne_nil _), ih]

theorem findAngle_none_iff (s : Str) : findAngle s = none ↔ countAngle s = 0 := by
  induction s using countAngle.induct with
  | case1 => simp [findAngle, countAngle]
  | case2 c => simp [findAngle, countAngle]
  | case3 c d rest h ih => simp [findAngle, countAngle, h]
  | case4 c d rest h ih =>
    simp only [findAngle, countAngle, h, if_false]
    rw [← ih]
    cases findAngle (d :: rest) with
    | none => simp
    | some x => simp

theorem replaceAngle_of_count_zero (r s : Str) (h : countAngle s = 0) : replaceAngle r s = s := by
  induction s using countAngle.induct with
  | case1 => simp [replaceAngle]
  | case2 c => simp [replaceAngle]
  | case3 c d rest hc ih => simp [countAngle, hc] at h
  | case4 c d rest hc ih =>
    simp only [countAngle, hc, if_false] at h
    simp only [replaceAngle, hc, if_false, ih h]

/-- a prefix that cannot take part in a match: no `<>` inside and no `<` at its end -/
def Closed (a : Str) : Prop := countAngle a = 0 ∧ a.getLast? ≠ some '<'

theorem closed_nil : Closed [] := by simp [Closed, countAngle]

theorem replaceFirstAngle_append (r a b : Str) (h : Closed a) :
    replaceFirstAngle r (a ++ b) = a ++ replaceFirstAngle r b := by
  induction a with
  | nil => simp
  | cons c a' ih =>
    cases a' with
    | nil =>
      cases b with
      | nil => simp [replaceFirstAngle]
      | cons d b' =>
        have hc : c ≠ '<' := by simpa [Closed] using h.2
        simp [replaceFirstAngle, hc]
    | cons d a'' =>
      have hcd : ¬(c = '<' ∧ d = '>') := by
        intro hcd; have := h.1; simp [countAngle, hcd] at this
      have h' : Closed (d :: a'') := by
        constructor
        · have := h.1; simpa [countAngle, hcd] using this
        · have := h.2; simpa [List.getLast?_cons_cons] using this
      have := ih h'
      simp only [List.cons_append] at this ⊢
      simp only [replaceFirstAngle, hcd, if_false, this]

/-- names that cannot create or destroy a match: non-empty, no `<`, no `>` -/
def Clean (n : Str) : Prop := n ≠ [] ∧ '<' ∉ n ∧ '>' ∉ n

theorem countAngle_append_of_closed (a b : Str) (h : Closed a) : countAngle (a ++ b) = countAngle b := by
  induction a with
  | nil => simp
  | cons c a' ih =>
    cases a' with
    | nil =>
      cases b with
      | nil => simp [countAngle]
      | cons d b' =>
        have hc : c ≠ '<' := by simpa [Closed] using h.2
        simp [countAngle, hc]
    | cons d a'' =>
      have hcd : ¬(c = '<' ∧ d = '>') := by
        intro hcd; have := h.1; simp [countAngle, hcd] at this
      have h' : Closed (d :: a'') := by
        constructor
        · have := h.1; simpa [countAngle, hcd] using this
        · have := h.2; simpa [List.getLast?_cons_cons] using this
      have := ih h'
      simp only [List.cons_append] at this ⊢
      simp only [countAngle, hcd, if_false, this]

theorem countAngle_clean (n : Str) (h1 : '<' ∉ n) : countAngle n = 0 := by
  induction n using countAngle.induct with
  | case1 => simp [countAngle]
  | case2 c => simp [countAngle]
  | case3 c d rest hc ih => simp [hc.1] at h1
  | case4 c d rest hc ih =>
    simp only [countAngle, hc, if_false]
    exact ih (by simp at h1 ⊢; exact h1.2)

/-- `a` without match, then a clean name: closed again (whatever `a` ends with) -/
theorem closed_append_clean (a n : Str) (ha : countAngle a = 0) (hn : Clean n) : Closed (a ++ n) := by
  obtain ⟨hne, hlt, hgt⟩ := hn
  constructor
  · -- no match inside a, none inside n, none across: n does not start with '>'
    induction a with
    | nil => simpa using countAngle_clean n hlt
    | cons c a' ih =>
      cases a' with
      | nil =>
        cases n with
        | nil => exact absurd rfl hne
        | cons d n' =>
          have hd : d ≠ '>' := by intro h; simp [h] at hgt
          simp only [List.cons_append, List.nil_append, countAngle]
          rw [if_neg (by simp [hd])]
          exact countAngle_clean _ hlt
      | cons d a'' =>
        have hcd : ¬(c = '<' ∧ d = '>') := by
          intro hcd; simp [countAngle, hcd] at ha
        have ha' : countAngle (d :: a'') = 0 := by simpa [countAngle, hcd] using ha
        have := ih ha'
        simp only [List.cons_append] at this ⊢
        simp only [countAngle, hcd, if_false, this]
  · have hl : (a ++ n).getLast? = n.getLast? := by
      simp only [List.getLast?_append]
      cases h : n.getLast? with
      | none => simp_all
      | some x => simp
    rw [hl]
    intro h
    have : '<' ∈ n := List.mem_of_getLast? h
    exact hlt this


theorem splitAngle_two (s p q : Str) (rest : List Str) (h : splitAngle s = p :: q :: rest) :
    ∃ s', s = p ++ '<' :: '>' :: s' ∧ splitAngle s' = q :: rest := by
  induction s using countAngle.induct generalizing p with
  | case1 => simp [splitAngle] at h
  | case2 c => simp [splitAngle] at h
  | case3 c d rest' hc ih =>
    obtain ⟨rfl, rfl⟩ := hc
    simp only [splitAngle, and_self, if_true, List.cons.injEq] at h
    obtain ⟨rfl, h⟩ := h
    exact ⟨rest', by simp, h⟩
  | case4 c d rest' hc ih =>
    simp only [splitAngle, hc, if_false] at h
    cases hsp : splitAngle (d :: rest') with
    | nil => exact absurd hsp (splitAngle_ne_nil _)
    | cons p' ps' =>
      rw [hsp] at h
      simp only [consHead, List.cons.injEq] at h
      obtain ⟨rfl, rfl⟩ := h
      obtain ⟨s', hs', hsp'⟩ := ih p' hsp
      exact ⟨s', by rw [hs']; simp, hsp'⟩

theorem splitAngle_one (s p : Str) (h : splitAngle s = [p]) : s = p := by
  have := joinWith_splitAngle s
  rw [h] at this
  simpa [joinWith] using this.symm

theorem replaceFirstAngle_head (r s' p : Str) (hp : countAngle p = 0) :
    replaceFirstAngle r (p ++ '<' :: '>' :: s') = p ++ r ++ s' := by
  induction p with
  | nil => simp [replaceFirstAngle]
  | cons c p' ih =>
    cases p' with
    | nil =>
      -- [c] ++ "<>" ++ s': c followed by '<' is no match
      simp [replaceFirstAngle]
    | cons d p'' =>
      have hcd : ¬(c = '<' ∧ d = '>') := by
        intro hcd; simp [countAngle, hcd] at hp
      have hp' : countAngle (d :: p'') = 0 := by simpa [countAngle, hcd] using hp
      have := ih hp'
      simp only [List.cons_append] at this ⊢
      simp only [replaceFirstAngle, hcd, if_false, this]

theorem interleave_no_names (ps : List Str) : interleave ps [] = joinWith ['<', '>'] ps := by
  induction ps with
  | nil => simp [interleave, joinWith]
  | cons p rest ih =>
    cases rest with
    | nil => simp [interleave, joinWith]
    | cons q rest' => simp only [interleave, joinWith, ih]

theorem replaceFirstAngle_of_count_zero (r s : Str) (h : countAngle s = 0) : replaceFirstAngle r s = s := by
  induction s using countAngle.induct with
  | case1 => simp [replaceFirstAngle]
  | case2 c => simp [replaceFirstAngle]
  | case3 c d rest hc ih => simp [countAngle, hc] at h
  | case4 c d rest hc ih =>
    simp only [countAngle, hc, if_false] at h
    simp only [replaceFirstAngle, hc, if_false, ih h]

/-- the `fold` of `replacen(.., 1)` fills the gaps left to right, one name per gap — provided
    the names are clean, so that rescanning from the start finds the next *original* `<>` -/
theorem replaceEach_append (names : List Str) (hn : ∀ n ∈ names, Clean n) :
    ∀ (done todo : Str), Closed done →
      replaceEach names (done ++ todo) = done ++ interleave (splitAngle todo) names := by
  induction names with
  | nil =>
    intro done todo _
    simp [replaceEach, interleave_no_names, joinWith_splitAngle]
  | cons n ns ih =>
    intro done todo hd
    have hclean : Clean n := hn n (by simp)
    have hns : ∀ m ∈ ns, Clean m := fun m hm => hn m (by simp [hm])
    simp only [replaceEach]
    rw [replaceFirstAngle_append _ _ _ hd]
    match hsp : splitAngle todo with
    | [] => exact absurd hsp (splitAngle_ne_nil _)
    | [p] =>
      have hp : todo = p := splitAngle_one _ _ hsp
      have h0 : countAngle todo = 0 := by
        have := countAngle_eq todo; rw [hsp] at this; simpa using this
      rw [replaceFirstAngle_of_count_zero _ _ h0, ih hns done todo hd, hsp]
      simp [interleave]
    | p :: q :: rest =>
      obtain ⟨s', hs', hsp'⟩ := splitAngle_two _ _ _ _ hsp
      have hp0 : countAngle p = 0 := countAngle_piece todo p (by rw [hsp]; simp)
      subst hs'
      rw [replaceFirstAngle_head _ _ _ hp0]
      have hcl : Closed (done ++ p ++ n) := by
        have : countAngle (done ++ p) = 0 := by rw [countAngle_append_of_closed _ _ hd]; exact hp0
        exact closed_append_clean _ _ this hclean
      have := ih hns (done ++ p ++ n) s' hcl
      simp only [List.append_assoc] at this ⊢
      rw [this, hsp']
      simp [interleave]

theorem replaceEach_eq (names : List Str) (hn : ∀ n ∈ names, Clean n) (s : Str) :
    replaceEach names s = interleave (splitAngle s) names := by
  simpa using replaceEach_append names hn [] s closed_nil

end LalrpopModel.Lower
