import LalrpopModel.Lemmas.LRSoundBasic
/-!
Soundness of the model driver, part 2: what `validateSound G T A = true` means, as propositions
(`Sound G T A`), and the basic consequences for paths of the automaton.
-/
namespace LalrpopModel.LR

/-! ### generic list helpers -/

theorem subsetOf_mem {α : Type} [BEq α] [LawfulBEq α] {xs ys : List α} (h : subsetOf xs ys = true)
    {x : α} (hx : x ∈ xs) : x ∈ ys := by
  simp only [subsetOf, List.all_eq_true] at h
  simpa using h x hx

theorem lookupAssoc_mem {α : Type} {l : List (Nat × α)} {k : Nat} {v : α}
    (h : lookupAssoc l k = some v) : (k, v) ∈ l := by
  simp only [lookupAssoc, Option.map_eq_some_iff] at h
  obtain ⟨a, ha, hv⟩ := h
  have h1 := List.find?_some ha
  have h2 := List.mem_of_find?_eq_some ha
  simp only [beq_iff_eq] at h1
  cases a with
  | mk a1 a2 =>
    simp only at h1 hv
    subst h1; subst hv; exact h2

/-! ### the computed closure adds only initial items of nonterminals that occur in a rhs -/

/-- an item added by closure: dot 0, and its lhs occurs after some dot -/
def FromClosure (G : Grammar) (it : Item0) : Prop :=
  it.2 = 0 ∧ ∃ pr p d, G.prods[it.1]? = some pr ∧ symAt G p d = some (Sym.n pr.lhs)

theorem mem_initialItems {G : Grammar} {B : NT} {it : Item0} (h : it ∈ initialItems G B) :
    it.2 = 0 ∧ ∃ pr, G.prods[it.1]? = some pr ∧ pr.lhs = B := by
  simp only [initialItems, List.mem_filterMap] at h
  obtain ⟨q, _, hq⟩ := h
  cases hp : G.prods[q]? with
  | none => simp [hp] at hq
  | some pr =>
    simp only [hp] at hq
    split at hq
    · rename_i hl
      cases hq
      exact ⟨rfl, pr, hp, hl⟩
    · cases hq

theorem mem_closureRound {G : Grammar} {items : List Item0} {it : Item0}
    (h : it ∈ closureRound G items) : it ∈ items ∨ FromClosure G it := by
  simp only [closureRound, List.mem_append, List.mem_flatMap] at h
  rcases h with h | ⟨j, _, h⟩
  · exact .inl h
  · right
    split at h
    · rename_i B hs
      obtain ⟨h0, pr, hp, hl⟩ := mem_initialItems h
      exact ⟨h0, pr, j.1, j.2, hp, by rw [hl]; exact hs⟩
    · simp at h

theorem mem_closureIter {G : Grammar} : ∀ (k : Nat) {items : List Item0} {it : Item0},
    it ∈ closureIter G k items → it ∈ items ∨ FromClosure G it
  | 0, _, _, h => .inl h
  | k + 1, _, _, h => by
    simp only [closureIter] at h
    rcases mem_closureIter k h with h | h
    · exact mem_closureRound (List.mem_eraseDups.mp h)
    · exact .inr h

theorem mem_closure0 {G : Grammar} {K : List Item0} {it : Item0} (h : it ∈ closure0 G K) :
    it ∈ K ∨ FromClosure G it := mem_closureIter _ h

theorem mem_advance {G : Grammar} {cores : List Item0} {X : Sym} {it : Item0}
    (h : it ∈ advance G cores X) :
    ∃ d', it.2 = d' + 1 ∧ (it.1, d') ∈ cores ∧ symAt G it.1 d' = some X := by
  simp only [advance, List.mem_filterMap] at h
  obtain ⟨j, hj, h⟩ := h
  split at h
  · rename_i hs
    cases h
    exact ⟨j.2, rfl, hj, hs⟩
  · cases h

/-! ### the validator's soundness-side clauses as propositions -/

structure Sound (G : Grammar) (T : Tables) (A : Automaton) : Prop where
  nTerm_eq : T.nTerm = G.nTerm
  nS_pos : 0 < A.states.length
  eof_len : T.eofAction.length = A.states.length
  prodLen_eq : T.prodLen = G.prods.map (·.rhs.length)
  isStart_len : T.isStart.length = G.prods.length
  fallible_len : T.fallible.length = G.prods.length
  prodLhs_eq : ∀ p pr, G.prods[p]? = some pr → p ≠ G.startProd → T.prodLhs[p]? = some pr.lhs
  prodLhs_len : T.prodLhs.length = G.prods.length
  isStart_eq : ∀ p pr, G.prods[p]? = some pr → T.isStart[p]? = some (p == G.startProd)
  start : ∃ sp S, G.prods[G.startProd]? = some sp ∧ sp.rhs = [Sym.n S]
  start_fresh : ∀ sp, G.prods[G.startProd]? = some sp → ∀ p d, symAt G p d ≠ some (Sym.n sp.lhs)
  rec_nTerm : T.usesRecovery = true → 0 < T.nTerm
  cores0 : ∀ p d, (p, d) ∈ A.coresOf 0 → d = 0
  trans : ∀ s X s', A.trans s X = some s' → s' < A.states.length ∧
    ∀ p d, (p, d) ∈ A.coresOf s' → (d = 0 ∧ p ≠ G.startProd) ∨
      (∃ d', d = d' + 1 ∧ (p, d') ∈ A.coresOf s ∧ symAt G p d' = some X)
  goto_eq : ∀ s B s', A.gotoOf s B = some s' → T.gotoAt s B = s'
  action : ∀ s t, s < A.states.length → t < T.nTerm → ∃ a, T.actionAt s t = some a ∧
    (0 < a → A.shiftOf s t = some (a - 1).toNat) ∧
    (a < 0 → ∃ pr, G.prods[(-(a + 1)).toNat]? = some pr ∧ ((-(a + 1)).toNat, pr.rhs.length) ∈ A.coresOf s)
  eofAction : ∀ s, s < A.states.length → ∃ a, T.eofActionAt s = some a ∧
    (a < 0 → ∃ pr, G.prods[(-(a + 1)).toNat]? = some pr ∧ ((-(a + 1)).toNat, pr.rhs.length) ∈ A.coresOf s)
  gotos : ∀ s p, (p, 0) ∈ A.coresOf s → p ≠ G.startProd →
    ∃ pr s', G.prods[p]? = some pr ∧ A.gotoOf s pr.lhs = some s'

section Extract
variable {G : Grammar} {T : Tables} {A : Automaton}

theorem getElem?_mem' {α : Type} {l : List α} {i : Nat} {a : α} (h : l[i]? = some a) : a ∈ l := by
  obtain ⟨hi, rfl⟩ := List.getElem?_eq_some_iff.mp h
  exact List.getElem_mem hi

theorem coresOf_eq {s : Nat} {st : AState} (h : A.states[s]? = some st) : A.coresOf s = st.cores := by
  simp [Automaton.coresOf, h]

theorem coresOf_lt {s : Nat} {it : Item0} (h : it ∈ A.coresOf s) : s < A.states.length := by
  cases hs : A.states[s]? with
  | none => simp [Automaton.coresOf, hs] at h
  | some st => exact (List.getElem?_eq_some_iff.mp hs).1

theorem start_of_checkStart (h : checkStart G T = true) :
    ∃ sp S, G.prods[G.startProd]? = some sp ∧ sp.rhs = [Sym.n S] := by
  simp only [checkStart] at h
  split at h
  · rename_i sp hsp
    simp only [Bool.and_eq_true] at h
    obtain ⟨⟨h1, _⟩, _⟩ := h
    split at h1
    · rename_i S hr
      exact ⟨sp, S, hsp, hr⟩
    · cases h1
  · cases h

theorem fresh_of_checkStart (h : checkStart G T = true) :
    ∀ sp, G.prods[G.startProd]? = some sp → ∀ p d, symAt G p d ≠ some (Sym.n sp.lhs) := by
  intro sp hsp p d hs
  simp only [checkStart, hsp, Bool.and_eq_true, List.all_eq_true, Bool.not_eq_true'] at h
  obtain ⟨⟨_, h2⟩, _⟩ := h
  simp only [symAt, Option.bind_eq_some_iff] at hs
  obtain ⟨pr, hp, hd⟩ := hs
  have := h2 pr (getElem?_mem' hp)
  have hm : Sym.n sp.lhs ∈ pr.rhs := getElem?_mem' hd
  simp [hm] at this

theorem isStart_of_checkStart (h : checkStart G T = true) (hl : T.isStart.length = G.prods.length) :
    ∀ p pr, G.prods[p]? = some pr → T.isStart[p]? = some (p == G.startProd) := by
  intro p pr hp
  simp only [checkStart] at h
  split at h
  · simp only [Bool.and_eq_true, List.all_eq_true, List.mem_range] at h
    have hlt := (List.getElem?_eq_some_iff.mp hp).1
    have := h.2 p hlt
    simp only [hp, Bool.and_eq_true, beq_iff_eq] at this
    have h1 := this.1
    have hlt' : p < T.isStart.length := by omega
    rw [List.getD_eq_getElem?_getD, List.getElem?_eq_getElem hlt'] at h1
    rw [List.getElem?_eq_getElem hlt']
    simpa using h1
  · cases h

theorem trans_of_checkCores (hc : checkCores G T A = true)
    (hf : ∀ sp, G.prods[G.startProd]? = some sp → ∀ p d, symAt G p d ≠ some (Sym.n sp.lhs))
    (s : Nat) (X : Sym) (s' : Nat) (ht : A.trans s X = some s') :
    s' < A.states.length ∧ (∀ B, X = Sym.n B → T.gotoAt s B = s') ∧
    ∀ p d, (p, d) ∈ A.coresOf s' → (d = 0 ∧ p ≠ G.startProd) ∨
      (∃ d', d = d' + 1 ∧ (p, d') ∈ A.coresOf s ∧ symAt G p d' = some X) := by
  simp only [checkCores, Bool.and_eq_true, List.all_eq_true, List.mem_range] at hc
  -- the state record
  have key : ∃ st, A.states[s]? = some st ∧ s' < A.states.length ∧ (∀ B, X = Sym.n B → T.gotoAt s B = s') ∧
      subsetOf (A.coresOf s') (closure0 G (advance G st.cores X)) = true := by
    cases X with
    | t a =>
      simp only [Automaton.trans, Automaton.shiftOf, Option.bind_eq_some_iff] at ht
      obtain ⟨st, hst, hl⟩ := ht
      have hlt := (List.getElem?_eq_some_iff.mp hst).1
      have := hc.2 s hlt
      simp only [hst, Bool.and_eq_true, List.all_eq_true] at this
      have := this.1.1 (a, s') (lookupAssoc_mem hl)
      simp only [decide_eq_true_eq] at this
      exact ⟨st, hst, this.1.1.1, (by intro B hB; cases hB), this.2⟩
    | n B =>
      simp only [Automaton.trans, Automaton.gotoOf, Option.bind_eq_some_iff] at ht
      obtain ⟨st, hst, hl⟩ := ht
      have hlt := (List.getElem?_eq_some_iff.mp hst).1
      have := hc.2 s hlt
      simp only [hst, Bool.and_eq_true, List.all_eq_true] at this
      have := this.1.2 (B, s') (lookupAssoc_mem hl)
      simp only [decide_eq_true_eq, beq_iff_eq] at this
      exact ⟨st, hst, this.1.1.1, (by intro B' hB; cases hB; exact this.1.2), this.2⟩
  obtain ⟨st, hst, hlt, hg, hsub⟩ := key
  refine ⟨hlt, hg, ?_⟩
  intro p d hpd
  rcases mem_closure0 (subsetOf_mem hsub hpd) with h | h
  · right
    obtain ⟨d', h1, h2, h3⟩ := mem_advance h
    exact ⟨d', h1, by rw [coresOf_eq hst]; exact h2, h3⟩
  · left
    obtain ⟨h0, pr, q, d', hp, hs⟩ := h
    refine ⟨h0, ?_⟩
    intro he
    simp only at hp
    rw [he] at hp
    exact hf pr hp q d' hs

theorem cores0_of_checkCores (hc : checkCores G T A = true) : ∀ p d, (p, d) ∈ A.coresOf 0 → d = 0 := by
  intro p d h
  simp only [checkCores, Bool.and_eq_true] at hc
  rcases mem_closure0 (subsetOf_mem hc.1 h) with h | h
  · simp at h; exact h.2
  · exact h.1

theorem action_of_checks (hc : checkCores G T A = true) (hr : checkReduces G T A = true)
    (hn : T.nTerm = G.nTerm) (s t : Nat) (hs : s < A.states.length) (ht : t < T.nTerm) :
    ∃ a, T.actionAt s t = some a ∧
    (0 < a → A.shiftOf s t = some (a - 1).toNat) ∧
    (a < 0 → ∃ pr, G.prods[(-(a + 1)).toNat]? = some pr ∧ ((-(a + 1)).toNat, pr.rhs.length) ∈ A.coresOf s) := by
  simp only [checkCores, Bool.and_eq_true, List.all_eq_true, List.mem_range] at hc
  simp only [checkReduces, Bool.and_eq_true, List.all_eq_true, List.mem_range] at hr
  rw [hn] at ht
  have h1 := hc.2 s hs
  have h2 := (hr s hs).1 t ht
  cases hst : A.states[s]? with
  | none => simp [hst] at h1
  | some st =>
    simp only [hst, Bool.and_eq_true, List.all_eq_true, List.mem_range] at h1
    have h3 := h1.2 t ht
    cases ha : T.actionAt s t with
    | none => simp [ha] at h3
    | some a =>
      simp only [ha] at h3 h2
      refine ⟨a, rfl, ?_, ?_⟩
      · intro hpos
        have : a > 0 := hpos
        simp only [this, if_true, beq_iff_eq] at h3
        simp [Automaton.shiftOf, hst, h3]
      · intro hneg
        simp only [hneg, if_true] at h2
        split at h2
        · rename_i pr hp
          exact ⟨pr, hp, by simpa using h2⟩
        · cases h2

theorem eofAction_of_checks (hr : checkReduces G T A = true)
    (s : Nat) (hs : s < A.states.length) :
    ∃ a, T.eofActionAt s = some a ∧
    (a < 0 → ∃ pr, G.prods[(-(a + 1)).toNat]? = some pr ∧ ((-(a + 1)).toNat, pr.rhs.length) ∈ A.coresOf s) := by
  simp only [checkReduces, Bool.and_eq_true, List.all_eq_true, List.mem_range] at hr
  have h2 := (hr s hs).2
  cases ha : T.eofActionAt s with
  | none => simp [ha] at h2
  | some a =>
    simp only [ha] at h2
    refine ⟨a, rfl, ?_⟩
    intro hneg
    simp only [hneg, if_true] at h2
    split at h2
    · rename_i pr hp
      exact ⟨pr, hp, by simpa using h2⟩
    · cases h2

theorem gotos_of_checkGotos (hg : checkGotos G A = true) (s p : Nat) (h : (p, 0) ∈ A.coresOf s)
    (hne : p ≠ G.startProd) : ∃ pr s', G.prods[p]? = some pr ∧ A.gotoOf s pr.lhs = some s' := by
  simp only [checkGotos, List.all_eq_true, List.mem_range] at hg
  have := hg s (coresOf_lt h) (p, 0) h
  have hcnd : (((p, 0) : Item0).2 == 0 && ((p, 0) : Item0).1 != G.startProd) = true := by simp [hne]
  rw [if_pos hcnd] at this
  simp only at this
  split at this
  · rename_i pr hp
    obtain ⟨s', hs'⟩ := Option.isSome_iff_exists.mp this
    exact ⟨pr, s', hp, hs'⟩
  · cases this

theorem sound_of_validate (h : validateSound G T A = true) : Sound G T A := by
  simp only [validateSound, Bool.and_eq_true] at h
  obtain ⟨⟨⟨⟨hs, hst⟩, hc⟩, hr⟩, hg⟩ := h
  have hs' := hs
  simp only [checkShape, Bool.and_eq_true, beq_iff_eq, decide_eq_true_eq, List.all_eq_true,
    Bool.or_eq_true, Bool.not_eq_true', List.mem_range] at hs'
  obtain ⟨⟨⟨⟨⟨⟨⟨⟨⟨⟨⟨⟨⟨⟨hn, heof⟩, _⟩, _⟩, _⟩, hpl⟩, hlhsl⟩, hlhs⟩, hisl⟩, hfl⟩, hpos⟩, hrec⟩, _⟩, _⟩, _⟩ := hs'
  have hfresh := fresh_of_checkStart hst
  have hisStart := isStart_of_checkStart hst hisl
  exact {
    nTerm_eq := hn
    nS_pos := hpos
    eof_len := heof
    prodLen_eq := hpl
    isStart_len := hisl
    fallible_len := hfl
    prodLhs_len := hlhsl
    prodLhs_eq := by
      intro p pr hp hne
      have hlt := (List.getElem?_eq_some_iff.mp hp).1
      rcases hlhs p hlt with h1 | h1
      · have h2 := hisStart p pr hp
        have hlt' : p < T.isStart.length := by omega
        rw [List.getD_eq_getElem?_getD, h2] at h1
        simp at h1
        exact absurd h1 hne
      · rw [h1, hp]; rfl
    isStart_eq := hisStart
    start := start_of_checkStart hst
    start_fresh := hfresh
    rec_nTerm := by
      intro hu
      rcases hrec with h1 | h1
      · rw [hu] at h1; cases h1
      · omega
    cores0 := cores0_of_checkCores hc
    trans := by
      intro s X s' ht
      obtain ⟨h1, _, h3⟩ := trans_of_checkCores hc hfresh s X s' ht
      exact ⟨h1, h3⟩
    goto_eq := by
      intro s B s' ht
      exact (trans_of_checkCores hc hfresh s (Sym.n B) s' ht).2.1 B rfl
    action := action_of_checks hc hr hn
    eofAction := eofAction_of_checks hr
    gotos := gotos_of_checkGotos hg
  }

end Extract

/-! ### consequences for paths -/

section PathLemmas
variable {G : Grammar} {T : Tables} {A : Automaton}

theorem Path.top_lt (S : Sound G T A) {s : Nat} {ss : List Nat} {Xs : List Sym} (h : Path A (s :: ss) Xs) :
    s < A.states.length := by
  cases h with
  | base => exact S.nS_pos
  | push _ ht => exact (S.trans _ _ _ ht).1

/-- every core item of the top state is valid for the stack -/
theorem Path.itemAt (S : Sound G T A) {st : List Nat} {Xs : List Sym} (h : Path A st Xs) :
    ∀ s ss, st = s :: ss → ∀ p d, (p, d) ∈ A.coresOf s → ItemAt G A p d st Xs := by
  induction h with
  | base =>
    intro s ss he p d hpd
    cases he
    have := S.cores0 p d hpd
    subst this
    simpa [ItemAt] using hpd
  | push h1 ht ih =>
    intro s ss he p d hpd
    cases he
    rcases (S.trans _ _ _ ht).2 p d hpd with ⟨h0, _⟩ | ⟨d', hd, hc, hs⟩
    · subst h0; simpa [ItemAt] using hpd
    · subst hd
      simp only [ItemAt]
      exact ⟨hs, ih _ _ rfl p d' hc⟩

/-- the start item lives in the bottom state only -/
theorem Path.start_bottom (S : Sound G T A) {s : Nat} {ss : List Nat} {Xs : List Sym} (h : Path A (s :: ss) Xs)
    (hm : (G.startProd, 0) ∈ A.coresOf s) : ss = [] ∧ Xs = [] := by
  cases h with
  | base => exact ⟨rfl, rfl⟩
  | push _ ht =>
    rcases (S.trans _ _ _ ht).2 _ _ hm with ⟨_, hne⟩ | ⟨d', hd, _, _⟩
    · exact absurd rfl hne
    · omega

end PathLemmas

end LalrpopModel.LR
