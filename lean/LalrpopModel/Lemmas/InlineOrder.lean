import LalrpopModel.Model.Inline
/-!
Correctness of the depth-first walk of `inline_order` (`inline/graph/mod.rs`): it returns a
topological order of the inline graph exactly when the graph has no cycle, reports a node on a
cycle otherwise, and the fuel of the model never runs out.
-/
set_option linter.unusedSectionVars false

namespace LalrpopModel.Inline

variable {N : Type} [DecidableEq N]

/-- `y` is reachable from `x` by at least one edge -/
inductive ReachP (adj : N → List N) : N → N → Prop where
  | edge {x y} : y ∈ adj x → ReachP adj x y
  | step {x z y} : z ∈ adj x → ReachP adj z y → ReachP adj x y

theorem ReachP.snoc {adj : N → List N} {x y z : N} (h : ReachP adj x y) (hz : z ∈ adj y) :
    ReachP adj x z := by
  induction h with
  | edge h => exact .step h (.edge hz)
  | step h _ ih => exact .step h (ih hz)

theorem ReachP.trans {adj : N → List N} {x y z : N} (h : ReachP adj x y) (h2 : ReachP adj y z) :
    ReachP adj x z := by
  induction h with
  | edge h => exact .step h h2
  | step h _ ih => exact .step h (ih h2)

/-- every node's successors come later in the list (list in reverse order of emission) -/
def TopoRev (adj : N → List N) : List N → Prop
  | [] => True
  | v :: r => (∀ w ∈ adj v, w ∈ r) ∧ TopoRev adj r

/-- `l` is a topological order: the successors of every element occur before it -/
def Topo (adj : N → List N) (l : List N) : Prop := TopoRev adj l.reverse

theorem topo_snoc (adj : N → List N) (l : List N) (v : N) :
    Topo adj (l ++ [v]) ↔ (∀ w ∈ adj v, w ∈ l) ∧ Topo adj l := by
  simp [Topo, TopoRev]

/-- in a duplicate-free topological order nothing reaches itself -/
theorem TopoRev.reach_later {adj : N → List N} {l : List N} (h : TopoRev adj l) {pre post : List N}
    {x : N} (hl : l = pre ++ x :: post) {y : N} (hr : ReachP adj x y) : y ∈ post := by
  induction hr generalizing pre post with
  | @edge x y hxy =>
    subst hl
    induction pre with
    | nil => exact h.1 y hxy
    | cons a pre ih => exact ih h.2
  | @step x z y hxz _ ih =>
    subst hl
    have hz : z ∈ post := by
      clear ih
      induction pre with
      | nil => exact h.1 z hxz
      | cons a pre ihp => exact ihp h.2
    obtain ⟨p2, q2, rfl⟩ := List.append_of_mem hz
    have := ih (pre := pre ++ x :: p2) (post := q2) (by simp)
    exact List.mem_append_right _ (List.mem_cons_of_mem _ this)

theorem Topo.no_self_reach {adj : N → List N} {l : List N} (h : Topo adj l) (hnd : l.Nodup)
    {x : N} (hx : x ∈ l) : ¬ ReachP adj x x := by
  intro hr
  have hx' : x ∈ l.reverse := List.mem_reverse.mpr hx
  obtain ⟨pre, post, hl⟩ := List.append_of_mem hx'
  have hpost := TopoRev.reach_later h hl hr
  have hnd' : (pre ++ x :: post).Nodup := by
    rw [← hl, List.Nodup, List.pairwise_reverse]; exact hnd.imp (fun h => h.symm)
  have := List.nodup_append.mp hnd'
  have h2 := (List.nodup_cons.mp this.2.1).1
  exact h2 hpost

/-! ### the walk -/

variable (nodes : List N) (adj : N → List N)

/-- number of nodes not yet visited -/
def nv (st : DfsState N) : Nat := (nodes.filter fun v => st.states v = .notVisited).length

structure Inv (st : DfsState N) : Prop where
  visited_iff : ∀ v, st.states v = .visited ↔ v ∈ st.result
  nodup : st.result.Nodup
  topo : Topo adj st.result
  sub : ∀ v ∈ st.result, v ∈ nodes

/-- what a (partial) walk from state `st` over the targets `done` may return -/
def Outcome (fuel : Nat) (st : DfsState N) (done : List N) :
    Except (OrderErr N) (DfsState N) → Prop
  | .ok st' => Inv nodes adj st' ∧
      (∀ v, st'.states v = .visiting ↔ st.states v = .visiting) ∧
      (∀ t ∈ done, st'.states t = .visited) ∧
      (∀ v, st.states v = .visited → st'.states v = .visited) ∧
      (∀ v, st'.states v = .notVisited → st.states v = .notVisited)
  | .error (.cycle c) => ReachP adj c c
  | .error .outOfFuel => fuel ≤ nv nodes st

theorem filter_length_mono {α : Type} (l : List α) (p q : α → Bool) (h : ∀ a, p a = true → q a = true) :
    (l.filter p).length ≤ (l.filter q).length := by
  induction l with
  | nil => simp
  | cons a l ih =>
    simp only [List.filter_cons]
    by_cases hp : p a = true
    · simp [hp, h a hp]; exact ih
    · by_cases hq : q a = true
      · simp [hp, hq]; omega
      · simp [hp, hq]; exact ih

theorem filter_length_lt {α : Type} (l : List α) (p q : α → Bool) (h : ∀ a, p a = true → q a = true)
    (x : α) (hx : x ∈ l) (hqx : q x = true) (hpx : p x = false) :
    (l.filter p).length < (l.filter q).length := by
  induction l with
  | nil => cases hx
  | cons a l ih =>
    simp only [List.filter_cons]
    rcases List.mem_cons.mp hx with rfl | hx
    · have := filter_length_mono l p q h
      simp [hpx, hqx]; omega
    · have := ih hx
      by_cases hp : p a = true
      · simp [hp, h a hp]; exact this
      · by_cases hq : q a = true
        · simp [hp, hq]; omega
        · simp [hp, hq]; exact this

theorem nv_mono {st st' : DfsState N}
    (h : ∀ v, st'.states v = .notVisited → st.states v = .notVisited) : nv nodes st' ≤ nv nodes st := by
  unfold nv
  apply filter_length_mono
  intro a ha
  simp only [decide_eq_true_eq] at ha ⊢
  exact h a ha

theorem nv_set_lt {st : DfsState N} {src : N} (hsrc : src ∈ nodes) (hs : st.states src = .notVisited)
    (s : WalkState) (hne : s ≠ .notVisited) :
    nv nodes { st with states := setState st.states src s } < nv nodes st := by
  unfold nv
  apply filter_length_lt _ _ _ _ src hsrc
  · simp [hs]
  · simp [setState, hne]
  · intro a ha
    simp only [decide_eq_true_eq, setState] at ha ⊢
    by_cases h : a = src
    · simp [h] at ha; exact absurd ha hne
    · simpa [h] using ha

/-- the loop over the neighbours, given the walk theorem for the same fuel -/
theorem walkList_outcome (fuel : Nat)
    (hwalk : ∀ (src : N) (st : DfsState N), Inv nodes adj st → src ∈ nodes →
      (∀ v, st.states v = .visiting → ReachP adj v src) →
      Outcome nodes adj fuel st [src] (walk adj fuel src st))
    (targets : List N) (st : DfsState N) (hinv : Inv nodes adj st)
    (hsub : ∀ t ∈ targets, t ∈ nodes)
    (hreach : ∀ t ∈ targets, ∀ v, st.states v = .visiting → ReachP adj v t) :
    Outcome nodes adj fuel st targets
      (targets.foldlM (fun st target => walk adj fuel target st) st) := by
  induction targets generalizing st with
  | nil => exact ⟨hinv, fun _ => Iff.rfl, by simp, fun _ h => h, fun _ h => h⟩
  | cons t ts ih =>
    have h1 := hwalk t st hinv (hsub t (List.mem_cons_self ..)) (hreach t (List.mem_cons_self ..))
    simp only [List.foldlM_cons]
    cases hres : walk adj fuel t st with
    | error e =>
      rw [hres] at h1
      cases e with
      | cycle c => exact h1
      | outOfFuel => exact h1
    | ok st1 =>
      rw [hres] at h1
      obtain ⟨inv1, vis1, done1, mono1, anti1⟩ := h1
      have h2 := ih st1 inv1 (fun t' h => hsub t' (List.mem_cons_of_mem _ h))
        (fun t' h v hv => hreach t' (List.mem_cons_of_mem _ h) v ((vis1 v).mp hv))
      show Outcome nodes adj fuel st (t :: ts)
        (ts.foldlM (fun st target => walk adj fuel target st) st1)
      cases hres2 : ts.foldlM (fun st target => walk adj fuel target st) st1 with
      | error e =>
        rw [hres2] at h2
        cases e with
        | cycle c => exact h2
        | outOfFuel =>
          have := nv_mono nodes anti1
          exact Nat.le_trans h2 this
      | ok st2 =>
        rw [hres2] at h2
        obtain ⟨inv2, vis2, done2, mono2, anti2⟩ := h2
        refine ⟨inv2, fun v => (vis2 v).trans (vis1 v), ?_, fun v h => mono2 v (mono1 v h),
          fun v h => anti1 v (anti2 v h)⟩
        intro t' ht'
        rcases List.mem_cons.mp ht' with rfl | ht'
        · exact mono2 _ (done1 _ (List.mem_singleton.mpr rfl))
        · exact done2 t' ht'

/-- **the walk theorem** -/
theorem walk_outcome (hadj : ∀ x, ∀ y ∈ adj x, y ∈ nodes) (fuel : Nat) :
    ∀ (src : N) (st : DfsState N), Inv nodes adj st → src ∈ nodes →
      (∀ v, st.states v = .visiting → ReachP adj v src) →
      Outcome nodes adj fuel st [src] (walk adj fuel src st) := by
  induction fuel with
  | zero => intro src st _ _ _; exact Nat.zero_le _
  | succ fuel ih =>
    intro src st hinv hsrc hreach
    unfold walk
    cases hs : st.states src with
    | visited =>
      simp only []
      exact ⟨hinv, fun _ => Iff.rfl, fun t ht => by rw [List.mem_singleton.mp ht]; exact hs,
        fun _ h => h, fun _ h => h⟩
    | visiting => exact hreach src hs
    | notVisited =>
      simp only []
      -- state with `src` marked Visiting
      have hnotin : src ∉ st.result := fun h => by
        have := (hinv.visited_iff src).mpr h; rw [hs] at this; cases this
      have inv1 : Inv nodes adj { st with states := setState st.states src .visiting } := by
        refine ⟨fun v => ?_, hinv.nodup, hinv.topo, hinv.sub⟩
        simp only [setState]
        by_cases hv : v = src
        · subst hv; simp [hnotin]
        · simp [hv, hinv.visited_iff v]
      have hl := walkList_outcome nodes adj fuel ih (adj src)
        { st with states := setState st.states src .visiting } inv1 (hadj src)
        (by
          intro t ht v hv
          simp only [setState] at hv
          by_cases hvs : v = src
          · subst hvs; exact .edge ht
          · simp only [hvs, if_false] at hv
            exact (hreach v hv).snoc ht)
      cases hres : (adj src).foldlM (fun st target => walk adj fuel target st)
          { st with states := setState st.states src .visiting } with
      | error e =>
        rw [hres] at hl
        cases e with
        | cycle c => exact hl
        | outOfFuel =>
          have := nv_set_lt nodes hsrc hs .visiting (by simp)
          show fuel + 1 ≤ nv nodes st
          have hl' : fuel ≤ nv nodes { st with states := setState st.states src .visiting } := hl
          omega
      | ok st2 =>
        rw [hres] at hl
        obtain ⟨inv2, vis2, done2, mono2, anti2⟩ := hl
        have hsrc2 : st2.states src = .visiting := (vis2 src).mpr (by simp [setState])
        have hnotin2 : src ∉ st2.result := fun h => by
          have := (inv2.visited_iff src).mpr h; rw [hsrc2] at this; cases this
        refine ⟨⟨fun v => ?_, ?_, ?_, ?_⟩, fun v => ?_, ?_, fun v h => ?_, fun v h => ?_⟩
        · simp only [setState]
          by_cases hv : v = src
          · subst hv; simp
          · simp [hv, inv2.visited_iff v]
        · exact List.nodup_append.mpr ⟨inv2.nodup, by simp, by
            intro a ha b hb; rw [List.mem_singleton.mp hb]; intro h; exact hnotin2 (h ▸ ha)⟩
        · rw [topo_snoc]
          exact ⟨fun w hw => (inv2.visited_iff w).mp (done2 w hw), inv2.topo⟩
        · intro v hv
          rcases List.mem_append.mp hv with hv | hv
          · exact inv2.sub v hv
          · rw [List.mem_singleton.mp hv]; exact hsrc
        · simp only [setState]
          by_cases hv : v = src
          · subst hv; simp [hs]
          · simp only [hv, if_false]
            rw [vis2 v]; simp [setState, hv]
        · intro t ht; rw [List.mem_singleton.mp ht]; simp [setState]
        · simp only [setState]
          by_cases hv : v = src
          · subst hv; simp
          · simp only [hv, if_false]
            exact mono2 v (by simpa [setState, hv] using h)
        · simp only [setState] at h
          by_cases hv : v = src
          · subst hv; exact hs
          · simp only [hv, if_false] at h
            simpa [setState, hv] using anti2 v h

/-- the outer loop of `inline_order`, for an arbitrary graph -/
theorem order_outcome (hadj : ∀ x, ∀ y ∈ adj x, y ∈ nodes) :
    match nodes.foldlM (fun st node => walk adj (nodes.length + 1) node st)
        ({ states := fun _ => .notVisited, result := [] } : DfsState N) with
    | .ok st => st.result.Nodup ∧ (∀ x, x ∈ st.result ↔ x ∈ nodes) ∧ Topo adj st.result
    | .error (.cycle c) => ReachP adj c c
    | .error .outOfFuel => False := by
  have inv0 : Inv nodes adj ({ states := fun _ => .notVisited, result := [] } : DfsState N) :=
    ⟨by simp, by simp, by simp [Topo, TopoRev], by simp⟩
  have h := walkList_outcome nodes adj (nodes.length + 1)
    (walk_outcome nodes adj hadj (nodes.length + 1)) nodes _ inv0 (fun _ h => h) (by simp)
  cases hres : nodes.foldlM (fun st node => walk adj (nodes.length + 1) node st)
      ({ states := fun _ => .notVisited, result := [] } : DfsState N) with
  | error e =>
    rw [hres] at h
    cases e with
    | cycle c => exact h
    | outOfFuel =>
      have h' : nodes.length + 1 ≤ nv nodes ({ states := fun _ => .notVisited, result := [] } : DfsState N) := h
      have : nv nodes ({ states := fun _ => .notVisited, result := [] } : DfsState N) ≤ nodes.length := by
        unfold nv; exact List.length_filter_le _ _
      omega
  | ok st =>
    rw [hres] at h
    obtain ⟨inv, _, done, _, _⟩ := h
    exact ⟨inv.nodup, fun x => ⟨inv.sub x, fun hx => (inv.visited_iff x).mp (done x hx)⟩, inv.topo⟩

end LalrpopModel.Inline
