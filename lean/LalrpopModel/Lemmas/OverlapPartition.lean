import LalrpopModel.Lemmas.OverlapAdd
import LalrpopModel.Lemmas.Sort
namespace LalrpopModel.Dfa

structure AllInv (S v : List Range) : Prop where
  pd : PD v
  cov : ∀ c, Cov v c ↔ Cov S c
  fine : ∀ X, X ∈ S → Fine v X

theorem addAll_inv (fuel : Nat) : ∀ (rs S v v' : List Range),
    addAll (addRange fuel) rs v = .ok v' → AllInv S v → AllInv (S ++ rs) v' := by
  intro rs
  induction rs with
  | nil => intro S v v' h hinv; cases h; simpa using hinv
  | cons r rs ih =>
    intro S v v' h hinv
    simp only [addAll, bind, Except.bind] at h
    cases h1 : addRange fuel r 0 v with
    | error e => rw [h1] at h; cases h
    | ok v1 =>
      rw [h1] at h
      simp only at h
      have P := addRange_post fuel r 0 v v1 h1 hinv.pd (fun i a hi => by omega) (Nat.zero_le _)
      have hinv1 : AllInv (S ++ [r]) v1 := by
        refine ⟨P.pd, ?_, ?_⟩
        · intro c
          rw [P.cov c, hinv.cov c]
          simp only [Cov, List.mem_append, List.mem_singleton]
          constructor
          · rintro (⟨x, hx, hm⟩ | hm)
            · exact ⟨x, .inl hx, hm⟩
            · exact ⟨r, .inr rfl, hm⟩
          · rintro ⟨x, hx | rfl, hm⟩
            · exact .inl ⟨x, hx, hm⟩
            · exact .inr hm
        · intro X hX t' ht'
          rcases List.mem_append.mp hX with hX | hX
          · rcases P.orig t' ht' with ⟨t, ht, hs⟩ | ⟨_, hd⟩
            · rcases hinv.fine X hX t ht with h' | h'
              · exact .inl (hs.trans h')
              · exact .inr (h'.of_sub hs)
            · right
              intro c hc
              obtain ⟨t, ht, hm⟩ := (hinv.cov c).mpr ⟨X, hX, hc.2⟩
              exact hd t ht c ⟨hc.1, hm⟩
          · simp only [List.mem_singleton] at hX
            subst hX
            exact P.fine t' ht'
      have := ih (S ++ [r]) v1 v' h hinv1
      simpa using this

theorem pd_pairwise {v : List Range} (h : PD v) : v.Pairwise Disj := by
  rw [List.pairwise_iff_getElem]
  intro i j hi hj hij
  exact h i j v[i] v[j] hij (List.getElem?_eq_getElem hi) (List.getElem?_eq_getElem hj)

/-- **remove_overlap_partition** (fixed `add_range`): the output ranges are non-empty and
pairwise disjoint, cover exactly what the input ranges cover, and each of them lies inside or is
disjoint from every input range. -/
theorem removeOverlap_partition (fuel : Nat) (ranges out : List Range)
    (h : removeOverlap fuel ranges = .ok out) :
    out.Pairwise Disj ∧
    (∀ t, t ∈ out → isEmpty t = false) ∧
    (∀ c, (∃ t, t ∈ out ∧ mem c t) ↔ (∃ r, r ∈ ranges ∧ mem c r)) ∧
    (∀ t, t ∈ out → ∀ r, r ∈ ranges → Sub t r ∨ Disj t r) := by
  simp only [removeOverlap, bind, Except.bind] at h
  cases h1 : addAll (addRange fuel) (asSet ranges) [] with
  | error e => rw [h1] at h; cases h
  | ok v =>
    rw [h1] at h
    simp only [pure, Except.pure, Except.ok.injEq] at h
    subst h
    have hinv := addAll_inv fuel (asSet ranges) [] [] v h1
      ⟨fun i j a b _ ha => by simp at ha, fun c => Iff.rfl, fun X hX => by cases hX⟩
    simp only [List.nil_append] at hinv
    have hset : ∀ r, r ∈ asSet ranges ↔ r ∈ ranges := by
      intro r; simp [asSet, List.mem_eraseDups, mem_isort]
    have hmem : ∀ t, t ∈ isort rangeLe (v.filter (fun r => !isEmpty r)) ↔ t ∈ v ∧ isEmpty t = false := by
      intro t; simp [mem_isort, List.mem_filter]
    refine ⟨?_, fun t ht => ((hmem t).mp ht).2, ?_, ?_⟩
    · have hp : (isort rangeLe (v.filter (fun r => !isEmpty r))).Perm (v.filter (fun r => !isEmpty r)) :=
        isort_perm _ _
      rw [hp.pairwise_iff (fun h => Disj.symm h)]
      exact (pd_pairwise hinv.pd).filter _
    · intro c
      constructor
      · rintro ⟨t, ht, hm⟩
        obtain ⟨r, hr, hm'⟩ := (hinv.cov c).mp ⟨t, ((hmem t).mp ht).1, hm⟩
        exact ⟨r, (hset r).mp hr, hm'⟩
      · rintro ⟨r, hr, hm⟩
        obtain ⟨t, ht, hm'⟩ := (hinv.cov c).mpr ⟨r, (hset r).mpr hr, hm⟩
        refine ⟨t, (hmem t).mpr ⟨ht, ?_⟩, hm'⟩
        simp only [isEmpty, decide_eq_false_iff_not]
        have := hm'.1; have := hm'.2; omega
    · intro t ht r hr
      exact hinv.fine r ((hset r).mpr hr) t ((hmem t).mp ht).1

end LalrpopModel.Dfa
