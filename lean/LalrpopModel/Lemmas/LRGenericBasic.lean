import LalrpopModel.Model.LR.Driver
/-!
Generic facts about the M-LR driver (`Model/LR/Driver.lean`) that hold for ARBITRARY tables:
iteration lemmas for `run`, reachability, and a relational description (`Step`) of one machine
step on which the invariants of the other `LRGeneric*` files are proved by cases.
-/
namespace LalrpopModel.LR.Generic
open LalrpopModel.LR

variable (T : Tables) (af : Nat) (failAt : Option Nat) (startLoc : Int)

/-! ### `run` -/

@[simp] theorem step_done (c : Cfg) (r : Outcome) :
    step T af failAt startLoc c (.done r) = (c, .done r) := rfl

@[simp] theorem run_zero (c : Cfg) (ph : Phase) : run T af failAt startLoc 0 c ph = (c, ph) := by
  cases ph <;> rfl

@[simp] theorem run_done (n : Nat) (c : Cfg) (r : Outcome) :
    run T af failAt startLoc n c (.done r) = (c, .done r) := by
  cases n <;> rfl

theorem run_succ (n : Nat) (c : Cfg) (ph : Phase) :
    run T af failAt startLoc (n + 1) c ph =
      run T af failAt startLoc n (step T af failAt startLoc c ph).1 (step T af failAt startLoc c ph).2 := by
  cases ph <;> simp [run]

theorem run_add (m n : Nat) (c : Cfg) (ph : Phase) :
    run T af failAt startLoc (m + n) c ph =
      run T af failAt startLoc n (run T af failAt startLoc m c ph).1 (run T af failAt startLoc m c ph).2 := by
  induction m generalizing c ph with
  | zero => simp
  | succ m ih => rw [Nat.add_right_comm, run_succ, ih, ← run_succ]

theorem run_succ' (n : Nat) (c : Cfg) (ph : Phase) :
    run T af failAt startLoc (n + 1) c ph =
      step T af failAt startLoc (run T af failAt startLoc n c ph).1 (run T af failAt startLoc n c ph).2 := by
  rw [run_add, run_succ, run_zero]

/-- once the machine is in `.done r`, more fuel changes nothing -/
theorem run_done_stable {n : Nat} {c0 : Cfg} {ph0 : Phase} {c : Cfg} {r : Outcome}
    (h : run T af failAt startLoc n c0 ph0 = (c, .done r)) {m : Nat} (hm : n ≤ m) :
    run T af failAt startLoc m c0 ph0 = (c, .done r) := by
  obtain ⟨k, rfl⟩ := Nat.exists_eq_add_of_le hm
  rw [run_add, h]; simp

/-- reachability in any number of steps -/
def Reach (c0 : Cfg) (ph0 : Phase) (c : Cfg) (ph : Phase) : Prop :=
  ∃ n, run T af failAt startLoc n c0 ph0 = (c, ph)

theorem Reach.refl (c : Cfg) (ph : Phase) : Reach T af failAt startLoc c ph c ph := ⟨0, by simp⟩

theorem Reach.step {c0 ph0 c ph} (h : Reach T af failAt startLoc c0 ph0 c ph) :
    Reach T af failAt startLoc c0 ph0 (step T af failAt startLoc c ph).1 (step T af failAt startLoc c ph).2 := by
  obtain ⟨n, h⟩ := h
  exact ⟨n + 1, by rw [run_succ', h]⟩

/-- lifting a one-step invariant to `run` -/
theorem run_inv (I : Cfg → Phase → Prop)
    (hstep : ∀ c ph, I c ph → I (step T af failAt startLoc c ph).1 (step T af failAt startLoc c ph).2)
    {c0 : Cfg} {ph0 : Phase} (h0 : I c0 ph0) (n : Nat) :
    I (run T af failAt startLoc n c0 ph0).1 (run T af failAt startLoc n c0 ph0).2 := by
  induction n with
  | zero => simpa using h0
  | succ n ih => rw [run_succ']; exact hstep _ _ ih

theorem reach_inv (I : Cfg → Phase → Prop)
    (hstep : ∀ c ph, I c ph → I (step T af failAt startLoc c ph).1 (step T af failAt startLoc c ph).2)
    {c0 : Cfg} {ph0 : Phase} (h0 : I c0 ph0) {c : Cfg} {ph : Phase}
    (h : Reach T af failAt startLoc c0 ph0 c ph) : I c ph := by
  obtain ⟨n, h⟩ := h
  have := run_inv T af failAt startLoc I hstep h0 n
  rwa [h] at this

def phDone : Phase → Bool
  | .done _ => true
  | _ => false

/-- a run that ends in `.done r` from a phase that is not `.done` has a last non-final
    configuration, and that configuration steps to the final one -/
theorem last_step {n : Nat} {c0 : Cfg} {ph0 : Phase} {c : Cfg} {r : Outcome}
    (h : run T af failAt startLoc n c0 ph0 = (c, .done r)) (h0 : phDone ph0 = false) :
    ∃ k c1 ph1, k < n ∧ run T af failAt startLoc k c0 ph0 = (c1, ph1) ∧ phDone ph1 = false ∧
      step T af failAt startLoc c1 ph1 = (c, .done r) := by
  induction n with
  | zero => simp at h; rw [h.2] at h0; simp [phDone] at h0
  | succ n ih =>
    rcases hd : (run T af failAt startLoc n c0 ph0) with ⟨c1, ph1⟩
    cases hp : phDone ph1 with
    | true =>
      cases ph1 with
      | done r1 =>
        have : run T af failAt startLoc (n + 1) c0 ph0 = (c1, .done r1) :=
          run_done_stable T af failAt startLoc hd (Nat.le_succ n)
        rw [this] at h
        injection h with h1 h2; subst h1; injection h2 with h2; subst h2
        obtain ⟨k, c2, ph2, hk, h2⟩ := ih hd
        exact ⟨k, c2, ph2, Nat.lt_succ_of_lt hk, h2⟩
      | _ => simp [phDone] at hp
    | false =>
      refine ⟨n, c1, ph1, Nat.lt_succ_self n, hd, hp, ?_⟩
      rw [run_succ', hd] at h; exact h

/-! ### `__reduce` -/

/-- the span `__reduce` gives to the new symbol -/
def reduceSpan (popped rest : List SymTriple) (laStart : Option Int) : Int × Int :=
  match popped.head?, popped.getLast? with
  | some f, some l => (f.1, l.2.2)
  | _, _ =>
    let s := match laStart with
      | some x => x
      | none => match rest.head? with
        | some top => top.2.2
        | none => startLoc
    (s, s)

/-- configuration after the action code of production `p` (arity `n`) ran: symbols popped -/
def popCfg (c : Cfg) (p n : Nat) : Cfg :=
  { c with acts := c.acts + 1, trace := p :: c.trace, symbols := c.symbols.drop n }

/-- the symbol `__reduce` pushes -/
def reduceSym (c : Cfg) (p n : Nat) (laStart : Option Int) : SymTriple :=
  let popped := (c.symbols.take n).reverse
  let s := reduceSpan startLoc popped (c.symbols.drop n) laStart
  (s.1, Tree.node p s.1 s.2 (Forest.ofList (popped.map (·.2.1))), s.2)

def pushCfg (c : Cfg) (p n : Nat) (laStart : Option Int) : Cfg :=
  { popCfg c p n with symbols := reduceSym startLoc c p n laStart :: c.symbols.drop n }

inductive ReduceSpec (c : Cfg) (p : Nat) (laStart : Option Int) : ReduceResult → Prop
  | bad (tag : PanicTag) : ReduceSpec c p laStart (.finished c (.panic tag))
  | fail (n : Nat) (hn : n ≤ c.symbols.length) (hlen : T.prodLen[p]? = some n)
      (hfal : T.fallible[p]? = some true) (hf : failAt = some c.acts) :
      ReduceSpec c p laStart (.finished (popCfg c p n) (.err (.user (failCode c.acts))))
  | accept (n : Nat) (hn : n ≤ c.symbols.length) (hlen : T.prodLen[p]? = some n)
      (hnf : T.fallible[p]? = some true → failAt ≠ some c.acts)
      (hst : T.isStart[p]? = some true) (k : SymTriple) (hk : c.symbols.take n = [k]) :
      ReduceSpec c p laStart (.finished (popCfg c p n) (.ok k.2.1))
  | badStart (n : Nat) (hn : n ≤ c.symbols.length) (hlen : T.prodLen[p]? = some n)
      (hnf : T.fallible[p]? = some true → failAt ≠ some c.acts) :
      ReduceSpec c p laStart (.finished (popCfg c p n) (.panic .badStartProduction))
  | pushedPanic (n : Nat) (hn : n ≤ c.symbols.length) (hlen : T.prodLen[p]? = some n)
      (hnf : T.fallible[p]? = some true → failAt ≠ some c.acts) (tag : PanicTag) :
      ReduceSpec c p laStart (.finished (pushCfg startLoc c p n laStart) (.panic tag))
  | cont (n A : Nat) (hn : n ≤ c.symbols.length) (hlen : T.prodLen[p]? = some n)
      (hnf : T.fallible[p]? = some true → failAt ≠ some c.acts)
      (hlhs : T.prodLhs[p]? = some A) (hst : T.isStart[p]? = some false)
      (below : Nat) (more : List Nat) (hs : c.states.drop n = below :: more) :
      ReduceSpec c p laStart
        (.continue_ { pushCfg startLoc c p n laStart with states := T.gotoAt below A :: below :: more })

theorem reduce_spec (c : Cfg) (p : Nat) (laStart : Option Int) :
    ReduceSpec T failAt startLoc c p laStart (reduce T failAt startLoc c p laStart) := by
  unfold reduce
  split
  · rename_i n A st fal hlen hlhs hst hfal
    by_cases hlt : c.symbols.length < n
    · simp only [hlt, ↓reduceIte]; exact .bad _
    · simp only [hlt, ↓reduceIte]
      have hn : n ≤ c.symbols.length := Nat.le_of_not_lt hlt
      by_cases hf : (fal && failAt == some c.acts) = true
      · simp only [hf, ↓reduceIte]
        simp at hf
        obtain ⟨h1, h2⟩ := hf
        subst h1
        exact .fail n hn hlen hfal h2
      · simp only [hf]
        have hnf : T.fallible[p]? = some true → failAt ≠ some c.acts := by
          intro h1 h2
          apply hf
          rw [hfal] at h1
          cases h1
          simp [h2]
        cases st
        · simp only [Bool.false_eq_true, ↓reduceIte]
          by_cases hsl : c.states.length < n
          · simp only [hsl, ↓reduceIte]
            exact .pushedPanic n hn hlen hnf _
          · simp only [hsl, ↓reduceIte]
            cases hs : List.drop n c.states with
            | nil => exact .pushedPanic n hn hlen hnf _
            | cons below more => exact .cont n A hn hlen hnf hlhs hst below more hs
        · simp only [↓reduceIte]
          generalize hr : (List.take n c.symbols).reverse = r
          match r, hr with
          | [k], hr =>
            have : c.symbols.take n = [k] := by
              have := congrArg List.reverse hr
              simpa using this
            exact .accept n hn hlen hnf hst k this
          | [], _ => exact .badStart n hn hlen hnf
          | _ :: _ :: _, _ => exact .badStart n hn hlen hnf
  · exact .bad _

/-! ### `next_token` -/

/-- configuration after one `tokens.next()` that yielded something -/
def pullCfg (c : Cfg) (rest : List Item) : Cfg := { c with input := rest, pulled := c.pulled + 1 }

def pullTokCfg (c : Cfg) (t : Tok) (rest : List Item) : Cfg :=
  { c with input := rest, pulled := c.pulled + 1, lastLoc := t.r }

inductive NextSpec (c : Cfg) : Cfg → NextToken → Prop
  | eof (h : c.input = []) : NextSpec c { c with pulled := c.pulled + 1 } .eof
  | err (e : Nat) (rest : List Item) (h : c.input = .err e :: rest) :
      NextSpec c (pullCfg c rest) (.done (.err (.user e)))
  | found (t : Tok) (i : Term) (rest : List Item) (h : c.input = .tok t :: rest) (hk : t.kind = some i) :
      NextSpec c (pullTokCfg c t rest) (.found t i)
  | unrec (t : Tok) (rest : List Item) (h : c.input = .tok t :: rest) (hk : t.kind = none)
      (ex : List Term) (hex : expected T af c.states = .ok ex) :
      NextSpec c (pullTokCfg c t rest) (.done (.err (.unrecognizedToken t ex)))
  | panic (t : Tok) (rest : List Item) (h : c.input = .tok t :: rest) (hk : t.kind = none) (tag : PanicTag) :
      NextSpec c (pullTokCfg c t rest) (.done (.panic tag))

theorem nextToken_spec (c : Cfg) :
    NextSpec T af c (nextToken T af c).1 (nextToken T af c).2 := by
  obtain ⟨sts, syms, inp, ll, pu, ac, tr⟩ := c
  unfold nextToken
  cases inp with
  | nil => exact .eof rfl
  | cons it rest =>
    cases it with
    | err e => exact .err e rest rfl
    | tok t =>
      simp only
      cases hk : t.kind with
      | some i => exact .found t i rest rfl hk
      | none =>
        simp only [unrecognizedError]
        cases hex : expected T af sts with
        | error e => exact .panic t rest rfl hk e
        | ok ex => exact .unrec t rest rfl hk ex hex


/-! ### the tail of `error_recovery` -/

def recStart (c : Cfg) (dropped : List Tok) (top : Nat) : Except PanicTag Int :=
  match getBot c.symbols top with
  | some s => .ok s.1
  | none =>
    match dropped.head? with
    | some d => .ok d.l
    | none =>
      if top > 0 then
        match getBot c.symbols (top - 1) with
        | some s => .ok s.2.2
        | none => .error .recoveryIndex
      else .ok startLoc

def recEnd (c : Cfg) (la : Option (Tok × Term)) (dropped : List Tok) (statesLen top : Nat) (start : Int) :
    Except PanicTag Int :=
  match dropped.getLast? with
  | some d => .ok d.r
  | none =>
    if statesLen - 1 > top then
      match c.symbols.head? with
      | some s => .ok s.2.2
      | none => .error .recoveryIndex
    else match la with
      | some (t, _) => .ok t.l
      | none => .ok start

def recCfg (c : Cfg) (es top : Nat) (sym : SymTriple) : Cfg :=
  { c with states := es :: truncBot c.states (top + 1), symbols := sym :: truncBot c.symbols top }

/-- phase the caller of `error_recovery` continues in -/
def afterPh (la : Option (Tok × Term)) (fromEof : Bool) : Phase :=
  match la, fromEof with
  | some (t, i), false => .act t i
  | some _, true => .done (.panic .eofFoundToken)
  | none, _ => .eof

theorem afterRecovery_eq (c : Cfg) (la : Option (Tok × Term)) (fe : Bool) :
    afterRecovery c la fe = (c, afterPh la fe) := by
  unfold afterRecovery afterPh
  split <;> rfl

inductive PushSpec (c : Cfg) (la : Option (Tok × Term)) (error : PErr) (dropped : List Tok)
    (statesLen top : Nat) (fromEof : Bool) : Cfg → Phase → Prop
  | panic (tag : PanicTag) : PushSpec c la error dropped statesLen top fromEof c (.done (.panic tag))
  | ok (l r : Int) (hl : recStart startLoc c dropped top = .ok l)
      (hr : recEnd c la dropped statesLen top l = .ok r)
      (rs : Nat) (rest : List Nat) (hrs : truncBot c.states (top + 1) = rs :: rest)
      (a : Int) (ha : T.errorActionAt rs = some a) (es : Nat) (hes : asShift a = some es) :
      PushSpec c la error dropped statesLen top fromEof
        (recCfg c es top (l, Tree.err error dropped, r)) (afterPh la fromEof)

theorem pushRecovery_spec (c : Cfg) (la : Option (Tok × Term)) (error : PErr) (dropped : List Tok)
    (sl top : Nat) (fe : Bool) :
    PushSpec T startLoc c la error dropped sl top fe
      (pushRecovery T startLoc c la error dropped sl top fe).1
      (pushRecovery T startLoc c la error dropped sl top fe).2 := by
  unfold pushRecovery
  simp only
  change PushSpec T startLoc c la error dropped sl top fe
    (match recStart startLoc c dropped top with
      | .error e => (c, Phase.done (.panic e))
      | .ok start => _).1 (match recStart startLoc c dropped top with
      | .error e => (c, Phase.done (.panic e))
      | .ok start => _).2
  cases hl : recStart startLoc c dropped top with
  | error e => exact .panic e
  | ok l =>
    simp only
    change PushSpec T startLoc c la error dropped sl top fe
      (match recEnd c la dropped sl top l with
        | .error e => (c, Phase.done (.panic e))
        | .ok end_ => _).1 (match recEnd c la dropped sl top l with
        | .error e => (c, Phase.done (.panic e))
        | .ok end_ => _).2
    cases hr : recEnd c la dropped sl top l with
    | error e => exact .panic e
    | ok r =>
      simp only
      cases hrs : truncBot c.states (top + 1) with
      | nil => exact .panic _
      | cons rs rest =>
        simp only
        cases ha : T.errorActionAt rs with
        | none => exact .panic _
        | some a =>
          simp only
          cases hes : asShift a with
          | none => exact .panic _
          | some es =>
            simp only [afterRecovery_eq]
            have := PushSpec.ok (T := T) (startLoc := startLoc) (c := c) (la := la) (error := error)
              (dropped := dropped) (statesLen := sl) (top := top) (fromEof := fe) l r hl hr rs rest hrs a ha es hes
            simpa [recCfg, hrs] using this


/-! ### one step, relationally -/

/-- where the three reducing loops take their action from -/
def RedCtx (c : Cfg) : Phase → Nat → Option Int → Prop
  | .act la idx, p, ls => ls = some la.l ∧ ∃ top rest a, c.states = top :: rest ∧
      T.actionAt top idx = some a ∧ asShift a = none ∧ asReduce a = some p
  | .eof, p, ls => ls = none ∧ ∃ top rest a, c.states = top :: rest ∧
      T.eofActionAt top = some a ∧ asReduce a = some p
  | .recReduce la _ _, p, ls => ls = la.map (·.1.l) ∧ ∃ top rest a, c.states = top :: rest ∧
      T.errorActionAt top = some a ∧ asReduce a = some p
  | _, _, _ => False

/-- what `parse` / `parse_eof` / `error_recovery` return when `__reduce` answers `Some(r)` -/
def finOutcome : Phase → Outcome → Outcome
  | .act la _, .ok _ => .err (.extraToken la)
  | _, r => r

/-- the two call sites of `error_recovery` -/
def EnterCtx (c : Cfg) : Phase → Option (Tok × Term) → Bool → Prop
  | .act la idx, la', fe => la' = some (la, idx) ∧ fe = false ∧ ∃ top rest a, c.states = top :: rest ∧
      T.actionAt top idx = some a ∧ asShift a = none ∧ asReduce a = none
  | .eof, la', fe => la' = none ∧ fe = true ∧ ∃ top rest a, c.states = top :: rest ∧
      T.eofActionAt top = some a ∧ asReduce a = none
  | _, _, _ => False

/-- the error `unrecognized_token_error` builds -/
def mkErr (c : Cfg) (la : Option (Tok × Term)) (ex : List Term) : PErr :=
  match la with
  | some (t, _) => .unrecognizedToken t ex
  | none => .unrecognizedEof c.lastLoc ex

def pullK : NextToken → Phase
  | .found t i => .act t i
  | .eof => .eof
  | .done r => .done r

def dropK (e : PErr) (dropped : List Tok) (sl : Nat) (fe : Bool) : NextToken → Phase
  | .found t i => .recFind (some (t, i)) e dropped sl fe
  | .eof => .recFind none e dropped sl fe
  | .done r => .done r

inductive Step : Cfg → Phase → Cfg → Phase → Prop
  | done (c : Cfg) (r : Outcome) : Step c (.done r) c (.done r)
  | panic (c : Cfg) (ph : Phase) (tag : PanicTag) (h : phDone ph = false) : Step c ph c (.done (.panic tag))
  | pull (c c' : Cfg) (nt : NextToken) (h : NextSpec T af c c' nt) : Step c .pull c' (pullK nt)
  | shift (c : Cfg) (la : Tok) (idx top : Nat) (rest : List Nat) (a : Int) (target : Nat)
      (hs : c.states = top :: rest) (ha : T.actionAt top idx = some a) (hsh : asShift a = some target) :
      Step c (.act la idx)
        { c with states := target :: c.states, symbols := (la.l, Tree.leaf la, la.r) :: c.symbols } .pull
  | redCont (c : Cfg) (ph : Phase) (p : Nat) (ls : Option Int) (c' : Cfg) (hctx : RedCtx T c ph p ls)
      (h : ReduceSpec T failAt startLoc c p ls (.continue_ c')) : Step c ph c' ph
  | redFin (c : Cfg) (ph : Phase) (p : Nat) (ls : Option Int) (c' : Cfg) (r : Outcome)
      (hctx : RedCtx T c ph p ls) (h : ReduceSpec T failAt startLoc c p ls (.finished c' r)) :
      Step c ph c' (.done (finOutcome ph r))
  | enterNoRec (c : Cfg) (ph : Phase) (la : Option (Tok × Term)) (fe : Bool) (ex : List Term)
      (hctx : EnterCtx T c ph la fe) (hex : expected T af c.states = .ok ex)
      (hr : T.usesRecovery = false) : Step c ph c (.done (.err (mkErr c la ex)))
  | enterRec (c : Cfg) (ph : Phase) (la : Option (Tok × Term)) (fe : Bool) (ex : List Term)
      (hctx : EnterCtx T c ph la fe) (hex : expected T af c.states = .ok ex)
      (hr : T.usesRecovery = true) : Step c ph c (.recReduce la (mkErr c la ex) fe)
  | toFind (c : Cfg) (la : Option (Tok × Term)) (e : PErr) (fe : Bool) (top : Nat) (rest : List Nat) (a : Int)
      (hs : c.states = top :: rest) (ha : T.errorActionAt top = some a) (hnr : asReduce a = none) :
      Step c (.recReduce la e fe) c (.recFind la e [] c.states.length fe)
  | push (c : Cfg) (la : Option (Tok × Term)) (e : PErr) (dropped : List Tok) (sl : Nat) (fe : Bool) (top : Nat)
      (hf : findState T af (la.map (·.2)) sl c.states sl = .ok (some top)) (c' : Cfg) (ph' : Phase)
      (h : PushSpec T startLoc c la e dropped sl top fe c' ph') :
      Step c (.recFind la e dropped sl fe) c' ph'
  | giveUp (c : Cfg) (e : PErr) (dropped : List Tok) (sl : Nat) (fe : Bool)
      (hf : findState T af none sl c.states sl = .ok none) :
      Step c (.recFind none e dropped sl fe) c (.done (.err e))
  | drop (c : Cfg) (t : Tok) (i : Term) (e : PErr) (dropped : List Tok) (sl : Nat) (fe : Bool)
      (hf : findState T af (some i) sl c.states sl = .ok none) (c' : Cfg) (nt : NextToken)
      (h : NextSpec T af c c' nt) :
      Step c (.recFind (some (t, i)) e dropped sl fe) c' (dropK e (dropped ++ [t]) sl fe nt)

theorem unrecognizedError_eq (c : Cfg) (la : Option (Tok × Term)) :
    unrecognizedError T af c (la.map (·.1)) =
      match expected T af c.states with
      | .error e => .error e
      | .ok ex => .ok (mkErr c la ex) := by
  unfold unrecognizedError mkErr
  cases expected T af c.states with
  | error e => rfl
  | ok ex => cases la <;> rfl

theorem enterRecovery_spec (c : Cfg) (ph : Phase) (la : Option (Tok × Term)) (fe : Bool)
    (hctx : EnterCtx T c ph la fe) (hph : phDone ph = false) :
    Step T af failAt startLoc c ph (enterRecovery T af c la fe).1 (enterRecovery T af c la fe).2 := by
  unfold enterRecovery
  rw [unrecognizedError_eq]
  cases hex : expected T af c.states with
  | error e => exact .panic c ph e hph
  | ok ex =>
    simp only
    cases hr : T.usesRecovery with
    | false => exact .enterNoRec c ph la fe ex hctx hex hr
    | true => exact .enterRec c ph la fe ex hctx hex hr

theorem step_spec (c : Cfg) (ph : Phase) :
    Step T af failAt startLoc c ph (step T af failAt startLoc c ph).1 (step T af failAt startLoc c ph).2 := by
  cases ph with
  | done r => exact .done c r
  | pull =>
    have := nextToken_spec T af c
    unfold step
    generalize nextToken T af c = x at this ⊢
    obtain ⟨c', nt⟩ := x
    cases nt <;> exact .pull c _ _ this
  | act la idx =>
    unfold step
    cases hs : c.states with
    | nil => exact .panic c _ _ rfl
    | cons top rest =>
      simp only
      cases ha : T.actionAt top idx with
      | none => exact .panic c _ _ rfl
      | some a =>
        simp only
        cases hsh : asShift a with
        | some target =>
          simp only
          have := Step.shift (T := T) (af := af) (failAt := failAt) (startLoc := startLoc)
            c la idx top rest a target hs ha hsh
          rw [hs] at this; exact this
        | none =>
          simp only
          cases hr : asReduce a with
          | some p =>
            simp only
            have hctx : RedCtx T c (.act la idx) p (some la.l) := ⟨rfl, top, rest, a, hs, ha, hsh, hr⟩
            have hsp := reduce_spec T failAt startLoc c p (some la.l)
            generalize reduce T failAt startLoc c p (some la.l) = res at hsp ⊢
            cases res with
            | continue_ c' => exact .redCont c _ p _ c' hctx hsp
            | finished c' r => cases r <;> exact .redFin c _ p _ c' _ hctx hsp
          | none =>
            exact enterRecovery_spec T af failAt startLoc c _ _ _ ⟨rfl, rfl, top, rest, a, hs, ha, hsh, hr⟩ rfl
  | eof =>
    unfold step
    cases hs : c.states with
    | nil => exact .panic c _ _ rfl
    | cons top rest =>
      simp only
      cases ha : T.eofActionAt top with
      | none => exact .panic c _ _ rfl
      | some a =>
        simp only
        cases hr : asReduce a with
        | some p =>
          simp only
          have hctx : RedCtx T c .eof p none := ⟨rfl, top, rest, a, hs, ha, hr⟩
          have hsp := reduce_spec T failAt startLoc c p none
          generalize reduce T failAt startLoc c p none = res at hsp ⊢
          cases res with
          | continue_ c' => exact .redCont c _ p _ c' hctx hsp
          | finished c' r => exact .redFin c _ p _ c' _ hctx hsp
        | none =>
          exact enterRecovery_spec T af failAt startLoc c _ _ _ ⟨rfl, rfl, top, rest, a, hs, ha, hr⟩ rfl
  | recReduce la e fe =>
    unfold step
    cases hs : c.states with
    | nil => exact .panic c _ _ rfl
    | cons top rest =>
      simp only
      cases ha : T.errorActionAt top with
      | none => exact .panic c _ _ rfl
      | some a =>
        simp only
        cases hr : asReduce a with
        | some p =>
          simp only
          have hctx : RedCtx T c (.recReduce la e fe) p (la.map (·.1.l)) := ⟨rfl, top, rest, a, hs, ha, hr⟩
          have hsp := reduce_spec T failAt startLoc c p (la.map (·.1.l))
          generalize reduce T failAt startLoc c p (la.map (·.1.l)) = res at hsp ⊢
          cases res with
          | continue_ c' => exact .redCont c _ p _ c' hctx hsp
          | finished c' r => exact .redFin c _ p _ c' _ hctx hsp
        | none =>
          have := Step.toFind (T := T) (af := af) (failAt := failAt) (startLoc := startLoc)
            c la e fe top rest a hs ha hr
          rw [hs] at this; exact this
  | recFind la e dropped sl fe =>
    simp only [step]
    cases hf : findState T af (la.map (·.2)) sl c.states sl with
    | error tag => exact .panic c _ _ rfl
    | ok o =>
      cases o with
      | some top =>
        simp only
        exact .push c la e dropped sl fe top hf _ _ (pushRecovery_spec T startLoc c la e dropped sl top fe)
      | none =>
        simp only
        cases la with
        | none => exact .giveUp c e dropped sl fe hf
        | some ti =>
          obtain ⟨t, i⟩ := ti
          simp only
          have := nextToken_spec T af c
          generalize nextToken T af c = x at this ⊢
          obtain ⟨c', nt⟩ := x
          cases nt <;> exact .drop c t i e dropped sl fe hf _ _ this

end LalrpopModel.LR.Generic
