import LalrpopModel.Model.Reent
/-! Helper lemmas for C27 (core Lean only). -/
namespace LalrpopModel.Reent

variable {S P : Type}

theorem iter_succ_inner (f : P → P) (n : Nat) (p : P) : iter f (n + 1) p = iter f n (f p) := rfl

theorem iter_succ_outer (f : P → P) (n : Nat) (p : P) : iter f (n + 1) p = f (iter f n p) := by
  induction n generalizing p with
  | zero => rfl
  | succ n ih => rw [iter_succ_inner, ih, ← iter_succ_inner]

theorem iter_add (f : P → P) (m n : Nat) (p : P) : iter f (m + n) p = iter f n (iter f m p) := by
  induction m generalizing p with
  | zero => simp [iter]
  | succ m ih => rw [Nat.add_right_comm, iter_succ_inner, ih, iter_succ_inner]

/-- a fixed point of the step stays where it is -/
theorem iter_fixed (f : P → P) (p : P) (h : f p = p) (n : Nat) : iter f n p = p := by
  induction n with
  | zero => rfl
  | succ n ih => rw [iter_succ_inner, h, ih]

theorem stepRun_shared (pg : Prog S P) (h : ReadOnly pg) (w : World S P) (i : Nat) :
    (w.stepRun pg i).shared = w.shared := by
  unfold World.stepRun
  split
  · rfl
  · exact h _ _

theorem stepRun_runs_none (pg : Prog S P) (w : World S P) (i : Nat) (hi : w.runs[i]? = none) :
    (w.stepRun pg i).runs = w.runs := by
  unfold World.stepRun; rw [hi]

theorem stepRun_runs_some (pg : Prog S P) (w : World S P) (i : Nat) (p : P) (hi : w.runs[i]? = some p) :
    (w.stepRun pg i).runs = w.runs.set i (pg.localStep w.shared p) := by
  unfold World.stepRun; rw [hi]; rfl

theorem sequentialRuns_length (pg : Prog S P) (s : S) (runs : List P) (sched : List Nat) :
    (sequentialRuns pg s runs sched).length = runs.length := by
  simp [sequentialRuns]

theorem sequentialRuns_getElem? (pg : Prog S P) (s : S) (runs : List P) (sched : List Nat) (i : Nat) :
    (sequentialRuns pg s runs sched)[i]? = (runs[i]?).map (iter (pg.localStep s) (sched.count i)) := by
  simp [sequentialRuns, List.getElem?_mapIdx]

/-- the core induction: executing any schedule under `ReadOnly` -/
theorem exec_readOnly (pg : Prog S P) (h : ReadOnly pg) (sched : List Nat) :
    ∀ w : World S P, (exec pg w sched).shared = w.shared ∧
      (exec pg w sched).runs = sequentialRuns pg w.shared w.runs sched := by
  induction sched with
  | nil =>
    intro w
    refine ⟨rfl, ?_⟩
    apply List.ext_getElem?
    intro j
    rw [sequentialRuns_getElem?]
    simp only [exec, List.count_nil, iter]
    cases w.runs[j]? <;> rfl
  | cons i rest ih =>
    intro w
    have hs := stepRun_shared pg h w i
    obtain ⟨ih1, ih2⟩ := ih (w.stepRun pg i)
    refine ⟨by simp only [exec]; rw [ih1, hs], ?_⟩
    simp only [exec]
    rw [ih2, hs]
    apply List.ext_getElem?
    intro j
    rw [sequentialRuns_getElem?, sequentialRuns_getElem?]
    cases hi : w.runs[i]? with
    | none =>
      rw [stepRun_runs_none pg w i hi]
      cases hj : w.runs[j]? with
      | none => rfl
      | some q =>
        have hne : i ≠ j := by
          intro e; subst e; rw [hi] at hj; cases hj
        simp [hne]
    | some p =>
      rw [stepRun_runs_some pg w i p hi]
      by_cases e : i = j
      · subst e
        have hlt : i < w.runs.length := by
          have := List.getElem?_eq_some_iff.mp hi
          exact this.1
        rw [List.getElem?_set_self hlt, hi]
        simp only [Option.map_some, List.count_cons_self]
        rw [iter_succ_inner]
      · rw [List.getElem?_set_ne e]
        cases w.runs[j]? with
        | none => rfl
        | some q => simp [e]

/-! ### write sets -/

theorem applyWrites_nil {L V : Type} [DecidableEq L] (st : L → V) : applyWrites ([] : List (L × V)) st = st := rfl

theorem filter_not_mem_nil {L V : Type} [DecidableEq L] (ws : List (L × V)) :
    ws.filter (fun w => decide (w.1 ∈ ([] : List L))) = [] := by
  induction ws with
  | nil => rfl
  | cons w ws ih => simp

/-- a location outside the write set keeps its value -/
theorem applyWrites_frame {L V : Type} [DecidableEq L] (ws : List (L × V)) (st : L → V) (x : L)
    (hx : ∀ w ∈ ws, w.1 ≠ x) : applyWrites ws st x = st x := by
  induction ws generalizing st with
  | nil => rfl
  | cons w ws ih =>
    obtain ⟨l, v⟩ := w
    simp only [applyWrites]
    rw [ih]
    · have : l ≠ x := hx (l, v) (by simp)
      simp [Ne.symm this]
    · intro w' hw'; exact hx w' (by simp [hw'])

/-! ### the lexer cache -/

section Lexer
variable {α : Type} [DecidableEq α]
open Lex

theorem lookup_mem {β γ : Type} [BEq β] [LawfulBEq β] (l : List (β × γ)) (k : β) (v : γ)
    (h : l.lookup k = some v) : (k, v) ∈ l := by
  induction l with
  | nil => simp [List.lookup] at h
  | cons e l ih =>
    obtain ⟨k', v'⟩ := e
    simp only [List.lookup] at h
    split at h
    · rename_i heq
      have : k = k' := by simpa using heq
      cases h; subst this; simp
    · exact List.mem_cons_of_mem _ (ih h)

/-- a consistent cache answers exactly like the DFA, and stays consistent -/
theorem query_spec (o : Oracle α) (c : Cache α) (hc : c.Consistent o) (p : List α) :
    (c.query o p).1 = (o.matchSet p, o.dead p) ∧ (c.query o p).2.Consistent o := by
  unfold Cache.query
  split
  · rename_i r hr
    exact ⟨hc (p, r) (lookup_mem _ _ _ hr), hc⟩
  · refine ⟨rfl, ?_⟩
    intro e he
    simp only [List.mem_cons] at he
    rcases he with rfl | he
    · rfl
    · exact hc e he

omit [DecidableEq α] in
theorem empty_consistent (o : Oracle α) : (Cache.empty : Cache α).Consistent o := by
  intro e he; simp [Cache.empty] at he

theorem scanC_spec (o : Oracle α) (text : List α) (i : Nat) (best : Option Nat) (c : Cache α)
    (hc : c.Consistent o) :
    (scanC o text i best c).1 = scan o text i best ∧ (scanC o text i best c).2.Consistent o := by
  fun_induction scanC o text i best c with
  | case1 i best c hlt q hm ih =>
    have hq := query_spec o c hc (text.take i)
    have hm' : o.isMatch (text.take i) = true := by
      simp only [Oracle.isMatch]; rw [← show q.1.1 = o.matchSet (text.take i) from by rw [hq.1]]; exact hm
    rw [scan, if_pos hlt, if_pos hm']
    exact ih hq.2
  | case2 i best c hlt q hm q2 hd =>
    have hq := query_spec o c hc (text.take i)
    have hq2 := query_spec o q.2 hq.2 (text.take (i + 1))
    have hm' : ¬ o.isMatch (text.take i) = true := by
      simp only [Oracle.isMatch]; rw [← show q.1.1 = o.matchSet (text.take i) from by rw [hq.1]]; exact hm
    have hd' : o.dead (text.take (i + 1)) = true := by
      rw [← show q2.1.2 = o.dead (text.take (i + 1)) from by rw [hq2.1]]; exact hd
    rw [scan, if_pos hlt, if_neg hm', if_pos hd']
    exact ⟨rfl, hq2.2⟩
  | case3 i best c hlt q hm q2 hd ih =>
    have hq := query_spec o c hc (text.take i)
    have hq2 := query_spec o q.2 hq.2 (text.take (i + 1))
    have hm' : ¬ o.isMatch (text.take i) = true := by
      simp only [Oracle.isMatch]; rw [← show q.1.1 = o.matchSet (text.take i) from by rw [hq.1]]; exact hm
    have hd' : ¬ o.dead (text.take (i + 1)) = true := by
      rw [← show q2.1.2 = o.dead (text.take (i + 1)) from by rw [hq2.1]]; exact hd
    rw [scan, if_pos hlt, if_neg hm', if_neg hd']
    exact ih hq2.2
  | case4 i best c hlt q hm =>
    have hq := query_spec o c hc (text.take i)
    have hm' : o.isMatch (text.take i) = true := by
      simp only [Oracle.isMatch]; rw [← show q.1.1 = o.matchSet (text.take i) from by rw [hq.1]]; exact hm
    rw [scan, if_neg hlt, if_pos hm']
    exact ⟨rfl, hq.2⟩
  | case5 i best c hlt q hm =>
    have hq := query_spec o c hc (text.take i)
    have hm' : ¬ o.isMatch (text.take i) = true := by
      simp only [Oracle.isMatch]; rw [← show q.1.1 = o.matchSet (text.take i) from by rw [hq.1]]; exact hm
    rw [scan, if_neg hlt, if_neg hm']
    exact ⟨rfl, hq.2⟩

theorem nextC_spec (o : Oracle α) (skip : List Bool) (st : St α) (c : Cache α) (hc : c.Consistent o) :
    (nextC o skip st c).1 = (next o skip st).1 ∧ (nextC o skip st c).2.1 = (next o skip st).2 ∧
      (nextC o skip st c).2.2.Consistent o := by
  induction hn : st.text.length using Nat.strongRecOn generalizing st c with
  | _ n ih =>
    rw [nextC, next]
    by_cases he : st.text.isEmpty = true
    · rw [if_pos he, if_pos he]; exact ⟨rfl, rfl, hc⟩
    · rw [if_neg he, if_neg he]
      have h := scanC_spec o st.text 0 none c hc
      cases hs : scanC o st.text 0 none c with
      | mk b c1 =>
        rw [hs] at h
        simp only at h
        obtain ⟨h1, h2⟩ := h
        rw [← h1]
        cases b with
        | none => exact ⟨rfl, rfl, h2⟩
        | some len =>
          have hq := query_spec o c1 h2 (st.text.take len)
          simp only
          rw [show (Cache.query o c1 (List.take len st.text)).1.1 = o.matchSet (List.take len st.text) from by rw [hq.1]]
          by_cases hz : len = 0
          · rw [if_pos hz, if_pos hz]; exact ⟨rfl, rfl, hq.2⟩
          · rw [if_neg hz, if_neg hz]
            cases hk : skip[maxIdx (o.matchSet (List.take len st.text))]? with
            | none => exact ⟨rfl, rfl, hq.2⟩
            | some sk =>
              cases sk with
              | false => exact ⟨rfl, rfl, hq.2⟩
              | true =>
                simp only
                have hlen : (st.advance len).text.length < n := by
                  simp only [St.advance, List.length_drop]
                  have : st.text.length ≠ 0 := by
                    intro h0; apply he; simp [List.eq_nil_of_length_eq_zero h0]
                  omega
                exact ih _ hlen (st.advance len) _ hq.2 rfl

/-- `n` cached `next` calls of one matcher = `n` calls of the cache-free `Lex.next` -/
theorem lex_iter_spec (b : Builder α) (n : Nat) (m : Matcher α) (hc : m.cache.Consistent b.dfa) :
    ((iter (lexProg.localStep b) n m).st, (iter (lexProg.localStep b) n m).out) = lexRef b n m.st m.out ∧
      (iter (lexProg.localStep b) n m).cache.Consistent b.dfa := by
  induction n generalizing m with
  | zero => exact ⟨rfl, hc⟩
  | succ n ih =>
    have h := nextC_spec b.dfa b.skip m.st m.cache hc
    rw [iter_succ_inner]
    have := ih (lexProg.localStep b m) (by simpa [Prog.localStep, lexProg] using h.2.2)
    refine ⟨?_, this.2⟩
    rw [this.1]
    simp only [Prog.localStep, lexProg, lexRef]
    rw [h.1, h.2.1]

end Lexer

/-! ### schedules -/

theorem count_replicate_ne (n i j : Nat) (h : i ≠ j) : (List.replicate n i).count j = 0 := by
  induction n with
  | zero => rfl
  | succ n ih => rw [List.replicate_succ, List.count_cons, ih]; simp [h]

theorem count_seqSchedFrom (ns : List Nat) (k i : Nat) :
    (seqSchedFrom k ns).count i = if k ≤ i then ns.getD (i - k) 0 else 0 := by
  induction ns generalizing k with
  | nil => simp [seqSchedFrom]
  | cons n ns ih =>
    simp only [seqSchedFrom, List.count_append, ih]
    by_cases hk : k = i
    · subst hk
      simp [List.count_replicate_self]
      omega
    · rw [count_replicate_ne _ _ _ hk]
      by_cases hle : k ≤ i
      · have h1 : k + 1 ≤ i := by omega
        have h2 : i - k = (i - (k + 1)) + 1 := by omega
        simp only [hle, h1, ↓reduceIte, Nat.zero_add]
        rw [h2, List.getD_cons_succ]
      · have h1 : ¬ k + 1 ≤ i := by omega
        simp [hle, h1]

theorem count_seqSched (ns : List Nat) (i : Nat) : (seqSched ns).count i = ns.getD i 0 := by
  simp [seqSched, count_seqSchedFrom]

/-! ### the LR instance -/

theorem lrProg_readOnly : ReadOnly lrProg := fun _ _ => rfl

/-- a finished run does not move -/
theorem lr_done_fixed (s : LRShared) (p : LRRun) (r : LR.Outcome) (h : lrOutcome p = some r) :
    lrProg.localStep s p = p := by
  obtain ⟨fa, sl, c, ph⟩ := p
  cases ph <;> simp [lrOutcome] at h
  simp [Prog.localStep, lrProg, LR.step]

end LalrpopModel.Reent
