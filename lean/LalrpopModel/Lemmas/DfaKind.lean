import LalrpopModel.Lemmas.DfaStep
import LalrpopModel.Lemmas.Sort
namespace LalrpopModel.Dfa
open LalrpopModel.Nfa

theorem nodup_loop {α : Type} [BEq α] [LawfulBEq α] : ∀ (as bs : List α), bs.Nodup →
    (List.eraseDupsBy.loop (· == ·) as bs).Nodup
  | [], bs, h => by
    simp only [List.eraseDupsBy.loop]
    rw [List.nodup_iff_pairwise_ne] at h ⊢
    rw [List.pairwise_reverse]
    exact h.imp (fun h => fun e => h e.symm)
  | a :: as, bs, h => by
    simp only [List.eraseDupsBy.loop]
    split
    · exact nodup_loop as bs h
    · rename_i hany
      apply nodup_loop as (a :: bs)
      rw [List.nodup_iff_pairwise_ne, List.pairwise_cons]
      refine ⟨?_, List.nodup_iff_pairwise_ne.mp h⟩
      intro b hb heq
      subst heq
      have : bs.any (fun x => a == x) = true := List.any_eq_true.mpr ⟨a, hb, by simp⟩
      simp_all

theorem nodup_eraseDups' {α : Type} [BEq α] [LawfulBEq α] (l : List α) : l.eraseDups.Nodup := by
  unfold List.eraseDups List.eraseDupsBy
  exact nodup_loop l [] (by simp)

theorem closure_nodup {nfas : List Nfa} {fuel : Nat} {items cl : List Item}
    (h : closure nfas fuel items = some cl) : cl.Nodup := by
  simp only [closure, Option.map_eq_some_iff] at h
  obtain ⟨out, _, rfl⟩ := h
  exact nodup_eraseDups' _

/-! ### the `kind` of a DFA state -/

/-- every NFA has exactly one accepting state, state 0 (true of `from_re` NFAs) -/
def NfasOk (nfas : List Nfa) : Prop :=
  ∀ i, i < nfas.length → ∀ q, kindOf (nfaAt nfas i) q = .accept ↔ q = 0

/-- all items refer to existing NFAs -/
def ItemsValid (nfas : List Nfa) (items : List Item) : Prop := ∀ it, it ∈ items → it.1 < nfas.length

theorem accept_index_lt {nfas : List Nfa} {i q : Nat} (h : kindOf (nfaAt nfas i) q = .accept) :
    i < nfas.length := by
  false_or_by_contra
  rename_i hn
  have : nfas[i]? = none := List.getElem?_eq_none_iff.mpr (by omega)
  simp [nfaAt, this, kindOf] at h

/-- the `(precedence, nfa index)` list `all_accepts` -/
def allAccepts (nfas : List Nfa) (precs : List Nat) (items : List Item) : List (Nat × Nat) :=
  (items.filter (fun it => kindOf (nfaAt nfas it.1) it.2 == .accept)).map (fun it => (precs[it.1]?.getD 0, it.1))

theorem precLe_trans (a b c : Nat × Nat) (h1 : precLe a b = true) (h2 : precLe b c = true) : precLe a c = true := by
  simp only [precLe, Bool.or_eq_true, decide_eq_true_eq, Bool.and_eq_true, beq_iff_eq] at *
  omega
theorem precLe_total (a b : Nat × Nat) : (precLe a b || precLe b a) = true := by
  simp only [precLe, Bool.or_eq_true, decide_eq_true_eq, Bool.and_eq_true, beq_iff_eq]
  omega

theorem mem_allAccepts {nfas : List Nfa} {precs : List Nat} {items : List Item} (hok : NfasOk nfas)
    (hv : ItemsValid nfas items)
    (x : Nat × Nat) : x ∈ allAccepts nfas precs items ↔ (x.2, 0) ∈ items ∧ x.1 = precs[x.2]?.getD 0 := by
  simp only [allAccepts, List.mem_map, List.mem_filter, beq_iff_eq]
  constructor
  · rintro ⟨it, ⟨hit, hk⟩, rfl⟩
    have := (hok it.1 (accept_index_lt hk) it.2).mp hk
    refine ⟨?_, rfl⟩
    have e : it = (it.1, 0) := by rw [← this]
    rw [← e]; exact hit
  · rintro ⟨hit, hx⟩
    exact ⟨(x.2, 0), ⟨hit, (hok x.2 (hv _ hit) 0).mpr rfl⟩, by simp only; rw [← hx]⟩

theorem allAccepts_nodup {nfas : List Nfa} {precs : List Nat} {items : List Item} (hok : NfasOk nfas)
    (hnd : items.Nodup) : (allAccepts nfas precs items).Nodup := by
  rw [List.nodup_iff_pairwise_ne] at hnd ⊢
  simp only [allAccepts]
  rw [List.pairwise_map]
  refine (hnd.filter _).imp_of_mem ?_
  intro a b ha hb hab heq
  simp only [List.mem_filter, beq_iff_eq] at ha hb
  have h1 := (hok a.1 (accept_index_lt ha.2) a.2).mp ha.2
  have h2 := (hok b.1 (accept_index_lt hb.2) b.2).mp hb.2
  simp only [Prod.mk.injEq] at heq
  apply hab
  exact Prod.ext heq.2 (h1.trans h2.symm)

def precOf (precs : List Nat) (i : Nat) : Nat := precs[i]?.getD 0

/-- "the maximal-precedence accepting NFAs of this item set number at least two" -/
def TieIn (precs : List Nat) (items : List Item) : Prop :=
  ∃ i j, i ≠ j ∧ (i, 0) ∈ items ∧ (j, 0) ∈ items ∧ precOf precs i = precOf precs j ∧
    ∀ k, (k, 0) ∈ items → precOf precs k ≤ precOf precs i

theorem sorted_facts {nfas : List Nfa} {precs : List Nat} {items : List Item} (hok : NfasOk nfas)
    (hnd : items.Nodup) {best next : Nat × Nat} {rest : List (Nat × Nat)}
    (hrev : (isort precLe (allAccepts nfas precs items)).reverse = best :: next :: rest) :
    best ∈ allAccepts nfas precs items ∧ next ∈ allAccepts nfas precs items ∧ best ≠ next ∧
    next.1 ≤ best.1 ∧
    (∀ x, x ∈ allAccepts nfas precs items → x.1 ≤ best.1) ∧
    (∀ x, x ∈ allAccepts nfas precs items → x ≠ best → x.1 ≤ next.1) := by
  have hperm := isort_perm precLe (allAccepts nfas precs items)
  have hsorted := isort_pairwise precLe_trans precLe_total (allAccepts nfas precs items)
  have hnd' : (isort precLe (allAccepts nfas precs items)).reverse.Nodup := by
    rw [List.nodup_iff_pairwise_ne, List.pairwise_reverse]
    have := (hperm.nodup_iff).mpr (allAccepts_nodup (precs := precs) hok hnd)
    rw [List.nodup_iff_pairwise_ne] at this
    exact this.imp (fun h e => h e.symm)
  have hs' : List.Pairwise (fun a b => precLe b a = true) (isort precLe (allAccepts nfas precs items)).reverse := by
    rw [List.pairwise_reverse]; exact hsorted
  have hmem : ∀ x, x ∈ allAccepts nfas precs items ↔ x ∈ best :: next :: rest := by
    intro x; rw [← hrev, List.mem_reverse, mem_isort]
  rw [hrev] at hnd' hs'
  rw [List.pairwise_cons] at hs'
  obtain ⟨hb, hs''⟩ := hs'
  rw [List.pairwise_cons] at hs''
  obtain ⟨hn, _⟩ := hs''
  rw [List.nodup_iff_pairwise_ne, List.pairwise_cons] at hnd'
  have hle : ∀ {a b : Nat × Nat}, precLe a b = true → a.1 ≤ b.1 := by
    intro a b h
    simp only [precLe, Bool.or_eq_true, decide_eq_true_eq, Bool.and_eq_true, beq_iff_eq] at h
    omega
  refine ⟨(hmem best).mpr (by simp), (hmem next).mpr (by simp), hnd'.1 next (by simp),
    hle (hb next (by simp)), ?_, ?_⟩
  · intro x hx
    rcases List.mem_cons.mp ((hmem x).mp hx) with rfl | hx'
    · exact Nat.le_refl _
    · exact hle (hb x hx')
  · intro x hx hne
    rcases List.mem_cons.mp ((hmem x).mp hx) with rfl | hx'
    · exact absurd rfl hne
    · rcases List.mem_cons.mp hx' with rfl | hx''
      · exact Nat.le_refl _
      · exact hle (hn x hx'')

theorem tie_iff_accs {nfas : List Nfa} {precs : List Nat} {items : List Item} (hok : NfasOk nfas)
    (hv : ItemsValid nfas items) :
    TieIn precs items ↔ ∃ a b, a ∈ allAccepts nfas precs items ∧ b ∈ allAccepts nfas precs items ∧ a ≠ b ∧
      a.1 = b.1 ∧ ∀ x, x ∈ allAccepts nfas precs items → x.1 ≤ a.1 := by
  constructor
  · rintro ⟨i, j, hij, hi, hj, hp, hmax⟩
    refine ⟨(precOf precs i, i), (precOf precs j, j), (mem_allAccepts hok hv _).mpr ⟨hi, rfl⟩,
      (mem_allAccepts hok hv _).mpr ⟨hj, rfl⟩, ?_, hp, ?_⟩
    · intro h; exact hij (Prod.mk.inj h).2
    · intro x hx
      obtain ⟨hx1, hx2⟩ := (mem_allAccepts hok hv x).mp hx
      rw [hx2]; exact hmax x.2 hx1
  · rintro ⟨a, b, ha, hb, hab, hp, hmax⟩
    obtain ⟨ha1, ha2⟩ := (mem_allAccepts hok hv a).mp ha
    obtain ⟨hb1, hb2⟩ := (mem_allAccepts hok hv b).mp hb
    refine ⟨a.2, b.2, ?_, ha1, hb1, ?_, ?_⟩
    · intro h; apply hab; exact Prod.ext hp h
    · simp only [precOf]; rw [← ha2, ← hb2]; exact hp
    · intro k hk
      have := hmax (precOf precs k, k) ((mem_allAccepts hok hv _).mpr ⟨hk, rfl⟩)
      simp only [precOf] at this ⊢
      rw [← ha2]; exact this

/-- **the equal-precedence accept check is exact**: `kind` computation fails with `Ambiguity`
iff the maximal-precedence accepting NFAs of the item set number at least two -/
theorem stateKind_error_iff {nfas : List Nfa} {precs : List Nat} {items : List Item} (hok : NfasOk nfas)
    (hv : ItemsValid nfas items)
    (hnd : items.Nodup) : (∃ m, stateKind nfas precs items = .error m) ↔ TieIn precs items := by
  rw [tie_iff_accs hok hv]
  have unfold_sk : stateKind nfas precs items =
      if (items.all (fun it => kindOf (nfaAt nfas it.1) it.2 == .reject) || items.isEmpty) = true then .ok .reject
      else match (isort precLe (allAccepts nfas precs items)).reverse with
        | [] => .ok .neither
        | [a] => .ok (.accepts a.2)
        | best :: next :: _ => if best.1 = next.1 then .error (best.2, next.2) else .ok (.accepts best.2) := rfl
  rw [unfold_sk]
  have hmemrev : ∀ x, x ∈ allAccepts nfas precs items ↔
      x ∈ (isort precLe (allAccepts nfas precs items)).reverse := by
    intro x; rw [List.mem_reverse, mem_isort]
  split
  · rename_i hrej
    constructor
    · rintro ⟨m, h⟩; cases h
    · rintro ⟨a, b, ha, _⟩
      exfalso
      obtain ⟨ha1, _⟩ := (mem_allAccepts hok hv a).mp ha
      simp only [Bool.or_eq_true, List.all_eq_true, beq_iff_eq, List.isEmpty_iff] at hrej
      rcases hrej with h | h
      · have := h _ ha1
        rw [(hok a.2 (hv _ ha1) 0).mpr rfl] at this
        cases this
      · rw [h] at ha1; cases ha1
  · split
    · rename_i hnil
      constructor
      · rintro ⟨m, h⟩; cases h
      · rintro ⟨a, b, ha, _⟩
        rw [hmemrev, hnil] at ha; cases ha
    · rename_i x hone
      constructor
      · rintro ⟨m, h⟩; cases h
      · rintro ⟨a, b, ha, hb, hab, _⟩
        rw [hmemrev, hone] at ha hb
        simp only [List.mem_singleton] at ha hb
        exact absurd (ha.trans hb.symm) hab
    · rename_i best next rest hrev
      obtain ⟨hbm, hnm, hbn, hnb, hmax, hsecond⟩ := sorted_facts hok hnd hrev
      split
      · rename_i heq
        constructor
        · intro _
          exact ⟨best, next, hbm, hnm, hbn, heq, hmax⟩
        · intro _; exact ⟨_, rfl⟩
      · rename_i hneq
        constructor
        · rintro ⟨m, h⟩; cases h
        · rintro ⟨a, b, ha, hb, hab, hp, hamax⟩
          exfalso
          apply hneq
          -- one of a, b differs from best
          have h1 : best.1 ≤ a.1 := hamax best hbm
          have h2 : a.1 ≤ best.1 := hmax a ha
          by_cases hae : a = best
          · have hbne : b ≠ best := fun h => hab (hae.trans h.symm)
            have := hsecond b hb hbne
            omega
          · have := hsecond a ha hae
            omega

theorem stateKind_error_pair {nfas : List Nfa} {precs : List Nat} {items : List Item} {m0 m1 : Nat}
    (h : stateKind nfas precs items = .error (m0, m1)) :
    ∃ best next rest, (isort precLe (allAccepts nfas precs items)).reverse = best :: next :: rest ∧
      best.1 = next.1 ∧ m0 = best.2 ∧ m1 = next.2 := by
  have unfold_sk : stateKind nfas precs items =
      if (items.all (fun it => kindOf (nfaAt nfas it.1) it.2 == .reject) || items.isEmpty) = true then .ok .reject
      else match (isort precLe (allAccepts nfas precs items)).reverse with
        | [] => .ok .neither
        | [a] => .ok (.accepts a.2)
        | best :: next :: _ => if best.1 = next.1 then .error (best.2, next.2) else .ok (.accepts best.2) := rfl
  rw [unfold_sk] at h
  split at h
  · cases h
  · split at h
    · cases h
    · cases h
    · rename_i best next rest hrev
      split at h
      · rename_i heq
        simp only [Except.error.injEq, Prod.mk.injEq] at h
        exact ⟨best, next, rest, hrev, heq, h.1.symm, h.2.symm⟩
      · cases h

end LalrpopModel.Dfa
