import LalrpopModel.Model.Dfa
/-! insertion sort: permutation and sortedness -/
namespace LalrpopModel.Dfa

theorem insertBy_perm {α : Type} (le : α → α → Bool) (a : α) : ∀ l : List α, (insertBy le a l).Perm (a :: l)
  | [] => List.Perm.refl _
  | b :: l => by
    simp only [insertBy]
    split
    · exact List.Perm.refl _
    · exact ((insertBy_perm le a l).cons b).trans (List.Perm.swap a b l)

theorem isort_perm {α : Type} (le : α → α → Bool) : ∀ l : List α, (isort le l).Perm l
  | [] => List.Perm.refl _
  | a :: l => (insertBy_perm le a (isort le l)).trans ((isort_perm le l).cons a)

theorem mem_isort {α : Type} {le : α → α → Bool} {a : α} {l : List α} : a ∈ isort le l ↔ a ∈ l :=
  (isort_perm le l).mem_iff

theorem insertBy_pairwise {α : Type} {le : α → α → Bool}
    (htrans : ∀ a b c, le a b = true → le b c = true → le a c = true)
    (htotal : ∀ a b, (le a b || le b a) = true) (a : α) :
    ∀ l : List α, l.Pairwise (fun x y => le x y = true) → (insertBy le a l).Pairwise (fun x y => le x y = true)
  | [], _ => by simp [insertBy]
  | b :: l, h => by
    simp only [insertBy]
    rw [List.pairwise_cons] at h
    split
    · rename_i hab
      rw [List.pairwise_cons]
      refine ⟨?_, List.pairwise_cons.mpr h⟩
      intro x hx
      rcases List.mem_cons.mp hx with rfl | hx
      · exact hab
      · exact htrans _ _ _ hab (h.1 x hx)
    · rename_i hab
      have hba : le b a = true := by
        have := htotal a b
        simp only [Bool.or_eq_true] at this
        rcases this with h' | h'
        · exact absurd h' hab
        · exact h'
      rw [List.pairwise_cons]
      refine ⟨?_, insertBy_pairwise htrans htotal a l h.2⟩
      intro x hx
      rcases List.mem_cons.mp ((insertBy_perm le a l).mem_iff.mp hx) with rfl | hx
      · exact hba
      · exact h.1 x hx

theorem isort_pairwise {α : Type} {le : α → α → Bool}
    (htrans : ∀ a b c, le a b = true → le b c = true → le a c = true)
    (htotal : ∀ a b, (le a b || le b a) = true) :
    ∀ l : List α, (isort le l).Pairwise (fun x y => le x y = true)
  | [] => List.Pairwise.nil
  | a :: l => insertBy_pairwise htrans htotal a _ (isort_pairwise htrans htotal l)

end LalrpopModel.Dfa
