import LalrpopModel.Model.Tok
/-! Basic lemmas about the scanning primitives of `Model/Tok.lean`. -/
namespace LalrpopModel.Tok

@[simp] theorem utf8Len_nil : utf8Len [] = 0 := rfl
@[simp] theorem utf8Len_cons (c : Char) (cs : List Char) : utf8Len (c :: cs) = c.utf8Size + utf8Len cs := rfl

theorem utf8Len_append (a b : List Char) : utf8Len (a ++ b) = utf8Len a + utf8Len b := by
  induction a with
  | nil => simp
  | cons c cs ih => simp [ih, Nat.add_assoc]

theorem utf8Size_pos (c : Char) : 0 < c.utf8Size := Char.utf8Size_pos c

/-- every character takes at least one byte -/
theorem length_le_utf8Len (a : List Char) : a.length ≤ utf8Len a := by
  induction a with
  | nil => simp
  | cons c cs ih => have := utf8Size_pos c; simp; omega

/-- `take_until` stops at the first character satisfying the predicate -/
theorem takeUntil_stop (p : Char → Bool) (pre : List Char) (c : Char) (rest : List Char) (pos : Nat)
    (hpre : ∀ x ∈ pre, p x = false) (hc : p c = true) :
    takeUntil p pos (pre ++ c :: rest) = (true, pre, ⟨pos + utf8Len pre, c :: rest⟩) := by
  induction pre generalizing pos with
  | nil => simp [takeUntil, hc]
  | cons x xs ih =>
    have hx : p x = false := hpre x (by simp)
    have := ih (pos + x.utf8Size) (fun y hy => hpre y (by simp [hy]))
    simp [takeUntil, hx, this, Nat.add_assoc]

/-- …or runs to the end of the input -/
theorem takeUntil_eof (p : Char → Bool) (pre : List Char) (pos : Nat)
    (hpre : ∀ x ∈ pre, p x = false) :
    takeUntil p pos pre = (false, pre, ⟨pos + utf8Len pre, []⟩) := by
  induction pre generalizing pos with
  | nil => simp [takeUntil]
  | cons x xs ih =>
    have hx : p x = false := hpre x (by simp)
    have := ih (pos + x.utf8Size) (fun y hy => hpre y (by simp [hy]))
    simp [takeUntil, hx, this, Nat.add_assoc]

/-- the state of an `FnMut` closure after it has seen `pre` without stopping -/
def runS {σ : Type} (f : σ → Char → σ × Bool) : σ → List Char → σ
  | s, [] => s
  | s, c :: cs => runS f (f s c).1 cs

/-- the closure does not stop on any character of `pre` -/
def noStop {σ : Type} (f : σ → Char → σ × Bool) : σ → List Char → Prop
  | _, [] => True
  | s, c :: cs => (f s c).2 = false ∧ noStop f (f s c).1 cs

theorem takeUntilS_stop {σ : Type} (f : σ → Char → σ × Bool) (s : σ) (pre : List Char) (c : Char)
    (rest : List Char) (pos : Nat) (hpre : noStop f s pre) (hc : (f (runS f s pre) c).2 = true) :
    takeUntilS f s pos (pre ++ c :: rest) = (true, pre, ⟨pos + utf8Len pre, c :: rest⟩) := by
  induction pre generalizing pos s with
  | nil => simp [runS] at hc; simp [takeUntilS, hc]
  | cons x xs ih =>
    obtain ⟨hx, hxs⟩ := hpre
    have := ih (f s x).1 (pos + x.utf8Size) hxs (by simpa [runS] using hc)
    simp [takeUntilS, hx, this, Nat.add_assoc]

theorem noStop_append {σ : Type} (f : σ → Char → σ × Bool) (s : σ) (a b : List Char) :
    noStop f s (a ++ b) ↔ noStop f s a ∧ noStop f (runS f s a) b := by
  induction a generalizing s with
  | nil => simp [noStop, runS]
  | cons x xs ih => simp [noStop, runS, ih, and_assoc]

theorem runS_append {σ : Type} (f : σ → Char → σ × Bool) (s : σ) (a b : List Char) :
    runS f s (a ++ b) = runS f (runS f s a) b := by
  induction a generalizing s with
  | nil => simp [runS]
  | cons x xs ih => simp [runS, ih]

@[simp] theorem between_append (p q : Nat) (a b : List Char) : between ⟨p, a ++ b⟩ ⟨q, b⟩ = a := by
  simp [between]

/-! UTF-8 sizes of the ASCII characters the tokenizer dispatches on (simp lemmas) -/
@[simp] theorem usz_1 : '&'.utf8Size = 1 := by decide
@[simp] theorem usz_2 : '!'.utf8Size = 1 := by decide
@[simp] theorem usz_3 : ':'.utf8Size = 1 := by decide
@[simp] theorem usz_4 : ','.utf8Size = 1 := by decide
@[simp] theorem usz_5 : '.'.utf8Size = 1 := by decide
@[simp] theorem usz_6 : '='.utf8Size = 1 := by decide
@[simp] theorem usz_7 : '#'.utf8Size = 1 := by decide
@[simp] theorem usz_8 : '>'.utf8Size = 1 := by decide
@[simp] theorem usz_9 : '{'.utf8Size = 1 := by decide
@[simp] theorem usz_10 : '['.utf8Size = 1 := by decide
@[simp] theorem usz_11 : '('.utf8Size = 1 := by decide
@[simp] theorem usz_12 : '<'.utf8Size = 1 := by decide
@[simp] theorem usz_13 : '@'.utf8Size = 1 := by decide
@[simp] theorem usz_14 : '+'.utf8Size = 1 := by decide
@[simp] theorem usz_15 : '?'.utf8Size = 1 := by decide
@[simp] theorem usz_16 : '}'.utf8Size = 1 := by decide
@[simp] theorem usz_17 : ']'.utf8Size = 1 := by decide
@[simp] theorem usz_18 : ')'.utf8Size = 1 := by decide
@[simp] theorem usz_19 : ';'.utf8Size = 1 := by decide
@[simp] theorem usz_20 : '*'.utf8Size = 1 := by decide
@[simp] theorem usz_21 : '~'.utf8Size = 1 := by decide
@[simp] theorem usz_22 : '`'.utf8Size = 1 := by decide
@[simp] theorem usz_23 : '"'.utf8Size = 1 := by decide
@[simp] theorem usz_24 : '/'.utf8Size = 1 := by decide
@[simp] theorem usz_25 : '-'.utf8Size = 1 := by decide
@[simp] theorem usz_26 : 'r'.utf8Size = 1 := by decide
@[simp] theorem usz_27 : 'L'.utf8Size = 1 := by decide
@[simp] theorem usz_28 : 'R'.utf8Size = 1 := by decide
@[simp] theorem usz_29 : '_'.utf8Size = 1 := by decide
@[simp] theorem usz_30 : 'u'.utf8Size = 1 := by decide
@[simp] theorem usz_31 : 's'.utf8Size = 1 := by decide
@[simp] theorem usz_32 : 'e'.utf8Size = 1 := by decide
@[simp] theorem usz_33 : '\''.utf8Size = 1 := by decide
@[simp] theorem usz_34 : '\\'.utf8Size = 1 := by decide
@[simp] theorem usz_35 : '\n'.utf8Size = 1 := by decide

end LalrpopModel.Tok
