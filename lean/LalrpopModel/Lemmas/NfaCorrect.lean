import LalrpopModel.Lemmas.NfaInduct
namespace LalrpopModel.Nfa
open LalrpopModel.Re

/-! ### the complete NFA of `from_re` -/

theorem initNfa_length : initNfa.length = 3 := rfl

structure FromReFacts (N : Nfa) (s0 : Nat) : Prop where
  s_accept : N[0]? = some { kind := .accept, other := [REJECT] }
  s_reject : N[1]? = some { kind := .reject, other := [REJECT] }
  s_start : N[2]? = some { kind := .neither, noop := [s0] }

theorem rejDead_of {N : Nfa} (h : N[1]? = some { kind := .reject, other := [REJECT] }) : RejDead N REJECT := by
  intro k
  induction k with
  | zero =>
    intro w hr
    cases hr with
    | acc k s hs => rw [kindOf_of h] at hs; cases hs
  | succ k ih =>
    intro w hr
    cases hr with
    | acc k s hs => rw [kindOf_of h] at hs; cases hs
    | eps k s u w hu hr => rw [noopOf_of h] at hu; cases hu
    | chr k s u c w hu hr =>
      rw [stepChar_none h c (by simp)] at hu
      simp only [List.head?_cons, Option.some.injEq] at hu
      subst hu
      exact ih w hr

theorem acc_accept_iff {N : Nfa} (h0 : N[0]? = some { kind := .accept, other := [REJECT] })
    (h1 : N[1]? = some { kind := .reject, other := [REJECT] }) (k : Nat) (w : List Nat) :
    ReachN N k ACCEPT w → w = [] := by
  intro hr
  cases hr with
  | acc k s hs => rfl
  | eps k s u w hu hr => rw [noopOf_of h0] at hu; cases hu
  | chr k s u c w hu hr =>
    rw [stepChar_none h0 c (by simp)] at hu
    simp only [List.head?_cons, Option.some.injEq] at hu
    subst hu
    exact absurd hr (rejDead_of h1 _ _)

theorem fromReWith_ok {m : LitMode} {e : Hir} {N : Nfa} (h : fromReWith m e = .ok N) :
    ∃ s0 n1, expr m e ACCEPT REJECT initNfa = .ok (s0, n1) ∧ N = pushNoop n1 START s0 := by
  simp only [fromReWith, bind, Except.bind] at h
  cases h1 : expr m e ACCEPT REJECT initNfa with
  | error err => rw [h1] at h; cases h
  | ok r =>
    obtain ⟨s0, n1⟩ := r
    rw [h1] at h
    simp only [pure, Except.pure, Except.ok.injEq] at h
    exact ⟨s0, n1, rfl, h.symm⟩

theorem fromRe_facts {m : LitMode} {e : Hir} (hwf : e.WF) {s0 : Nat} {n1 : Nfa}
    (h1 : expr m e ACCEPT REJECT initNfa = .ok (s0, n1)) :
    FromReFacts (pushNoop n1 START s0) s0 ∧ AgreeOn n1 (pushNoop n1 START s0) initNfa.length n1.length ∧
      Frame initNfa n1 := by
  obtain ⟨fr, _⟩ := expr_impl m REJECT e hwf ACCEPT initNfa s0 n1 h1
  refine ⟨⟨?_, ?_, ?_⟩, ?_, fr⟩
  · rw [getElem?_pushNoop, if_neg (by decide), fr.old 0 (by decide)]; rfl
  · rw [getElem?_pushNoop, if_neg (by decide), fr.old 1 (by decide)]; rfl
  · rw [getElem?_pushNoop, if_pos rfl, fr.old 2 (by decide)]; rfl
  · intro q hq _
    rw [initNfa_length] at hq
    rw [getElem?_pushNoop, if_neg (by simp only [START]; omega)]

/-- **nfa_correct** (any literal mode): the NFA built by `from_re` accepts exactly the language
of the HIR -/
theorem nfa_correct_with (m : LitMode) (e : Hir) (hwf : e.WF) (N : Nfa) (h : fromReWith m e = .ok N)
    (w : List Nat) : accepts N w ↔ denote m e w := by
  obtain ⟨s0, n1, h1, rfl⟩ := fromReWith_ok h
  obtain ⟨facts, hag, _⟩ := fromRe_facts hwf h1
  have hrej := rejDead_of facts.s_reject
  have S := (expr_impl m REJECT e hwf ACCEPT initNfa s0 n1 h1).2 _ hag hrej
  constructor
  · rintro ⟨k, hr⟩
    obtain ⟨k', u, rfl, hu, hr'⟩ := reach_noop_state facts.s_start (by simp) rfl rfl hr
    simp only [List.mem_cons, List.mem_nil_iff, or_false] at hu
    subst hu
    obtain ⟨w1, w2, k2, _, rfl, hw1, hr2⟩ := S.sound k' w hr'
    have := acc_accept_iff facts.s_accept facts.s_reject k2 w2 hr2
    subst this
    simpa using hw1
  · intro hw
    have hacc : Acc (pushNoop n1 START s0) ACCEPT [] := ⟨0, .acc 0 _ (by rw [kindOf_of facts.s_accept])⟩
    have := S.complete w [] hw hacc
    rw [List.append_nil] at this
    exact Acc.eps (by rw [noopOf_of facts.s_start]; simp) this

/-- only state 0 of a `from_re` NFA is accepting -/
theorem fromRe_accepting_iff {m : LitMode} {e : Hir} (hwf : e.WF) {N : Nfa}
    (h : fromReWith m e = .ok N) (q : Nat) : kindOf N q = .accept ↔ q = 0 := by
  obtain ⟨s0, n1, h1, rfl⟩ := fromReWith_ok h
  obtain ⟨facts, hag, fr⟩ := fromRe_facts hwf h1
  constructor
  · intro hk
    by_cases hq : q < 3
    · have : q = 0 ∨ q = 1 ∨ q = 2 := by omega
      rcases this with rfl | rfl | rfl
      · rfl
      · rw [kindOf_of facts.s_reject] at hk; cases hk
      · rw [kindOf_of facts.s_start] at hk; cases hk
    · by_cases hq2 : q < n1.length
      · have := fr.kinds q (by rw [initNfa_length]; omega) hq2
        simp only [kindOf] at this hk
        rw [hag q (by rw [initNfa_length]; omega) hq2, this] at hk
        cases hk
      · have : (pushNoop n1 START s0)[q]? = none := by
          rw [List.getElem?_eq_none_iff, length_pushNoop]; omega
        simp [kindOf, this] at hk
  · rintro rfl
    rw [kindOf_of facts.s_accept]

/-! ### which HIRs are rejected -/

mutual
/-- the HIR contains (in a position `Nfa::expr` visits) look-around, a lazy repetition, a named
group, or — in `chars` mode — a literal that is not UTF-8 -/
def unsupported (m : LitMode) : Hir → Bool
  | .empty => false
  | .lit bs => (litSymbols m bs).isNone
  | .cls _ => false
  | .look => true
  | .cap named sub => named || unsupported m sub
  | .rep min max greedy sub => !greedy || (!(min == 0 && max == some 0) && unsupported m sub)
  | .cat es => unsupporteds m es
  | .alt es => unsupporteds m es
def unsupporteds (m : LitMode) : List Hir → Bool
  | [] => false
  | e :: es => unsupported m e || unsupporteds m es
end

def Total {α : Type} (f : Nat → Nfa → Except Err α) : Prop := ∀ acc n, ∃ r, f acc n = .ok r
def Failing {α : Type} (f : Nat → Nfa → Except Err α) : Prop := ∀ acc n, ∃ err, f acc n = .error err

theorem optionalWith_total {f : Nat → Nfa → Build} (h : Total f) : Total (optionalWith f) := by
  intro acc n
  obtain ⟨⟨s, n1⟩, hr⟩ := h acc n
  simp [optionalWith, bind, Except.bind, hr, pure, Except.pure]
theorem optionalWith_failing {f : Nat → Nfa → Build} (h : Failing f) : Failing (optionalWith f) := by
  intro acc n
  obtain ⟨err, hr⟩ := h acc n
  simp [optionalWith, bind, Except.bind, hr]
theorem starWith_total {f : Nat → Nfa → Build} (h : Total f) : Total (starWith f) := by
  intro acc n
  obtain ⟨⟨s, n1⟩, hr⟩ := h (newState n).1 (newState n).2
  simp [starWith, bind, Except.bind, hr, pure, Except.pure]
theorem starWith_failing {f : Nat → Nfa → Build} (h : Failing f) : Failing (starWith f) := by
  intro acc n
  obtain ⟨err, hr⟩ := h (newState n).1 (newState n).2
  simp [starWith, bind, Except.bind, hr]
theorem plusWith_total {f : Nat → Nfa → Build} (h : Total f) : Total (plusWith f) := by
  intro acc n
  obtain ⟨⟨s, n1⟩, hr⟩ := h (newState n).1 (newState n).2
  simp [plusWith, bind, Except.bind, hr, pure, Except.pure]
theorem plusWith_failing {f : Nat → Nfa → Build} (h : Failing f) : Failing (plusWith f) := by
  intro acc n
  obtain ⟨err, hr⟩ := h (newState n).1 (newState n).2
  simp [plusWith, bind, Except.bind, hr]
theorem repeatWith_total {f : Nat → Nfa → Build} (h : Total f) (k : Nat) : Total (repeatWith f k) := by
  induction k with
  | zero => intro acc n; exact ⟨(acc, n), rfl⟩
  | succ k ih =>
    intro acc n
    obtain ⟨⟨s, n1⟩, hr⟩ := h acc n
    obtain ⟨r, hr2⟩ := ih s n1
    exact ⟨r, by simp [repeatWith, bind, Except.bind, hr, hr2]⟩
theorem repeatWith_failing {f : Nat → Nfa → Build} (h : Failing f) (k : Nat) (hk : 0 < k) :
    Failing (repeatWith f k) := by
  obtain ⟨j, rfl⟩ : ∃ j, k = j + 1 := ⟨k - 1, by omega⟩
  intro acc n
  obtain ⟨err, hr⟩ := h acc n
  exact ⟨err, by simp [repeatWith, bind, Except.bind, hr]⟩
theorem repeatWith_zero_total (f : Nat → Nfa → Build) : Total (repeatWith f 0) :=
  fun acc n => ⟨(acc, n), rfl⟩

theorem seq_total {f g : Nat → Nfa → Build} (hg : Total g) (hf : Total f) :
    Total (fun acc n => do let (s, n) ← g acc n; f s n) := by
  intro acc n
  obtain ⟨⟨s, n1⟩, hr⟩ := hg acc n
  obtain ⟨r, hr2⟩ := hf s n1
  exact ⟨r, by simp [bind, Except.bind, hr, hr2]⟩
theorem seq_failing_left {f g : Nat → Nfa → Build} (hg : Failing g) :
    Failing (fun acc n => do let (s, n) ← g acc n; f s n) := by
  intro acc n
  obtain ⟨err, hr⟩ := hg acc n
  exact ⟨err, by simp [bind, Except.bind, hr]⟩
theorem seq_failing_right {f g : Nat → Nfa → Build} (hg : Total g) (hf : Failing f) :
    Failing (fun acc n => do let (s, n) ← g acc n; f s n) := by
  intro acc n
  obtain ⟨⟨s, n1⟩, hr⟩ := hg acc n
  obtain ⟨err, hr2⟩ := hf s n1
  exact ⟨err, by simp [bind, Except.bind, hr, hr2]⟩

theorem repWith_total {f : Nat → Nfa → Build} (h : Total f) (min : Nat) (max : Option Nat) :
    Total (repWith f min max) := by
  unfold repWith
  split
  · exact optionalWith_total h
  · exact starWith_total h
  · exact plusWith_total h
  · split
    · exact repeatWith_total h _
    · exact seq_total (repeatWith_total (optionalWith_total h) _) (repeatWith_total h _)
  · exact seq_total (starWith_total h) (repeatWith_total h _)

theorem repWith_failing {f : Nat → Nfa → Build} (h : Failing f) (min : Nat) (max : Option Nat)
    (hne : ¬ (min = 0 ∧ max = some 0)) : Failing (repWith f min max) := by
  unfold repWith
  split
  · exact optionalWith_failing h
  · exact starWith_failing h
  · exact plusWith_failing h
  · rename_i _ _ mx _
    split
    · rename_i heq
      subst heq
      exact repeatWith_failing h _ (by
        cases hm : min with
        | zero => exact absurd ⟨hm, by rw [hm]⟩ hne
        | succ j => omega)
    · rename_i hneq
      by_cases hlt : min < mx
      · exact seq_failing_left (repeatWith_failing (optionalWith_failing h) _ (by omega))
      · have : mx - min = 0 := by omega
        rw [this]
        exact seq_failing_right (repeatWith_zero_total _) (repeatWith_failing h _ (by omega))
  · exact seq_failing_left (starWith_failing h)

theorem repWith_zero_total (f : Nat → Nfa → Build) : Total (repWith f 0 (some 0)) := by
  intro acc n; exact ⟨(acc, n), rfl⟩

mutual
theorem expr_fail_iff (m : LitMode) (rej : Nat) : ∀ (e : Hir),
    (unsupported m e = true → Failing (fun acc n => expr m e acc rej n)) ∧
    (unsupported m e = false → Total (fun acc n => expr m e acc rej n))
  | .empty => ⟨by simp [unsupported], fun _ acc n => ⟨(acc, n), rfl⟩⟩
  | .lit bs => by
    constructor
    · intro h acc n
      simp only [unsupported, Option.isNone_iff_eq_none] at h
      exact ⟨.byteRegex, by simp [expr, h, throw, throwThe, MonadExceptOf.throw]⟩
    · intro h acc n
      simp only [unsupported] at h
      cases hl : litSymbols m bs with
      | none => simp [hl] at h
      | some cs => simp [expr, hl, pure, Except.pure]
  | .cls rs => ⟨by simp [unsupported], fun _ acc n => ⟨_, rfl⟩⟩
  | .look => ⟨fun _ acc n => ⟨.lookAround, rfl⟩, by simp [unsupported]⟩
  | .cap named sub => by
    have ih := expr_fail_iff m rej sub
    cases named with
    | true =>
      exact ⟨fun _ acc n => ⟨.namedCaptures, by simp [expr, throw, throwThe, MonadExceptOf.throw]⟩,
        by simp [unsupported]⟩
    | false =>
      constructor
      · intro h acc n
        have := ih.1 (by simpa [unsupported] using h) acc n
        simpa [expr] using this
      · intro h acc n
        have := ih.2 (by simpa [unsupported] using h) acc n
        simpa [expr] using this
  | .rep min max greedy sub => by
    have ih := expr_fail_iff m rej sub
    cases greedy with
    | false =>
      exact ⟨fun _ acc n => ⟨.nonGreedy, by simp [expr, throw, throwThe, MonadExceptOf.throw]⟩,
        by simp [unsupported]⟩
    | true =>
      constructor
      · intro h acc n
        simp only [unsupported, Bool.not_true, Bool.false_or, Bool.and_eq_true, Bool.not_eq_true',
          Bool.and_eq_false_iff, beq_eq_false_iff_ne, ne_eq] at h
        have hne : ¬ (min = 0 ∧ max = some 0) := by
          rintro ⟨h1, h2⟩
          rcases h.1 with h' | h'
          · exact h' h1
          · exact h' h2
        have := repWith_failing (ih.1 h.2) min max hne acc n
        simpa [expr] using this
      · intro h acc n
        simp only [unsupported, Bool.not_true, Bool.false_or, Bool.and_eq_false_iff,
          Bool.not_eq_false', Bool.and_eq_true, beq_iff_eq] at h
        rcases h with ⟨h1, h2⟩ | h
        · subst h1; subst h2
          have := repWith_zero_total (fun a n => expr m sub a rej n) acc n
          simpa [expr] using this
        · have := repWith_total (ih.2 h) min max acc n
          simpa [expr] using this
  | .cat es => by
    have ih := exprCat_fail_iff m rej es
    exact ⟨fun h => by simpa [expr] using ih.1 (by simpa [unsupported] using h),
           fun h => by simpa [expr] using ih.2 (by simpa [unsupported] using h)⟩
  | .alt es => by
    have ih := exprAlts_fail_iff m rej es
    constructor
    · intro h acc n
      obtain ⟨err, he⟩ := ih.1 (by simpa [unsupported] using h) acc (newState n).2
      exact ⟨err, by simp [expr, bind, Except.bind, he]⟩
    · intro h acc n
      obtain ⟨⟨ts, n2⟩, he⟩ := ih.2 (by simpa [unsupported] using h) acc (newState n).2
      simp only at he
      simp [expr, bind, Except.bind, he, pure, Except.pure]
theorem exprCat_fail_iff (m : LitMode) (rej : Nat) : ∀ (es : List Hir),
    (unsupporteds m es = true → Failing (fun acc n => exprCat m es acc rej n)) ∧
    (unsupporteds m es = false → Total (fun acc n => exprCat m es acc rej n))
  | [] => ⟨by simp [unsupporteds], fun _ acc n => ⟨(acc, n), rfl⟩⟩
  | e :: es => by
    have ih1 := expr_fail_iff m rej e
    have ih2 := exprCat_fail_iff m rej es
    constructor
    · intro h
      simp only [unsupporteds, Bool.or_eq_true] at h
      show Failing (fun acc n => do let (s, n) ← exprCat m es acc rej n; expr m e s rej n)
      cases h2 : unsupporteds m es with
      | true => exact seq_failing_left (f := fun s n => expr m e s rej n) (ih2.1 h2)
      | false =>
        have h1 : unsupported m e = true := by simpa [h2] using h
        exact seq_failing_right (f := fun s n => expr m e s rej n) (ih2.2 h2) (ih1.1 h1)
    · intro h
      simp only [unsupporteds, Bool.or_eq_false_iff] at h
      show Total (fun acc n => do let (s, n) ← exprCat m es acc rej n; expr m e s rej n)
      exact seq_total (f := fun s n => expr m e s rej n) (ih2.2 h.2) (ih1.2 h.1)
theorem exprAlts_fail_iff (m : LitMode) (rej : Nat) : ∀ (es : List Hir),
    (unsupporteds m es = true → Failing (fun acc n => exprAlts m es acc rej n)) ∧
    (unsupporteds m es = false → Total (fun acc n => exprAlts m es acc rej n))
  | [] => ⟨by simp [unsupporteds], fun _ acc n => ⟨([], n), rfl⟩⟩
  | e :: es => by
    have ih1 := expr_fail_iff m rej e
    have ih2 := exprAlts_fail_iff m rej es
    constructor
    · intro h acc n
      simp only [unsupporteds, Bool.or_eq_true] at h
      cases h1 : unsupported m e with
      | true =>
        obtain ⟨err, he⟩ := ih1.1 h1 acc n
        exact ⟨err, by simp [exprAlts, bind, Except.bind, he]⟩
      | false =>
        have h2 : unsupporteds m es = true := by simpa [h1] using h
        obtain ⟨⟨t, n1⟩, he⟩ := ih1.2 h1 acc n
        obtain ⟨err, he2⟩ := ih2.1 h2 acc n1
        exact ⟨err, by simp [exprAlts, bind, Except.bind, he, he2]⟩
    · intro h acc n
      simp only [unsupporteds, Bool.or_eq_false_iff] at h
      obtain ⟨⟨t, n1⟩, he⟩ := ih1.2 h.1 acc n
      obtain ⟨⟨ts, n2⟩, he2⟩ := ih2.2 h.2 acc n1
      simp only at he he2
      simp [exprAlts, bind, Except.bind, he, he2, pure, Except.pure]
end

/-- **unsupported_iff**: `from_re` fails exactly on the HIRs containing an unsupported feature -/
theorem unsupported_iff_with (m : LitMode) (e : Hir) :
    (∃ err, fromReWith m e = .error err) ↔ unsupported m e = true := by
  have h := expr_fail_iff m REJECT e
  constructor
  · rintro ⟨err, he⟩
    cases hu : unsupported m e with
    | true => rfl
    | false =>
      obtain ⟨⟨s, n⟩, hr⟩ := h.2 hu ACCEPT initNfa
      simp [fromReWith, bind, Except.bind, hr, pure, Except.pure] at he
  · intro hu
    obtain ⟨err, hr⟩ := h.1 hu ACCEPT initNfa
    exact ⟨err, by simp [fromReWith, bind, Except.bind, hr]⟩

end LalrpopModel.Nfa
