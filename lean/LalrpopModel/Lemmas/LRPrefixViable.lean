import LalrpopModel.Lemmas.LRPrefixNeg
import LalrpopModel.Lemmas.LRSound
/-!
Valid-prefix properties (C04/C05), part 3: the viable-prefix invariant (DESIGN.md Appendix B lifted
to the exported automaton and to derivation trees).

* `SF G S α`: `α` is a sentential form of `S`.
* `InClosure G K i`: item `i` is in the LR(0) closure of the kernel `K`; `closure0` computes a subset
  of it, so `checkCores` gives `Just G A`: the cores of every state are justified along every
  transition.
* `ValidFor G S R γ (p,d)`: `γ = γ' ++ rhs_p[0..d)` with `γ' ++ rhs_p ++ δ` a sentential form whose
  tail `δ` is productive. Every core item of the top state of a `Path` is valid for the path's
  symbols (`path_valid`), so the symbols are a viable prefix with a productive completion
  (`Viable`, `path_viable`); given derivation trees for the symbols, their yields are a prefix of a
  sentence (`viable_kindsPrefix`).
* `ProdOK G A R`: what V5 (`checkProductive`) establishes.
-/
namespace LalrpopModel.LR

/-! ### lists of trees -/

/-- `l` is a list of derivation trees (no error nodes) whose roots are `Xs` -/
inductive TL (G : Grammar) : List Tree → List Sym → Prop
  | nil : TL G [] []
  | cons {t : Tree} {ts : List Tree} {X : Sym} {Xs : List Sym} :
      Tree.WF G none t → t.root G none = some X → TL G ts Xs → TL G (t :: ts) (X :: Xs)

/-- the tokens under a list of trees -/
def yieldL : List Tree → List Tok
  | [] => []
  | t :: ts => t.yield ++ yieldL ts

theorem yieldL_append (a b : List Tree) : yieldL (a ++ b) = yieldL a ++ yieldL b := by
  induction a with
  | nil => rfl
  | cons t a ih => simp [yieldL, ih]

theorem yield_ofList (l : List Tree) : (Forest.ofList l).yield = yieldL l := by
  induction l with
  | nil => rfl
  | cons t l ih => simp [Forest.ofList, Forest.yield, yieldL, ih]

variable {G : Grammar}

theorem TL.append {l₁ l₂ : List Tree} {α β : List Sym} (h₁ : TL G l₁ α) (h₂ : TL G l₂ β) :
    TL G (l₁ ++ l₂) (α ++ β) := by
  induction h₁ with
  | nil => simpa using h₂
  | cons hw hr _ ih => exact .cons hw hr ih

theorem TL.split : ∀ {l : List Tree} (α : List Sym) {β : List Sym}, TL G l (α ++ β) →
    ∃ l₁ l₂, l = l₁ ++ l₂ ∧ TL G l₁ α ∧ TL G l₂ β
  | l, [], β, h => ⟨[], l, rfl, .nil, by simpa using h⟩
  | _, X :: α, β, h => by
    cases h with
    | cons hw hr ht =>
      obtain ⟨l₁, l₂, rfl, h₁, h₂⟩ := TL.split α ht
      exact ⟨_ :: l₁, l₂, rfl, .cons hw hr h₁, h₂⟩

theorem TL.forest {l : List Tree} {Xs : List Sym} (h : TL G l Xs) : Forest.WF G none (Forest.ofList l) Xs := by
  induction h with
  | nil => exact .nil
  | cons hw hr _ ih => exact .cons _ _ _ _ hw hr ih

theorem TL.allK {l : List Tree} {Xs : List Sym} (h : TL G l Xs) : ∀ a ∈ yieldL l, ∃ k, a.kind = some k := by
  induction h with
  | nil => simp [yieldL]
  | cons hw _ _ ih =>
    intro a ha
    simp only [yieldL, List.mem_append] at ha
    rcases ha with ha | ha
    · exact Tree.wf_yield_kind _ hw a ha
    · exact ih a ha

/-- the trees on a symbol stack (top first), bottom first -/
theorem TL.of_treesOK {syms : List SymTriple} {Xs : List Sym} (h : TreesOK G none syms Xs) :
    TL G (syms.reverse.map (·.2.1)) Xs.reverse ∧ yieldL (syms.reverse.map (·.2.1)) = stackYield syms := by
  induction h with
  | nil => exact ⟨.nil, rfl⟩
  | cons hw hr _ ih =>
    obtain ⟨ih1, ih2⟩ := ih
    simp only [List.reverse_cons, List.map_append, List.map_cons, List.map_nil]
    refine ⟨ih1.append (.cons hw hr .nil), ?_⟩
    rw [yieldL_append, ih2]
    simp [yieldL, stackYield]

/-! ### sentential forms -/

/-- sentential forms of `S` -/
inductive SF (G : Grammar) (S : NT) : List Sym → Prop
  | start : SF G S [Sym.n S]
  | step (α β : List Sym) (p : Nat) (pr : Production) :
      SF G S (α ++ Sym.n pr.lhs :: β) → G.prods[p]? = some pr → SF G S (α ++ pr.rhs ++ β)

/-- derivation trees for the symbols of a sentential form assemble into a derivation tree of `S`
    with the same tokens -/
theorem SF.tree {S : NT} {α : List Sym} (h : SF G S α) :
    ∀ l, TL G l α → ∃ t, Tree.WF G none t ∧ t.root G none = some (Sym.n S) ∧ t.yield = yieldL l := by
  induction h with
  | start =>
    intro l hl
    cases hl with
    | cons hw hr ht =>
      cases ht
      exact ⟨_, hw, hr, by simp [yieldL]⟩
  | step α β p pr _ hp ih =>
    intro l hl
    rw [List.append_assoc] at hl
    obtain ⟨l₁, l₂₃, rfl, h₁, h₂₃⟩ := TL.split α hl
    obtain ⟨l₂, l₃, rfl, h₂, h₃⟩ := TL.split pr.rhs h₂₃
    have hnode : Tree.WF G none (.node p 0 0 (Forest.ofList l₂)) := .node p 0 0 pr _ hp h₂.forest
    have hroot : (Tree.node p 0 0 (Forest.ofList l₂)).root G none = some (Sym.n pr.lhs) := by
      simp [Tree.root, hp]
    obtain ⟨t, hw, hr, hy⟩ := ih (l₁ ++ Tree.node p 0 0 (Forest.ofList l₂) :: l₃)
      (h₁.append (.cons hnode hroot h₃))
    refine ⟨t, hw, hr, ?_⟩
    rw [hy]
    simp [yieldL_append, yieldL, Tree.yield, yield_ofList]

/-! ### productive symbols -/

/-- `B` derives some terminal string -/
def Productive (G : Grammar) (B : NT) : Prop := ∃ t, Tree.WF G none t ∧ t.root G none = some (Sym.n B)

/-- terminals are productive; a nonterminal is if it derives a terminal string -/
def PS (G : Grammar) : Sym → Prop
  | .t _ => True
  | .n B => Productive G B

theorem PS.tree {X : Sym} (h : PS G X) : ∃ t, Tree.WF G none t ∧ t.root G none = some X := by
  cases X with
  | t a => exact ⟨.leaf (mkTok a), .leaf _ a rfl, rfl⟩
  | n B => exact h

theorem exists_TL : ∀ (δ : List Sym), (∀ X ∈ δ, PS G X) → ∃ l, TL G l δ
  | [], _ => ⟨[], .nil⟩
  | X :: δ, h => by
    obtain ⟨t, hw, hr⟩ := (h X List.mem_cons_self).tree
    obtain ⟨l, hl⟩ := exists_TL δ (fun Y hY => h Y (List.mem_cons_of_mem _ hY))
    exact ⟨t :: l, .cons hw hr hl⟩

/-- a production all of whose rhs symbols are productive makes its lhs productive -/
theorem Productive.of_prod {p : Nat} {pr : Production} (hp : G.prods[p]? = some pr)
    (h : ∀ X ∈ pr.rhs, PS G X) : Productive G pr.lhs := by
  obtain ⟨l, hl⟩ := exists_TL pr.rhs h
  exact ⟨.node p 0 0 (Forest.ofList l), .node p 0 0 pr _ hp hl.forest, by simp [Tree.root, hp]⟩

/-! ### what V5 establishes -/

structure ProdOK (G : Grammar) (A : Automaton) (R : NT → Prop) : Prop where
  start : ∀ sp : Production, G.prods[G.startProd]? = some sp → R sp.lhs
  closed : ∀ (p : Nat) (pr : Production), G.prods[p]? = some pr → R pr.lhs → ∀ B, Sym.n B ∈ pr.rhs → R B ∧ Productive G B
  nonempty : ∀ s, s < A.states.length → A.coresOf s ≠ []

theorem ProdOK.ps {A : Automaton} {R : NT → Prop} (P : ProdOK G A R) {p : Nat} {pr : Production}
    (hp : G.prods[p]? = some pr) (hR : R pr.lhs) : ∀ X ∈ pr.rhs, PS G X := by
  intro X hX
  cases X with
  | t a => trivial
  | n B => exact (P.closed p pr hp hR B hX).2

theorem getD_map_range {f : Nat → Bool} {n B : Nat} (h : ((List.range n).map f).getD B false = true) :
    f B = true := by
  rw [List.getD_eq_getElem?_getD, List.getElem?_map] at h
  by_cases hlt : B < n
  · simpa [List.getElem?_range hlt] using h
  · have : (List.range n)[B]? = none := List.getElem?_eq_none (by simp; omega)
    simp [this] at h

/-- every nonterminal marked by the productive-set computation is productive -/
theorem productiveIter_sound : ∀ (k : Nat) (P : List Bool),
    (∀ B, P.getD B false = true → Productive G B) →
    ∀ B, (productiveIter G k P).getD B false = true → Productive G B
  | 0, _, h => h
  | k + 1, P, h => by
    apply productiveIter_sound k
    intro B hB
    have := getD_map_range hB
    simp only [Bool.or_eq_true, List.any_eq_true, Bool.and_eq_true, beq_iff_eq, List.all_eq_true] at this
    rcases this with h1 | ⟨pr, hmem, hl, hall⟩
    · exact h B h1
    · obtain ⟨p, hp⟩ := List.getElem?_of_mem hmem
      subst hl
      apply Productive.of_prod hp
      intro X hX
      have := hall X hX
      cases X with
      | t a => trivial
      | n C => exact h C this

theorem productiveSet_sound (B : NT) (h : (productiveSet G).getD B false = true) : Productive G B := by
  apply productiveIter_sound _ _ _ B h
  intro C hC
  rw [List.getD_eq_getElem?_getD] at hC
  by_cases hlt : C < G.nNT
  · simp [hlt] at hC
  · simp [hlt] at hC

theorem prodOK_of_check {A : Automaton} (h : checkProductive G A = true) :
    ProdOK G A (fun B => (reachSet G).getD B false = true) := by
  simp only [checkProductive, Bool.and_eq_true, List.all_eq_true, Bool.or_eq_true, Bool.not_eq_true',
    List.isEmpty_eq_false_iff] at h
  obtain ⟨⟨h1, h2⟩, h3⟩ := h
  refine ⟨?_, ?_, ?_⟩
  · intro sp hsp
    rw [hsp] at h1
    exact h1
  · intro p pr hp hR B hB
    rcases h2 pr (List.mem_of_getElem? hp) with hf | hall
    · rw [hR] at hf; cases hf
    · have := hall _ hB
      simp only [Bool.and_eq_true] at this
      exact ⟨this.1, productiveSet_sound B this.2⟩
  · intro s hs
    have hst : A.states[s]? = some A.states[s] := List.getElem?_eq_getElem hs
    rw [coresOf_eq hst]
    exact h3 _ (List.getElem_mem hs)

/-! ### closure, justified cores -/

/-- LR(0) closure of a kernel -/
inductive InClosure (G : Grammar) (K : Item0 → Prop) : Item0 → Prop
  | base (i : Item0) : K i → InClosure G K i
  | step (p d q : Nat) (B : NT) (qr : Production) :
      InClosure G K (p, d) → symAt G p d = some (Sym.n B) → G.prods[q]? = some qr → qr.lhs = B →
      InClosure G K (q, 0)

theorem InClosure.trans {K K' : Item0 → Prop} (hK : ∀ i, K i → InClosure G K' i) {i : Item0}
    (h : InClosure G K i) : InClosure G K' i := by
  induction h with
  | base i hi => exact hK i hi
  | step p d q B qr _ hs hq hl ih => exact .step p d q B qr ih hs hq hl

theorem mem_closureRound_inClosure {items : List Item0} {it : Item0} (h : it ∈ closureRound G items) :
    InClosure G (· ∈ items) it := by
  simp only [closureRound, List.mem_append, List.mem_flatMap] at h
  rcases h with h | ⟨j, hj, h⟩
  · exact .base _ h
  · split at h
    · rename_i B hs
      obtain ⟨h0, pr, hp, hl⟩ := mem_initialItems h
      obtain ⟨q, d⟩ := it
      simp only at h0 hp
      subst h0
      exact .step j.1 j.2 q B pr (.base _ hj) hs hp hl
    · simp at h

theorem mem_closureIter_inClosure : ∀ (k : Nat) {items : List Item0} {it : Item0},
    it ∈ closureIter G k items → InClosure G (· ∈ items) it
  | 0, _, _, h => .base _ h
  | k + 1, _, _, h => by
    simp only [closureIter] at h
    refine (mem_closureIter_inClosure k h).trans ?_
    intro i hi
    exact mem_closureRound_inClosure (List.mem_eraseDups.mp hi)

theorem mem_closure0_inClosure {K : List Item0} {it : Item0} (h : it ∈ closure0 G K) :
    InClosure G (· ∈ K) it := mem_closureIter_inClosure _ h

/-- the cores of every state are justified: those of state 0 by the closure of the start item,
    those of a successor by the closure of the advanced kernel -/
structure Just (G : Grammar) (A : Automaton) : Prop where
  cores0 : ∀ i, i ∈ A.coresOf 0 → InClosure G (· = (G.startProd, 0)) i
  trans : ∀ s X s', A.trans s X = some s' → ∀ i, i ∈ A.coresOf s' →
    InClosure G (· ∈ advance G (A.coresOf s) X) i

theorem just_of_checkCores {T : Tables} {A : Automaton} (hc : checkCores G T A = true) : Just G A := by
  simp only [checkCores, Bool.and_eq_true, List.all_eq_true, List.mem_range] at hc
  refine ⟨?_, ?_⟩
  · intro i hi
    refine (mem_closure0_inClosure (subsetOf_mem hc.1 hi)).trans ?_
    intro j hj
    exact .base _ (by simpa using hj)
  · intro s X s' ht i hi
    have key : ∃ st, A.states[s]? = some st ∧
        subsetOf (A.coresOf s') (closure0 G (advance G st.cores X)) = true := by
      cases X with
      | t a =>
        simp only [Automaton.trans, Automaton.shiftOf, Option.bind_eq_some_iff] at ht
        obtain ⟨st, hst, hl⟩ := ht
        have hlt := (List.getElem?_eq_some_iff.mp hst).1
        have := hc.2 s hlt
        simp only [hst, Bool.and_eq_true, List.all_eq_true] at this
        have := this.1.1 (a, s') (lookupAssoc_mem hl)
        simp only [decide_eq_true_eq] at this
        exact ⟨st, hst, this.2⟩
      | n B =>
        simp only [Automaton.trans, Automaton.gotoOf, Option.bind_eq_some_iff] at ht
        obtain ⟨st, hst, hl⟩ := ht
        have hlt := (List.getElem?_eq_some_iff.mp hst).1
        have := hc.2 s hlt
        simp only [hst, Bool.and_eq_true, List.all_eq_true] at this
        have := this.1.2 (B, s') (lookupAssoc_mem hl)
        simp only [decide_eq_true_eq, beq_iff_eq] at this
        exact ⟨st, hst, this.2⟩
    obtain ⟨st, hst, hsub⟩ := key
    rw [coresOf_eq hst]
    exact mem_closure0_inClosure (subsetOf_mem hsub hi)

/-! ### valid items, viable prefixes -/

/-- item `(p,d)` is valid for the stack contents `γ` (bottom first), with a productive completion -/
def ValidFor (G : Grammar) (S : NT) (R : NT → Prop) (γ : List Sym) (i : Item0) : Prop :=
  ∃ γ' δ pr, G.prods[i.1]? = some pr ∧ i.2 ≤ pr.rhs.length ∧ γ = γ' ++ pr.rhs.take i.2 ∧
    SF G S (γ' ++ pr.rhs ++ δ) ∧ (∀ X ∈ δ, PS G X) ∧ R pr.lhs

/-- `γ` is a viable prefix: it extends to a sentential form by productive symbols -/
def Viable (G : Grammar) (S : NT) (γ : List Sym) : Prop := ∃ δ, SF G S (γ ++ δ) ∧ ∀ X ∈ δ, PS G X

section
variable {A : Automaton} {S : NT} {R : NT → Prop}

theorem startSym_spec (hS : G.startSym = some S) :
    ∃ sp, G.prods[G.startProd]? = some sp ∧ sp.rhs = [Sym.n S] := by
  unfold Grammar.startSym at hS
  split at hS
  · rename_i lhs S' hsp
    cases hS
    exact ⟨_, hsp, rfl⟩
  · cases hS

theorem closure_valid (P : ProdOK G A R) {K : Item0 → Prop} {γ : List Sym}
    (hK : ∀ i, K i → ValidFor G S R γ i) {i : Item0} (h : InClosure G K i) : ValidFor G S R γ i := by
  induction h with
  | base i hi => exact hK i hi
  | step p d q B qr _ hs hq hl ih =>
    obtain ⟨γ', δ, pr, hp, hle, hγ, hsf, hδ, hR⟩ := ih
    simp only at hp hle hγ
    have hB := symAt_some hp hs
    obtain ⟨hd, hBd⟩ := List.getElem?_eq_some_iff.mp hB
    have hmem : Sym.n B ∈ pr.rhs := List.mem_of_getElem? hB
    have hRB := (P.closed p pr hp hR B hmem).1
    refine ⟨γ, pr.rhs.drop (d + 1) ++ δ, qr, hq, Nat.zero_le _, by simp, ?_, ?_, hl ▸ hRB⟩
    · have hsplit : pr.rhs = pr.rhs.take d ++ Sym.n qr.lhs :: pr.rhs.drop (d + 1) := by
        rw [hl, ← hBd]; simp
      rw [hsplit] at hsf
      have := SF.step (γ' ++ pr.rhs.take d) (pr.rhs.drop (d + 1) ++ δ) q qr
        (by simpa [List.append_assoc] using hsf) hq
      rw [hγ]
      simpa [List.append_assoc] using this
    · intro X hX
      rcases List.mem_append.mp hX with hX | hX
      · exact P.ps hp hR X (List.mem_of_mem_drop hX)
      · exact hδ X hX

theorem start_valid (J : Just G A) (P : ProdOK G A R) (hS : G.startSym = some S) :
    ∀ i, i ∈ A.coresOf 0 → ValidFor G S R [] i := by
  intro i hi
  refine closure_valid P ?_ (J.cores0 i hi)
  intro j hj
  subst hj
  obtain ⟨sp, hsp, hr⟩ := startSym_spec hS
  exact ⟨[], [], sp, hsp, Nat.zero_le _, by simp, by simpa [hr] using SF.start, by simp, P.start sp hsp⟩

theorem push_valid (J : Just G A) (P : ProdOK G A R) {s s' : Nat} {X : Sym} {γ : List Sym}
    (hs : ∀ i, i ∈ A.coresOf s → ValidFor G S R γ i) (ht : A.trans s X = some s') :
    ∀ i, i ∈ A.coresOf s' → ValidFor G S R (γ ++ [X]) i := by
  intro i hi
  refine closure_valid P ?_ (J.trans s X s' ht i hi)
  intro j hj
  obtain ⟨d', hd, hc, hX⟩ := mem_advance hj
  obtain ⟨γ', δ, pr, hp, hle, hγ, hsf, hδ, hR⟩ := hs _ hc
  simp only at hp hle hγ
  have hXd := symAt_some hp hX
  obtain ⟨hlt, hXe⟩ := List.getElem?_eq_some_iff.mp hXd
  refine ⟨γ', δ, pr, hp, by rw [hd]; exact hlt, ?_, hsf, hδ, hR⟩
  rw [hd, hγ, List.append_assoc]
  congr 1
  rw [List.take_add_one, hXd]; rfl

/-- every core item of the top state of a path is valid for the symbols of the path -/
theorem path_valid (J : Just G A) (P : ProdOK G A R) (hS : G.startSym = some S) {st : List Nat}
    {Xs : List Sym} (h : Path A st Xs) :
    ∀ s ss, st = s :: ss → ∀ i, i ∈ A.coresOf s → ValidFor G S R Xs.reverse i := by
  induction h with
  | base =>
    intro s ss he i hi
    cases he
    exact start_valid J P hS i hi
  | push h1 ht ih =>
    intro s ss he i hi
    cases he
    rw [List.reverse_cons]
    exact push_valid J P (ih _ _ rfl) ht i hi

theorem viable_of_valid (P : ProdOK G A R) {γ : List Sym} {i : Item0} (h : ValidFor G S R γ i) :
    Viable G S γ := by
  obtain ⟨γ', δ, pr, hp, hle, hγ, hsf, hδ, hR⟩ := h
  refine ⟨pr.rhs.drop i.2 ++ δ, ?_, ?_⟩
  · have e : γ ++ (pr.rhs.drop i.2 ++ δ) = γ' ++ pr.rhs ++ δ := by
      rw [hγ]
      simp only [List.append_assoc]
      rw [← List.append_assoc (pr.rhs.take i.2), List.take_append_drop]
    rw [e]; exact hsf
  · intro X hX
    rcases List.mem_append.mp hX with hX | hX
    · exact P.ps hp hR X (List.mem_of_mem_drop hX)
    · exact hδ X hX

/-- the symbols of a path of the automaton are a viable prefix -/
theorem path_viable {T : Tables} (Sd : Sound G T A) (J : Just G A) (P : ProdOK G A R)
    (hS : G.startSym = some S) {st : List Nat} {Xs : List Sym} (h : Path A st Xs) :
    Viable G S Xs.reverse := by
  obtain ⟨s, ss, rfl⟩ : ∃ s ss, st = s :: ss := by
    cases st with
    | nil => exact absurd rfl h.ne_nil
    | cons s ss => exact ⟨s, ss, rfl⟩
  have hlt := h.top_lt Sd
  have hne := P.nonempty s hlt
  obtain ⟨i, hi⟩ := List.exists_mem_of_ne_nil _ hne
  exact viable_of_valid P (path_valid J P hS h s ss rfl i hi)

/-- a derivation tree of `S` whose tokens start with `pre`: the kinds of `pre` are a sentence prefix -/
theorem kindsPrefix_of_tree {t : Tree} {pre z : List Tok} (hw : Tree.WF G none t)
    (hr : t.root G none = some (Sym.n S)) (hy : t.yield = pre ++ z) : KindsPrefix G S pre := by
  obtain ⟨w, hwk⟩ := exists_kinds (fun a : Tok => a.kind) t.yield (Tree.wf_yield_kind t hw)
  rw [hy, List.map_append] at hwk
  have h1 := congrArg (List.take pre.length) hwk
  have h2 := congrArg (List.drop pre.length) hwk
  rw [List.take_left' (by simp), ← List.map_take] at h1
  rw [List.drop_left' (by simp), ← List.map_drop] at h2
  refine ⟨w.take pre.length, h1, w.drop pre.length, t, hw, hr, ?_⟩
  rw [List.take_append_drop, hy, List.map_append]
  exact hwk

/-- trees for a viable prefix: their tokens are a prefix of a sentence -/
theorem viable_kindsPrefix {γ : List Sym} (hv : Viable G S γ) {l : List Tree} (hl : TL G l γ) :
    KindsPrefix G S (yieldL l) := by
  obtain ⟨δ, hsf, hδ⟩ := hv
  obtain ⟨l', hl'⟩ := exists_TL δ hδ
  obtain ⟨t, hw, hr, hy⟩ := hsf.tree _ (hl.append hl')
  rw [yieldL_append] at hy
  exact kindsPrefix_of_tree hw hr hy

end

end LalrpopModel.LR
