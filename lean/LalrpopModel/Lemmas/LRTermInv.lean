import LalrpopModel.Lemmas.LRTermRec
/-!
C08 termination, part 7: the stacks that occur. `AdjInv` (the state stack is `Adj`, the token kinds
still in the stream and the lookahead held by the phase are terminal indices) holds at every
configuration of a run from `init` (`adjInv_of_run`), for arbitrary fuel, with error recovery on or
off; hence `accepts` answers on every stack that occurs (`accepts_terminates_reachable`).
-/
namespace LalrpopModel.LR.Term
open LalrpopModel.LR LalrpopModel.LR.Generic

variable {T : Tables} {F af : Nat} {failAt : Option Nat} {startLoc : Int}

/-- token kinds are terminal indices -/
def InRng (T : Tables) (l : List Item) : Prop :=
  ∀ t k, Item.tok t ∈ l → t.kind = some k → k < T.nTerm

def laIn (T : Tables) (la : Option (Tok × Term)) : Prop := ∀ t i, la = some (t, i) → i < T.nTerm

def AdjInv (T : Tables) (c : Cfg) : Phase → Prop
  | .done _ => True
  | .pull => Adj T c.states ∧ InRng T c.input
  | .eof => Adj T c.states ∧ InRng T c.input
  | .act _ idx => Adj T c.states ∧ InRng T c.input ∧ idx < T.nTerm
  | .recReduce la _ _ => Adj T c.states ∧ InRng T c.input ∧ T.usesRecovery = true ∧ laIn T la
  | .recFind la _ _ _ _ => Adj T c.states ∧ InRng T c.input ∧ T.usesRecovery = true ∧ laIn T la

theorem AdjInv.adj {c : Cfg} {ph : Phase} (h : AdjInv T c ph) (hnd : phDone ph = false) :
    Adj T c.states := by
  cases ph with
  | done r => simp [phDone] at hnd
  | pull => exact h.1
  | eof => exact h.1
  | act _ _ => exact h.1
  | recReduce _ _ _ => exact h.1
  | recFind _ _ _ _ _ => exact h.1

theorem InRng.tail {it : Item} {rest : List Item} (h : InRng T (it :: rest)) : InRng T rest :=
  fun t k hm => h t k (List.mem_cons_of_mem _ hm)

/-- shape of what `error_recovery`'s entry answers -/
theorem enterRecovery_shape (c : Cfg) (la : Option (Tok × Term)) (fe : Bool) :
    (∃ r, enterRecovery T af c la fe = (c, .done r)) ∨
    (T.usesRecovery = true ∧ ∃ pe, enterRecovery T af c la fe = (c, .recReduce la pe fe)) := by
  unfold enterRecovery
  cases unrecognizedError T af c (la.map (·.1)) with
  | error e => exact .inl ⟨_, rfl⟩
  | ok pe =>
    simp only
    cases hrec : T.usesRecovery with
    | false => exact .inl ⟨_, rfl⟩
    | true => exact .inr ⟨rfl, pe, rfl⟩

theorem step_adjInv (hT : TermOK T F) (c : Cfg) (ph : Phase) (h : AdjInv T c ph) :
    AdjInv T (step T af failAt startLoc c ph).1 (step T af failAt startLoc c ph).2 := by
  cases ph with
  | done r => trivial
  | pull =>
    obtain ⟨hadj, hin⟩ := h
    unfold step nextToken
    cases hc : c.input with
    | nil => exact ⟨hadj, fun t k hm => by cases hm⟩
    | cons it rest =>
      rw [hc] at hin
      cases it with
      | err e => trivial
      | tok t =>
        simp only
        cases hk : t.kind with
        | some i => exact ⟨hadj, hin.tail, hin t i (by simp) hk⟩
        | none =>
          simp only
          generalize unrecognizedError T af _ (some t) = u
          cases u <;> trivial
  | act tok idx =>
    obtain ⟨hadj, hin, hidx⟩ := h
    rcases step_act (T := T) (af := af) (failAt := failAt) (startLoc := startLoc) c tok idx with
      ⟨c', r, hs, _⟩ | ⟨c', hs, hl, hci⟩ | ⟨_, c', top, rest, a, t, hst, ha, hsh, hs, hst', hci⟩ | ⟨_, hs, _⟩
    · rw [hs]; trivial
    · rw [hs]; exact ⟨hadj.locStep hT hl, hci ▸ hin, hidx⟩
    · rw [hs]
      refine ⟨?_, hci ▸ hin⟩
      show Adj T c'.states
      rw [hst', hst]
      exact .cons (.inr ⟨idx, a, hidx, ha, hsh⟩) (hst ▸ hadj)
    · rw [hs]
      rcases enterRecovery_shape (T := T) (af := af) c (some (tok, idx)) false with ⟨r, he⟩ | ⟨hrec, pe, he⟩
      · rw [he]; trivial
      · rw [he]
        exact ⟨hadj, hin, hrec, fun t i h => by cases h; exact hidx⟩
  | eof =>
    obtain ⟨hadj, hin⟩ := h
    rcases step_eof (T := T) (af := af) (failAt := failAt) (startLoc := startLoc) c with
      ⟨c', r, hs, _⟩ | ⟨c', hs, hl, hci⟩ | ⟨_, hs, _⟩
    · rw [hs]; trivial
    · rw [hs]; exact ⟨hadj.locStep hT hl, hci ▸ hin⟩
    · rw [hs]
      rcases enterRecovery_shape (T := T) (af := af) c none true with ⟨r, he⟩ | ⟨hrec, pe, he⟩
      · rw [he]; trivial
      · rw [he]
        exact ⟨hadj, hin, hrec, fun t i h => by cases h⟩
  | recReduce la e fe =>
    obtain ⟨hadj, hin, hrec, hla⟩ := h
    rcases step_rec (T := T) (af := af) (failAt := failAt) (startLoc := startLoc) c la e fe with
      ⟨c', r, hs, _⟩ | ⟨c', hs, hl, hci⟩ | ⟨_, hs⟩
    · rw [hs]; trivial
    · rw [hs]; exact ⟨hadj.locStep hT hl, hci ▸ hin, hrec, hla⟩
    · rw [hs]; exact ⟨hadj, hin, hrec, hla⟩
  | recFind la e dropped sl fe =>
    obtain ⟨hadj, hin, hrec, hla⟩ := h
    rcases step_find (F := F) (af := af) (failAt := failAt) (startLoc := startLoc) hT hrec c hadj la hla
        e dropped sl fe with
      ⟨c', r, hs, _⟩ | ⟨c', hs, hadj', _, hci, _⟩ | ⟨t, i, t', i', rest, _, hinp, hk, hs⟩ | ⟨t, i, _, hinp, hs⟩
    · rw [hs]; trivial
    · rw [hs]
      cases la with
      | none => exact ⟨hadj', hci ▸ hin⟩
      | some ti =>
        obtain ⟨t, i⟩ := ti
        cases fe with
        | true => trivial
        | false => exact ⟨hadj', hci ▸ hin, hla t i rfl⟩
    · rw [hs]
      rw [hinp] at hin
      exact ⟨hadj, hin.tail, hrec, fun t'' i'' h => by cases h; exact hin t' i' (by simp) hk⟩
    · rw [hs]
      exact ⟨hadj, hin, hrec, fun t'' i'' h => by cases h⟩

/-- the invariant holds along every run from the initial configuration -/
theorem adjInv_of_run (hT : TermOK T F) {input : List Item} (hin : InRng T input) {n : Nat} {c : Cfg}
    {ph : Phase} (hrun : run T af failAt startLoc n (init startLoc input) .pull = (c, ph)) :
    AdjInv T c ph := by
  have := run_inv T af failAt startLoc (fun c ph => AdjInv T c ph) (step_adjInv hT)
    (c0 := init startLoc input) (ph0 := .pull) ⟨.base, hin⟩ n
  rw [hrun] at this
  exact this

/-- `accepts` answers (within `accFuel F |states|` iterations) on every stack that occurs in a run,
    for every lookahead -/
theorem accepts_terminates_reachable (hT : TermOK T F) {input : List Item} (hin : InRng T input)
    {n : Nat} {c : Cfg} {ph : Phase}
    (hrun : run T af failAt startLoc n (init startLoc input) .pull = (c, ph)) (hnd : phDone ph = false)
    {la : LA} (hla : LAok T la) {af' : Nat} (haf : accFuel F c.states.length ≤ af') :
    accepts T af' c.states la ≠ .error .outOfFuel :=
  accepts_terminates hT hla ((adjInv_of_run hT hin hrun).adj hnd) haf

end LalrpopModel.LR.Term
