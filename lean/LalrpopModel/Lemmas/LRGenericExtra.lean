import LalrpopModel.Lemmas.LRGenericIO
/-!
C04/C05 bookkeeping for arbitrary tables: shape of `expected` lists, where `ExtraToken` can come from.
-/
namespace LalrpopModel.LR.Generic
open LalrpopModel.LR
variable {T : Tables} {af : Nat} {failAt : Option Nat} {startLoc : Int}

/-! ### `expected` -/

theorem expectedLoop_sorted {st : List Nat} {k i : Nat} {ex : List Term}
    (h : expectedLoop T af st k i = .ok ex) :
    ex.Pairwise (fun (a b : Nat) => a < b) ∧ ∀ x : Nat, x ∈ ex → i ≤ x ∧ x < i + k := by
  induction k generalizing i ex with
  | zero => simp [expectedLoop] at h; subst h; simp
  | succ k ih =>
    simp only [expectedLoop] at h
    cases hacc : accepts T af st (some i) with
    | error e => rw [hacc] at h; simp at h
    | ok b =>
      rw [hacc] at h
      simp only at h
      cases hrest : expectedLoop T af st k (i + 1) with
      | error e => rw [hrest] at h; simp at h
      | ok rest =>
        rw [hrest] at h
        simp only at h
        injection h with h
        obtain ⟨h1, h2⟩ := ih hrest
        cases b with
        | false =>
          simp at h; subst h
          exact ⟨h1, fun x hx => by have := h2 x hx; omega⟩
        | true =>
          simp at h; subst h
          refine ⟨List.pairwise_cons.mpr ⟨fun x hx => by have := h2 x hx; omega, h1⟩, ?_⟩
          intro x hx
          rcases List.mem_cons.mp hx with rfl | hx
          · omega
          · have := h2 x hx; omega

/-- a terminal is listed iff `__accepts` says yes for it (and it is one of `__TERMINAL`) -/
theorem expectedLoop_mem {st : List Nat} {k i : Nat} {ex : List Term}
    (h : expectedLoop T af st k i = .ok ex) (x : Nat) :
    x ∈ ex ↔ (i ≤ x ∧ x < i + k ∧ accepts T af st (some x) = .ok true) := by
  induction k generalizing i ex with
  | zero => simp [expectedLoop] at h; subst h; simp; omega
  | succ k ih =>
    simp only [expectedLoop] at h
    cases hacc : accepts T af st (some i) with
    | error e => rw [hacc] at h; simp at h
    | ok b =>
      rw [hacc] at h
      simp only at h
      cases hrest : expectedLoop T af st k (i + 1) with
      | error e => rw [hrest] at h; simp at h
      | ok rest =>
        rw [hrest] at h
        simp only at h
        injection h with h
        have ih' := ih hrest
        cases b with
        | false =>
          simp at h; subst h
          rw [ih']
          constructor
          · rintro ⟨h1, h2, h3⟩; exact ⟨by omega, by omega, h3⟩
          · rintro ⟨h1, h2, h3⟩
            refine ⟨?_, by omega, h3⟩
            by_cases hx : x = i
            · subst hx; rw [hacc] at h3; cases h3
            · omega
        | true =>
          simp at h; subst h
          rw [List.mem_cons, ih']
          constructor
          · rintro (rfl | ⟨h1, h2, h3⟩)
            · exact ⟨by omega, by omega, hacc⟩
            · exact ⟨by omega, by omega, h3⟩
          · rintro ⟨h1, h2, h3⟩
            by_cases hx : x = i
            · exact .inl hx
            · exact .inr ⟨by omega, by omega, h3⟩


/-! ### where `ExtraToken` comes from -/

theorem NextSpec.not_extra {c c' : Cfg} {r : Outcome} {la : Tok} (h : NextSpec T af c c' (.done r)) :
    r ≠ .err (.extraToken la) := by
  cases h <;> simp

theorem mkErr_not_extra (c : Cfg) (la' : Option (Tok × Term)) (ex : List Term) (la : Tok) :
    mkErr c la' ex ≠ .extraToken la := by
  rcases la' with _ | ⟨t, i⟩ <;> simp [mkErr]

/-- a step into `.done (.err (.extraToken la))` is a start-production reduce in `.act la idx` -/
theorem Step.extra_cases {input : List Item} {c c' : Cfg} {ph : Phase} {la : Tok}
    (hio : IOInv T startLoc input c ph)
    (hs : Step T af failAt startLoc c ph c' (.done (.err (.extraToken la)))) (hnd : phDone ph = false) :
    ∃ idx top rest a p, ph = .act la idx ∧ c.states = top :: rest ∧ T.actionAt top idx = some a ∧
      asShift a = none ∧ asReduce a = some p ∧ T.isStart[p]? = some true ∧
      c'.pulled = c.pulled ∧ c'.input = c.input := by
  generalize hph' : Phase.done (.err (.extraToken la)) = ph' at hs
  cases hs with
  | done r => simp [phDone] at hnd
  | panic _ tag hd => cases hph'
  | pull _ nt hn =>
    cases nt with
    | done r => simp [pullK] at hph'; subst hph'; exact (hn.not_extra rfl).elim
    | eof => simp [pullK] at hph'
    | found t i => simp [pullK] at hph'
  | shift la idx top rest a target hst ha hsh => cases hph'
  | redCont _ p ls _ hctx hr => subst hph'; simp [phDone] at hnd
  | redFin _ p ls _ r hctx hr =>
    injection hph' with hph'
    cases hr with
    | bad tag => cases ph <;> simp [finOutcome] at hph'
    | fail n hn hlen hfal hf => cases ph <;> simp [finOutcome] at hph'
    | badStart n hn hlen hnf => cases ph <;> simp [finOutcome] at hph'
    | pushedPanic n hn hlen hnf tag => cases ph <;> simp [finOutcome] at hph'
    | accept n hn hlen hnf hst k hk =>
      cases ph with
      | act la' idx =>
        simp [finOutcome] at hph'
        subst hph'
        obtain ⟨-, top, rest, a, h1, h2, h3, h4⟩ := hctx
        exact ⟨idx, top, rest, a, p, rfl, h1, h2, h3, h4, hst, rfl, rfl⟩
      | _ => simp [finOutcome] at hph'
  | enterNoRec _ la' fe ex hctx hex hrec =>
    injection hph' with hph'; injection hph' with hph'
    exact (mkErr_not_extra _ _ _ _ hph'.symm).elim
  | enterRec _ la' fe ex hctx hex hrec => cases hph'
  | toFind la' e fe top rest a hst ha hnr => cases hph'
  | push la' e dropped sl fe top hf _ _ hp =>
    cases hp with
    | panic tag => cases hph'
    | ok l r hl hr rs rest hrs a ha es hes =>
      rcases la' with _ | ⟨t, i⟩ <;> cases fe <;> simp [afterPh] at hph'
  | giveUp e dropped sl fe hf =>
    injection hph' with hph'; injection hph' with hph'
    subst hph'
    exact (hio.perr _ rfl).2.elim
  | drop t i e dropped sl fe hf _ nt hn =>
    cases nt with
    | done r => simp [dropK] at hph'; subst hph'; exact (hn.not_extra rfl).elim
    | eof => simp [dropK] at hph'
    | found t i => simp [dropK] at hph'

end LalrpopModel.LR.Generic
