import LalrpopModel.Model.Lower
/-!
Lemmas about the selection part of M-LOWER: `analyze_expr` (`namedFrom`, `chosenFrom`,
`enumFrom` as instances of one enumerate-and-filter, membership, source order, classification
by kinds) and `patterns` (`patternsGo` tabulates the selection).
-/
namespace LalrpopModel.Lower
variable {B : Type}

/-- the surface kind of a symbol, all that `analyze_expr`'s classification looks at -/
inductive SymKind where
  | plain | chosen | named
  deriving DecidableEq, Repr

def Sym.kind : Sym B → SymKind
  | .choose _ => .chosen
  | .named _ _ => .named
  | .tupled _ _ => .named
  | _ => .plain

/-- the pattern and the inner symbol of a `Name`/`Tuple` symbol -/
def Sym.binding? : Sym B → Option (ArgPattern × Sym B)
  | .named n s => some (.name n, s)
  | .tupled ps s => some (.tuple ps, s)
  | _ => none

def Sym.chosen? : Sym B → Option (Sym B)
  | .choose s => some s
  | _ => none

/-- `iter().enumerate().filter_map(f)` with the enumeration starting at `i` -/
def filterFrom {α : Type} (f : Sym B → Option α) : Nat → List (Sym B) → List (Nat × α)
  | _, [] => []
  | i, x :: rest =>
    match f x with
    | some a => (i, a) :: filterFrom f (i + 1) rest
    | none => filterFrom f (i + 1) rest

theorem namedFrom_eq (i : Nat) (syms : List (Sym B)) : namedFrom i syms = filterFrom Sym.binding? i syms := by
  induction syms generalizing i with
  | nil => simp [namedFrom, filterFrom]
  | cons x rest ih => cases x <;> simp [namedFrom, filterFrom, Sym.binding?, ih]

theorem chosenFrom_eq (i : Nat) (syms : List (Sym B)) : chosenFrom i syms = filterFrom Sym.chosen? i syms := by
  induction syms generalizing i with
  | nil => simp [chosenFrom, filterFrom]
  | cons x rest ih => cases x <;> simp [chosenFrom, filterFrom, Sym.chosen?, ih]

theorem enumFrom_eq (i : Nat) (syms : List (Sym B)) : enumFrom i syms = filterFrom some i syms := by
  induction syms generalizing i with
  | nil => simp [enumFrom, filterFrom]
  | cons x rest ih => simp [enumFrom, filterFrom, ih]

theorem filterFrom_mem {α : Type} (f : Sym B → Option α) (i : Nat) (syms : List (Sym B)) (j : Nat) (a : α) :
    (j, a) ∈ filterFrom f i syms ↔ ∃ k, j = i + k ∧ ∃ x, syms[k]? = some x ∧ f x = some a := by
  induction syms generalizing i with
  | nil => simp [filterFrom]
  | cons x rest ih =>
    simp only [filterFrom]
    cases hx : f x with
    | none =>
      simp only [ih]
      constructor
      · rintro ⟨k, rfl, y, hy, hb⟩
        exact ⟨k + 1, by omega, y, by rw [List.getElem?_cons_succ]; exact hy, hb⟩
      · rintro ⟨k, rfl, y, hy, hb⟩
        cases k with
        | zero => rw [List.getElem?_cons_zero] at hy; cases hy; rw [hx] at hb; cases hb
        | succ k => exact ⟨k, by omega, y, by rw [List.getElem?_cons_succ] at hy; exact hy, hb⟩
    | some b =>
      simp only [List.mem_cons, ih]
      constructor
      · rintro (h | ⟨k, rfl, y, hy, hb⟩)
        · cases h
          exact ⟨0, rfl, x, by simp, hx⟩
        · exact ⟨k + 1, by omega, y, by rw [List.getElem?_cons_succ]; exact hy, hb⟩
      · rintro ⟨k, rfl, y, hy, hb⟩
        cases k with
        | zero =>
          rw [List.getElem?_cons_zero] at hy; cases hy; rw [hx] at hb; cases hb
          left; simp
        | succ k => right; exact ⟨k, by omega, y, by rw [List.getElem?_cons_succ] at hy; exact hy, hb⟩

theorem filterFrom_ge {α : Type} (f : Sym B → Option α) (i : Nat) (syms : List (Sym B)) :
    ∀ e ∈ filterFrom f i syms, i ≤ e.1 ∧ e.1 < i + syms.length := by
  intro e he
  obtain ⟨j, a⟩ := e
  obtain ⟨k, rfl, x, hx, _⟩ := (filterFrom_mem f i syms j a).1 he
  have : k < syms.length := by
    rcases Nat.lt_or_ge k syms.length with h | h
    · exact h
    · rw [List.getElem?_eq_none h] at hx; cases hx
  simp; omega

/-- indices come out strictly increasing: source order -/
theorem filterFrom_sorted {α : Type} (f : Sym B → Option α) (i : Nat) (syms : List (Sym B)) :
    (filterFrom f i syms).Pairwise (fun a b => a.1 < b.1) := by
  induction syms generalizing i with
  | nil => simp [filterFrom]
  | cons x rest ih =>
    simp only [filterFrom]
    cases f x with
    | none => exact ih (i + 1)
    | some b =>
      refine List.Pairwise.cons ?_ (ih (i + 1))
      intro e he
      have := (filterFrom_ge f (i + 1) rest e he).1
      simp; omega

theorem filterFrom_isEmpty {α : Type} (f : Sym B → Option α) (i : Nat) (syms : List (Sym B)) :
    (filterFrom f i syms).isEmpty = !syms.any (fun x => (f x).isSome) := by
  induction syms generalizing i with
  | nil => simp [filterFrom]
  | cons x rest ih =>
    simp only [filterFrom, List.any_cons]
    cases f x with
    | none => simp [ih]
    | some b => simp

theorem filterFrom_length_some (i : Nat) (syms : List (Sym B)) :
    (filterFrom some i syms).length = syms.length := by
  induction syms generalizing i with
  | nil => simp [filterFrom]
  | cons x rest ih => simp [filterFrom, ih]

/-! classification -/

inductive SelClass where
  | named       -- the named/tuple symbols
  | chosen      -- the `<X>` symbols
  | all         -- every symbol
  deriving DecidableEq, Repr

/-- which selection rule applies, from the kinds alone -/
def classify (kinds : List SymKind) : SelClass :=
  if kinds.any (· = .named) then .named
  else if kinds.any (· = .chosen) then .chosen
  else .all

theorem classify_perm {k1 k2 : List SymKind} (h : k1.Perm k2) : classify k1 = classify k2 := by
  simp only [classify, h.any_eq]

theorem binding_isSome_iff (x : Sym B) : x.binding?.isSome = decide (x.kind = .named) := by
  cases x <;> simp [Sym.binding?, Sym.kind]

theorem chosen_isSome_iff (x : Sym B) : x.chosen?.isSome = decide (x.kind = .chosen) := by
  cases x <;> simp [Sym.chosen?, Sym.kind]

end LalrpopModel.Lower

namespace LalrpopModel.Lower

/-- the pattern the selection assigns to argument `j`: the chosen one, `_` otherwise -/
def patAt : List (Nat × ArgPattern) → Nat → ArgPattern
  | [], _ => blank
  | (ci, p) :: rest, j => if ci = j then p else patAt rest j

/-- `0 .. n` mapped, by recursion (avoids `List.range` bookkeeping) -/
def tabulateFrom (f : Nat → ArgPattern) : Nat → Nat → List ArgPattern
  | _, 0 => []
  | i, n + 1 => f i :: tabulateFrom f (i + 1) n

theorem patAt_of_lt (chosen : List (Nat × ArgPattern)) (j : Nat) (h : ∀ e ∈ chosen, j < e.1) :
    patAt chosen j = blank := by
  induction chosen with
  | nil => rfl
  | cons e rest ih =>
    obtain ⟨ci, p⟩ := e
    have : ci ≠ j := by have := h (ci, p) (by simp); simp at this; omega
    simp only [patAt, this, if_false]
    exact ih (fun e he => h e (by simp [he]))

/-- selections handed to `patterns` by `action_fn`: strictly increasing argument indices below
    the number of arguments -/
def SortedBelow (chosen : List (Nat × ArgPattern)) (lo hi : Nat) : Prop :=
  chosen.Pairwise (fun a b => a.1 < b.1) ∧ ∀ e ∈ chosen, lo ≤ e.1 ∧ e.1 < hi

theorem tabulateFrom_congr (f g : Nat → ArgPattern) (i n : Nat)
    (h : ∀ j, i ≤ j → j < i + n → f j = g j) : tabulateFrom f i n = tabulateFrom g i n := by
  induction n generalizing i with
  | zero => rfl
  | succ n ih =>
    simp only [tabulateFrom]
    rw [h i (Nat.le_refl _) (by omega), ih (i + 1) (fun j h1 h2 => h j (by omega) (by omega))]

theorem patAt_cons_ne (ci : Nat) (p : ArgPattern) (rest : List (Nat × ArgPattern)) (j : Nat) (h : ci ≠ j) :
    patAt ((ci, p) :: rest) j = patAt rest j := by simp [patAt, h]

theorem patAt_cons_eq (ci : Nat) (p : ArgPattern) (rest : List (Nat × ArgPattern)) :
    patAt ((ci, p) :: rest) ci = p := by simp [patAt]

theorem patternsGo_spec (chosen : List (Nat × ArgPattern)) (index n : Nat)
    (h : SortedBelow chosen index (index + n)) :
    patternsGo chosen index n = (tabulateFrom (patAt chosen) index n, []) := by
  induction n generalizing chosen index with
  | zero =>
    cases chosen with
    | nil => simp [patternsGo, tabulateFrom]
    | cons e rest => have := h.2 e (by simp); omega
  | succ n ih =>
    cases chosen with
    | nil =>
      have := ih [] (index + 1) ⟨by simp, by simp⟩
      simp only [patternsGo, this, tabulateFrom]
      rfl
    | cons e rest =>
      obtain ⟨ci, p⟩ := e
      have hsorted := h.1
      have hbound := h.2
      rw [List.pairwise_cons] at hsorted
      by_cases hci : ci = index
      · subst hci
        have hrest : SortedBelow rest (ci + 1) (ci + 1 + n) := by
          refine ⟨hsorted.2, fun e he => ?_⟩
          have h1 := hsorted.1 e he
          have h2 := (hbound e (by simp [he])).2
          simp at h1; omega
        have := ih rest (ci + 1) hrest
        simp only [patternsGo, if_true, this, tabulateFrom]
        rw [patAt_cons_eq, tabulateFrom_congr (patAt ((ci, p) :: rest)) (patAt rest) (ci + 1) n
          (fun j h1 _ => patAt_cons_ne _ _ _ _ (by omega))]
      · have hgt : index < ci := by have := (hbound (ci, p) (by simp)).1; simp at this; omega
        have hall : SortedBelow ((ci, p) :: rest) (index + 1) (index + 1 + n) := by
          refine ⟨h.1, fun e he => ?_⟩
          have h2 := (hbound e he).2
          rcases List.mem_cons.1 he with rfl | he'
          · simp; omega
          · have h1 := hsorted.1 e he'; simp at h1; omega
        have := ih _ (index + 1) hall
        simp only [patternsGo, hci, if_false, this, tabulateFrom]
        have hb : patAt ((ci, p) :: rest) index = blank := by
          apply patAt_of_lt
          intro e he
          rcases List.mem_cons.1 he with rfl | he'
          · exact hgt
          · have h1 := hsorted.1 e he'; simp at h1; omega
        rw [hb]

theorem tabulateFrom_length (f : Nat → ArgPattern) (i n : Nat) : (tabulateFrom f i n).length = n := by
  induction n generalizing i with
  | zero => rfl
  | succ n ih => simp [tabulateFrom, ih]

theorem tabulateFrom_getElem? (f : Nat → ArgPattern) (i n k : Nat) (hk : k < n) :
    (tabulateFrom f i n)[k]? = some (f (i + k)) := by
  induction n generalizing i k with
  | zero => omega
  | succ n ih =>
    cases k with
    | zero => simp [tabulateFrom]
    | succ k =>
      simp only [tabulateFrom, List.getElem?_cons_succ]
      rw [ih (i + 1) k (by omega)]
      congr 2; omega

end LalrpopModel.Lower
